(* MODEL of halmos' assert / assume cheatcodes, following the Python branch by branch:
     assertions.py : mk_assert_handler, vm_assert_binary, vm_assert_unary, mk_cond
     utils.py      : extract_bytes, extract_bytes_argument, extract_bytes32_array_argument,
                     extract_string_argument (incl. the strict UTF-8 decode of a concrete message)
     cheatcodes.py : hevm_cheat_code.handle, the vm.assert* branch and the vm.assume branch
     sevm.py / __main__.py : delayed FailCheatcode, early yield of the innermost frame,
                     is_global_fail_set over the call tree.
   Calldata is a list of byte values (the calldata under a valuation of its symbols); reads
   past the end give zeros (ByteVec semantics, property C07).  z3 terms are modelled by their
   SMT-LIB meaning (Base/SmtBV).  Only the datatypes `handler`, `descr` (and, for `pstep_of`,
   `pstep`) come from the Spec file.
   Regenerated from the source on every run and used here: the exception class raised by the
   bytes[]/string[] arm of vm_assert_binary (Gen/GenAssertArms.v), halmos' exception hierarchy
   (Gen/GenExcHierarchy.v), the except clauses of SEVM.run (Gen/GenRunExcepts.v) and the decision
   part of SEVM.jumpi (Gen/GenJumpi.v: which sides of a branch are followed, given the two
   solver answers).
   No proofs here. *)
From Coq Require Import ZArith List Bool String Ascii.
From HV Require Import Base.SmtBV Spec.AssertSpec Gen.GenAssertArms Gen.GenExcHierarchy Gen.GenRunExcepts
  Gen.GenJumpi.
Import ListNotations.
Open Scope list_scope.
Open Scope Z_scope.

(* ------------------------------------------------------------------ strings (python str ops) *)
Fixpoint strip_prefix (p s : string) : option string :=
  match p with
  | EmptyString => Some s
  | String a p' => match s with
                   | String b s' => if Ascii.eqb a b then strip_prefix p' s' else None
                   | EmptyString => None
                   end
  end.
(* (text before the first c, text after it) *)
Fixpoint split_first (c : ascii) (s : string) : option (string * string) :=
  match s with
  | EmptyString => None
  | String a r => if Ascii.eqb a c then Some (EmptyString, r)
                  else match split_first c r with
                       | Some (x, y) => Some (String a x, y)
                       | None => None
                       end
  end.
(* python s.split(c) *)
Fixpoint split_all (c : ascii) (s : string) : list string :=
  match s with
  | EmptyString => [EmptyString]
  | String a r => if Ascii.eqb a c then EmptyString :: split_all c r
                  else match split_all c r with
                       | x :: l => String a x :: l
                       | [] => [String a EmptyString]
                       end
  end.
(* python s.replace("[]", "") *)
Fixpoint remove_brackets (s : string) : string :=
  match s with
  | String "["%char (String "]"%char r) => remove_brackets r
  | String a r => String a (remove_brackets r)
  | EmptyString => EmptyString
  end.
(* python s.endswith("[]") *)
Fixpoint ends_with_brackets (s : string) : bool :=
  match s with
  | String "["%char (String "]"%char EmptyString) => true
  | String _ r => ends_with_brackets r
  | EmptyString => false
  end.
Definition str_in (s : string) (l : list string) : bool := existsb (String.eqb s) l.
Definition str_empty (s : string) : bool := match s with EmptyString => true | _ => false end.

(* ------------------------------------------------------------------ mk_assert_handler *)
Definition vm_assert_binary (bop typ : string) (log : bool) : handler :=
  let arr := ends_with_brackets typ in
  let typ := remove_brackets typ in
  let is_bytes := str_in typ ["bytes"; "string"]%string in
  if negb arr then
    if negb is_bytes then HWord bop log else HBytes bop log
  else
    if negb is_bytes then HArr bop log else HNotImpl bop typ.

(* re.search(r"assert([^(]+)\(([^)]+)\)", signature) for a signature that starts with "assert":
   operator = the non-empty text up to the first "(", params = the non-empty text up to the
   following first ")".  None = HalmosException("not supported signatures") -- or a signature
   that does not start with "assert" (where re.search would scan on; outside the model). *)
Definition mk_assert_handler (signature : string) : option handler :=
  match strip_prefix "assert" signature with
  | None => None
  | Some rest =>
    match split_first "("%char rest with
    | None => None
    | Some (operator, rest2) =>
      if str_empty operator then None else
      match split_first ")"%char rest2 with
      | None => None
      | Some (ps, _) =>
        if str_empty ps then None else
        let params := split_all ","%char ps in
        let is_binary := negb (str_in operator ["True"; "False"]%string) in
        let has_log := (if is_binary then 2 else 1) <? Z.of_nat (List.length params) in
        if is_binary then
          let typ := hd EmptyString params in
          let bop :=
            if str_in operator ["Eq"; "NotEq"]%string then operator
            else ((if String.eqb typ "uint256" then "U" else "S") ++ operator)%string in
          Some (vm_assert_binary bop typ has_log)
        else Some (HUnary (String.eqb operator "True") has_log)
      end
    end
  end.

(* ------------------------------------------------------------------ argument extraction *)
Definition skipZ (off : Z) (l : list Z) : list Z :=
  if off <? 0 then l else if zlen l <=? off then [] else skipn (Z.to_nat off) l.
Definition pad_right (n : nat) (l : list Z) : list Z := l ++ repeat 0 (n - List.length l).
(* utils.extract_bytes on a ByteVec: data[offset : offset+size], zero-padded *)
Definition extract_bytes (data : list Z) (offset size : Z) : list Z :=
  let n := Z.to_nat size in pad_right n (firstn n (skipZ offset data)).
Definition extract_word (data : list Z) (offset : Z) : Z := be_val (extract_bytes data offset 32).

(* utils.extract_bytes_argument (offsets and lengths are concrete: int_of) *)
Definition extract_bytes_argument (data : list Z) (arg_idx : Z) : list Z :=
  let offset := extract_word data (4 + arg_idx * 32) in
  let length := extract_word data (4 + offset) in
  if length =? 0 then [] else extract_bytes data (4 + offset + 32) length.
(* utils.extract_bytes32_array_argument *)
Definition extract_bytes32_array_argument (data : list Z) (arg_idx : Z) : list Z :=
  let offset := extract_word data (4 + arg_idx * 32) in
  let length := extract_word data (4 + offset) in
  if length =? 0 then [] else extract_bytes data (4 + offset + 32) (length * 32).

(* strict UTF-8 well-formedness (what bytes.decode("utf-8") accepts; Unicode table 3-7) *)
Definition inr (lo hi b : Z) : bool := (lo <=? b) && (b <=? hi).
Fixpoint utf8_valid (l : list Z) : bool :=
  match l with
  | [] => true
  | b0 :: r0 =>
    if b0 <=? 127 then utf8_valid r0 else
    match r0 with
    | [] => false
    | b1 :: r1 =>
      if inr 194 223 b0 then inr 128 191 b1 && utf8_valid r1 else
      match r1 with
      | [] => false
      | b2 :: r2 =>
        if inr 224 239 b0 then
          (if b0 =? 224 then inr 160 191 b1 else if b0 =? 237 then inr 128 159 b1 else inr 128 191 b1)
          && inr 128 191 b2 && utf8_valid r2
        else
        match r2 with
        | [] => false
        | b3 :: r3 =>
          if inr 240 244 b0 then
            (if b0 =? 240 then inr 144 191 b1 else if b0 =? 244 then inr 128 143 b1 else inr 128 191 b1)
            && inr 128 191 b2 && inr 128 191 b3 && utf8_valid r3
          else false
        end
      end
    end
  end.

(* ------------------------------------------------------------------ mk_cond *)
Inductive cres := CBool (b : bool) | CRaise.   (* CRaise = ValueError *)
Definition is_empty (l : list Z) : bool := match l with [] => true | _ => false end.
Definition eq_like (bop : string) (on_eq : bool) : cres :=
  if String.eqb bop "Eq" then CBool on_eq
  else if String.eqb bop "NotEq" then CBool (negb on_eq)
  else CRaise.

(* operands are byte strings (a 256-bit word is 32 bytes); a z3 bit-vector of 8*len bits is
   the big-endian number of the bytes *)
Definition mk_cond (bop : string) (v1 v2 : list Z) : cres :=
  if is_empty v1 && is_empty v2 then eq_like bop true
  else if is_empty v1 || is_empty v2 then eq_like bop false
  else
    let n1 := be_val v1 in let n2 := be_val v2 in
    let s1 := 8 * zlen v1 in let s2 := 8 * zlen v2 in
    if negb (s1 =? s2) then eq_like bop false
    else if String.eqb bop "Eq" then CBool (n1 =? n2)
    else if String.eqb bop "NotEq" then CBool (negb (n1 =? n2))
    else if negb (s1 =? 256) || negb (s2 =? 256) then CRaise
    else if String.eqb bop "ULt" then CBool (bvult n1 n2)
    else if String.eqb bop "UGt" then CBool (bvult n2 n1)
    else if String.eqb bop "ULe" then CBool (bvule n1 n2)
    else if String.eqb bop "UGe" then CBool (bvule n2 n1)
    else if String.eqb bop "SLt" then CBool (bvslt 256 n1 n2)
    else if String.eqb bop "SGt" then CBool (bvslt 256 n2 n1)
    else if String.eqb bop "SLe" then CBool (bvsle 256 n1 n2)
    else if String.eqb bop "SGe" then CBool (bvsle 256 n2 n1)
    else CRaise.

(* ------------------------------------------------------------------ the handlers *)
Inductive hres :=
  | RCond (c : bool) (msg : option (list Z))   (* VmAssertion(cond, msg) *)
  | RValueError                                (* mk_cond raised *)
  | RRaise (cls : string)                      (* bytes[] / string[]: `raise cls(...)` *)
  | RUnicodeError.                             (* the concrete message is not valid UTF-8 *)

(* the class raised by the (arr, is_bytes) arm of vm_assert_binary, as the source has it *)
Definition arm_of (arr is_bytes : bool) : option gen_arm :=
  option_map snd (find (fun x => Bool.eqb (fst (fst x)) arr && Bool.eqb (snd (fst x)) is_bytes) binary_arms).
Definition unsupported_class : string :=
  match arm_of true true with Some (GRaise c) => c | _ => EmptyString end.

(* the Python class of the exception a handler result stands for *)
Definition hres_raises (r : hres) : option string :=
  match r with
  | RCond _ _ => None
  | RValueError => Some "ValueError"%string
  | RRaise c => Some c
  | RUnicodeError => Some "UnicodeDecodeError"%string
  end.

Definition with_msg (c : cres) (log : bool) (data : list Z) (idx : Z) : hres :=
  match c with
  | CRaise => RValueError
  | CBool b =>
    if log then
      let m := extract_bytes_argument data idx in
      if utf8_valid m then RCond b (Some m) else RUnicodeError
    else RCond b None
  end.

Definition run_handler (h : handler) (arg : list Z) : hres :=
  match h with
  | HWord bop log =>
      with_msg (mk_cond bop (extract_bytes arg 4 32) (extract_bytes arg 36 32)) log arg 2
  | HBytes bop log =>
      with_msg (mk_cond bop (extract_bytes_argument arg 0) (extract_bytes_argument arg 1)) log arg 2
  | HArr bop log =>
      with_msg (mk_cond bop (extract_bytes32_array_argument arg 0) (extract_bytes32_array_argument arg 1)) log arg 2
  | HNotImpl _ _ => RRaise unsupported_class
  | HUnary expected log =>
      let actual := extract_word arg 4 in
      with_msg (CBool (if expected then negb (actual =? 0) else actual =? 0)) log arg 1
  end.

(* vm.assume: the condition appended to the path *)
Definition assume_cond (arg : list Z) : bool := negb (extract_word arg 4 =? 0).

(* ------------------------------------------------------------------ SEVM.run: try / except *)
(* which `except` clause of the run loop an exception of Python class c reaches.  Classes that
   are not in halmos' hierarchy (builtins: ValueError, UnicodeDecodeError, NotImplementedError,
   ...) have no halmos base, so no clause catches them: the exception leaves SEVM.run *)
Definition bases_of (c : string) : list string :=
  match find (fun x => String.eqb (fst x) c) exc_bases with Some (_, bs) => bs | None => [] end.
Fixpoint ancestors (fuel : nat) (c : string) : list string :=
  c :: match fuel with O => [] | S k => flat_map (ancestors k) (bases_of c) end.
(* issubclass(c, b); the hierarchy is acyclic (a base is defined above its use), so its size is
   enough fuel *)
Definition is_subclass (c b : string) : bool := str_in b (ancestors (List.length exc_bases) c).
Definition catch_clause (c : string) : option (string * (string * (bool * string))) :=
  find (fun cl => is_subclass c (fst cl)) run_excepts.

Inductive run_action :=
  | ADrop         (* except InfeasiblePath: continue -- the state disappears *)
  | AFrameError   (* ex.halt(data=ByteVec(), error=err); yield from finalize(ex) *)
  | AStuck        (* ex.halt(data=None, error=err); yield from finalize(ex): a stuck context *)
  | AFailYield    (* [halt unless halted]; yield ex -- no finalize *)
  | AOther.       (* a clause this model does not understand *)
Definition action_of (cl : string * (string * (bool * string))) : run_action :=
  let '(_, (data, (_, leave))) := cl in
  if String.eqb leave "drop" then (if String.eqb data "nohalt" then ADrop else AOther)
  else if String.eqb leave "finalize" then
    (if String.eqb data "none" then AStuck else if String.eqb data "empty" then AFrameError else AOther)
  else if String.eqb leave "yield" then (if String.eqb data "empty" then AFailYield else AOther)
  else AOther.
(* None: the exception escapes SEVM.run (the generator dies: the states still on the worklist
   are never yielded, run_test ends with an error) *)
Definition catch_action (c : string) : option run_action :=
  match catch_clause c with
  | None => None
  | Some cl => match action_of cl with AOther => None | a => Some a end
  end.

(* ------------------------------------------------------------------ branching (cheatcodes.handle) *)
Inductive sat_result := Sat | Unsat | Unknown.
Definition is_unsat (r : sat_result) : bool := match r with Unsat => true | _ => false end.

Section Branching.
  Variable Input : Type.                       (* valuations of the path's symbols *)
  Definition cond := Input -> bool.
  Definition path := list cond.                (* conjunction *)
  Definition sat_path (p : path) (i : Input) : bool := forallb (fun c => c i) p.
  Definition cnot (c : cond) : cond := fun i => negb (c i).

  (* ex.check: quick syntactic checks, then the solver (1 ms timeout => often Unknown) *)
  Variable check : path -> cond -> sat_result.
  (* is_false(simplify(c)): c is literally the constant false *)
  Variable lit_false : cond -> bool.
  (* options.loop: how often one side of one JUMPI may be taken on a path *)
  Variable loop : Z.

  (* call tree of the transaction, as far as failure reporting goes.  EStuck = the context was
     halted with output data None and a HalmosException (CallContext.is_stuck) *)
  Inductive cerr := ENone | EFailCheatcode | ERevert | EStuck.
  Inductive ctx := Ctx (err : cerr) (subcalls : list ctx).
  Fixpoint is_global_fail_set (c : ctx) : bool :=
    match c with
    | Ctx e subs => (match e with EFailCheatcode => true | _ => false end) || existsb is_global_fail_set subs
    end.
  Definition halt_fail (c : ctx) : ctx := match c with Ctx _ subs => Ctx EFailCheatcode subs end.
  Definition halt_stuck (c : ctx) : ctx := match c with Ctx _ subs => Ctx EStuck subs end.
  Definition add_sub (c sub : ctx) : ctx := match c with Ctx e subs => Ctx e (subs ++ [sub]) end.

  (* an execution state: path condition + frame stack, innermost first (never empty in a run;
     the default covers the impossible empty case) *)
  Record exec := mkExec { ex_path : path; ex_frames : list ctx }.
  Definition top_ctx (e : exec) : ctx := hd (Ctx ENone []) (ex_frames e).
  Definition set_top (e : exec) (c : ctx) : exec := mkExec (ex_path e) (c :: tl (ex_frames e)).

  Inductive outcome :=
    | Yielded (e : exec)     (* FailCheatcode caught by SEVM.run: yield ex without finalize() *)
    | Continues (e : exec)   (* pushed back on the worklist, executes the caller's next instruction *)
    | Stuck (e : exec)       (* yielded by finalize() / the callee's callback with a stuck context *)
    | FrameError (e : exec). (* the frame ended with an EVM error and was finalized (not followed further) *)

  (* the vm.assert* branch of hevm_cheat_code.handle + the delayed raise in SEVM.run *)
  Definition assert_step (e : exec) (c : cond) : list outcome :=
    if is_unsat (check (ex_path e) c) then
      (* ex.halt(error=FailCheatcode); ex is pushed back and raises when popped *)
      [Yielded (set_top e (halt_fail (top_ctx e)))]
    else if negb (is_unsat (check (ex_path e) (cnot c))) then
      (* new_ex = create_branch(ex, not_cond); new_ex.halt(FailCheatcode); ex continues *)
      [Yielded (mkExec (ex_path e ++ [cnot c]) (halt_fail (top_ctx e) :: tl (ex_frames e)));
       Continues e]
    else [Continues e].

  (* the vm.assume branch: InfeasiblePath on literal false, else path.append(cond) *)
  Definition assume_step (e : exec) (c : cond) : list outcome :=
    if lit_false c then [] else [Continues (mkExec (ex_path e ++ [c]) (ex_frames e))].

  (* except HalmosException: ex.halt(data=None, error=err); finalize(ex).  Without a callback
     (outermost frame) the state itself is yielded; otherwise the callee's callback restores the
     caller's context, appends the stuck subcall to its trace and -- `if subcall.is_stuck()` --
     yields it at once: the caller is never resumed (its own output is still None: stuck) *)
  Definition stuck_yield (e : exec) : exec :=
    let top := halt_stuck (top_ctx e) in
    match tl (ex_frames e) with
    | [] => mkExec (ex_path e) [top]
    | parent :: rest => mkExec (ex_path e) (add_sub parent top :: rest)
    end.

  (* SEVM.jumpi on a condition c, first visit of this JUMPI on the path: ex.check(c) and
     ex.check(not c) -- the SAME oracle the assert branch consults -- decide (jumpi_decide,
     regenerated) which sides are followed; a followed side gets its condition appended
     (create_branch / path.append) and both sides go on with the same code (they rejoin) *)
  Definition sat_code (r : sat_result) : Z := match r with Unsat => 0 | Sat => 1 | Unknown => 2 end.
  Definition jumpi_step (e : exec) (c : cond) : list outcome :=
    let d := jumpi_decide (sat_code (check (ex_path e) c)) (sat_code (check (ex_path e) (cnot c))) 0 0 loop in
    (if d_follow_true d then [Continues (mkExec (ex_path e ++ [c]) (ex_frames e))] else [])
    ++ (if d_follow_false d then [Continues (mkExec (ex_path e ++ [cnot c]) (ex_frames e))] else []).

  (* one step of the frame, as SEVM.run sees it: a cheatcode call, or a two-way branch *)
  Inductive cheat :=
    | KAssert (c : cond)       (* the handler returned VmAssertion(c, _) *)
    | KAssume (c : cond)
    | KBranch (c : cond)       (* JUMPI on c, both sides rejoin *)
    | KRaise (cls : string).   (* the handler raised an exception of class cls *)
  (* None = the exception escapes SEVM.run *)
  Definition cheat_step (e : exec) (k : cheat) : option (list outcome) :=
    match k with
    | KAssert c => Some (assert_step e c)
    | KAssume c => Some (assume_step e c)
    | KBranch c => Some (jumpi_step e c)
    | KRaise cls =>
      match catch_action cls with
      | Some ADrop => Some []
      | Some AStuck => Some [Stuck (stuck_yield e)]
      | Some AFrameError => Some [FrameError e]
      | Some AFailYield => Some [Yielded (set_top e (halt_fail (top_ctx e)))]
      | Some AOther | None => None
      end
    end.

  Fixpoint opt_concat {A : Type} (l : list (option (list A))) : option (list A) :=
    match l with
    | [] => Some []
    | None :: _ => None
    | Some x :: r => match opt_concat r with Some y => Some (x ++ y) | None => None end
    end.
  (* a frame that issues the cheatcode calls p one after the other and then returns normally:
     every state SEVM.run yields (the order of the worklist does not matter: an escaping
     exception loses all of them) *)
  Fixpoint run_prog (e : exec) (p : list cheat) {struct p} : option (list outcome) :=
    match p with
    | [] => Some [Continues e]
    | k :: rest =>
      match cheat_step e k with
      | None => None
      | Some outs =>
        opt_concat (map (fun o => match o with Continues e' => run_prog e' rest | _ => Some [o] end) outs)
      end
    end.
  (* the Foundry step a cheatcode call stands for *)
  Definition pstep_of (k : cheat) : pstep Input :=
    match k with
    | KAssert c => PAssert Input c | KAssume c => PAssume Input c | KBranch c => PBranch Input c
    | KRaise _ => PUnsupported Input
    end.

  (* what run_test does with a yielded state: the failure flag is looked at first (a
     counterexample query), then is_stuck (reported as a stuck path: the test does not pass) *)
  Definition reported_failure (o : outcome) (i : Input) : bool :=
    match o with
    | Yielded e | Stuck e => is_global_fail_set (top_ctx e) && sat_path (ex_path e) i
    | Continues _ | FrameError _ => false
    end.
  Definition reported_stuck (o : outcome) (i : Input) : bool :=
    match o with
    | Stuck e => negb (is_global_fail_set (top_ctx e)) && sat_path (ex_path e) i
    | _ => false
    end.
  Definition continues_with (o : outcome) (i : Input) : bool :=
    match o with
    | Continues e => sat_path (ex_path e) i
    | _ => false
    end.
End Branching.
