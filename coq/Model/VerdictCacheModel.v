(* C05 -- run_test with the unsat-core cache (--cache-solver) in the loop: the small-step system of
   Model/VerdictModel.v extended by what the solver threads share through
   ctx.solving_ctx.unsat_cores (src/halmos/solve.py solve_end_to_end / check_unsat_cores,
   src/halmos/__main__.py _solve_end_to_end_callback).

   A submitted query now goes through two events of a solver thread:
     CStart j : the worker begins solve_end_to_end for the query of path j; it evaluates
                check_unsat_cores(query, unsat_cores) on the list AS IT IS AT THAT MOMENT; on a hit
                the result is `unsat` (no solver call, no core), otherwise the solver's answer;
     CCb j    : the done-callback records the result and, when gen_append_guard says so, appends
                the reply's core to the shared list.
   Whether query k is answered by the solver or by the cache therefore depends on which callbacks
   ran before CStart k -- the completion order of the solver processes.
   The decision functions come from Gen/GenUnsatCore.v (check_unsat_cores, the cache_solver switch
   of from_result) and Gen/GenCoreAppend.v (the append guard), regenerated on every run.
   No proofs here. *)
From Coq Require Import ZArith List Bool String.
From HV Require Import Spec.VerdictSpec Gen.GenVerdict Gen.GenSolveDispatch Gen.GenUnsatCore Gen.GenCoreAppend
                       Model.VerdictModel.
Import ListNotations.

(* what --cache-solver adds to a path: the ids naming the assertions of its query (SMTQuery.assertions)
   and the core list carried by the solver's reply to that query when the reply is `unsat`
   (parse_unsat_core: None when no core list can be parsed; Some [] for the empty list `()`) *)
Record qpath := mkq { base : path; qids : list nat; qcore : option (list nat) }.

(* `core in query.assertions` *)
Definition mem_nat (x : nat) (l : list nat) : bool := existsb (Nat.eqb x) l.

(* the core field of the SolverOutput built by from_result for the solver's own reply *)
Definition reply_core (cache : bool) (q : qpath) : option (list nat) :=
  if is_unsat (ans (base q)) then gen_core_of_reply cache (qcore q) else None.

Inductive stage := Queued | Started (hit : bool).

Record job := mkjob { jid : nat; jq : qpath; jstage : stage }.

Record cst := mkcst {
  cmst : mstate;
  ctodo : list qpath;
  cnextid : nat;
  cflag : bool;                (* executor._shutdown *)
  cjobs : list job;            (* submitted queries whose callback has not run, in submission order *)
  ccores : list (list nat);    (* ctx.solving_ctx.unsat_cores *)
  couts : list answer;         (* ctx.solver_outputs (results only) *)
  cnstuck : nat;
  cnormal : nat;
  chits : list nat             (* ghost: path ids answered from the cache (no solver call) *)
}.

Definition cinit (qs : list qpath) : cst := mkcst MCheck qs 0 false [] [] [] 0 0 [].

Inductive cevent := CMain | CMainRaise | CStart (j : nat) | CCb (j : nat).

Definition cset_mst (s : cst) (m : mstate) : cst :=
  mkcst m (ctodo s) (cnextid s) (cflag s) (cjobs s) (ccores s) (couts s) (cnstuck s) (cnormal s) (chits s).

(* the main loop: as step_main; a potential violation is queued for the thread pool, a stuck path
   is solved synchronously by solve_low_level, which does not consult the cache and whose output
   does not go through the callback *)
Definition cstuck_solved (s : cst) (rest : list qpath) (a : answer) : cst :=
  mkcst MCheck rest (S (cnextid s)) (cflag s) (cjobs s) (ccores s) (couts s)
        (if stuck_counted (is_unsat a) then S (cnstuck s) else cnstuck s) (cnormal s) (chits s).

Definition cstep_main (s : cst) : cst :=
  match cmst s with
  | MCheck =>
      match ctodo s with
      | [] => cset_mst s MDone
      | _ :: _ => if cflag s then cset_mst s MDone else cset_mst s MBody
      end
  | MBody =>
      match ctodo s with
      | [] => cset_mst s MDone
      | q :: rest =>
          match kind_action (kind (base q)) with
          | ASubmit =>
              mkcst MCheck rest (S (cnextid s)) (cflag s) (cjobs s ++ [mkjob (cnextid s) q Queued])
                    (ccores s) (couts s) (cnstuck s) (cnormal s) (chits s)
          | AStuckSolve =>
              if cflag s then cset_mst s (if stuck_shutdown_escapes then MCrashed else MDone)
              else cstuck_solved s rest (ans (base q))
          | ACountNormal =>
              mkcst MCheck rest (S (cnextid s)) (cflag s) (cjobs s) (ccores s) (couts s) (cnstuck s) (S (cnormal s)) (chits s)
          | ANone =>
              mkcst MCheck rest (S (cnextid s)) (cflag s) (cjobs s) (ccores s) (couts s) (cnstuck s) (cnormal s) (chits s)
          end
      end
  | MDone | MCrashed => s
  end.

Definition cstep_main_raise (s : cst) : cst :=
  match cmst s, ctodo s with
  | MBody, q :: rest =>
      match kind_action (kind (base q)) with
      | AStuckSolve =>
          if cflag s then cstep_main s
          else if is_err (ans (base q)) then
            if stuck_exception_escapes then cset_mst s MCrashed
            else cstuck_solved s rest (answer_of_class from_error_class true)
          else cstep_main s
      | _ => cstep_main s
      end
  | _, _ => cstep_main s
  end.

(* first job with path id j: the job, the jobs before it, the jobs after it *)
Fixpoint cfind (j : nat) (l : list job) : option (list job * job * list job) :=
  match l with
  | [] => None
  | b :: r =>
      if Nat.eqb (jid b) j then Some ([], b, r)
      else match cfind j r with Some (pre, x, post) => Some (b :: pre, x, post) | None => None end
  end.

(* the worker thread enters solve_end_to_end for the query of path j *)
Definition cstep_start (j : nat) (s : cst) : cst :=
  match cfind j (cjobs s) with
  | Some (pre, b, post) =>
      match jstage b with
      | Queued =>
          let hit := gen_check_unsat_cores mem_nat (qids (jq b)) (ccores s) in
          mkcst (cmst s) (ctodo s) (cnextid s) (cflag s) (pre ++ mkjob (jid b) (jq b) (Started hit) :: post)
                (ccores s) (couts s) (cnstuck s) (cnormal s) (if hit then chits s ++ [j] else chits s)
      | Started _ => s
      end
  | None => s
  end.

(* result of solve_end_to_end for a started job: (result, unsat_core) *)
Definition job_result (cache : bool) (q : qpath) (hit : bool) : answer * option (list nat) :=
  if hit then (Unsat, None) else (ans (base q), reply_core cache q).

(* _solve_end_to_end_callback for the query of path j (only once its worker has finished) *)
Definition cstep_cb (cache early_exit : bool) (j : nat) (s : cst) : cst :=
  match cfind j (cjobs s) with
  | Some (pre, b, post) =>
      match jstage b with
      | Queued => s
      | Started hit =>
          let r := job_result cache (jq b) hit in
          let out := get_solver_output (cflag s) (Some (fst r)) in
          let core := if cflag s then None else snd r in   (* SolverOutput.from_error carries no core *)
          let cores' := if gen_append_guard (is_unsat out) core
                        then match core with Some c => (ccores s ++ [c])%list | None => ccores s end
                        else ccores s in
          mkcst (cmst s) (ctodo s) (cnextid s)
                (cflag s || (early_exit && is_sat_valid out))
                (pre ++ post) cores' (couts s ++ [out]) (cnstuck s) (cnormal s) (chits s)
      end
  | None => s
  end.

Definition cstep (cache early_exit : bool) (s : cst) (e : cevent) : cst :=
  match e with
  | CMain => cstep_main s
  | CMainRaise => cstep_main_raise s
  | CStart j => cstep_start j s
  | CCb j => cstep_cb cache early_exit j s
  end.

Definition crun (cache early_exit : bool) (qs : list qpath) (sched : list cevent) : cst :=
  fold_left (cstep cache early_exit) sched (cinit qs).

Definition cresult (s : cst) : option (label * Z) :=
  match cmst s with
  | MCrashed => Some (raised_label, raised_exitcode)
  | MDone => match cjobs s with [] => Some (verdict_of (couts s) (cnstuck s) (cnormal s)) | _ => None end
  | _ => None
  end.
