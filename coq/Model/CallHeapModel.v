(* C09 -- EXPLORATION MODEL of halmos' message-call machinery: what SEVM.run does with the
   Python OBJECTS while it explores ALL the paths of a transaction, not only the one(s)
   that hold under a valuation.

   Model/CallModel.v passes the network state from step to step as a value, one valuation
   at a time.  The Python does not: an Exec holds REFERENCES to mutable objects (the dict
   of Contract objects, the dicts of StorageData objects of storage and transient storage),
   a sub-Exec shares them with its parent, create_branch copies them for the side of a
   fork that is explored later, the orig_* backups of call / create are objects captured
   by a callback closure that runs ONCE PER PATH OF THE CALLEE, and all the paths of one
   transaction are explored one after the other (LIFO worklist) over one Python heap.
   Whether a path's storage is what the state-passing model says therefore depends on who
   holds a reference to what, and when.  This file models exactly that:

   * [heap] = list of objects; an object = (code map, storage map) (one of the two parts
     is used); allocation appends, [hupd] mutates in place;
   * [hstate] = the references an Exec holds (code / storage / transient storage) + the
     immutable values it holds (the balance array is a z3 term; cnts is copied at forks);
   * whether a backup / a restore / a branch takes a private copy of an object or the
     object itself is NOT written here: [take <flag>] with the flags call_backup_copies_* ,
     call_restore_copies_*, create_backup_copies_*, create_restore_copies_*,
     branch_copies_* regenerated from sevm.py (Gen/GenCallMsg.v);
   * [hexec] explores a script in continuation-passing style, threading the heap through
     the paths in the order of the LIFO worklist: at a fork the side that continues on the
     current objects runs to the end of the transaction first (JUMPI: the false side;
     insufficient-funds split: the main path), the other side -- copied at the fork --
     afterwards.  The continuation [k] of a frame is the callback closure: it is invoked
     once per path of the frame;
   * every path carries its [trace]: for each fork the side taken and whether that side is
     consistent with the valuation at hand.  A side that is consistent is always explored; an
     inconsistent one is explored or not as an arbitrary oracle [feas] says (the solver's
     feasibility answers: the theorems hold for every oracle);
   * the result is the list of ALL explored paths with the references they end with, and
     the final heap: a path's end state is READ OUT OF THE FINAL HEAP (the harness, like
     halmos' own reporting, looks at the Exec objects after the exploration).
   No proofs in this file. *)
From Coq Require Import ZArith List Bool.
From HV Require Import Base.Word Spec.Evm Spec.CallSpec Gen.GenOpcodes Gen.GenConsts Gen.GenCallMsg Model.CallModel.
Import ListNotations.
Open Scope Z_scope.

Definition obj := (list (Z * list Z) * list (Z * list (Z * Z)))%type.
Definition heap := list obj.
Definition odflt : obj := ([], []).
Definition hget (H : heap) (r : nat) : obj := nth r H odflt.
Fixpoint hupd (H : heap) (r : nat) (o : obj) : heap :=
  match H with
  | [] => []
  | x :: t => match r with O => o :: t | S r' => x :: hupd t r' o end
  end.

(* dict.copy() / deepcopy (a fresh object with the present content) or the object itself *)
Definition take (copies : bool) (H : heap) (r : nat) : heap * nat :=
  if copies then (H ++ [hget H r], length H) else (H, r).

Record hstate := mkH {
  h_code : nat; h_storage : nat; h_transient : nat;     (* references *)
  h_balance : list (Z * Z); h_cnt : Z;                  (* values *)
}.

(* the network state an Exec sees in a heap *)
Definition habs (H : heap) (hs : hstate) : mstate :=
  mkM (fst (hget H (h_code hs))) (snd (hget H (h_storage hs))) (snd (hget H (h_transient hs)))
      (h_balance hs) (h_cnt hs).

(* value fields replaced by those of [st] (balance updates, counter) *)
Definition h_values (hs : hstate) (st : mstate) : hstate :=
  mkH (h_code hs) (h_storage hs) (h_transient hs) (m_balance st) (m_cnt st).
Definition h_set_cnt (hs : hstate) (n : Z) : hstate :=
  mkH (h_code hs) (h_storage hs) (h_transient hs) (h_balance hs) n.

(* in-place mutations *)
Definition h_sstore (H : heap) (hs : hstate) (a k v : Z) : heap :=
  let o := hget H (h_storage hs) in hupd H (h_storage hs) (fst o, sstore_of (snd o) a k v).
Definition h_tstore (H : heap) (hs : hstate) (a k v : Z) : heap :=
  let o := hget H (h_transient hs) in hupd H (h_transient hs) (fst o, sstore_of (snd o) a k v).
Definition h_set_code (H : heap) (hs : hstate) (a : Z) (c : list Z) : heap :=
  let o := hget H (h_code hs) in hupd H (h_code hs) (aset a c (fst o), snd o).
(* ex.set_code(new, Contract(b"")); ex.storage[new] = mk_storagedata(); ex.transient_storage[new] = ... *)
Definition h_new_account (H : heap) (hs : hstate) (a : Z) : heap :=
  let H1 := h_set_code H hs a [] in
  let o2 := hget H1 (h_storage hs) in
  let H2 := hupd H1 (h_storage hs) (fst o2, aset a [] (snd o2)) in
  let o3 := hget H2 (h_transient hs) in
  hupd H2 (h_transient hs) (fst o3, aset a [] (snd o3)).

(* three objects handed over, each as a copy or as itself *)
Definition copy3 (fc fs ft : bool) (H : heap) (src : hstate) : heap * hstate :=
  let '(H1, rc) := take fc H (h_code src) in
  let '(H2, rs) := take fs H1 (h_storage src) in
  let '(H3, rt) := take ft H2 (h_transient src) in
  (H3, mkH rc rs rt (h_balance src) (h_cnt src)).

(* SEVM.create_branch *)
Definition branch_copy : heap -> hstate -> heap * hstate :=
  copy3 branch_copies_code branch_copies_storage branch_copies_transient_storage.
(* orig_code / orig_storage / orig_transient_storage / orig_balance of call_known and create *)
Definition snapshot_call : heap -> hstate -> heap * hstate :=
  copy3 call_backup_copies_code call_backup_copies_storage call_backup_copies_transient_storage.
Definition snapshot_create : heap -> hstate -> heap * hstate :=
  copy3 create_backup_copies_code create_backup_copies_storage create_backup_copies_transient_storage.

(* `if not subcall_success:` of the call callback / the failure branch of the create callback *)
Definition restore_call_h (snap : hstate) (orig_balance : list (Z * Z)) (H : heap) (sub : hstate) : heap * hstate :=
  let '(H1, cp) := copy3 call_restore_copies_code call_restore_copies_storage call_restore_copies_transient_storage H snap in
  (H1, mkH (if call_restores_code then h_code cp else h_code sub)
           (if call_restores_storage then h_storage cp else h_storage sub)
           (if call_restores_transient_storage then h_transient cp else h_transient sub)
           (if call_restores_balance then orig_balance else h_balance sub)
           (h_cnt sub)).
Definition restore_create_h (snap : hstate) (H : heap) (sub : hstate) : heap * hstate :=
  let '(H1, cp) := copy3 create_restore_copies_code create_restore_copies_storage create_restore_copies_transient_storage H snap in
  (H1, mkH (if create_restores_code then h_code cp else h_code sub)
           (if create_restores_storage then h_storage cp else h_storage sub)
           (if create_restores_transient_storage then h_transient cp else h_transient sub)
           (if create_restores_balance then h_balance snap else h_balance sub)
           (h_cnt sub)).

(* one entry per fork met: (side taken, that side is consistent with the valuation) *)
Definition trace := list (bool * bool).
Definition holds (tr : trace) : bool := forallb snd tr.

(* an explored path: its trace, the result of the top frame, the references and values it
   ends with, the ghost log *)
Definition hpath := (trace * fres * hstate * list logitem)%type.
Definition holding (p : hpath) : bool := let '(tr, _, _, _) := p in holds tr.
Definition readout (H : heap) (p : hpath) : mres := let '(_, r, hs, lg) := p in (r, habs H hs, lg).

(* the continuation of a frame (the callback closure; at the top: report the path):
   trace, result of the frame, state at its end, log so far, heap -> paths, heap *)
Definition hk := trace -> fres -> hstate -> list logitem -> heap -> list hpath * heap.
Definition hrun := fctx -> hstate -> trace -> list logitem -> heap -> hk -> list hpath * heap.
Definition hcont := hstate -> list Z -> lastsub -> trace -> list logitem -> heap -> list hpath * heap.

(* the callback closures of call_known / create: invoked once per path of the sub-frame, in
   whatever heap the exploration has reached by then; [snap] (orig_code, orig_storage,
   orig_transient_storage) and [orig_balance] are captured when the closure is built *)
Definition h_call_back (continue : hcont) (ob : list Z) (rsz : Z) (snap : hstate) (orig_balance : list (Z * Z)) : hk :=
  fun tr2 r hs2 lg2 H2 =>
    let '(data, has_error) := output_of r in
    let success := call_success has_error in
    let l := Some (false, has_error, data) in
    let '(H3, hs3) := if success then (H2, hs2) else restore_call_h snap orig_balance H2 hs2 in
    continue hs3 (m_after_call ob (if success then 1 else 0) l rsz data) l tr2 lg2 H3.
Definition h_create_back (continue : hcont) (ob : list Z) (new_addr : Z) (snap : hstate) : hk :=
  fun tr3 r hs3 lg3 H3 =>
    let '(data, has_error) := output_of r in
    let l := Some (true, has_error, data) in
    if create_success has_error then
      continue hs3 (m_after_create ob new_addr l) l tr3 lg3 (h_set_code H3 hs3 new_addr data)
    else
      let '(H4, hs4) := restore_create_h snap H3 hs3 in
      continue hs4 (m_after_create ob 0 l) l tr3 lg3 H4.

Section Explore.
(* feasibility answers for sides that are NOT consistent with the valuation at hand *)
Variable feas : trace -> bool.
Definition explore (tr : trace) : bool := feas tr || holds tr.

(* a fork: side A goes on with the current objects and is explored to the end first; side
   B -- a create_branch copy taken at the fork -- afterwards *)
Definition h_fork (H : heap) (hs : hstate) (eB : bool)
    (runA : heap -> list hpath * heap) (runB : hstate -> heap -> list hpath * heap) : list hpath * heap :=
  let '(H1, hsB) := if eB then branch_copy H hs else (H, hs) in
  let '(pA, H2) := runA H1 in
  let '(pB, H3) := if eB then runB hsB H2 else ([], H2) in
  (pA ++ pB, H3).

Definition h_sub_frame (msg : fctx) (hs : hstate) (tr : trace) (lg : list logitem) (H : heap)
    (run : hrun) (k : hk) : list hpath * heap :=
  if depth_exceeded (c_depth msg) then k tr FHalt hs lg H
  else
    match c_code msg with
    | [] => k tr (FOk []) hs (lg ++ [LFrame msg; LEnd (FOk [])]) H
    | _ => run msg hs tr (lg ++ [LFrame msg]) H k
    end.

(* SEVM.call *)
Definition h_call (kd : ckind) (to0 v0 rsz : Z) (c : fctx) (hs : hstate) (ob : list Z)
    (tr : trace) (lg : list logitem) (H : heap) (k : hk)
    (run_callee : hrun) (continue : hcont) : list hpath * heap :=
  let st := habs H hs in
  let op := op_of kd in
  let to := to0 mod 2 ^ 160 in
  let fund := call_fund op v0 in
  let pranked_caller := c_this c in
  let pranked_origin := c_origin c in
  let msg := mkCtx (msg_target op to (c_this c)) (msg_caller op pranked_caller (c_caller c))
                   (msg_origin pranked_origin) (msg_value op fund (c_value c))
                   (code_at st to) (msg_static op (c_static c)) (c_depth c + 1) in
  if call_static_value_check op (c_static c) fund then k tr FHalt hs (lg ++ [LEnd FHalt]) H
  else
    (* handle_insufficient_fund_case: fail_ex = create_branch(ex, insufficiency_cond), pushed
       first; the main path is pushed later, hence explored first *)
    let trF := (true, negb (fund =? 0) && insufficient (balance_of st pranked_caller) fund) :: tr in
    let trM := (false, main_cond op st pranked_caller to fund (c_depth c)) :: tr in
    h_fork H hs (explore trF)
      (fun H1 =>
         if in_code st to then
           (* call_known: backup, transfer, sub-Exec sharing the objects of ex *)
           let '(H1a, snap) := snapshot_call H1 hs in
           if explore trM then
             let hs1 := h_values hs (send_force op st pranked_caller to fund) in
             let orig_balance := if call_backup_before_transfer then h_balance hs else h_balance hs1 in
             h_sub_frame msg hs1 trM lg H1a run_callee
               (h_call_back continue ob rsz snap orig_balance)
           else ([], H1a)
         else if unknown_call_ok (c_depth c) then
           (* call_unknown, non-existing account *)
           if explore trM then
             let hs1 := h_values hs (send_force op st pranked_caller to fund) in
             let l := Some (false, false, []) in
             continue hs1 (m_after_call ob 1 l rsz []) l trM (lg ++ [LFrame msg; LEnd (FOk [])]) H1
           else ([], H1)
         else
           (* ... at the depth limit: status word 0, nothing sent *)
           let l := Some (false, false, []) in
           continue hs (m_after_call ob 0 l rsz []) l trM lg H1)
      (fun hsF H2 =>
         let l := Some (false, true, []) in
         continue hsF (m_after_call ob 0 l rsz []) l trF lg H2).

(* SEVM.create *)
Definition h_create (v : Z) (initcode : list Z) (c : fctx) (hs : hstate) (ob : list Z)
    (tr : trace) (lg : list logitem) (H : heap) (k : hk)
    (run_init : hrun) (continue : hcont) : list hpath * heap :=
  if create_static_check && c_static c then k tr FHalt hs (lg ++ [LEnd FHalt]) H
  else
    let pranked_caller := c_this c in
    let cnt := h_cnt hs + 1 in
    let hs0 := h_set_cnt hs cnt in
    let st0 := habs H hs0 in
    let new_addr := new_address cnt in
    let msg := mkCtx new_addr pranked_caller (c_origin c) v initcode false (c_depth c + 1) in
    let trF := (true, negb (v =? 0) && insufficient (balance_of st0 pranked_caller) v) :: tr in
    h_fork H hs0 (explore trF)
      (fun H1 =>
         if in_code st0 new_addr then
           let l := Some (true, true, []) in
           continue hs0 (m_after_create ob 0 l) l tr lg H1
         else
           let '(Ha, snap0) := if create_backup_before_setup then snapshot_create H1 hs0 else (H1, hs0) in
           let Hb := h_new_account Ha hs0 new_addr in
           let '(Hc, snap) := if create_backup_before_setup then (Hb, snap0) else snapshot_create Hb hs0 in
           let st1 := habs Hc hs0 in
           let trM := (false, transfer_cond st1 pranked_caller v) :: tr in
           if explore trM then
             let hs2 := h_values hs0 (transfer_force st1 pranked_caller new_addr v) in
             h_sub_frame msg hs2 trM lg Hc run_init
               (h_create_back continue ob new_addr snap)
           else ([], Hc))
      (fun hsF H2 =>
         let l := Some (true, true, []) in
         continue hsF (m_after_create ob 0 l) l trF lg H2).

Fixpoint hexec (s : script) (c : fctx) (hs : hstate) (ob : list Z) (l : lastsub)
    (tr : trace) (lg : list logitem) (H : heap) (k : hk) {struct s} : list hpath * heap :=
  match s with
  | SEnd e => let r := m_end e ob in k tr r hs (lg ++ [LEnd r]) H
  | SSstore key v rest =>
      if sstore_static_check && c_static c then k tr FHalt hs (lg ++ [LEnd FHalt]) H
      else hexec rest c hs ob l tr lg (h_sstore H hs (c_this c) key v) k
  | STstore key v rest =>
      if sstore_static_check && c_static c then k tr FHalt hs (lg ++ [LEnd FHalt]) H
      else hexec rest c hs ob l tr lg (h_tstore H hs (c_this c) key v) k
  | SLog rest =>
      if log_static_check && c_static c then k tr FHalt hs (lg ++ [LEnd FHalt]) H
      else hexec rest c hs ob l tr (lg ++ [LEvent (c_this c)]) H k
  | SObserve key rest => hexec rest c hs (ob ++ m_observation c (habs H hs) key) l tr lg H k
  | SRetCopy off size rest =>
      if retcopy_guard size && retcopy_oob off size (blen (returndata l)) then k tr FHalt hs (lg ++ [LEnd FHalt]) H
      else if retcopy_copy_guard size then
        hexec rest c hs (ob ++ firstn (Z.to_nat size) (skipn (Z.to_nat off) (returndata l))) l tr lg H k
      else hexec rest c hs ob l tr lg H k
  | SExtCode a off rest => hexec rest c hs (ob ++ m_ext_observation (habs H hs) a off) l tr lg H k
  | SIf cnd s1 s2 =>
      (* JUMPI: both sides followed = the true side is a create_branch copy pushed first, the
         false side is the state itself, pushed last and therefore explored first *)
      let t := negb (cnd =? 0) in
      let trT := (true, t) :: tr in
      let trF := (false, negb t) :: tr in
      if explore trT && explore trF then
        h_fork H hs true
          (fun H1 => hexec s2 c hs ob l trF lg H1 k)
          (fun hsT H2 => hexec s1 c hsT ob l trT lg H2 k)
      else if explore trT then hexec s1 c hs ob l trT lg H k
      else if explore trF then hexec s2 c hs ob l trF lg H k
      else ([], H)
  | SCall kd to v rsz callee rest =>
      h_call kd to v rsz c hs ob tr lg H k
        (fun c' hs' tr' lg' H' k' => hexec callee c' hs' [] None tr' lg' H' k')
        (fun hs' ob' l' tr' lg' H' => hexec rest c hs' ob' l' tr' lg' H' k)
  | SCreate v initcode init rest =>
      h_create v initcode c hs ob tr lg H k
        (fun c' hs' tr' lg' H' k' => hexec init c' hs' [] None tr' lg' H' k')
        (fun hs' ob' l' tr' lg' H' => hexec rest c hs' ob' l' tr' lg' H' k)
  end.

(* the top of the transaction: a finished path is reported (yielded) with what it holds *)
Definition k_top : hk := fun tr r hs lg H => ([(tr, r, hs, lg)], H).

Definition hframe (s : script) (c : fctx) (hs : hstate) (H : heap) : list hpath * heap :=
  h_sub_frame c hs [] [] H (fun c' hs' tr' lg' H' k' => hexec s c' hs' [] None tr' lg' H' k') k_top.

(* the initial heap of a transaction: one object per map *)
Definition heap_of (w : world) : heap := [(w_code w, []); ([], w_storage w); ([], w_transient w)].
Definition hstate_of (w : world) (ctr : Z) : hstate := mkH 0 1 2 (w_balance w) ctr.

(* what the exploration reports for the valuation at hand: the holding paths, each read
   out of the heap as it is when the exploration is over *)
Definition explored (s : script) (c : fctx) (w : world) (ctr : Z) : list mres :=
  let '(ps, Hf) := hframe s c (hstate_of w ctr) (heap_of w) in
  map (readout Hf) (filter holding ps).
End Explore.
