(* C04 model of what halmos PRINTS for a counterexample: solve.PotentialModel.__str__
   (the f-string, the sort, the sign for the empty model come from Gen/GenCexPrint.v) and
   the int arm of utils.hexify (prefix, minimal width, case from Gen/GenHexify.v).
   Follows the Python: one formatted string per variable, sorted as strings, joined.
   No proofs. *)
From Coq Require Import ZArith List String Ascii Bool.
From HV Require Import Model.CexPrintDefs Gen.GenCexPrint Gen.GenHexify.
Import ListNotations.
Open Scope Z_scope.

Definition hex_char (up : bool) (d : Z) : ascii :=
  if d <? 10 then ascii_of_N (Z.to_N (48 + d))
  else ascii_of_N (Z.to_N ((if up then 55 else 87) + d)).

(* format(n, "x"): no leading zeros; fuel = number of digits at most *)
Fixpoint hex_go (up : bool) (f : nat) (n : Z) : string :=
  match f with
  | O => EmptyString
  | S f' => if n =? 0 then EmptyString
            else (hex_go up f' (n / 16) ++ String (hex_char up (n mod 16)) EmptyString)%string
  end.

Definition hex_digits (up : bool) (n : Z) : string :=
  if n =? 0 then "0"%string else hex_go up (S (Z.to_nat (Z.log2 n))) n.

Fixpoint zeros (k : nat) : string :=
  match k with O => EmptyString | S k' => String "0"%char (zeros k') end.

(* format(n, "0Wx"): zero-padded on the left to at least W characters *)
Definition pad_left (w : Z) (s : string) : string :=
  (zeros (Z.to_nat w - String.length s) ++ s)%string.

(* utils.hexify on an int: f"0x{x:02x}" *)
Definition hexify_int (n : Z) : string :=
  (gen_hexify_prefix ++ pad_left gen_hexify_minwidth (hex_digits gen_hexify_upper n))%string.

Definition get_s (v : mvar) (f : sfield) : string :=
  match f with
  | FFullName => full_name v
  | FVariableName => variable_name v
  | FSolidityType => solidity_type v
  | FSmtType => smt_type v
  end.
Definition get_i (v : mvar) (f : ifield) : Z :=
  match f with FSizeBits => size_bits v | FValue => value v end.

Definition render_piece (v : mvar) (p : piece) : string :=
  match p with
  | PLit s => s
  | PStr f => get_s v f
  | PHexify f => hexify_int (get_i v f)
  end.

(* the f-string *)
Definition render_line (v : mvar) : string :=
  fold_right (fun p acc => (render_piece v p ++ acc)%string) EmptyString gen_line.

(* sorted(list of str): by code points *)
Definition str_leb (a b : string) : bool :=
  match String.compare a b with Gt => false | _ => true end.
Fixpoint insert (x : string) (l : list string) : list string :=
  match l with
  | [] => [x]
  | y :: t => if str_leb x y then x :: l else y :: insert x t
  end.
Definition sort_lines (l : list string) : list string := fold_right insert [] l.

Definition join_lines (l : list string) : string := fold_right String.append EmptyString l.

(* PotentialModel.__str__ on the variables of self.model in dict order *)
Definition render_model (m : list mvar) : string :=
  let formatted := map render_line m in
  match formatted with
  | [] => gen_empty
  | _ => join_lines (if gen_sorted then sort_lines formatted else formatted)
  end.

(* the assignment the solver returned *)
Definition assignment (m : list mvar) : list (string * Z) :=
  map (fun v => (full_name v, value v)) m.
