(* Types for Gen/GenCexHandler.v (CounterexampleHandler._get_solver_output and
   _solve_end_to_end_callback as regenerated from __main__.py).  No proofs. *)
From Coq Require Import Bool String.
From HV Require Import Model.SolveModel.

(* what the thread-pool future of solve_end_to_end holds when its callback runs *)
Inductive fut : Type :=
| FExc                      (* future.exception() is not None *)
| FRaise                    (* future.result() raises *)
| FRes (o : outcome).       (* future.result() returns this SolverOutput *)

(* SolverOutput.result *)
Inductive rk : Type := KSat | KUnsat | KUnknown | KErr.

Definition out_is (k : rk) (o : outcome) : bool :=
  match k, o with
  | KSat, OSat _ _ => true
  | KUnsat, OUnsat => true
  | KUnknown, OUnknown => true
  | KErr, OErr => true
  | _, _ => false
  end.

(* SolverOutput.model.is_valid (only a sat output carries a model) *)
Definition out_model_valid (o : outcome) : bool :=
  match o with OSat v _ => v | _ => false end.
