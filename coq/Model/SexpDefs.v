(* Data types shared by Gen/GenRefine.v (regenerated from solve.py) and the models of
   C11 / C04: s-expressions, s-expression templates with the two regex groups of
   solve.refine as holes, the pieces of the f-strings of solve.dump.  No proofs. *)
From Coq Require Import ZArith List String Ascii Bool.
Import ListNotations.
Open Scope string_scope.

Definition nl : string := String (ascii_of_nat 10) EmptyString.

Inductive sexp : Type :=
| Atom (s : string)
| SList (l : list sexp).

(* template atom pieces: literal text, \1 (the op of the alternation), \2 (the width digits) *)
Inductive tpiece : Type := PLit (s : string) | PG1 | PG2.
Inductive tsx : Type :=
| TAtom (ps : list tpiece)
| TList (l : list tsx).

Record rule : Type := mkRule { rule_ops : list string; rule_decl : tsx; rule_repl : tsx }.

(* pieces of the f-strings of solve.dump *)
Inductive dpiece : Type := DLit (s : string) | DSmtlib | DNamed | DId.

(* value syntaxes accepted by halmos_var_pattern *)
Inductive vform : Type := VBin | VHex | VDec.

Definition inst_piece (g1 g2 : string) (p : tpiece) : string :=
  match p with PLit s => s | PG1 => g1 | PG2 => g2 end.

Definition inst_atom (g1 g2 : string) (ps : list tpiece) : string :=
  fold_right (fun p acc => inst_piece g1 g2 p ++ acc) "" ps.

(* instantiate a template: what re.sub's replacement expansion / a successful match denote *)
Fixpoint inst (g1 g2 : string) (t : tsx) : sexp :=
  match t with
  | TAtom ps => Atom (inst_atom g1 g2 ps)
  | TList l => SList (map (inst g1 g2) l)
  end.

(* canonical one-line printing: items separated by single spaces *)
Fixpoint render (s : sexp) : string :=
  match s with
  | Atom a => a
  | SList l =>
      "(" ++ (fix go (l : list sexp) : string :=
                match l with
                | [] => ""
                | [x] => render x
                | x :: r => render x ++ " " ++ go r
                end) l ++ ")"
  end.

Fixpoint sexp_eqb (a b : sexp) : bool :=
  match a, b with
  | Atom x, Atom y => String.eqb x y
  | SList l, SList m =>
      (fix go (l m : list sexp) : bool :=
         match l, m with
         | [], [] => true
         | x :: l', y :: m' => sexp_eqb x y && go l' m'
         | _, _ => false
         end) l m
  | _, _ => false
  end.
