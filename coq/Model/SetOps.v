(* List-sets of addresses / selectors used by the regenerated filter-resolution functions
   (Gen/GenInvFilters.v).  Definitions only. *)
From Coq Require Import ZArith List Bool String.
Import ListNotations.
Open Scope Z_scope.

Definition mem (x : Z) (l : list Z) : bool := existsb (Z.eqb x) l.
Definition nonempty {A : Type} (l : list A) : bool := match l with [] => false | _ => true end.
(* python: a - b *)
Definition set_diff (a b : list Z) : list Z := filter (fun x => negb (mem x b)) a.
(* python: a | b *)
Definition set_union (a b : list Z) : list Z := a ++ filter (fun x => negb (mem x a)) b.
(* python dict address -> frozenset(selectors): keys() and get(k) (absent = empty = falsy) *)
Definition ts_keys (m : list (Z * list Z)) : list Z := map fst m.
Fixpoint ts_get (m : list (Z * list Z)) (a : Z) : list Z :=
  match m with
  | [] => []
  | (k, v) :: r => if Z.eqb k a then v else ts_get r a
  end.

(* one entry of contract_json["methodIdentifiers"] with its abi stateMutability:
   0 pure, 1 view, 2 nonpayable, 3 payable *)
Record method := mkMethod { m_sig : string; m_sel : Z; m_mut : Z }.
