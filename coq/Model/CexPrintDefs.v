(* C04: vocabulary of Gen/GenCexPrint.v and Gen/GenHexify.v (regenerated from solve.py /
   utils.py): the fields of solve.ModelVariable and the pieces of the f-string that
   PotentialModel.__str__ formats each variable with.  No proofs. *)
From Coq Require Import ZArith List String.
Import ListNotations.
Open Scope Z_scope.

(* solve.ModelVariable *)
Record mvar : Type := MVar {
  full_name : string;
  variable_name : string;
  solidity_type : string;
  smt_type : string;
  size_bits : Z;
  value : Z
}.

Inductive sfield : Type := FFullName | FVariableName | FSolidityType | FSmtType.
Inductive ifield : Type := FSizeBits | FValue.

(* a piece of the f-string: literal text, {v.<str field>}, {hexify(v.<int field>)} *)
Inductive piece : Type :=
  | PLit (s : string)
  | PStr (f : sfield)
  | PHexify (f : ifield).
