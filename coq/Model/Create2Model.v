(* How halmos' SEVM.create computes the address of a CREATE2, as an executable function of the
   layout regenerated from the source (Gen/GenCreate2.v): which byte strings are hashed, in which
   order, how many bits of the digest are kept.  (halmos then NAMES the result instead of
   evaluating the hash: that convention is undone by the L2 tie, see Spec/Evm.v.)
   No proofs in this file. *)
From Coq Require Import ZArith List Bool.
From HV Require Import Base.Word Spec.Evm Model.Create2Defs Gen.GenCreate2.
Import ListNotations.
Open Scope Z_scope.

Definition c2field_bytes (sender salt : Z) (init : list Z) (f : c2field) : list Z :=
  match f with
  | C2_FF => [255]                                   (* con(0xFF, 8) *)
  | C2_SENDER => be_bytes 20 sender                  (* uint160(pranked_caller) *)
  | C2_SALT => be_bytes 32 salt                      (* the 256-bit stack word *)
  | C2_CODEHASH => be_bytes 32 (keccak_bytes init)   (* sha3_data(create_hexcode) *)
  end.

Definition c2_model_preimage (sender salt : Z) (init : list Z) : list Z :=
  flat_map (c2field_bytes sender salt init) c2_fields.

Definition c2_model_address (sender salt : Z) (init : list Z) : Z :=
  keccak_bytes (c2_model_preimage sender salt init) mod 2 ^ c2_address_bits.

Definition c2pop_eqb (a b : c2pop) : bool :=
  match a, b with
  | P_VALUE, P_VALUE | P_OFFSET, P_OFFSET | P_SIZE, P_SIZE | P_SALT, P_SALT => true
  | _, _ => false
  end.
Fixpoint c2pops_eqb (a b : list c2pop) : bool :=
  match a, b with
  | [], [] => true
  | x :: a', y :: b' => c2pop_eqb x y && c2pops_eqb a' b'
  | _, _ => false
  end.

(* the conventions of the reference interpreter's do_create2 that the source must share *)
Definition c2_conventions_ok : bool :=
  c2pops_eqb c2_pops [P_VALUE; P_OFFSET; P_SIZE; P_SALT]
  && negb c2_consumes_create_counter
  && c2_executes_memory_slice
  && c2_named_by_registration_number.
