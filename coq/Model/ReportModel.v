(* Executable model of HOW the --depth cut of SEVM.run reaches the user (C10): the warning goes through
   the process-wide de-duplicating logger of halmos/logs.py, whose key is the message text.  No proofs here.

   Regenerated on every run (coq/Gen):
     GenCutWarn.v    depth_cut (the guard), depth_warn_dedup, depth_warn_key (the FunctionInfo fields the
                     message text interpolates), depth_warn_mentions_limit          (SEVM.run, sevm.py)
     GenLogFilter.v  unique_filter, route                                            (logs.py) *)
From Coq Require Import ZArith List Bool.
From HV Require Import Gen.GenCutWarn Gen.GenLogFilter.
Import ListNotations.
Open Scope Z_scope.

(* FunctionInfo(contract_name, name, sig, selector): strings are abstracted by numbers -- only the
   equality of texts matters to the filter *)
Record fun_info := mkFunInfo { fi_contract : Z; fi_name : Z; fi_sig : Z; fi_selector : Z }.

Definition field_value (f : fun_info) (k : fi_field) : Z :=
  match k with
  | FContract => fi_contract f
  | FName => fi_name f
  | FSig => fi_sig f
  | FSelector => fi_selector f
  end.

(* the text of a --depth warning = the interpolated values (the constant parts are the same for all) *)
Definition msg := list Z.

Fixpoint msg_eqb (a b : msg) : bool :=
  match a, b with
  | [], [] => true
  | x :: a', y :: b' => (x =? y) && msg_eqb a' b'
  | _, _ => false
  end.

Definition depth_msg (f : fun_info) (max_depth : Z) : msg :=
  map (field_value f) depth_warn_key ++ (if depth_warn_mentions_limit then [max_depth] else []).

(* warn(text, allow_duplicate): (printed?, filter records afterwards) *)
Definition emit (allow_duplicate : bool) (records : list msg) (m : msg) : bool * list msg :=
  if route allow_duplicate then unique_filter msg_eqb records m else (true, records).

(* one SEVM.run: once step_id exceeds the limit every state taken from the worklist is abandoned with the
   same warning; n = number of abandoned states.  Result: was the warning printed at least once. *)
Fixpoint warn_n (n : nat) (m : msg) (records : list msg) : bool * list msg :=
  match n with
  | O => (false, records)
  | S k =>
      let '(e, r1) := emit (negb depth_warn_dedup) records m in
      let '(e', r2) := warn_n k m r1 in
      (e || e', r2)
  end.

(* a halmos process: the tests (of all contracts) run one after the other, the filter lives on *)
Record test_run := mkTestRun { tr_fun : fun_info; tr_cuts : nat }.

Fixpoint session (max_depth : Z) (runs : list test_run) (records : list msg) : list bool :=
  match runs with
  | [] => []
  | t :: rest =>
      let '(e, r) := warn_n (tr_cuts t) (depth_msg (tr_fun t) max_depth) records in
      e :: session max_depth rest r
  end.

Definition was_cut (t : test_run) : bool := negb (Nat.eqb (tr_cuts t) 0).

(* ------------------------------------------------------------------ one SEVM, several transactions *)

(* run_test drives ONE SEVM over every frontier state (one run_message per state) and reads
   sevm.logs.bounded_loops once, after the last.  states = for each executed state, `this transaction cut a loop`.
   Result: is the list non-empty when it is read. *)
Definition sevm_logs_after (states : list bool) : bool :=
  fold_left (fun acc b => if run_message_resets_logs then b else acc || b) states false.

