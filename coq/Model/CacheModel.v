(* C16 — executable model of halmos' unsat-core cache (no proofs here).
   Follows src/halmos/solve.py (check_unsat_cores, SolverOutput.from_result, solve_end_to_end,
   parse_unsat_core, dump) and __main__.py (_solve_end_to_end_callback, run_test verdict chain).
   check_unsat_cores, the from_result core decision, the refinement step of solve_end_to_end and the
   append guard are the *generated* functions of Gen/GenUnsatCore.v and Gen/GenCoreAppend.v. *)
From Coq Require Import ZArith List Bool.
From HV Require Import Gen.GenUnsatCore Gen.GenCoreAppend Spec.CacheSpec.
Import ListNotations.
Open Scope Z_scope.

Section Cache.
  Variable id : Type.                      (* assertion identifiers (python: decimal strings) *)
  Variable id_eqb : id -> id -> bool.      (* python: == on str *)
  Variable formula : Type.                 (* what an identifier stands for in a query *)
  Variable model : Type.                   (* payload of a sat answer *)

  (* SMTQuery: `assertions` = map fst, the text = the formulas (named by the ids in cache mode) *)
  Definition query := list (id * formula).
  Definition qids (q : query) : list id := map fst q.

  (* `x in l` *)
  Definition mem (i : id) (l : list id) : bool := existsb (fun x => id_eqb x i) l.

  Definition check_unsat_cores (assertions : list id) (cores : list (list id)) : bool :=
    gen_check_unsat_cores mem assertions cores.

  (* SolverOutput, reduced to what the cache and the verdict look at *)
  Inductive reply :=
    | Sat (m : model) (valid : bool)
    | Unsat (core : option (list id))
    | Unknown
    | Err.

  (* SolverOutput.from_result: the core is kept only under cache_solver *)
  Definition from_result (cache_solver : bool) (raw : reply) : reply :=
    match raw with
    | Unsat c => Unsat (gen_core_of_reply cache_solver c)
    | r => r
    end.

  (* the external solver + stdout parsing: refined? -> query -> raw outcome *)
  Variable low : bool -> query -> reply.
  (* does refine() change the query text *)
  Variable refine_changes : query -> bool.

  Definition solve_low_level (cache_solver refined : bool) (q : query) : reply :=
    from_result cache_solver (low refined q).

  Definition is_sat (r : reply) := match r with Sat _ _ => true | _ => false end.
  (* model.is_valid of a sat output (the test is only reached for sat outputs: `and` short-circuits) *)
  Definition valid_of (r : reply) := match r with Sat _ v => v | _ => false end.

  (* the consumers hand over the path's own query: ctx.is_refined = False (T-cacheusers: PathContext(...) without it).
     What happens after a cache miss -- first answer, whether and how the query is refined and solved again -- is the
     generated gen_e2e_miss (ids unchanged by refine(): no second cache check, the refined query goes to solve_low_level) *)
  Definition solve_end_to_end (cache_solver : bool) (cores : list (list id)) (q : query) : reply :=
    if check_unsat_cores (qids q) cores then Unsat None          (* "Already proven unsat" *)
    else
      let o1 := solve_low_level cache_solver false q in
      gen_e2e_miss (is_sat o1) (valid_of o1) false (refine_changes q) o1 (solve_low_level cache_solver true q).

  Definition is_unsat (r : reply) : bool := match r with Unsat _ => true | _ => false end.
  Definition core_of (r : reply) : option (list id) := match r with Unsat c => c | _ => None end.

  (* _solve_end_to_end_callback: what happens to FunctionContext.solving_ctx.unsat_cores *)
  Definition callback (cores : list (list id)) (r : reply) : list (list id) :=
    if gen_append_guard (is_unsat r) (core_of r)
    then match core_of r with Some c => cores ++ [c] | None => cores end
    else cores.

  (* one function context, queries solved one after the other *)
  Fixpoint run (cache_solver : bool) (cores : list (list id)) (qs : list query) : list reply :=
    match qs with
    | [] => []
    | q :: r =>
        let o := solve_end_to_end cache_solver cores q in
        o :: run cache_solver (callback cores o) r
    end.

  Fixpoint cores_of_run (cache_solver : bool) (cores : list (list id)) (qs : list query) : list (list id) :=
    match qs with
    | [] => cores
    | q :: r => cores_of_run cache_solver (callback cores (solve_end_to_end cache_solver cores q)) r
    end.

  (* any thread schedule: cache look-ups and callback appends as separate events *)
  Inductive event :=
    | EvCheck (q : query)                  (* solve_end_to_end reads unsat_cores for q *)
    | EvLearn (q : query) (r : reply).     (* the callback runs with the output r obtained for q *)

  Fixpoint cores_after (evs : list event) (cores : list (list id)) : list (list id) :=
    match evs with
    | [] => cores
    | EvCheck _ :: r => cores_after r cores
    | EvLearn _ o :: r => cores_after r (callback cores o)
    end.

  (* the sub-multiset of a query named by a core *)
  Definition select (q : query) (c : list id) : list formula :=
    map snd (filter (fun p => mem (fst p) c) q).

  (* run_test: Counter over str(result) and the if/elif chain *)
  Definition is_err (r : reply) := match r with Err => true | _ => false end.
  Definition is_unknown (r : reply) := match r with Unknown => true | _ => false end.

  Definition verdict_of (rs : list reply) (stuck normal : nat) : verdict :=
    if existsb is_sat rs then VFail
    else if existsb is_err rs then VError
    else if existsb is_unknown rs then VTimeout
    else match stuck, normal with
         | S _, _ => VStuck
         | O, O => VRevertAll
         | O, S _ => VPass
         end.

  (* what an observer sees of an output: result, model, validity -- not the core *)
  Definition strip (r : reply) : reply := match r with Unsat _ => Unsat None | x => x end.
End Cache.

Arguments Sat {id model} _ _.
Arguments Unsat {id model} _.
Arguments Unknown {id model}.
Arguments Err {id model}.
Arguments EvCheck {id formula model} _.
Arguments EvLearn {id formula model} _ _.

(* ------------------------------------------------------------------ text side *)

(* python `\s` on str *)
Definition is_space (c : Z) : bool :=
  ((9 <=? c) && (c <=? 13)) || ((28 <=? c) && (c <=? 32)) || (c =? 133) || (c =? 160) ||
  (c =? 5760) || ((8192 <=? c) && (c <=? 8202)) || (c =? 8232) || (c =? 8233) ||
  (c =? 8239) || (c =? 8287) || (c =? 12288).

(* [0-9] *)
Definition is_digit (c : Z) : bool := (48 <=? c) && (c <=? 57).

Fixpoint skip_ws (s : list Z) : list Z :=
  match s with
  | c :: r => if is_space c then skip_ws r else s
  | [] => []
  end.

Fixpoint strip_prefix (p s : list Z) : option (list Z) :=
  match p with
  | [] => Some s
  | a :: p' => match s with
               | b :: s' => if a =? b then strip_prefix p' s' else None
               | [] => None
               end
  end.

(* the part "any chars but rpar, then rpar": up to and including the first rpar *)
Fixpoint skip_to_rparen (s : list Z) : option (list Z) :=
  match s with
  | [] => None
  | c :: r => if c =? c_rpar then Some r else skip_to_rparen r
  end.

(* the optional group: lpar, spaces, "error", at least one space, non-rpar chars, rpar, spaces; returns the rest *)
Definition try_error (s : list Z) : option (list Z) :=
  match s with
  | c :: r =>
      if c =? c_lpar then
        match strip_prefix s_error (skip_ws r) with
        | Some (c1 :: r2) =>
            if is_space c1 then
              match skip_to_rparen r2 with
              | Some r3 => Some (skip_ws r3)
              | None => None
              end
            else None
        | _ => None
        end
      else None
  | [] => None
  end.

(* spaces, then group 2 = any number of (name, spaces), then rpar -- as a deterministic automaton; returns the text of group 2 *)
Inductive nstate := NStart | NAfter | NOpen | NDigits.

Fixpoint names (st : nstate) (s : list Z) : option (list Z) :=
  match s with
  | [] => None
  | c :: r =>
      match st with
      | NStart =>
          if is_space c then names NStart r
          else if c =? c_rpar then Some []
          else if c =? c_lt then option_map (cons c) (names NOpen r)
          else None
      | NAfter =>
          if is_space c then option_map (cons c) (names NAfter r)
          else if c =? c_rpar then Some []
          else if c =? c_lt then option_map (cons c) (names NOpen r)
          else None
      | NOpen =>
          if is_digit c then option_map (cons c) (names NDigits r) else None
      | NDigits =>
          if is_digit c then option_map (cons c) (names NDigits r)
          else if c =? c_gt then option_map (cons c) (names NAfter r)
          else None
      end
  end.

Definition match_core (s : list Z) : option (list Z) :=
  match s with
  | c :: r => if c =? c_lpar then names NStart r else None
  | [] => None
  end.

(* the whole pattern anchored at the head of s *)
Definition match_at (s : list Z) : option (list Z) :=
  match strip_prefix s_unsat s with
  | None => None
  | Some s1 =>
      let s2 := skip_ws s1 in
      match try_error s2 with
      | Some s3 => match_core s3
      | None => match_core s2
      end
  end.

(* re.search: leftmost start position *)
Fixpoint search (s : list Z) : option (list Z) :=
  match match_at s with
  | Some g => Some g
  | None => match s with
            | [] => None
            | _ :: r => search r
            end
  end.

(* str.split(): the head of the result is the token being read *)
Fixpoint split_ws (s : list Z) : list (list Z) :=
  match s with
  | [] => [[]]
  | c :: r =>
      if is_space c then [] :: split_ws r
      else match split_ws r with
           | t :: ts => (c :: t) :: ts
           | [] => [[c]]
           end
  end.

Definition nonempty (t : list Z) : bool := match t with [] => false | _ => true end.
Definition tokens (s : list Z) : list (list Z) := filter nonempty (split_ws s).

(* does s start with [0-9]+> *)
Fixpoint name_ahead (seen : bool) (s : list Z) : bool :=
  match s with
  | [] => false
  | c :: r => if is_digit c then name_ahead true r else (c =? c_gt) && seen
  end.

(* the re.sub call: every "lt digits gt" in the token is replaced by its digits *)
Fixpoint sub_names (inname : bool) (s : list Z) : list Z :=
  match s with
  | [] => []
  | c :: r =>
      if inname then (if c =? c_gt then sub_names false r else c :: sub_names true r)
      else if (c =? c_lt) && name_ahead false r then sub_names true r
      else c :: sub_names false r
  end.

Definition parse_unsat_core (output : list Z) : option (list (list Z)) :=
  match search output with
  | Some g => Some (map (sub_names false) (tokens g))
  | None => None
  end.

(* the regex / replacement literals this matcher was written for (pinned against Gen) *)
Definition expected_core_pattern : list Z :=
  [117; 110; 115; 97; 116; 92; 115; 42; 40; 92; 40; 92; 115; 42; 101; 114; 114; 111; 114; 92; 115; 43;
   91; 94; 41; 93; 42; 92; 41; 92; 115; 42; 41; 63; 92; 40; 92; 115; 42; 40; 40; 60; 91; 48; 45; 57;
   93; 43; 62; 92; 115; 42; 41; 42; 41; 92; 41].
Definition expected_sub_pattern : list Z := [60; 40; 91; 48; 45; 57; 93; 43; 41; 62].
Definition expected_sub_repl : list Z := [92; 49].

(* dump(): the named assertion written for an id, and the whole cache-mode file *)
Definition named_assertion (i : list Z) : list Z :=
  gen_named_p0 ++ i ++ gen_named_p1 ++ i ++ gen_named_p2.
Definition dump_cache_file (smtlib : list Z) (ids : list (list Z)) : list Z :=
  gen_file_head ++ smtlib ++ gen_file_mid ++ concat (map named_assertion ids) ++ gen_file_tail.
(* the SMT-LIB name under which the solver will report id i *)
Definition core_name (i : list Z) : list Z := c_lt :: i ++ [c_gt].

(* equality on identifiers as strings *)
Fixpoint str_eqb (a b : list Z) : bool :=
  match a, b with
  | [], [] => true
  | x :: a', y :: b' => (x =? y) && str_eqb a' b'
  | _, _ => false
  end.
