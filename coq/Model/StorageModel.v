(* C08 -- executable model of halmos' storage machinery (src/halmos/sevm.py, utils.py):
     OffsetMap (__getitem__/__setitem__; bucket/offset arithmetic regenerated into
       Gen/GenStoreConsts.v), KeccakRegistry.register / reverse_lookup (local map first,
       then the precomputed map built from Gen/GenHashes.v),
     SolidityStorage.decode / get_key_structure / bitsize / init / load / store,
     GenericStorage.decode / simple_hash / add_all / load / store,
     Exec.select, SEVM.fresh_transient_storage.
   No proofs here.

   Abstractions (each is named in the evidence file):
   * z3 terms are the location expressions of Spec/StorageSpec.v; `simplify` is modelled by
     `simp` (its structural effect on this grammar: constant folding under hashes,
     flattening and constant-summing of additions); on key terms it is the identity on
     denotations, so decoded keys are compared semantically with the code.
   * ex.int_of uses path.concretization.substitution, modelled as the registered hashes.
   * `normalize` (re-association of Concat(Extract(255,8,op), op(Extract(7,0,..)))) is not
     modelled: it is denotation-preserving and only exercised by the correspondence run.
   * sorted(key=len, reverse=True) in the bvadd arm: Python's sort is stable, so with at
     most one argument of length > 1 the result is that argument followed by the others in
     source order; with two or more, args[1] has length > 1 and ValueError is raised.  The
     model computes exactly this partition.
   * Exec.select: the three tests (structural eq, check(key == key0) unsat,
     check(key != key0) unsat) are one oracle call with answers MustEq / MustNeq / Unknown
     (structural equality is one way of answering MustEq).
   * load() also *initialises* the chunk (inserts the empty array / zero); reading an
     uninitialised chunk through a default is extensionally the same, so load is pure. *)
From Coq Require Import ZArith List Bool.
From HV Require Import Spec.StorageSpec Gen.GenStoreConsts Gen.GenHashes Gen.GenPreRegistry Gen.GenStoreAxioms.
Import ListNotations.
Open Scope Z_scope.

(* ------------------------------------------------------------------ results / errors *)
Inductive res (A : Type) := Ok (a : A) | Err (code : Z).
Arguments Ok {A}. Arguments Err {A}.
(* codes: 1 ValueError, 2 NotConcreteError (symbolic storage base slot), 3 out of fuel,
   4 AssertionError (OffsetMap bucket clash), 9 outside the modelled term grammar *)
Definition bind {A B} (r : res A) (f : A -> res B) : res B :=
  match r with Ok a => f a | Err c => Err c end.

(* ------------------------------------------------------------------ OffsetMap *)
(* one registered hash: f_sha3_<bits>(<pre>) == <hash> *)
Record rentry := { r_hash : Z; r_bits : Z; r_pre : Z }.
Definition rentry_eqb (a b : rentry) : bool :=
  (r_hash a =? r_hash b) && (r_bits a =? r_bits b) && (r_pre a =? r_pre b).

(* self._map : raw_key -> (value, offset) *)
Definition omap := list (Z * (rentry * Z)).

Definition om_find (m : omap) (raw : Z) : option (rentry * Z) :=
  match find (fun p => fst p =? raw) m with Some (_, v) => Some v | None => None end.

(* __getitem__ *)
Definition om_get (m : omap) (key : Z) : option (rentry * Z) :=
  match om_find m (om_get_bucket key) with
  | None => None
  | Some (value, offset) => Some (value, om_get_delta key offset)
  end.

(* __setitem__; None = the assertion fails *)
Definition om_set (m : omap) (key : Z) (value : rentry) : option omap :=
  let raw_key := om_set_bucket key in
  let raw_value := (value, om_set_offset key) in
  match om_find m raw_key with
  | None => Some ((raw_key, raw_value) :: m)
  | Some (v0, o0) =>
      if rentry_eqb v0 value && (o0 =? om_set_offset key) then Some ((raw_key, raw_value) :: m) else None
  end.

(* mk_precomputed_keccak_registry: which key, which hash symbol (preimage width) and which
   preimage constant each table row is registered with is the code's own (Gen/GenPreRegistry.v,
   regenerated from utils.py); con(n, size_bits) = BitVecVal(n, size_bits) reduces n modulo
   2^size_bits *)
Definition pre_entries : list rentry :=
  map (fun p => let k := Z.of_N (fst p) in let v := Z.of_N (snd p) in
                {| r_hash := pre256_key k v; r_bits := pre256_bits;
                   r_pre := pre256_pre k v mod 2 ^ pre256_size |}) keccak256_256
  ++ map (fun p => let k := Z.of_N (fst p) in
                   let v1 := Z.of_N (fst (snd p)) in let v2 := Z.of_N (snd (snd p)) in
                   {| r_hash := pre512_key k v1 v2; r_bits := pre512_bits;
                      r_pre := pre512_pre k v1 v2 mod 2 ^ pre512_size |}) keccak256_512.

Definition om_set_all (es : list rentry) (m0 : option omap) : option omap :=
  fold_left (fun m en => match m with Some m' => om_set m' (r_hash en) en | None => None end) es m0.

Definition precomputed : omap :=
  match om_set_all pre_entries (Some []) with Some m => m | None => [] end.

(* ------------------------------------------------------------------ KeccakRegistry *)
(* _hash_ids is only used for membership (first registration wins); _hash_values is the
   OffsetMap.  Only hashes with a concrete value reach the OffsetMap, and their
   expression is always f_sha3_<bits>(<constant>). *)
Record registry := { hash_ids : list rentry; hash_values : omap }.
Definition reg_empty : registry := {| hash_ids := []; hash_values := [] |}.

Definition register (R : registry) (en : rentry) : res registry :=
  if existsb (rentry_eqb en) (hash_ids R) then Ok R
  else match om_set (hash_values R) (r_hash en) en with
       | Some m => Ok {| hash_ids := hash_ids R ++ [en]; hash_values := m |}
       | None => Err 4
       end.

Definition term_of_entry (en : rentry) : loc := ShaC (r_bits en) (r_pre en).
(* `expr + delta if delta else expr` (delta is a python int; z3 coerces it to a 256-bit value) *)
Definition with_delta (t : loc) (d : Z) : loc := if d =? 0 then t else Add [t; K (d mod W)].

Definition reverse_lookup_in (pre : omap) (R : registry) (c : Z) : option loc :=
  match om_get (hash_values R) c with
  | Some (en, d) => Some (with_delta (term_of_entry en) d)
  | None =>
      match om_get pre c with
      | Some (en, d) => Some (with_delta (term_of_entry en) d)
      | None => None
      end
  end.
Definition reverse_lookup := reverse_lookup_in precomputed.

(* ------------------------------------------------------------------ SolidityStorage.decode *)
(* a decoded component: a sum of 256-bit terms (`Z3_ZERO + a + b`, or a single term), or a
   narrow key *)
Inductive kt := KW (ts : list loc) | KN (bits : Z) (k : nkey).

Definition is_scalar (d : list kt) : bool := (length d <=? 1)%nat.
Definition head_terms (d : list kt) : list loc := match d with KW ts :: _ => ts | _ => [] end.

(* the effect of z3's simplify() on the terms of the grammar that matters to the decoders:
   constant folding of Concat(const, const) under a hash (the application becomes
   f_sha3_N(<constant>)) and of constant addends, flattening of nested additions.
   decode applies simplify to both halves of a f_sha3_512 input and to key/base of a
   narrow-key hash input, but not to the argument of f_sha3_256 nor to the location itself. *)
Definition simp_add (ls : list loc) : loc :=
  let flat := flat_map (fun t => match t with Add xs => xs | _ => [t] end) ls in
  let c := (fold_right (fun t acc => match t with K z => z + acc | _ => acc end) 0 flat) mod W in
  let nc := filter (fun t => match t with K _ => false | _ => true end) flat in
  match nc with
  | [] => K c
  | [t] => if c =? 0 then t else Add [K c; t]
  | _ => if c =? 0 then Add nc else Add (K c :: nc)
  end.

Fixpoint simp (l : loc) : loc :=
  match l with
  | K z => K z
  | V x => V x
  | ShaC b p => ShaC b p
  | Sha256 a => Sha256 (simp a)
  | Sha512 k a =>
      match simp k, simp a with
      | K x, K y => ShaC 512 (x * W + y)
      | k', a' => Sha512 k' a'
      end
  | ShaN bits k a =>
      match k, simp a with
      | NKc z, K s => ShaC (bits + 256) ((z mod 2 ^ bits) * W + s)
      | _, a' => ShaN bits k a'
      end
  | Add ls => simp_add (map simp ls)
  end.

Section Decode.
  Variable pre : omap.
  Variable R : registry.

  Fixpoint decode_sol (fuel : nat) (l : loc) : res (list kt) :=
    match fuel with
    | O => Err 3
    | S f =>
      match l with
      | Sha512 k a => bind (decode_sol f (simp a)) (fun d => Ok (d ++ [KW [k]; KW [K 0]]))
      | Sha256 a => bind (decode_sol f a) (fun d => Ok (d ++ [KW [K 0]]))
      | ShaN bits k a =>
          if (bits =? 256) || (bits <=? 0) then Err 9
          else bind (decode_sol f (simp a)) (fun d => Ok (d ++ [KN bits k; KW [K 0]]))
      | ShaC bits p =>
          if bits =? 512 then bind (decode_sol f (K (p mod W))) (fun d => Ok (d ++ [KW [K (p / W)]; KW [K 0]]))
          else if bits =? 256 then bind (decode_sol f (K p)) (fun d => Ok (d ++ [KW [K 0]]))
          else Ok [KW [l]]
      | Add ls =>
          if (length ls <? 2)%nat then Err 1
          else
            bind ((fix go (xs : list loc) : res (list (list kt)) :=
                     match xs with
                     | [] => Ok []
                     | x :: r => bind (decode_sol f x) (fun d => bind (go r) (fun ds => Ok (d :: ds)))
                     end) ls)
              (fun ds =>
                 let ns := filter (fun d => negb (is_scalar d)) ds in
                 let ss := filter is_scalar ds in
                 match ns ++ ss with
                 | [] => Err 1
                 | a0 :: rest =>
                     if existsb (fun d => negb (is_scalar d)) rest then Err 1
                     else match last a0 (KN 0 (NKc 0)) with
                          | KW ts => Ok (removelast a0 ++ [KW (ts ++ flat_map head_terms rest)])
                          | KN _ _ => Err 9
                          end
                 end)
      | K z =>
          match reverse_lookup_in pre R z with
          | Some t => decode_sol f t
          | None => Ok [KW [K z]]
          end
      | V x => Ok [KW [V x]]
      end
    end.

  Definition key_bits (k : kt) : Z := match k with KW _ => 256 | KN b _ => b end.
  Definition bitsize (keys : list kt) : Z := fold_right (fun k acc => key_bits k + acc) 0 keys.

  (* ex.int_of(offsets[0]) = utils.int_of(x, err, path.concretization.substitution): a
     non-constant term is simplified after substituting every `f_sha3_N(const)` that
     sha3_data equated with its concrete hash (only when the substitution is non-empty).
     So a constant sum, or a registered f_sha3_N(const) that decode left alone, is a slot. *)
  Definition resolve_term (t : loc) : option Z :=
    match t with
    | K z => Some z
    | ShaC b p =>
        match find (fun en => (r_bits en =? b) && (r_pre en =? p)) (hash_ids R) with
        | Some en => Some (r_hash en)
        | None => None
        end
    | _ => None
    end.
  Definition int_of_slot (ts : list loc) : option Z :=
    match ts with
    | [K z] => Some z
    | _ =>
        match hash_ids R with
        | [] => None
        | _ =>
            (fix go (ts : list loc) : option Z :=
               match ts with
               | [] => Some 0
               | t :: r => match resolve_term t, go r with Some a, Some b => Some ((a + b) mod W) | _, _ => None end
               end) ts
        end
    end.

  (* get_key_structure: (slot, keys, num_keys, size_keys) *)
  Definition key_structure (fuel : nat) (l : loc) : res (Z * list kt * Z * Z) :=
    bind (decode_sol fuel l)
      (fun d => match d with
                | [] => Err 1
                | KW ts :: keys =>
                    match int_of_slot ts with
                    | Some z => Ok (z, keys, Z.of_nat (length keys), bitsize keys)
                    | None => Err 2
                    end
                | _ :: _ => Err 2
                end).

  (* -------------------------------------------------------------- GenericStorage.decode *)
  (* shallow: (bit size, value under e) of the decoded term; sizes do not depend on e *)
  Variable e : env.
  Definition g_simple_hash (x : Z * Z) : Z * Z := (fst x + gen_pad_bits, snd x * 2 ^ gen_pad_bits + gen_pad_value).
  Definition g_concat (a b : Z * Z) : Z * Z := (fst a + fst b, snd a * 2 ^ fst b + snd b).
  Definition g_add_all (xs : list (Z * Z)) : Z * Z :=
    let bitsize := fold_right (fun x acc => Z.max (fst x) acc) 0 xs in
    (bitsize, (fold_right (fun x acc => snd x + acc) 0 xs) mod 2 ^ bitsize).

  (* decode of a constant of any width: reverse lookup by value *)
  Definition g_lookup (z : Z) : option loc := reverse_lookup_in pre R z.

  Fixpoint decode_gen (fuel : nat) (l : loc) : res (Z * Z) :=
    match fuel with
    | O => Err 3
    | S f =>
      let dconst (bits z : Z) : res (Z * Z) :=
        match g_lookup z with Some t => decode_gen f t | None => Ok (bits, z) end in
      match l with
      | Sha512 k a =>
          bind (decode_gen f (simp k)) (fun hi => bind (decode_gen f (simp a)) (fun lo => Ok (g_simple_hash (g_concat hi lo))))
      | Sha256 a => bind (decode_gen f a) (fun x => Ok (g_simple_hash x))
      | ShaN bits k a =>
          if (bits =? 256) || (bits <=? 0) then Err 9
          else
            bind (match k with NKc z => dconst bits (z mod 2 ^ bits) | NKv x => Ok (bits, e x mod 2 ^ bits) end)
              (fun hi => bind (decode_gen f a) (fun lo => Ok (g_simple_hash (g_concat hi lo))))
      | ShaC bits p =>
          if bits =? 512 then
            bind (dconst 256 (p / W)) (fun hi => bind (dconst 256 (p mod W)) (fun lo => Ok (g_simple_hash (g_concat hi lo))))
          else bind (dconst bits p) (fun x => Ok (g_simple_hash x))
      | Add ls =>
          if (length ls <? 2)%nat then Err 1
          else
            bind ((fix go (xs : list loc) : res (list (Z * Z)) :=
                     match xs with
                     | [] => Ok []
                     | x :: r => bind (decode_gen f x) (fun d => bind (go r) (fun ds => Ok (d :: ds)))
                     end) ls)
              (fun ds => Ok (g_add_all ds))
      | K z => dconst 256 z
      | V x => Ok (256, e x mod W)
      end
    end.
End Decode.

(* ------------------------------------------------------------------ storage, select, load, store *)
Inductive tri := MustEq | MustNeq | Unknown.

(* (slot, num_keys, size_keys) for the solidity layout; (-1, 1, size_keys) for the generic one *)
Definition chunkid := (Z * Z * Z)%type.
Definition cid_eqb (a b : chunkid) : bool :=
  match a, b with (a1, a2, a3), (b1, b2, b3) => (a1 =? b1) && (a2 =? b2) && (a3 =? b3) end.
Definition cid_scalar (c : chunkid) : bool := match c with (_, n, _) => n =? 0 end.

Section Store.
  Variable key : Type.   (* decoded key terms (concat(keys) / the generic term) *)
  Variable val : Type.   (* stored value terms: opaque to the storage machinery *)

  (* a store chain, newest first, over the initial (`..._00`) array *)
  Definition chain := list (key * val).
  Inductive chunk := CScalar (v : val) | CArr (c : chain).
  Record storage := { symbolic : bool; mapping : list (chunkid * chunk) }.
  Definition st_empty : storage := {| symbolic := false; mapping := [] |}.   (* mk_storagedata *)

  (* what a load returns *)
  Inductive lres :=
  | LVal (v : val)                     (* a stored term *)
  | LZero                              (* ZERO / Z3_ZERO *)
  | LInit (c : chunkid)                (* BitVec("storage_.._00") of a scalar chunk, symbolic storage *)
  | LSelect (c : chunkid) (ch : chain) (k : key).   (* Select(array, key) *)

  Variable orc : key -> key -> tri.

  (* Exec.select *)
  Fixpoint select (sym : bool) (c : chunkid) (ch : chain) (k : key) : lres :=
    match ch with
    | [] => if sym then LSelect c [] k else LZero
    | (k0, v0) :: base =>
        match orc k k0 with
        | MustEq => LVal v0
        | MustNeq => select sym c base k
        | Unknown => LSelect c ch k
        end
    end.

  Definition st_find (s : storage) (c : chunkid) : option chunk :=
    match find (fun p => cid_eqb (fst p) c) (mapping s) with Some (_, ch) => Some ch | None => None end.

  (* a decoded location: chunk id + key *)
  Definition load (s : storage) (c : chunkid) (k : key) : lres :=
    if cid_scalar c then
      match st_find s c with
      | Some (CScalar v) => LVal v
      | Some (CArr _) => LZero   (* unreachable: a scalar chunk id never holds an array *)
      | None => if symbolic s then LInit c else LZero
      end
    else
      match st_find s c with
      | Some (CArr ch) => select (symbolic s) c ch k
      | Some (CScalar _) => select (symbolic s) c [] k (* unreachable *)
      | None => select (symbolic s) c [] k
      end.

  Definition store (s : storage) (c : chunkid) (k : key) (v : val) : storage :=
    if cid_scalar c then
      {| symbolic := symbolic s; mapping := (c, CScalar v) :: mapping s |}
    else
      let ch := match st_find s c with Some (CArr ch) => ch | _ => [] end in
      {| symbolic := symbolic s; mapping := (c, CArr ((k, v) :: ch)) :: mapping s |}.

  (* SEVM.fresh_transient_storage: {addr: mk_storagedata() for addr in ex.transient_storage} *)
  Definition fresh_transient_storage (ts : list (Z * storage)) : list (Z * storage) :=
    map (fun p => (fst p, st_empty)) ts.
End Store.
Arguments LVal {key val}. Arguments LZero {key val}. Arguments LInit {key val}. Arguments LSelect {key val}.
Arguments CScalar {key val}. Arguments CArr {key val}.

(* ------------------------------------------------------------------ the path side of load / store *)
(* What the code really builds.  Arrays are z3 terms: the initial array of a chunk
   (`storage_<addr>_<slot>_<n>_<size>_00`, cls.empty) or a numbered array variable
   (`..._<uid>_<1 + len(ex.storages)>`).  store() binds the chunk to a NEW variable, records
   `var -> Store(old, key, val)` in ex.storages and appends `var == Store(old, key, val)` to
   ex.path.  The initial array of a non-symbolic account is NOT given a value: load() appends
   the per-index emptiness axiom `Select(initial, key) == 0` to ex.path (under the guard
   regenerated into Gen/GenStoreAxioms.v), and Exec.select answers ZERO by itself only when it
   has walked the whole chain of definitions down to an initial array.
   ex.storages and ex.path belong to the Exec (shared by accounts and by persistent/transient
   storage); one account is modelled, which is the general case for the axioms' soundness.
   Exec.select looks every array up in ex.storages; the definitions only ever refer to OLDER
   arrays (invariant pwf_st in Proofs), so searching the remaining, older part of the list
   for the base finds the same entry as a fresh lookup: pselect recurses on the list. *)
Inductive aref := AEmpty (c : chunkid) | AVar (n : nat).

Section PathStore.
  Variable key : Type.
  Variable val : Type.
  Variable orc : key -> key -> tri.
  (* is_bv_value(<simplified key>): the only feature of a key a load guard may look at *)
  Variable key_is_value : key -> bool.
  (* Gen.GenStoreAxioms.{sol,gen}_load_emits_empty *)
  Variable emits_empty : bool -> bool -> bool.

  Inductive axiom :=
  | AxDef (n : nat) (base : aref) (k : key) (v : val)     (* AVar n == Store(base, k, v) *)
  | AxEmpty (c : chunkid) (k : key).                       (* Select(AEmpty c, k) == 0 *)

  Inductive pchunk := PScalar (v : val) | PArr (a : aref).
  Definition pdefs := list (nat * (aref * key * val)).     (* ex.storages, newest first *)
  Record pstate := {
    p_symbolic : bool;                          (* StorageData.symbolic *)
    p_mapping : list (chunkid * pchunk);        (* StorageData._mapping *)
    p_storages : pdefs;                         (* ex.storages *)
    p_path : list axiom                         (* the storage axioms of ex.path, newest first *)
  }.
  Definition p_empty : pstate :=               (* mk_storagedata() in a fresh Exec *)
    {| p_symbolic := false; p_mapping := []; p_storages := []; p_path := [] |}.

  Inductive pres :=
  | PVal (v : val) | PZero | PInit (c : chunkid)
  | PSelect (a : aref) (k : key).               (* Select(a, k) *)

  (* Exec.select(array, key, ex.storages, symbolic) *)
  Fixpoint pselect (st : pdefs) (sym : bool) (a : aref) (k : key) {struct st} : pres :=
    match a with
    | AEmpty _ => if sym then PSelect a k else PZero          (* name matches ^storage_.+_00$ *)
    | AVar n =>
        match st with
        | [] => PSelect a k                                   (* not in `arrays`, not an initial array *)
        | (m, (base, k0, v0)) :: rest =>
            if (n =? m)%nat then
              match orc k k0 with
              | MustEq => PVal v0
              | MustNeq => pselect rest sym base k
              | Unknown => PSelect a k
              end
            else pselect rest sym a k
        end
    end.

  Definition pfind (s : pstate) (c : chunkid) : option pchunk :=
    match find (fun p => cid_eqb (fst p) c) (p_mapping s) with Some (_, ch) => Some ch | None => None end.
  Definition parr (s : pstate) (c : chunkid) : aref :=
    match pfind s c with Some (PArr a) => a | _ => AEmpty c end.   (* init(): cls.empty *)

  (* load: result and the Exec afterwards (only ex.path changes) *)
  Definition pload (s : pstate) (c : chunkid) (k : key) : pres * pstate :=
    if cid_scalar c then
      (match pfind s c with
       | Some (PScalar v) => PVal v
       | Some (PArr _) => PZero
       | None => if p_symbolic s then PInit c else PZero
       end, s)
    else
      let path' := if emits_empty (p_symbolic s) (key_is_value k) then AxEmpty c k :: p_path s else p_path s in
      (pselect (p_storages s) (p_symbolic s) (parr s c) k,
       {| p_symbolic := p_symbolic s; p_mapping := p_mapping s; p_storages := p_storages s; p_path := path' |}).

  Definition pstore (s : pstate) (c : chunkid) (k : key) (v : val) : pstate :=
    if cid_scalar c then
      {| p_symbolic := p_symbolic s; p_mapping := (c, PScalar v) :: p_mapping s;
         p_storages := p_storages s; p_path := p_path s |}
    else
      let n := S (length (p_storages s)) in
      let base := parr s c in
      {| p_symbolic := p_symbolic s; p_mapping := (c, PArr (AVar n)) :: p_mapping s;
         p_storages := (n, (base, k, v)) :: p_storages s;
         p_path := AxDef n base k v :: p_path s |}.

  (* a straight-line sequence of SSTORE/SLOADs on one account through a decoder: the terms the
     loads return, in order, and the Exec at the end (its path holds every axiom emitted) *)
  Variable decode : loc -> res (chunkid * key).
  Fixpoint prun (s : pstate) (ops : list (op val)) : list pres * pstate :=
    match ops with
    | [] => ([], s)
    | OStore l v :: r =>
        match decode l with
        | Ok d => prun (pstore s (fst d) (snd d) v) r
        | Err _ => ([], s)
        end
    | OLoad l :: r =>
        match decode l with
        | Ok d => let p := pload s (fst d) (snd d) in
                  let q := prun (snd p) r in (fst p :: fst q, snd q)
        | Err _ => ([], s)
        end
    end.
End PathStore.
Arguments AxDef {key val}. Arguments AxEmpty {key val}.
Arguments PScalar {val}. Arguments PArr {val}.
Arguments PVal {key val}. Arguments PZero {key val}. Arguments PInit {key val}. Arguments PSelect {key val}.

(* ------------------------------------------------------------------ the two layouts as decoders *)
Definition FUEL : nat := 64.

(* Solidity layout: key = the decoded components; chunk = (slot, num_keys, size_keys) *)
Definition sol_decode (R : registry) (l : loc) : res (chunkid * list kt) :=
  bind (key_structure precomputed R FUEL l)
    (fun r => match r with (slot, keys, n, sz) => Ok ((slot, n, sz), keys) end).

(* generic layout: key = the location itself together with the registry it was decoded
   under (its denotation is decode_gen's value); chunk = size of the decoded term *)
Record gkey := { g_reg : registry; g_loc : loc }.
Definition gen_decode (R : registry) (l : loc) : res (chunkid * gkey) :=
  bind (decode_gen precomputed R (fun _ => 0) FUEL l)
    (fun r => Ok ((-1, 1, fst r), {| g_reg := R; g_loc := l |})).

(* SEVM.sload / sstore on one account's storage, both layouts *)
Section Run.
  Variable val : Type.
  Definition sol_load (orc : list kt -> list kt -> tri) (R : registry) (s : storage (list kt) val) (l : loc) :=
    bind (sol_decode R l) (fun d => Ok (load _ _ orc s (fst d) (snd d))).
  Definition sol_store (R : registry) (s : storage (list kt) val) (l : loc) (v : val) :=
    bind (sol_decode R l) (fun d => Ok (store _ _ s (fst d) (snd d) v)).
  Definition gen_load (orc : gkey -> gkey -> tri) (R : registry) (s : storage gkey val) (l : loc) :=
    bind (gen_decode R l) (fun d => Ok (load _ _ orc s (fst d) (snd d))).
  Definition gen_store (R : registry) (s : storage gkey val) (l : loc) (v : val) :=
    bind (gen_decode R l) (fun d => Ok (store _ _ s (fst d) (snd d) v)).

  (* is_bv_value(simplify(concat(keys))) / is_bv_value(<decoded generic term>), under the same
     abstraction of simplify as `simp`: a key is a value iff no symbolic word is left in it *)
  Definition kt_is_value (k : kt) : bool :=
    match k with
    | KW ts => match simp_add (map simp ts) with K _ => true | _ => false end
    | KN _ (NKc _) => true
    | KN _ (NKv _) => false
    end.
  Definition sol_key_is_value (ks : list kt) : bool := forallb kt_is_value ks.
  Fixpoint loc_is_value (l : loc) : bool :=
    match l with
    | K _ => true | V _ => false | ShaC _ _ => true
    | Sha256 a => loc_is_value a
    | Sha512 k a => loc_is_value k && loc_is_value a
    | ShaN _ (NKc _) a => loc_is_value a
    | ShaN _ (NKv _) _ => false
    | Add ls => forallb loc_is_value ls
    end.
  Definition gen_key_is_value (g : gkey) : bool := loc_is_value (g_loc g).

  (* the path-level runs of the two layouts: the guard of the emptiness axiom is the code's *)
  Definition sol_prun (orc : list kt -> list kt -> tri) (R : registry) :=
    prun (list kt) val orc sol_key_is_value sol_load_emits_empty (sol_decode R).
  Definition gen_prun (orc : gkey -> gkey -> tri) (R : registry) :=
    prun gkey val orc gen_key_is_value gen_load_emits_empty (gen_decode R).
End Run.

(* ------------------------------------------------------------------ denotations of decoded keys *)
Section Den.
  Variable H : Z -> Z -> Z.
  Variable e : env.
  Definition sum_val (ts : list loc) : Z := (fold_right (fun t acc => eval H e t + acc) 0 ts) mod W.
  Definition kt_val (k : kt) : Z := match k with KW ts => sum_val ts | KN bits k => eval_nkey e bits k end.
  (* the number denoted by concat(keys) *)
  Definition keys_val (keys : list kt) : Z := fold_left (fun acc k => acc * 2 ^ key_bits k + kt_val k) keys 0.
  Definition gkey_val (g : gkey) : Z :=
    match decode_gen precomputed (g_reg g) e FUEL (g_loc g) with Ok (_, v) => v | Err _ => 0 end.
End Den.
