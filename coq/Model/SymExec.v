(* Mini-SEVM: executable model of the exploration skeleton of halmos' SEVM.run for the
   call-free instruction subset: worklist exploration (here: depth-first recursion), stack /
   memory / storage over symbolic terms, path conditions, JUMPI branching through the
   REGENERATED decision function Gen.GenJumpi.jumpi_decide (loop-unrolling accounting
   included), stuck paths for what halmos cannot concretise.  No proofs in this file.

   Terms denote EVM words by construction (the exactness of halmos' own term building is
   property C06); byte-level memory is the flat array of C07.  Instructions outside the
   subset (calls, creations, logs, copies, MSIZE, EXT*, BALANCE of a symbolic address, ...)
   end the path as [LStuck]: the model makes no claim about them. *)
From Coq Require Import ZArith List Bool.
From HV Require Import Base.Word Spec.Evm Gen.GenJumpi.
Import ListNotations.
Open Scope Z_scope.

Inductive var := VCaller | VOrigin | VValue | VArg (i : nat) | VBal (a : Z).

Inductive term :=
| TConst (z : Z)
| TVar (v : var)
| TBin (b : bop) (x y : term)
| TUn (u : uop) (x : term)
| TTern (t : top) (x y z : term)
| TWord (bs : list (nat * term))         (* big-endian word made of 32 byte-terms *)
| TSha (bs : list (nat * term))          (* keccak256 of the byte-terms *)
| TLoad (ws : list (term * term)) (k : term)    (* storage read: last write to k, else 0 *)
| TZAdd (x y : term)                             (* unbounded integer + and -: balance bookkeeping *)
| TZSub (x y : term).

(* (i, t) is byte i (0 = most significant) of the 32-byte word t *)
Definition bterm := (nat * term)%type.

Fixpoint lookupZ (k : Z) (l : list (Z * Z)) : Z :=
  match l with [] => 0 | (k', v) :: r => if k =? k' then v else lookupZ k r end.

Fixpoint eval (rho : var -> Z) (t : term) : Z :=
  match t with
  | TConst z => z
  | TVar v => rho v
  | TBin b x y => bop_sem b (eval rho x) (eval rho y)
  | TUn u x => uop_sem u (eval rho x)
  | TTern o x y z => top_sem o (eval rho x) (eval rho y) (eval rho z)
  | TWord bs =>
      be_num 0 ((fix go (l : list (nat * term)) : list Z :=
                   match l with [] => [] | (i, t) :: r => nth i (be_bytes 32 (eval rho t)) 0 :: go r end) bs)
  | TSha bs =>
      keccak_bytes ((fix go (l : list (nat * term)) : list Z :=
                       match l with [] => [] | (i, t) :: r => nth i (be_bytes 32 (eval rho t)) 0 :: go r end) bs)
  | TLoad ws k =>
      lookupZ (eval rho k)
        ((fix go (l : list (term * term)) : list (Z * Z) :=
            match l with [] => [] | (a, b) :: r => (eval rho a, eval rho b) :: go r end) ws)
  | TZAdd x y => eval rho x + eval rho y
  | TZSub x y => eval rho x - eval rho y
  end.

Definition beval (rho : var -> Z) (b : bterm) : Z := nth (fst b) (be_bytes 32 (eval rho (snd b))) 0.

(* ---------------------------------------------------------------- symbolic environment / state *)
Record senv := mkSEnv {
  se_this : Z;
  se_code : list Z;
  se_caller : term;
  se_origin : term;
  se_value : term;
  se_data : list bterm;
  se_static : bool;
  se_depth : nat;
  se_block : blockctx;
  se_bal : list (Z * term);      (* balances changed by value transfers so far; others: TVar (VBal a) *)
}.

Definition sbal (se : senv) (a : Z) : term :=
  match alookup a (se_bal se) with Some t => t | None => TVar (VBal a) end.

Definition cond := (term * bool)%type.     (* (c, true): c <> 0 ; (c, false): c = 0 *)
Definition jid := (nat * list Z)%type.

Record sstate := mkSS {
  ss_pc : nat;
  ss_stack : list term;
  ss_mem : list bterm;
  ss_store : list (term * term);
  ss_tstore : list (term * term);
  ss_path : list cond;
  ss_visits : list (jid * (Z * Z));
  ss_ret : list bterm;            (* returndata of the last sub-call *)
}.

Inductive leaf_kind :=
| LOk (ret : list bterm) (store tstore : list (term * term))
| LRevert (ret : list bterm)
| LHalt (kind : Z)
| LStuck (why : Z)
| LFuel.

Record leaf := mkLeaf { l_path : list cond; l_kind : leaf_kind }.

Inductive sres :=
| SNext (s : sstate)
| SLeaf (k : leaf_kind)
| SBranch (c : term) (target : Z) (rest : list term).   (* JUMPI with a non-literal condition *)

(* reasons a path gets stuck *)
Definition ST_SYMBOLIC := 1.   (* symbolic offset / size / jump target *)
Definition ST_UNMODELLED := 2. (* instruction outside the modelled subset *)

Definition bzero : bterm := (31%nat, TConst 0).
Definition word_bytes (t : term) : list bterm := map (fun i => (i, t)) (seq 0 32).
Definition smread (m : list bterm) (off size : nat) : list bterm :=
  firstn size (skipn off m ++ repeat bzero size).
Definition smwrite (m : list bterm) (off : nat) (bs : list bterm) : list bterm :=
  let need := (off + length bs)%nat in
  let m1 := if (length m <? need)%nat then m ++ repeat bzero (need - length m) else m in
  firstn off m1 ++ bs ++ skipn need m1.

Definition set_stack (s : sstate) (st : list term) (pc : nat) : sstate :=
  mkSS pc st (ss_mem s) (ss_store s) (ss_tstore s) (ss_path s) (ss_visits s) (ss_ret s).
Definition set_mem (s : sstate) (m : list bterm) : sstate :=
  mkSS (ss_pc s) (ss_stack s) m (ss_store s) (ss_tstore s) (ss_path s) (ss_visits s) (ss_ret s).

Section Step.
Variable mem_limit : Z.
Variable se : senv.

Definition snext (s : sstate) (st : list term) : sres :=
  if (1024 <? length st)%nat then SLeaf (LHalt H_OVERFLOW) else SNext (set_stack s st (S (ss_pc s))).
Definition shalt (k : Z) : sres := SLeaf (LHalt k).
Definition sstuck (w : Z) : sres := SLeaf (LStuck w).

Definition s_oog_word (off : Z) : bool := mem_limit <? off.
Definition s_oog_range (off size : Z) : bool := negb (size =? 0) && (mem_limit <? off + size).

Definition senv_value (s : sstate) (g : envop) : option term :=
  match g with
  | EAddress => Some (TConst (se_this se))
  | EOrigin => Some (se_origin se)
  | ECaller => Some (se_caller se)
  | ECallvalue => Some (se_value se)
  | ECalldatasize => Some (TConst (Z.of_nat (length (se_data se))))
  | ECodesize => Some (TConst (Z.of_nat (length (se_code se))))
  | EReturndatasize => Some (TConst (Z.of_nat (length (ss_ret s))))
  | ECoinbase => Some (TConst (b_coinbase (se_block se)))
  | ETimestamp => Some (TConst (b_timestamp (se_block se)))
  | ENumber => Some (TConst (b_number (se_block se)))
  | EDifficulty => Some (TConst (b_difficulty (se_block se)))
  | EGaslimit => Some (TConst (b_gaslimit (se_block se)))
  | EChainid => Some (TConst (b_chainid (se_block se)))
  | ESelfbalance => Some (sbal se (se_this se))
  | EBasefee => Some (TConst (b_basefee (se_block se)))
  | EPc => Some (TConst (Z.of_nat (ss_pc s)))
  | EMsize => None                                      (* halmos' MSIZE ignores expansion by reads: not modelled *)
  end.

Definition sstep_i (i : instr) (s : sstate) : sres :=
  let code := se_code se in
  let pc := ss_pc s in
  let st := ss_stack s in
  match i with
  | IPush n =>
      let v := be_num 0 (zread code (S pc) n) in
      if (1024 <? S (length st))%nat then shalt H_OVERFLOW
      else SNext (set_stack s (TConst v :: st) (pc + 1 + n))
  | IPush0 => snext s (TConst 0 :: st)
  | IDup n => match nth_error st n with Some v => snext s (v :: st) | None => shalt H_UNDERFLOW end
  | ISwap n =>
      match st, nth_error st n with
      | a :: r, Some b => snext s (b :: firstn (n - 1) r ++ a :: skipn n r)
      | _, _ => shalt H_UNDERFLOW
      end
  | IPop => match st with _ :: r => snext s r | _ => shalt H_UNDERFLOW end
  | IStop => SLeaf (LOk [] (ss_store s) (ss_tstore s))
  | IInvalid => shalt H_INVALID
  | IJumpdest => snext s st
  | IBin b => match st with x :: y :: r => snext s (TBin b x y :: r) | _ => shalt H_UNDERFLOW end
  | IUn u => match st with x :: r => snext s (TUn u x :: r) | _ => shalt H_UNDERFLOW end
  | ITern o => match st with x :: y :: z :: r => snext s (TTern o x y z :: r) | _ => shalt H_UNDERFLOW end
  | IEnv g => match senv_value s g with Some t => snext s (t :: st) | None => sstuck ST_UNMODELLED end
  | IBalance =>
      match st with
      | TConst a :: r => snext s (sbal se (a mod 2 ^ 160) :: r)
      | _ :: _ => sstuck ST_SYMBOLIC
      | [] => shalt H_UNDERFLOW
      end
  | ICalldataload =>
      match st with
      | TConst off :: r =>
          if off <? 0 then sstuck ST_SYMBOLIC
          else snext s (TWord (smread (se_data se) (Z.to_nat off) 32) :: r)
      | _ :: _ => sstuck ST_SYMBOLIC
      | [] => shalt H_UNDERFLOW
      end
  | IMload =>
      match st with
      | TConst off :: r =>
          if off <? 0 then sstuck ST_SYMBOLIC
          else if s_oog_word off then shalt H_OOG
          else snext s (TWord (smread (ss_mem s) (Z.to_nat off) 32) :: r)
      | _ :: _ => sstuck ST_SYMBOLIC
      | [] => shalt H_UNDERFLOW
      end
  | IMstore =>
      match st with
      | TConst off :: v :: r =>
          if off <? 0 then sstuck ST_SYMBOLIC
          else if s_oog_word off then shalt H_OOG
          else snext (set_mem s (smwrite (ss_mem s) (Z.to_nat off) (word_bytes v))) r
      | [_] | [] => shalt H_UNDERFLOW
      | _ => sstuck ST_SYMBOLIC
      end
  | IMstore8 =>
      match st with
      | TConst off :: v :: r =>
          if off <? 0 then sstuck ST_SYMBOLIC
          else if s_oog_word off then shalt H_OOG
          else snext (set_mem s (smwrite (ss_mem s) (Z.to_nat off) [(31%nat, v)])) r
      | [_] | [] => shalt H_UNDERFLOW
      | _ => sstuck ST_SYMBOLIC
      end
  | ISload => match st with k :: r => snext s (TLoad (ss_store s) k :: r) | _ => shalt H_UNDERFLOW end
  | ITload => match st with k :: r => snext s (TLoad (ss_tstore s) k :: r) | _ => shalt H_UNDERFLOW end
  | ISstore =>
      match st with
      | k :: v :: r =>
          if se_static se then shalt H_STATIC
          else if (1024 <? length r)%nat then shalt H_OVERFLOW
          else SNext (mkSS (S pc) r (ss_mem s) ((k, v) :: ss_store s) (ss_tstore s) (ss_path s) (ss_visits s) (ss_ret s))
      | _ => shalt H_UNDERFLOW
      end
  | ITstore =>
      match st with
      | k :: v :: r =>
          if se_static se then shalt H_STATIC
          else if (1024 <? length r)%nat then shalt H_OVERFLOW
          else SNext (mkSS (S pc) r (ss_mem s) (ss_store s) ((k, v) :: ss_tstore s) (ss_path s) (ss_visits s) (ss_ret s))
      | _ => shalt H_UNDERFLOW
      end
  | ISha3 =>
      match st with
      | TConst off :: TConst size :: r =>
          if (off <? 0) || (size <? 0) then sstuck ST_SYMBOLIC
          else if s_oog_range off size then shalt H_OOG
          else snext s (TSha (smread (ss_mem s) (Z.to_nat off) (Z.to_nat size)) :: r)
      | [_] | [] => shalt H_UNDERFLOW
      | _ => sstuck ST_SYMBOLIC
      end
  | IJump =>
      match st with
      | TConst t :: r =>
          if is_jumpdest code t then SNext (set_stack s r (Z.to_nat t)) else shalt H_BADJUMP
      | _ :: _ => sstuck ST_SYMBOLIC
      | [] => shalt H_UNDERFLOW
      end
  | IJumpi =>
      match st with
      | TConst t :: TConst c :: r =>
          if c =? 0 then snext s r
          else if is_jumpdest code t then SNext (set_stack s r (Z.to_nat t)) else shalt H_BADJUMP
      | TConst t :: c :: r => SBranch c t r
      | [_] | [] => shalt H_UNDERFLOW
      | _ => sstuck ST_SYMBOLIC
      end
  | IReturn | IRevert =>
      match st with
      | TConst off :: TConst size :: _ =>
          if (off <? 0) || (size <? 0) then sstuck ST_SYMBOLIC
          else if s_oog_range off size then shalt H_OOG
          else
            let data := smread (ss_mem s) (Z.to_nat off) (Z.to_nat size) in
            match i with
            | IReturn => SLeaf (LOk data (ss_store s) (ss_tstore s))
            | _ => SLeaf (LRevert data)
            end
      | [_] | [] => shalt H_UNDERFLOW
      | _ => sstuck ST_SYMBOLIC
      end
  | ICalldatacopy | ICodecopy =>
      match st with
      | TConst d :: TConst o :: TConst n :: r =>
          if (d <? 0) || (o <? 0) || (n <? 0) then sstuck ST_SYMBOLIC
          else if s_oog_range d n then shalt H_OOG
          else
            let src := match i with
                       | ICalldatacopy => smread (se_data se) (Z.to_nat o) (Z.to_nat n)
                       | _ => map (fun b => (31%nat, TConst (b mod 256))) (zread code (Z.to_nat o) (Z.to_nat n))
                       end in
            if n =? 0 then snext s r
            else snext (set_mem s (smwrite (ss_mem s) (Z.to_nat d) src)) r
      | [_; _] | [_] | [] => shalt H_UNDERFLOW
      | _ => sstuck ST_SYMBOLIC
      end
  | IMcopy =>
      match st with
      | TConst d :: TConst o :: TConst n :: r =>
          if (d <? 0) || (o <? 0) || (n <? 0) then sstuck ST_SYMBOLIC
          else if s_oog_range o n then shalt H_OOG
          else if s_oog_range d n then shalt H_OOG
          else if n =? 0 then snext s r
          else snext (set_mem s (smwrite (ss_mem s) (Z.to_nat d) (smread (ss_mem s) (Z.to_nat o) (Z.to_nat n)))) r
      | [_; _] | [_] | [] => shalt H_UNDERFLOW
      | _ => sstuck ST_SYMBOLIC
      end
  | IReturndatacopy =>
      match st with
      | TConst d :: TConst o :: TConst n :: r =>
          if (d <? 0) || (o <? 0) || (n <? 0) then sstuck ST_SYMBOLIC
          else if Z.of_nat (length (ss_ret s)) <? o + n then shalt H_OOB
          else if s_oog_range d n then shalt H_OOG
          else if n =? 0 then snext s r
          else snext (set_mem s (smwrite (ss_mem s) (Z.to_nat d) (smread (ss_ret s) (Z.to_nat o) (Z.to_nat n)))) r
      | [_; _] | [_] | [] => shalt H_UNDERFLOW
      | _ => sstuck ST_SYMBOLIC
      end
  | ILog n =>
      match st with
      | TConst off :: TConst size :: r =>
          if se_static se then shalt H_STATIC
          else if (length r <? n)%nat then shalt H_UNDERFLOW
          else if (off <? 0) || (size <? 0) then sstuck ST_SYMBOLIC
          else if s_oog_range off size then shalt H_OOG
          else SNext (set_stack s (skipn n r) (S pc))
      | [_] | [] => shalt H_UNDERFLOW
      | _ => sstuck ST_SYMBOLIC
      end
  | _ => sstuck ST_UNMODELLED
  end.

Definition sstep (s : sstate) : sres :=
  match nth_error (se_code se) (ss_pc s) with
  | None => SLeaf (LOk [] (ss_store s) (ss_tstore s))
  | Some op => sstep_i (decode_op op) s
  end.

(* ---------------------------------------------------------------- exploration *)
Variable oracle : list cond -> term -> bool -> Z.     (* R_SAT / R_UNSAT / R_UNKNOWN *)
Variable loop : Z.

Definition jid_eqb (a b : jid) : bool :=
  Nat.eqb (fst a) (fst b) &&
  ((fix eq (x y : list Z) : bool :=
      match x, y with
      | [], [] => true
      | u :: x', v :: y' => (u =? v) && eq x' y'
      | _, _ => false
      end) (snd a) (snd b)).

Fixpoint visits_of (j : jid) (l : list (jid * (Z * Z))) : Z * Z :=
  match l with
  | [] => (0, 0)
  | (j', v) :: r => if jid_eqb j j' then v else visits_of j r
  end.

Definition jumpid (s : sstate) : jid :=
  (ss_pc s,
   flat_map (fun t => match t with
                      | TConst z => if is_jumpdest (se_code se) z then [z] else []
                      | _ => []
                      end) (ss_stack s)).

Fixpoint sexec (fuel : nat) (s : sstate) : list leaf * bool :=
  match fuel with
  | O => ([mkLeaf (ss_path s) LFuel], false)
  | S f =>
      match sstep s with
      | SNext s' => sexec f s'
      | SLeaf k => ([mkLeaf (ss_path s) k], false)
      | SBranch c target rest =>
          let ct := oracle (ss_path s) c true in
          let cf := oracle (ss_path s) c false in
          let j := jumpid s in
          let '(vt, vf) := visits_of j (ss_visits s) in
          let d := jumpi_decide ct cf vt vf loop in
          if d_follow_true d && negb (is_jumpdest (se_code se) target) then
            (* an invalid destination: the inputs that take the jump halt, on a path of their own that
               carries the condition (the code re-executes the instruction there; with a decided
               condition it records the condition and halts the whole state); the fall-through side of
               a symbolic condition goes on as usual *)
            let vis_f := (j, (vt, vf + 1)) :: ss_visits s in
            let s_f := mkSS (S (ss_pc s)) rest (ss_mem s) (ss_store s) (ss_tstore s)
                            ((c, false) :: ss_path s) vis_f (ss_ret s) in
            let r2 := if d_symbolic d && d_follow_false d then sexec f s_f else ([], false) in
            (mkLeaf ((c, true) :: ss_path s) (LHalt H_BADJUMP) :: fst r2, d_logged d || snd r2)
          else
            let vis_t := if d_symbolic d then (j, (vt + 1, vf)) :: ss_visits s else ss_visits s in
            let vis_f := if d_symbolic d then (j, (vt, vf + 1)) :: ss_visits s else ss_visits s in
            (* the taken side resumes after the JUMPDEST (pc = target + 1) *)
            let s_t := mkSS (S (Z.to_nat target)) rest (ss_mem s) (ss_store s) (ss_tstore s)
                            ((c, true) :: ss_path s) vis_t (ss_ret s) in
            let s_f := mkSS (S (ss_pc s)) rest (ss_mem s) (ss_store s) (ss_tstore s)
                            ((c, false) :: ss_path s) vis_f (ss_ret s) in
            let r1 := if d_follow_true d then sexec f s_t else ([], false) in
            let r2 := if d_follow_false d then sexec f s_f else ([], false) in
            (fst r1 ++ fst r2, d_logged d || snd r1 || snd r2)
      end
  end.
End Step.

Definition init_sstate : sstate := mkSS 0 [] [] [] [] [] [] [].
