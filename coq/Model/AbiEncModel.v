(* Executable model of halmos.calldata (parse_type / parse_tuple_type, Calldata.get_dyn_sizes,
   Calldata.encode, Calldata.encode_tuple), of Concretization.process_dyn_params and of the
   size-symbol branching in SEVM.calldataload.  Follows the Python branch by branch.
   No proofs in this file (Proofs/AbiEncProofs.v).

   The arithmetic of the encoder (size_pad_right, head_size, the word/bit constants) and the
   literals (dynamic base type names) come from Gen/GenAbiEnc.v, regenerated from
   src/halmos/calldata.py on every run; process_dyn_params and the concretization a path gets
   from Path.branch / Path.extend_path come from Gen/GenDynParams.v (src/halmos/sevm.py).

   Symbols.  Every z3 symbol created by the encoder is named
       p_<name>_<typ|length>_<uid()>_<new_symbol_id()>
   where each creation makes one call to uid() and one to new_symbol_id().  The model
   identifies a symbol by the index k of that pair of calls (0,1,2,... within one
   Calldata object); the real name is distinct from all others as soon as either
   new_symbol_id is a strictly increasing counter or the uid() draws are distinct
   (stated as an assumption of the tie, checked on every generated case). *)
From Coq Require Import ZArith List Bool Lia.
From HV Require Import Spec.AbiSpec Gen.GenAbiEnc Gen.GenDynParams.
Import ListNotations.
Open Scope Z_scope.

(* ------------------------------------------------------------------ parse_type *)

(* an "inputs"/"components" entry of the ABI JSON *)
Inductive jitem := JItem (name typ : str) (comps : list jitem).
Definition jname (j : jitem) : str := match j with JItem n _ _ => n end.

Fixpoint span_digits (s : str) : str * str :=
  match s with
  | c :: r => if is_digit c then let '(d, rest) := span_digits r in (c :: d, rest) else ([], s)
  | [] => ([], [])
  end.

Definition no_nl (s : str) : bool := forallb (fun c => negb (c =? 10)) s.

(* `$` also matches just before a trailing newline *)
Definition strip_nl_rev (r : str) : str := match r with 10 :: r' => r' | _ => r end.

(* the array-suffix re.search of parse_type: anything (no newline), then an opening bracket,
   decimal digits (possibly none), a closing bracket, end  ->  Some (group 1, group 3) *)
Definition match_array (typ : str) : option (str * str) :=
  match strip_nl_rev (rev typ) with
  | 93 :: r =>                                   (* ']' *)
      let '(drev, rest) := span_digits r in
      match rest with
      | 91 :: brev =>                            (* '[' *)
          if no_nl brev then Some (rev brev, rev drev) else None
      | _ => None
      end
  | _ => None
  end.

Definition all_digits (s : str) : bool := forallb is_digit s.

Definition strip_nl (s : str) : str := rev (strip_nl_rev (rev s)).

(* the supported-type re.search of parse_type: the alternatives (optional leading u, literal
   word, optional digits) are regenerated from the source *)
Definition match_word (lit : str) (digits : bool) (s : str) : bool :=
  match strip_prefix lit s with
  | Some d => if digits then all_digits d else match d with [] => true | _ => false end
  | None => false
  end.

Definition match_alt (s : str) (alt : bool * str * bool) : bool :=
  let '(optu, lit, digits) := alt in
  match_word lit digits s
  || (if optu then match s with 117 :: r => match_word lit digits r | _ => false end else false).

Definition supported (typ : str) : bool := existsb (match_alt (strip_nl typ)) gen_supported_alts.

Definition int_of_digits (d : str) : nat :=
  match dec_acc 0 d with Some z => Z.to_nat z | None => O end.

(* parse_type on the type string; [tup] is what parse_tuple_type(var, item["components"])
   gives.  The recursion is on a strictly shorter string; fuel = S (length typ). *)
Fixpoint parse_str (fuel : nat) (typ : str) (tup : option ty) : option ty :=
  match fuel with
  | O => None
  | S f =>
      match match_array typ with
      | Some (base_type, array_len) =>
          match parse_str f base_type tup with
          | Some base =>
              match array_len with
              | [] => Some (Dyn base)
              | _ => Some (Fixed base (int_of_digits array_len))
              end
          | None => None
          end
      | None =>
          if supported typ then
            if str_eqb typ gen_s_tuple then tup else Some (Base typ)
          else None                                 (* NotImplementedError *)
      end
  end.

Fixpoint sequence {A} (l : list (option A)) : option (list A) :=
  match l with
  | [] => Some []
  | Some x :: r => match sequence r with Some xs => Some (x :: xs) | None => None end
  | None :: _ => None
  end.

Fixpoint parse_item (j : jitem) : option ty :=
  match j with
  | JItem _ typ comps =>
      let tup :=
        option_map Tuple
          (sequence (map (fun cj => option_map (pair (jname cj)) (parse_item cj)) comps)) in
      parse_str (S (length typ)) typ tup
  end.

(* parse_tuple_type("", inputs) *)
Definition parse_inputs (inputs : list jitem) : option ty :=
  option_map Tuple (sequence (map (fun cj => option_map (pair (jname cj)) (parse_item cj)) inputs)).

(* ------------------------------------------------------------------ encoder *)

Inductive item :=
| SymWord (k : nat) (name typ : str)              (* BitVec("p_<name>_<typ>_..", 256) *)
| SymBytes (k : nat) (name typ : str) (n : nat)   (* BitVec("p_<name>_<typ>_..", 8*n), n bytes *)
| SizeVar (k : nat) (name : str) (sizes : list nat)  (* BitVec("p_<name>_length_..", 256) *)
| Con (z : Z).                                    (* con(total_size) *)

Record enc := { e_items : list item; e_size : nat; e_static : bool }.

(* DynamicParam(name, size_choices, size_symbol, typ) *)
Record dynp := { d_name : str; d_sizes : list nat; d_id : nat; d_array : bool }.

Definition R := (enc * list dynp * nat)%type.

Definition maxl (l : list nat) : nat := fold_right Nat.max O l.   (* python max(); [] excluded *)

Definition pad (size : nat) : nat := Z.to_nat (gen_pad (Z.of_nat size)).

Fixpoint m_lookup (m : list (str * list nat)) (k : str) : option (list nat) :=
  match m with
  | [] => None
  | (k', v) :: r => if str_eqb k' k then Some v else m_lookup r k
  end.

(* Calldata.get_dyn_sizes: (sizes, size_var) and the DynamicParam appended to dyn_params *)
Definition get_dyn_sizes (c : cfg) (name : str) (is_array : bool) (k : nat) : list nat * item * dynp :=
  let sizes :=
    match m_lookup (c_lengths c) name with
    | Some l => l
    | None => if is_array then c_array c else c_bytes c
    end in
  (sizes, SizeVar k name sizes, {| d_name := name; d_sizes := sizes; d_id := k; d_array := is_array |}).

Definition head_size (x : enc) : nat :=
  Z.to_nat (gen_head_size (Z.of_nat (e_size x)) (e_static x)).

(* the `for item in items` loop of encode_tuple: (heads, tails, total_size) *)
Fixpoint et_loop (xs : list enc) (total : nat) : list item * list item * nat :=
  match xs with
  | [] => ([], [], total)
  | x :: r =>
      if e_static x then
        let '(h, t, s) := et_loop r total in (e_items x ++ h, t, s)
      else
        let '(h, t, s) := et_loop r (total + e_size x)%nat in
        (Con (Z.of_nat total) :: h, e_items x ++ t, s)
  end.

Definition encode_tuple (xs : list enc) : enc :=
  let total_head_size := fold_left (fun s x => (s + head_size x)%nat) xs O in
  let '(heads, tails, total) := et_loop xs total_head_size in
  {| e_items := heads ++ tails; e_size := total;
     e_static := match tails with [] => true | _ => false end |}.

Fixpoint run_list (fs : list (nat -> R)) (k : nat) : list enc * list dynp * nat :=
  match fs with
  | [] => ([], [], k)
  | f :: r =>
      let '(e, d, k1) := f k in
      let '(es, ds, k2) := run_list r k1 in
      (e :: es, d ++ ds, k2)
  end.

Definition m_idx (name : str) (i : nat) : str := name ++ [91] ++ dec_str i ++ [93].   (* f"{name}[{i}]" *)
Definition m_prefix (name : str) : str := match name with [] => [] | _ => name ++ [46] end.

Definition is_dyn_base (s : str) : bool := existsb (str_eqb s) gen_dyn_base_names.

Fixpoint encode (c : cfg) (name : str) (t : ty) (k : nat) {struct t} : R :=
  match t with
  | Tuple its =>
      let '(es, ds, k') :=
        run_list (map (fun it => encode c (m_prefix name ++ fst it) (snd it)) its) k in
      (encode_tuple es, ds, k')
  | Fixed t' n =>
      let '(es, ds, k') := run_list (map (fun i => encode c (m_idx name i) t') (seq 0 n)) k in
      (encode_tuple es, ds, k')
  | Dyn t' =>
      let '(sizes, sv, dp) := get_dyn_sizes c name true k in
      let '(es, ds, k') :=
        run_list (map (fun i => encode c (m_idx name i) t') (seq 0 (maxl sizes))) (S k) in
      let e := encode_tuple es in
      ({| e_items := sv :: e_items e; e_size := Z.to_nat gen_dyn_len_bytes + e_size e; e_static := gen_dyn_static |}, dp :: ds, k')
  | Base s =>
      (* new_symbol consumes index k even when no symbol is built from it *)
      if is_dyn_base s then
        let '(sizes, sv, dp) := get_dyn_sizes c name false (S k) in
        let size := maxl sizes in
        let size_pad_right := pad size in
        let data := if (0 <? size)%nat then [SymBytes k name s size_pad_right] else [] in
        ({| e_items := sv :: data; e_size := Z.to_nat gen_bytes_len_bytes + size_pad_right; e_static := gen_bytes_static |}, [dp], S (S k))
      else
        ({| e_items := [SymWord k name s]; e_size := Z.to_nat gen_static_size; e_static := gen_static_static |}, [], S k)
  end.

(* Calldata.create without the selector: encode("", parse_tuple_type("", inputs)) *)
Definition create (c : cfg) (t : ty) (k0 : nat) : R := encode c [] t k0.

(* ------------------------------------------------------------------ instantiation *)

Fixpoint be_bytes (n : nat) (w : Z) : bytes :=
  match n with
  | O => []
  | S n' => be_bytes n' (w / 256) ++ [w mod 256]
  end.

Fixpoint fit (n : nat) (bs : bytes) : bytes :=
  match n with
  | O => []
  | S n' => match bs with [] => 0 :: fit n' [] | b :: r => b :: fit n' r end
  end.

(* the bytes denoted by an item under a valuation of the symbols *)
Definition inst_item (rw : nat -> Z) (rb : nat -> bytes) (it : item) : bytes :=
  match it with
  | SymWord k _ _ => be_bytes 32 (rw k)
  | SymBytes k _ _ n => fit n (rb k)
  | SizeVar k _ _ => be_bytes 32 (rw k)
  | Con z => be_bytes 32 z
  end.

Definition instantiate (rw : nat -> Z) (rb : nat -> bytes) (its : list item) : bytes :=
  concat (map (inst_item rw rb) its).

Definition item_size (it : item) : nat :=
  match it with SymBytes _ _ _ n => n | _ => 32%nat end.

Definition item_id (it : item) : list nat :=
  match it with SymWord k _ _ | SymBytes k _ _ _ | SizeVar k _ _ => [k] | Con _ => [] end.

Definition dyn_of_item (it : item) : list (nat * list nat) :=
  match it with SizeVar k _ sizes => [(k, sizes)] | _ => [] end.

(* observables of an item list: total byte size, symbol indices, size symbols with candidates *)
Fixpoint lsum (l : list nat) : nat := match l with [] => O | x :: r => (x + lsum r)%nat end.
Definition items_size (its : list item) : nat := lsum (map item_size its).
Definition ids (its : list item) : list nat := flat_map item_id its.
Definition dyns (its : list item) : list (nat * list nat) := flat_map dyn_of_item its.
Definition dpair (d : dynp) : nat * list nat := (d_id d, d_sizes d).

(* ------------------------------------------------------------------ calldataload on a size symbol *)

(* Concretization.process_dyn_params, regenerated from sevm.py on every run (Gen/GenDynParams.v):
   on the code as it is, candidates[d.size_symbol] = d.size_choices for every d, nothing removed.
   Dicts are association lists, newest binding first. *)
Definition process_dyn_params (ds : list dynp) (cands : list (nat * list nat)) : list (nat * list nat) :=
  gen_process_dyn_params (map dpair ds) cands.

Fixpoint assoc {A} (m : list (nat * A)) (k : nat) : option A :=
  match m with
  | [] => None
  | (k', v) :: r => if Nat.eqb k' k then Some v else assoc r k
  end.

Inductive loaded := LVar (k : nat) | LOther.     (* is_expr_var(loaded) or not *)
Inductive pushed := PConst (z : Z) | PSame.      (* what is pushed on the stack *)

(* SEVM.calldataload after `loaded = ex.calldata().get_word(offset)`:
   the list of successor states as (branch condition `sym == cand` if any, pushed value).
   Which of the three outcomes applies -- the constant the path has fixed the symbol to, one
   successor per candidate, the word itself -- is decided by gen_calldataload, regenerated from
   the if/elif chain of SEVM.calldataload on every run (on the code as it is: the substitution
   first, then the candidates). *)
Definition calldataload (subst : list (nat * Z)) (cands : list (nat * list nat)) (l : loaded)
  : list (option (nat * nat) * pushed) :=
  match l with
  | LVar k =>
      gen_calldataload true (assoc subst k) (assoc cands k)
        (fun z => [(None, PConst z)])
        (fun cs => map (fun c => (Some (k, c), PConst (Z.of_nat c))) cs)
        [(None, PSame)]
  | LOther =>
      gen_calldataload false None None
        (fun z => [(None, PConst z)]) (fun _ => [(None, PSame)]) [(None, PSame)]
  end.

(* ------------------------------------------------------------------ several calldata in one path *)

(* One path registers many calldata: setUp's, then the test's or one per invariant transaction
   (each Path extends the previous one: Path.extend_path copies the concretization), and
   svm.createCalldata registers one per function of the target contract in a loop
   (cheatcodes.create_calldata_generic), all in the same Concretization, with the symbol counter
   (Exec.new_symbol_id) running on.  The state of a path as far as calldata is concerned: *)
Record pstate := { p_next : nat; p_subst : list (nat * Z); p_cands : list (nat * list nat) }.

Inductive pev :=
| EvCalldata (c : cfg) (t : ty)   (* mk_calldata(abi, f, args, new_symbol_id); path.process_dyn_params(dyn_params) *)
| EvBranch                        (* Path.branch(cond): the successor continues with its copy of the concretization *)
| EvExtend                        (* Path(solver).extend_path(path): the next transaction / the call made with the calldata *)
| EvFix (k : nat) (z : Z)         (* path.append(sym_k == z) -> Concretization.process_cond: substitution[sym_k] = z *)
| EvSkip (n : nat).               (* n other symbols are created (fallback_selector/fallback_input, svm.create*, ...) *)

(* the successor state and the dynamic parameters registered by the event *)
Definition pstep (s : pstate) (ev : pev) : pstate * list dynp :=
  match ev with
  | EvCalldata c t =>
      let '(_, ds, k') := create c t (p_next s) in
      ({| p_next := k'; p_subst := p_subst s; p_cands := process_dyn_params ds (p_cands s) |}, ds)
  | EvBranch =>
      let '(su, ca) := gen_branch_conc (p_subst s) (p_cands s) in
      ({| p_next := p_next s; p_subst := su; p_cands := ca |}, [])
  | EvExtend =>
      let '(su, ca) := gen_extend_conc (p_subst s) (p_cands s) in
      ({| p_next := p_next s; p_subst := su; p_cands := ca |}, [])
  | EvFix k z => ({| p_next := p_next s; p_subst := (k, z) :: p_subst s; p_cands := p_cands s |}, [])
  | EvSkip n => ({| p_next := (p_next s + n)%nat; p_subst := p_subst s; p_cands := p_cands s |}, [])
  end.

Fixpoint prun (s : pstate) (evs : list pev) : pstate * list dynp :=
  match evs with
  | [] => (s, [])
  | ev :: r =>
      let '(s1, ds1) := pstep s ev in
      let '(s2, ds2) := prun s1 r in
      (s2, ds1 ++ ds2)
  end.

(* all the calldata items created along a run, in creation order *)
Fixpoint pitems (s : pstate) (evs : list pev) : list item :=
  match evs with
  | [] => []
  | ev :: r =>
      match ev with
      | EvCalldata c t => e_items (fst (fst (create c t (p_next s))))
      | _ => []
      end ++ pitems (fst (pstep s ev)) r
  end.
