(* C11 model: solve.refine (over the regenerated rules of Gen/GenRefine.v), an evaluator
   for the s-expression bodies with SMT-LIB semantics (Base/SmtBV.v), solve.dump (plain /
   --cache-solver) and sevm.Path (conditions / solver / sliced; append, branch+activate,
   slice, extend_path, to_smt2).  Follows the Python branch by branch.  No proofs. *)
From Coq Require Import ZArith List String Ascii Bool.
From HV Require Import Base.SmtBV Model.SexpDefs Gen.GenRefine Spec.SmtQuerySpec.
Import ListNotations.
Open Scope Z_scope.

(* ------------------------------------------------------------------ strings *)
Definition is_digit (c : ascii) : bool :=
  let n := N_of_ascii c in (48 <=? n)%N && (n <=? 57)%N.

Fixpoint all_digits (s : string) : bool :=
  match s with
  | EmptyString => true
  | String c r => is_digit c && all_digits r
  end.

(* [0-9]+ *)
Definition is_digits (s : string) : bool :=
  match s with EmptyString => false | _ => all_digits s end.

Fixpoint dec_acc (acc : Z) (s : string) : Z :=
  match s with
  | EmptyString => acc
  | String c r => dec_acc (acc * 10 + (Z.of_N (N_of_ascii c) - 48)) r
  end.

Definition parse_dec (s : string) : option Z :=
  if is_digits s then Some (dec_acc 0 s) else None.

Fixpoint strip_prefix (p s : string) : option string :=
  match p with
  | EmptyString => Some s
  | String a p' =>
      match s with
      | String b s' => if Ascii.eqb a b then strip_prefix p' s' else None
      | EmptyString => None
      end
  end.

(* ------------------------------------------------------------------ solve.refine *)
(* where group 2 (the width) sits: first atom of the subject at a position where the
   template has the atom [\2] *)
Fixpoint find_g2 (t : tsx) (s : sexp) : option string :=
  match t, s with
  | TAtom [PG2], Atom a => Some a
  | TList tl, SList sl =>
      (fix go (tl : list tsx) (sl : list sexp) : option string :=
         match tl, sl with
         | t' :: tl', s' :: sl' =>
             match find_g2 t' s' with
             | Some a => Some a
             | None => go tl' sl'
             end
         | _, _ => None
         end) tl sl
  | _, _ => None
  end.

(* does command c match the declaration pattern of rule r?  -> (op, width digits).
   re semantics: group 1 is one of the alternatives, group 2 is [0-9]+, every \2 is the
   same text; everything else literal. *)
Definition match_rule (r : rule) (c : sexp) : option (string * string) :=
  match find_g2 (rule_decl r) c with
  | Some ns =>
      if is_digits ns then
        match find (fun op => sexp_eqb c (inst op ns (rule_decl r))) (rule_ops r) with
        | Some op => Some (op, ns)
        | None => None
        end
      else None
  | None => None
  end.

Definition apply_rule (c : sexp) (r : rule) : sexp :=
  match match_rule r c with
  | Some (op, ns) => inst op ns (rule_repl r)
  | None => c
  end.

(* the re.sub calls are applied one after the other *)
Definition refine_cmd (c : sexp) : sexp := fold_left apply_rule refine_rules c.

(* SMTQuery(smtlib, assertions) with smtlib seen as a list of commands *)
Definition refine_query (q : list sexp * list Z) : list sexp * list Z :=
  (map refine_cmd (fst q), snd q).

(* ---- text level: one line of the query *)
Inductive tok : Type := TOpen | TClose | TAt (s : string).

Definition rev_string (s : string) : string :=
  (fix go (s acc : string) : string :=
     match s with EmptyString => acc | String c r => go r (String c acc) end) s EmptyString.

(* tokens of a line; cur = current atom reversed.  A space or parenthesis ends an atom. *)
Fixpoint tokens (s : string) (cur : string) : list tok :=
  let flush := match cur with EmptyString => [] | _ => [TAt (rev_string cur)] end in
  match s with
  | EmptyString => flush
  | String c r =>
      if Ascii.eqb c "("%char then flush ++ TOpen :: tokens r EmptyString
      else if Ascii.eqb c ")"%char then flush ++ TClose :: tokens r EmptyString
      else if Ascii.eqb c " "%char then flush ++ tokens r EmptyString
      else tokens r (String c cur)
  end.

(* stack parser: stack of partially built lists (reversed) *)
Fixpoint parse_toks (ts : list tok) (stack : list (list sexp)) : option sexp :=
  match ts with
  | [] => match stack with [[x]] => Some x | _ => None end
  | TOpen :: r => parse_toks r ([] :: stack)
  | TClose :: r =>
      match stack with
      | top :: under :: st => parse_toks r ((SList (rev top) :: under) :: st)
      | _ => None
      end
  | TAt a :: r =>
      match stack with
      | top :: st => parse_toks r ((Atom a :: top) :: st)
      | [] => None
      end
  end.

Definition parse_line (s : string) : option sexp := parse_toks (tokens s EmptyString) [[]].

(* the regex demands the exact one-line spelling render prints; any other line is left alone *)
Definition refine_line (s : string) : string :=
  match parse_line s with
  | Some c => if String.eqb (render c) s then render (refine_cmd c) else s
  | None => s
  end.

(* ------------------------------------------------------------------ SMT-LIB evaluation *)
Inductive val : Type := VBV (w v : Z) | VB (b : bool).

Fixpoint lookup (env : list (string * val)) (a : string) : option val :=
  match env with
  | [] => None
  | (k, v) :: r => if String.eqb k a then Some v else lookup r a
  end.

Definition bvbin (op : string) : option (Z -> Z -> Z -> Z) :=
  if String.eqb op "bvmul" then Some bvmul
  else if String.eqb op "bvudiv" then Some bvudiv
  else if String.eqb op "bvurem" then Some bvurem
  else if String.eqb op "bvsdiv" then Some bvsdiv
  else if String.eqb op "bvsrem" then Some bvsrem
  else if String.eqb op "bvadd" then Some bvadd
  else if String.eqb op "bvsub" then Some bvsub
  else None.

(* (_ BitVec N) *)
Definition sort_width (s : sexp) : option Z :=
  match s with
  | SList [Atom u; Atom b; Atom n] =>
      if String.eqb u "_" && String.eqb b "BitVec" then
        match parse_dec n with Some w => if 0 <? w then Some w else None | None => None end
      else None
  | _ => None
  end.

Fixpoint eval (env : list (string * val)) (s : sexp) : option val :=
  match s with
  | Atom a =>
      if String.eqb a "true" then Some (VB true)
      else if String.eqb a "false" then Some (VB false)
      else lookup env a
  | SList [Atom h; a; b] =>
      if String.eqb h "_" then
        (* (_ bvK W) *)
        match a, b with
        | Atom k, Atom w =>
            match strip_prefix "bv" k, parse_dec w with
            | Some ks, Some wv =>
                match parse_dec ks with
                | Some kv => if 0 <? wv then Some (VBV wv (kv mod 2 ^ wv)) else None
                | None => None
                end
            | _, _ => None
            end
        | _, _ => None
        end
      else if String.eqb h "=" then
        match eval env a, eval env b with
        | Some (VBV w1 v1), Some (VBV w2 v2) => if w1 =? w2 then Some (VB (v1 =? v2)) else None
        | Some (VB b1), Some (VB b2) => Some (VB (Bool.eqb b1 b2))
        | _, _ => None
        end
      else
        match bvbin h with
        | Some f =>
            match eval env a, eval env b with
            | Some (VBV w1 v1), Some (VBV w2 v2) => if w1 =? w2 then Some (VBV w1 (f w1 v1 v2)) else None
            | _, _ => None
            end
        | None => None
        end
  | SList [Atom h; c; a; b] =>
      if String.eqb h "ite" then
        match eval env c, eval env a, eval env b with
        | Some (VB cb), Some (VBV w1 v1), Some (VBV w2 v2) =>
            if w1 =? w2 then Some (VBV w1 (if cb then v1 else v2)) else None
        | Some (VB cb), Some (VB b1), Some (VB b2) => Some (VB (if cb then b1 else b2))
        | _, _, _ => None
        end
      else None
  | _ => None
  end.

(* bind the parameters ((x sort) (y sort) ...) to the arguments, checking the sorts *)
Fixpoint bind_params (ps : list sexp) (args : list val) : option (list (string * val)) :=
  match ps, args with
  | [], [] => Some []
  | SList [Atom v; srt] :: ps', VBV w x :: args' =>
      match sort_width srt, bind_params ps' args' with
      | Some w', Some env => if w' =? w then Some ((v, VBV w x) :: env) else None
      | _, _ => None
      end
  | _, _ => None
  end.

(* value of (define-fun name params ret body) applied to args; None if ill-sorted *)
Definition eval_define (c : sexp) (args : list val) : option val :=
  match c with
  | SList [Atom d; Atom name; SList ps; ret; body] =>
      if String.eqb d "define-fun" then
        match bind_params ps args, sort_width ret with
        | Some env, Some wr =>
            match eval env body with
            | Some (VBV w v) => if w =? wr then Some (VBV w v) else None
            | _ => None
            end
        | _, _ => None
        end
      else None
  | _ => None
  end.

(* (name, argument sorts, result sort) of a declare-fun / define-fun *)
Definition signature (c : sexp) : option (string * list sexp * sexp) :=
  match c with
  | SList [Atom d; Atom name; SList args; ret] =>
      if String.eqb d "declare-fun" then Some (name, args, ret) else None
  | SList [Atom d; Atom name; SList ps; ret; body] =>
      if String.eqb d "define-fun" then
        Some (name, map (fun p => match p with SList [_; srt] => srt | _ => p end) ps, ret)
      else None
  | _ => None
  end.

(* ------------------------------------------------------------------ solve.dump *)
Fixpoint render_dpieces (smtlib named id : string) (ps : list dpiece) : string :=
  match ps with
  | [] => ""
  | DLit s :: r => s ++ render_dpieces smtlib named id r
  | DSmtlib :: r => smtlib ++ render_dpieces smtlib named id r
  | DNamed :: r => named ++ render_dpieces smtlib named id r
  | DId :: r => id ++ render_dpieces smtlib named id r
  end.

Fixpoint named_text (ids : list string) : string :=
  match ids with
  | [] => ""
  | i :: r => render_dpieces "" "" i named_assertion ++ named_text r
  end.

(* the text written to <path_id>.smt2 *)
Definition dump_text (cache_solver : bool) (smtlib : string) (ids : list string) : string :=
  if cache_solver then render_dpieces smtlib (named_text ids) "" dump_cached
  else render_dpieces smtlib "" "" dump_plain.

Fixpoint unlines (l : list string) : string :=
  match l with [] => "" | s :: r => s ++ nl ++ unlines r end.

(* the same file as a list of commands around the query *)
Definition dump_named_cmds (ids : list string) : list sexp :=
  map (fun i => inst i "" named_assertion_sx) ids.

(* ------------------------------------------------------------------ sevm.Path *)
(* dict idx -> value with Python's `d[k] = v` (an existing key keeps its position) *)
Fixpoint dict_set {V : Type} (m : list (nat * V)) (k : nat) (v : V) : list (nat * V) :=
  match m with
  | [] => [(k, v)]
  | (k', v') :: r => if Nat.eqb k' k then (k, v) :: r else (k', v') :: dict_set r k v
  end.

Fixpoint dict_get {V : Type} (m : list (nat * V)) (k : nat) : option V :=
  match m with
  | [] => None
  | (k', v') :: r => if Nat.eqb k' k then Some v' else dict_get r k
  end.

(* related[i] for the indices the model looks up (always present on a well-formed path) *)
Definition rel_get (m : list (nat * list nat)) (i : nat) : list nat :=
  match dict_get m i with Some l => l | None => [] end.

(* set.add *)
Definition set_add (l : list nat) (i : nat) : list nat :=
  if existsb (Nat.eqb i) l then l else (l ++ [i])%list.

Section PathModel.
  Variable cond : Type.                       (* a z3 Boolean term *)
  Variable cond_eqb : cond -> cond -> bool.   (* structural equality (dict key equality) *)
  Variable simp : cond -> cond.               (* z3.simplify *)
  Variable is_true : cond -> bool.            (* z3.is_true *)
  Variable vars : cond -> list Z.             (* get_var_set *)
  Variable cid : cond -> Z.                   (* cond.get_id() *)

  Record path : Type := mkPath {
    conditions : list (cond * bool);          (* insertion-ordered dict cond -> branching *)
    pending : list cond;
    related : list (nat * list nat);          (* dict idx -> set of related condition indices *)
    var_to_conds : list (Z * list nat);       (* defaultdict(set) var -> condition indices *)
    sliced : option (list nat);
    solver : list cond;                       (* assertions visible in the z3 solver when this path is active *)
  }.

  Definition empty_path (solver0 : list cond) : path := mkPath [] [] [] [] None solver0.

  Definition v2c_has (m : list (Z * list nat)) (v : Z) : bool :=
    existsb (fun kv => fst kv =? v) m.

  (* defaultdict.__getitem__ on a missing key stores a new empty set under it *)
  Definition v2c_touch (m : list (Z * list nat)) (v : Z) : list (Z * list nat) :=
    if v2c_has m v then m else (m ++ [(v, [])])%list.

  Definition v2c_get (m : list (Z * list nat)) (v : Z) : list nat :=
    match find (fun kv => fst kv =? v) m with Some kv => snd kv | None => [] end.

  Fixpoint v2c_update (m : list (Z * list nat)) (v : Z) (f : list nat -> list nat) : list (Z * list nat) :=
    match m with
    | [] => []
    | (k, l) :: r => if k =? v then (k, f l) :: r else (k, l) :: v2c_update r v f
    end.

  (* self.var_to_conds[var].add(idx) *)
  Definition v2c_add (m : list (Z * list nat)) (v : Z) (idx : nat) : list (Z * list nat) :=
    v2c_update (v2c_touch m v) v (fun l => set_add l idx).

  (* for var in var_set: conds.update(self.var_to_conds[var]) *)
  Fixpoint v2c_collect (m : list (Z * list nat)) (vs : list Z) (acc : list nat)
    : list nat * list (Z * list nat) :=
    match vs with
    | [] => (acc, m)
    | v :: r => let m' := v2c_touch m v in v2c_collect m' r (acc ++ v2c_get m' v)%list
    end.

  (* Path._get_related: conds = union of var_to_conds[var]; result = conds U related[cond];
     also returns var_to_conds, which the look-ups may have extended with empty sets *)
  Definition get_related (p : path) (var_set : list Z) : list nat * list (Z * list nat) :=
    let (conds, m') := v2c_collect (var_to_conds p) var_set [] in
    ((conds ++ flat_map (rel_get (related p)) conds)%list, m').

  Definition has_cond (c : cond) (l : list (cond * bool)) : bool :=
    existsb (fun cb => cond_eqb c (fst cb)) l.

  (* Path.append *)
  Definition append (p : path) (c0 : cond) (branching : bool) : path :=
    let c := simp c0 in
    if is_true c then p
    else if has_cond c (conditions p) then p
    else
      let idx := List.length (conditions p) in
      let vs := vars c in
      let (rel, m1) := get_related p vs in
      mkPath (conditions p ++ [(c, branching)])%list (pending p)
             (dict_set (related p) idx rel)
             (fold_left (fun m v => v2c_add m v idx) vs m1)
             (sliced p) (solver p ++ [c])%list.

  Definition extend (p : path) (cs : list cond) (branching : bool) : path :=
    fold_left (fun q c => append q c branching) cs p.

  (* Path.branch: None models `raise ValueError("branching from an inactive path")` *)
  Definition branch (p : path) (c : cond) : option path :=
    match pending p with
    | _ :: _ => None
    | [] => Some (mkPath (conditions p) [c] (related p) (var_to_conds p) None (solver p))
    end.

  (* Path.activate: the solver is popped back to the scope saved by branch (= the
     parent's assertions at that time), then the pending conditions are appended *)
  Definition activate (p : path) : path :=
    let q := extend p (pending p) true in
    mkPath (conditions q) [] (related q) (var_to_conds q) (sliced q) (solver q).

  (* Path.slice, the body of its `for idx in self.var_to_conds[var]` loop: a condition that is
     not yet in the slice joins it and its variables are appended to the worklist.  The
     worklist is kept as a stack whose head is the END of the Python list (`worklist.pop()`).
     None models the IndexError of `conds[idx]`. *)
  Fixpoint slice_visit (conds : list (cond * bool)) (idxs : list nat) (sl : list nat) (work : list Z)
    : option (list nat * list Z) :=
    match idxs with
    | [] => Some (sl, work)
    | idx :: r =>
        if existsb (Nat.eqb idx) sl then slice_visit conds r sl work
        else
          match nth_error conds idx with
          | Some cb => slice_visit conds r (sl ++ [idx])%list (rev (vars (fst cb)) ++ work)%list
          | None => None
          end
    end.

  (* `while worklist:` -- every variable is expanded once (`seen`), every condition joins the
     slice once, so slice_fuel iterations are enough; running out of fuel is None *)
  Fixpoint slice_loop (fuel : nat) (conds : list (cond * bool)) (m : list (Z * list nat))
                      (sl : list nat) (seen work : list Z) : option (list nat * list (Z * list nat)) :=
    match fuel with
    | O => None
    | S f =>
        match work with
        | [] => Some (sl, m)
        | var :: rest =>
            if existsb (Z.eqb var) seen then slice_loop f conds m sl seen rest
            else
              let m' := v2c_touch m var in
              match slice_visit conds (v2c_get m' var) sl rest with
              | Some (sl', work') => slice_loop f conds m' sl' (var :: seen) work'
              | None => None
              end
        end
    end.

  Definition slice_fuel (conds : list (cond * bool)) (var_set : list Z) : nat :=
    S (List.length var_set + List.length (flat_map (fun cb => vars (fst cb)) conds)).

  (* Path.slice: every condition connected to var_set through shared variables, in either
     order of appearance (a closure over var_to_conds / get_var_set; `related` is not used).
     None models `raise ValueError("already sliced")` *)
  Definition slice (p : path) (var_set : list Z) : option path :=
    match sliced p with
    | Some _ => None
    | None =>
        match slice_loop (slice_fuel (conditions p) var_set) (conditions p) (var_to_conds p) [] [] (rev var_set) with
        | Some (sl, m') => Some (mkPath (conditions p) (pending p) (related p) m' (Some sl) (solver p))
        | None => None
        end
    end.

  Fixpoint select_idx (l : list (cond * bool)) (idx : nat) (keep : list nat) : list cond :=
    match l with
    | [] => []
    | (c, _) :: r =>
        if existsb (Nat.eqb idx) keep then c :: select_idx r (S idx) keep
        else select_idx r (S idx) keep
    end.

  (* what Path.extend_path adds to the solver of the new path *)
  Definition solver_additions (conds : list (cond * bool)) (parent_sliced : option (list nat)) : list cond :=
    match parent_sliced with
    | None => map fst conds
    | Some sl => select_idx conds 0 sl
    end.

  (* Path.extend_path (self = p, argument = parent), each container copied *)
  Definition extend_path (p parent : path) : path :=
    mkPath (conditions parent) (pending p) (related parent) (var_to_conds parent)
           (sliced p) (solver p ++ solver_additions (conditions parent) (sliced parent))%list.

  (* Path.to_smt2: every key of `conditions`, in order; tracked by its id with --cache-solver *)
  Inductive qassert : Type := QPlain (c : cond) | QTracked (id : Z) (c : cond).

  Definition to_smt2_of (conds : list (cond * bool)) (cache_solver : bool) : list qassert * list Z :=
    (map (fun cb => if cache_solver then QTracked (cid (fst cb)) (fst cb) else QPlain (fst cb)) conds,
     map (fun cb => cid (fst cb)) conds).

  Definition to_smt2 (p : path) (cache_solver : bool) : list qassert * list Z :=
    to_smt2_of (conditions p) cache_solver.

  (* a path's life: operations applied to the currently executing path object *)
  Inductive pop : Type :=
  | OAppend (c : cond) (branching : bool)   (* path.append(c, branching) *)
  | OBranch (c : cond)                      (* child = path.branch(c); child.activate(); continue in child *)
  | OFork (c : cond)                        (* child = path.branch(c); continue in the (pending) child *)
  | OActivate                               (* path.activate() *)
  | OSlice (var_set : list Z)               (* path.slice(var_set) at the end of a transaction *)
  | OExtend (fresh_solver : list cond).     (* new = Path(solver); new.extend_path(path); continue in new *)

  Definition step (p : path) (o : pop) : option path :=
    match o with
    | OAppend c b => Some (append p c b)
    | OBranch c => match branch p c with Some q => Some (activate q) | None => None end
    | OFork c => branch p c
    | OActivate => Some (activate p)
    | OSlice vs => slice p vs
    | OExtend s0 => Some (extend_path (empty_path s0) p)
    end.

  Fixpoint run (p : path) (ops : list pop) : option path :=
    match ops with
    | [] => Some p
    | o :: r => match step p o with Some q => run q r | None => None end
    end.

  (* every constraint handed to the path, in the order in which it joins the path: the
     condition of a fork is pending until the forked path is activated *)
  Fixpoint accumulated_from (pend : list cond) (ops : list pop) : list cond :=
    match ops with
    | [] => []
    | OAppend c _ :: r => c :: accumulated_from pend r
    | OBranch c :: r => c :: accumulated_from pend r
    | OFork c :: r => accumulated_from (pend ++ [c]) r
    | OActivate :: r => (pend ++ accumulated_from [] r)%list
    | OSlice _ :: r => accumulated_from pend r
    | OExtend _ :: r => accumulated_from [] r      (* the new Path object has nothing pending *)
    end.

  Definition accumulated (ops : list pop) : list cond := accumulated_from [] ops.

  (* every constraint handed to the path or to the fork that created it: a fork condition is a
     constraint of the forked path from the moment of the fork *)
  Definition handed (ops : list pop) : list cond :=
    flat_map (fun o => match o with OAppend c _ => [c] | OBranch c => [c] | OFork c => [c] | _ => [] end) ops.

  (* the pending list after the operations *)
  Fixpoint pending_after (pend : list cond) (ops : list pop) : list cond :=
    match ops with
    | [] => pend
    | OFork c :: r => pending_after (pend ++ [c]) r
    | OActivate :: r => pending_after [] r
    | OExtend _ :: r => pending_after [] r
    | _ :: r => pending_after pend r
    end.

  (* no Path(...).extend_path(p) on a p that still waits for activation (extend_path takes
     `conditions` only: what is pending on p would be lost) *)
  Fixpoint extends_active_from (pend : list cond) (ops : list pop) : bool :=
    match ops with
    | [] => true
    | OFork c :: r => extends_active_from (pend ++ [c]) r
    | OActivate :: r => extends_active_from [] r
    | OExtend _ :: r => match pend with [] => extends_active_from [] r | _ :: _ => false end
    | _ :: r => extends_active_from pend r
    end.

  (* what the solvers handed to Path(...) already held: the first one, then one per extension *)
  Definition bases (s0 : list cond) (ops : list pop) : list cond :=
    (s0 ++ flat_map (fun o => match o with OExtend s1 => s1 | _ => [] end) ops)%list.

  Definition last_base (s0 : list cond) (ops : list pop) : list cond :=
    fold_left (fun b o => match o with OExtend s1 => s1 | _ => b end) ops s0.

  Definition no_slice (ops : list pop) : bool :=
    forallb (fun o => match o with OSlice _ => false | _ => true end) ops.
End PathModel.

Arguments mkPath {cond}.
Arguments conditions {cond}.
Arguments pending {cond}.
Arguments related {cond}.
Arguments var_to_conds {cond}.
Arguments sliced {cond}.
Arguments solver {cond}.
Arguments QPlain {cond}.
Arguments QTracked {cond}.
Arguments OAppend {cond}.
Arguments OBranch {cond}.
Arguments OFork {cond}.
Arguments OActivate {cond}.
Arguments OSlice {cond}.
Arguments OExtend {cond}.

(* the assertions of the file written by solve.dump for the query of Path.to_smt2, in the
   vocabulary of Spec/SmtQuerySpec.v: with --cache-solver every tracked implication is
   followed (after all of them) by the named assertion of its tracking literal *)
Definition dump_asserts {cond : Type} (cache_solver : bool) (q : list (qassert cond) * list Z)
  : list (SmtQuerySpec.assertion cond) :=
  (map (fun a => match a with
                | QPlain c => SmtQuerySpec.APlain c
                | QTracked id c => SmtQuerySpec.ATracked id c
                end) (fst q)
   ++ (if cache_solver then map (fun id => SmtQuerySpec.ANamed id) (snd q) else []))%list.
