(* Third layer of the C07 model: how src/halmos/sevm.py (and Contract.slice of
   contract.py) drive the ByteVec API for the instructions that move bytes between memory,
   calldata, code and returndata -- State.mslice / State.set_mslice, Message.calldata_slice,
   Contract.slice, copy_returndata_to_memory and the OP_MSTORE / OP_MSTORE8 / OP_MLOAD /
   OP_CALLDATACOPY / OP_CODECOPY / OP_EXTCODECOPY / OP_RETURNDATACOPY / OP_MCOPY / OP_MSIZE
   branches of SEVM.run, plus the memory side of SEVM.call (arguments read with mslice, the
   callee's RETURN read with mslice, the result written by copy_returndata_to_memory).
   Branch by branch; no proofs in this file (Proofs/MemOpsProofs.v).

   The offset/size -> start/stop wiring (which expression is handed to which parameter
   of slice / set_slice, the `if size:` guards, the out-of-bounds test of RETURNDATACOPY,
   min(ret_size, len(returndata)), the MSIZE rounding) is NOT written here: it is taken
   from Gen/GenMemWire.v, Gen/GenCodeSlice.v, regenerated from the Python on every run.

   Not modelled: the MAX_MEMORY_SIZE guards (OutOfGasError: gas is outside the property;
   the runs stay below the limit), symbolic offsets / sizes (NotConcreteError), the
   symbolic-offset branch of CODECOPY, ByteVec.concretize (identity without a
   substitution).  Sharing: the pure layer cannot express that copy_returndata_to_memory
   hands the callee's returndata object itself to set_slice (see ByteVecHeapModel.v and the
   isolation proviso: that object is never mutated afterwards). *)
From Coq Require Import List Arith Bool ZArith.
From HV Require Import Spec.MemSpec Model.ByteVecModel Gen.GenMemWire Gen.GenCodeSlice.
Import ListNotations.

(* the generated wiring is over Z (Python ints); offsets and sizes here are naturals *)
Definition zn2 (f : Z -> Z -> Z) (a b : nat) : nat := Z.to_nat (f (Z.of_nat a) (Z.of_nat b)).
Definition zb1 (f : Z -> bool) (a : nat) : bool := f (Z.of_nat a).
Definition zb2 (f : Z -> Z -> bool) (a b : nat) : bool := f (Z.of_nat a) (Z.of_nat b).
Definition zb3 (f : Z -> Z -> Z -> bool) (a b c : nat) : bool := f (Z.of_nat a) (Z.of_nat b) (Z.of_nat c).
Definition zb4 (f : Z -> Z -> Z -> Z -> bool) (a b c d : nat) : bool :=
  f (Z.of_nat a) (Z.of_nat b) (Z.of_nat c) (Z.of_nat d).
Definition zn3 (f : Z -> Z -> Z -> Z) (a b c : nat) : nat := Z.to_nat (f (Z.of_nat a) (Z.of_nat b) (Z.of_nat c)).

(* Python b[lo:hi] on bytes, for 0 <= lo, hi *)
Definition py_bytes_slice {A : Type} (l : list A) (lo hi : nat) : list A := firstn (hi - lo) (skipn lo l).

Section MemOps.
Variable B : Type.
Variable zero : B.

Notation chunk := (chunk B).
Notation bvec := (bvec B).

Inductive mres (A : Type) : Type :=
| ROk (a : A)
| RHalt            (* the frame halts exceptionally (OutOfBoundsRead) *)
| RErr.            (* a Python exception that is not an EVM halt (ValueError of set_slice, assert) *)
Arguments ROk {A}.
Arguments RHalt {A}.
Arguments RErr {A}.

(* ByteVec(b) for python bytes b *)
Definition of_bytes (d : list B) : bvec := append empty (wrap false d).

(* State.mslice(loc, size):   if not size: return ByteVec()
                              stop = loc + size ; return self.memory.slice(start=loc, stop=stop) *)
Definition mslice (mem : bvec) (loc size : nat) : bvec :=
  if zb2 mslice_empty loc size then empty
  else bslice B zero mem (zn2 mslice_start loc size) (zn2 mslice_stop loc size).

(* State.set_mslice(loc, data):   size = len(data) ; if not size: return
                                  stop = loc + size ; self.memory.set_slice(start=loc, stop=stop, value=data) *)
Definition set_mslice (mem : bvec) (loc : nat) (data : bvec) : option bvec :=
  if zb2 set_mslice_skip loc (blen data) then Some mem
  else set_slice B zero mem (zn2 set_mslice_start loc (blen data)) (zn2 set_mslice_stop loc (blen data))
                 (as_chunk None data).

(* Message.calldata_slice(start, size): self.data.slice(start=start, stop=start + size) *)
Definition calldata_slice (cd : bvec) (start size : nat) : bvec :=
  bslice B zero cd (zn2 calldata_slice_start start size) (zn2 calldata_slice_stop start size).

(* Contract._fastcode: the bytes of the first chunk of _code when it is a ConcreteChunk *)
Definition fastcode (code : bvec) : option (list B) :=
  match chunks code with
  | (_, Leaf false d s l) :: _ => Some (firstn l (skipn s d))
  | _ => None
  end.

(* Contract.slice(start, size):   stop = start + size
     if self._fastcode and stop < len(self._fastcode): return ByteVec(self._fastcode[start:stop])
     return self._code.slice(start, stop) *)
Definition contract_slice (code : bvec) (start size : nat) : bvec :=
  let slow := bslice B zero code (zn2 code_slow_start start size) (zn2 code_slow_stop start size) in
  match fastcode code with
  | Some fc =>
      if negb (length fc =? 0) && zb3 code_slice_fast start size (length fc)
      then of_bytes (py_bytes_slice fc (zn2 code_fast_lo start size) (zn2 code_fast_hi start size))
      else slow
  | None => slow
  end.

(* ---- one frame ---- *)

Record mframe : Type := MF { m_mem : bvec; m_rd : bvec }.
(* m_cd: the data of the frame's message; m_create: the message is a CREATE / CREATE2 (its data
   is then the init code, and the frame's calldata is empty) *)
Record menv : Type := ME { m_cd : bvec; m_code : bvec; m_create : bool }.

(* Message.calldata_slice: data = ByteVec() if self.is_create() else self.data *)
Definition frame_calldata (e : menv) : bvec :=
  if m_create e && calldata_empty_in_create 0%Z then empty else m_cd e.

Inductive msrc : Type :=
| MCalldata
| MCode
| MExt (c : option bvec).           (* ex.code.get(account_alias): a Contract or None *)

Inductive mbop : Type :=
| MMStore (loc : nat) (val : chunk)            (* state.memory.set_word(loc, val) *)
| MMStore8 (loc : nat) (sym : bool) (x : B)    (* state.memory.set_byte(loc, uint8(val)) *)
| MCopyIn (s : msrc) (loc off size : nat)
| MRetCopy (loc off size : nat)
| MMCopy (dst src size : nat)
| MLoadStore (src dst : nat).                  (* MLOAD src ; PUSH dst ; MSTORE *)

Definition lift (st : mframe) (r : option bvec) : mres mframe :=
  match r with Some m => ROk (MF m (m_rd st)) | None => RErr end.

(* the value MLOAD pushes, as MSTORE stores it again: python bytes -> int -> 32 bytes
   (a ConcreteChunk), a BitVecRef stays a 32-byte SymbolicChunk *)
Definition word_chunk (s : seg B) : chunk := Leaf (negb (fst s)) (snd s) 0 (length (snd s)).

Definition mb_apply (e : menv) (st : mframe) (o : mbop) : mres mframe :=
  let mem := m_mem st in
  match o with
  | MMStore loc val => lift st (set_word B zero mem loc val)
  | MMStore8 loc sym x => lift st (set_byte B zero mem loc sym x)
  | MCopyIn MCalldata loc off size =>
      (* if size: data = ex.message().calldata_slice(offset, size) ; state.set_mslice(loc, data) *)
      if zb3 calldatacopy_do loc off size then
        lift st (set_mslice mem (zn3 calldatacopy_dst loc off size)
                   (calldata_slice (frame_calldata e) (zn3 calldatacopy_a1 loc off size) (zn3 calldatacopy_a2 loc off size)))
      else ROk st
  | MCopyIn MCode loc off size =>
      (* if size: codeslice = ex.pgm.slice(int(offset), size) ; state.set_mslice(loc, codeslice) *)
      if zb3 codecopy_do loc off size then
        lift st (set_mslice mem (zn3 codecopy_dst loc off size)
                   (contract_slice (m_code e) (zn3 codecopy_a1 loc off size) (zn3 codecopy_a2 loc off size)))
      else ROk st
  | MCopyIn (MExt c) loc off size =>
      (* if size: account_code = ex.code.get(account_alias)
                  codeslice = account_code.slice(offset, size) if account_code is not None
                              else ByteVec().slice(offset, offset + size)
                  state.set_mslice(loc, codeslice) *)
      if zb3 extcodecopy_do loc off size then
        lift st (set_mslice mem (zn3 extcodecopy_dst loc off size)
                   match c with
                   | Some code => contract_slice code (zn3 extcodecopy_a1 loc off size) (zn3 extcodecopy_a2 loc off size)
                   | None => bslice B zero empty (zn3 extcodecopy_none_start loc off size)
                                                 (zn3 extcodecopy_none_stop loc off size)
                   end)
      else ROk st
  | MRetCopy loc off size =>
      (* if offset + size > ex.returndatasize(): raise OutOfBoundsRead
         if size: data = ex.returndata().slice(offset, offset + size) ; state.set_mslice(loc, data) *)
      if zb4 returndatacopy_oob loc off size (blen (m_rd st)) then RHalt
      else if zb3 returndatacopy_do loc off size then
        lift st (set_mslice mem (zn3 returndatacopy_dst loc off size)
                   (bslice B zero (m_rd st) (zn3 returndatacopy_a1 loc off size) (zn3 returndatacopy_a2 loc off size)))
      else ROk st
  | MMCopy dst src size =>
      (* if size: data = state.mslice(src_offset, size) ; state.set_mslice(dst_offset, data) *)
      if zb3 mcopy_do dst src size then
        lift st (set_mslice mem (zn3 mcopy_dst dst src size)
                   (mslice mem (zn3 mcopy_a1 dst src size) (zn3 mcopy_a2 dst src size)))
      else ROk st
  | MLoadStore src dst =>
      lift st (set_word B zero mem dst (word_chunk (get_word B zero mem src)))
  end.

Fixpoint mb_run (e : menv) (st : mframe) (ops : list mbop) : mres mframe :=
  match ops with
  | [] => ROk st
  | o :: r =>
      match mb_apply e st o with
      | ROk st' => mb_run e st' r
      | RHalt => RHalt
      | RErr => RErr
      end
  end.

(* copy_returndata_to_memory(returndata, ret_loc, ret_size, ex):
     actual_ret_size = len(returndata) ; effective_ret_size = min(ret_size, actual_ret_size)
     if not effective_ret_size: return
     data = returndata.slice(0, effective_ret_size) if effective_ret_size < actual_ret_size else returndata
     ex.st.set_mslice(ret_loc, data) *)
Definition copy_returndata_to_memory (rd : bvec) (ret_loc ret_size : nat) (mem : bvec) : option bvec :=
  let actual := blen rd in
  if zb2 retcopy_skip ret_size actual then Some mem
  else
    let data :=
      if zb2 retcopy_partial ret_size actual
      then bslice B zero rd (zn2 retcopy_slice_start ret_size actual) (zn2 retcopy_slice_stop ret_size actual)
      else rd in
    set_mslice mem ret_loc data.

(* ---- message calls (memory side of SEVM.call / call_known's callback) ---- *)

Inductive mop : Type :=
| MB (o : mbop)
| MCall (ccode : bvec) (aloc asize : nat) (body : list mbop) (roff rsize : nat) (oloc osize : nat)
| MCreate (loc size : nat) (body : list mbop) (roff rsize : nat) (reverts : bool).

(* SEVM.create: create_hexcode = ex.st.mslice(loc, size) ; create_code = Contract(create_hexcode) ;
   Message(data=create_hexcode, call_scheme=op) ; the init frame starts with State() *)
Definition init_frame (mem : bvec) (loc size : nat) (body : list mbop) : mres mframe :=
  let hex := mslice mem loc size in
  mb_run (ME hex hex true) (MF empty empty) body.

(* the code of the new account: deployed_bytecode = subcall.output.data (RETURN: ex.ret());
   None = nothing is deployed (exceptional halt) *)
Definition m_created (mem : bvec) (loc size : nat) (body : list mbop) (roff rsize : nat) : mres (option bvec) :=
  match init_frame mem loc size body with
  | ROk cst => ROk (Some (mslice (m_mem cst) roff rsize))
  | RHalt => ROk None
  | RErr => RErr
  end.

(* arg = ex.st.mslice(arg_loc, arg_size); the callee starts with an empty memory and
   EMPTY_BYTES as returndata; RETURN / REVERT: ex.halt(data=ex.ret()) with
   ret() = mslice(loc, size); an exceptional halt: ex.halt(data=ByteVec(), error=...) *)
Definition m_apply (e : menv) (st : mframe) (o : mop) : mres mframe :=
  match o with
  | MB b => mb_apply e st b
  | MCreate loc size body roff rsize reverts =>
      (* callback: new_ex.st = deepcopy(ex.st): the creator's memory is what it was;
         Exec.returndata(): EMPTY_BYTES after a creation without error, else output.data
         (REVERT: ex.ret(); an exceptional halt: ByteVec()) *)
      match init_frame (m_mem st) loc size body with
      | ROk cst => ROk (MF (m_mem st) (if reverts then mslice (m_mem cst) roff rsize else empty))
      | RHalt => ROk (MF (m_mem st) empty)
      | RErr => RErr
      end
  | MCall ccode aloc asize body roff rsize oloc osize =>
      let arg := mslice (m_mem st) aloc asize in
      match
        match mb_run (ME arg ccode false) (MF empty empty) body with
        | ROk cst => Some (mslice (m_mem cst) roff rsize)
        | RHalt => Some empty
        | RErr => None
        end
      with
      | Some rd =>
          match copy_returndata_to_memory rd oloc osize (m_mem st) with
          | Some m => ROk (MF m rd)
          | None => RErr
          end
      | None => RErr
      end
  end.

Fixpoint m_run (e : menv) (st : mframe) (ops : list mop) : mres mframe :=
  match ops with
  | [] => ROk st
  | o :: r =>
      match m_apply e st o with
      | ROk st' => m_run e st' r
      | RHalt => RHalt
      | RErr => RErr
      end
  end.

(* OP_MSIZE: size = len(state.memory) ; size = ((size + 31) // 32) * 32 *)
Definition msize (mem : bvec) : nat := Z.to_nat (msize_round (Z.of_nat (blen mem))).

(* ---- well-formedness of what is handed in ---- *)

Definition wf_frame (st : mframe) : Prop := wf (m_mem st) /\ wf (m_rd st).
Definition wf_env (e : menv) : Prop := wf (m_cd e) /\ wf (m_code e).

Definition mbop_ok (o : mbop) : Prop :=
  match o with
  | MMStore _ val => wfc val /\ clen val = 32
  | MCopyIn (MExt (Some c)) _ _ _ => wf c
  | _ => True
  end.

Definition mop_ok (o : mop) : Prop :=
  match o with
  | MB b => mbop_ok b
  | MCall ccode _ _ body _ _ _ _ => wf ccode /\ Forall mbop_ok body
  | MCreate _ _ body _ _ _ => Forall mbop_ok body
  end.

(* ---- what the operations mean on flat arrays (Spec/MemSpec.v): values and sources are
   replaced by the bytes they denote; MLOAD/MSTORE of a word is a 32 byte copy ---- *)

Definition abs_src (s : msrc) : fsrc B :=
  match s with
  | MCalldata => FCalldata
  | MCode => FCode
  | MExt (Some c) => FExt (Some (flat c))
  | MExt None => FExt None
  end.

Definition abs_mbop (o : mbop) : fbop B :=
  match o with
  | MMStore loc val => FMStore loc (cflat val)
  | MMStore8 loc _ x => FMStore8 loc x
  | MCopyIn s loc off size => FCopyIn (abs_src s) loc off size
  | MRetCopy loc off size => FRetCopy loc off size
  | MMCopy dst src size => FMCopy dst src size
  | MLoadStore src dst => FMCopy dst src 32
  end.

Definition abs_mop (o : mop) : fop B :=
  match o with
  | MB b => FB (abs_mbop b)
  | MCall ccode aloc asize body roff rsize oloc osize =>
      FCall (flat ccode) aloc asize (map abs_mbop body) roff rsize oloc osize
  | MCreate loc size body roff rsize reverts => FCreate loc size (map abs_mbop body) roff rsize reverts
  end.

Definition abs_frame (st : mframe) : fframe B := FF (flat (m_mem st)) (flat (m_rd st)).
Definition abs_env (e : menv) : fenv B := FE (if m_create e then [] else flat (m_cd e)) (flat (m_code e)).

End MemOps.

Arguments ROk {A}.
Arguments RHalt {A}.
Arguments RErr {A}.
Arguments MF {B}.
Arguments ME {B}.
Arguments m_mem {B}.
Arguments m_rd {B}.
Arguments m_cd {B}.
Arguments m_code {B}.
Arguments m_create {B}.
Arguments frame_calldata {B}.
Arguments MCalldata {B}.
Arguments MCode {B}.
Arguments MExt {B}.
Arguments MMStore {B}.
Arguments MMStore8 {B}.
Arguments MCopyIn {B}.
Arguments MRetCopy {B}.
Arguments MMCopy {B}.
Arguments MLoadStore {B}.
Arguments MB {B}.
Arguments MCall {B}.
Arguments MCreate {B}.
Arguments init_frame {B}.
Arguments m_created {B}.
Arguments of_bytes {B}.
Arguments fastcode {B}.
Arguments word_chunk {B}.
Arguments wf_frame {B}.
Arguments wf_env {B}.
Arguments mbop_ok {B}.
Arguments mop_ok {B}.
Arguments msize {B}.
Arguments lift {B}.
Arguments mb_apply {B}.
Arguments mb_run {B}.
Arguments m_apply {B}.
Arguments m_run {B}.
Arguments abs_src {B}.
Arguments abs_mbop {B}.
Arguments abs_mop {B}.
Arguments abs_frame {B}.
Arguments abs_env {B}.
Arguments contract_slice {B}.
Arguments mslice {B}.
Arguments set_mslice {B}.
Arguments calldata_slice {B}.
Arguments copy_returndata_to_memory {B}.
