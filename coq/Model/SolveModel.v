(* C04 model: solve.parse_const_value / halmos_var_pattern / is_model_valid /
   SolverOutput.from_result / solve_end_to_end / the valid-vs-invalid classification of
   _solve_end_to_end_callback.  The literals (prefixes, radices, marker, name prefixes)
   come from Gen/GenRefine.v, regenerated from solve.py.  No proofs. *)
From Coq Require Import ZArith List String Ascii Bool.
From HV Require Import Model.SexpDefs Gen.GenRefine Model.SmtTextModel.
Import ListNotations.
Open Scope Z_scope.

(* ------------------------------------------------------------------ int(s, radix) *)
Definition digit_val (c : ascii) : option Z :=
  let n := Z.of_N (N_of_ascii c) in
  if (48 <=? n) && (n <=? 57) then Some (n - 48)
  else if (97 <=? n) && (n <=? 102) then Some (n - 87)
  else if (65 <=? n) && (n <=? 70) then Some (n - 55)
  else None.

Fixpoint parse_radix (r : Z) (s : string) (acc : Z) : option Z :=
  match s with
  | EmptyString => Some acc
  | String c s' =>
      match digit_val c with
      | Some d => if d <? r then parse_radix r s' (acc * r + d) else None
      | None => None
      end
  end.

(* int(s, r) on a digit string; None models ValueError *)
Definition py_int (r : Z) (s : string) : option Z :=
  match s with EmptyString => None | _ => parse_radix r s 0 end.

Definition take2 (s : string) : string :=
  match s with
  | String a (String b _) => String a (String b EmptyString)
  | _ => s
  end.
Definition drop2 (s : string) : string :=
  match s with
  | String _ (String _ r) => r
  | _ => EmptyString
  end.

Definition is_ws (c : ascii) : bool :=
  let n := N_of_ascii c in (n =? 32)%N || ((9 <=? n)%N && (n <=? 13)%N).

(* str.split(): maximal runs of non-whitespace; cur = current token, reversed *)
Fixpoint split_ws (s : string) (cur : string) : list string :=
  let flush := match cur with EmptyString => [] | _ => [rev_string cur] end in
  match s with
  | EmptyString => flush
  | String c r => if is_ws c then (flush ++ split_ws r EmptyString)%list else split_ws r (String c cur)
  end.

Definition starts_with (p s : string) : bool :=
  match strip_prefix p s with Some _ => true | None => false end.

(* solve.parse_const_value: match value[:2] against the arms in order, else the first
   whitespace-separated token that starts with "bv" *)
Definition parse_const_value (v : string) : option Z :=
  match find (fun a => String.eqb (fst a) (take2 v)) const_arms with
  | Some (_, r) => py_int r (drop2 v)
  | None =>
      match find (starts_with const_fallback_prefix) (split_ws v EmptyString) with
      | Some tok => py_int 10 (drop2 tok)
      | None => None
      end
  end.

(* ------------------------------------------------------------------ halmos_var_pattern *)
Fixpoint no_space_bar (s : string) : bool :=
  match s with
  | EmptyString => true
  | String c r => negb (Ascii.eqb c " "%char) && negb (Ascii.eqb c "|"%char) && no_space_bar r
  end.

(* ((?:halmos_|p_)[^ |]+) *)
Definition var_name_ok (name : string) : bool :=
  existsb (fun p => match strip_prefix p name with
                    | Some rest => negb (String.eqb rest EmptyString) && no_space_bar rest
                    | None => false
                    end) var_prefixes.

Fixpoint all_chars (f : ascii -> bool) (s : string) : bool :=
  match s with EmptyString => true | String c r => f c && all_chars f r end.

Definition is_bin (c : ascii) : bool := Ascii.eqb c "0"%char || Ascii.eqb c "1"%char.
Definition is_hex (c : ascii) : bool := match digit_val c with Some _ => true | None => false end.

(* which value syntax of the pattern (if any) a value text has *)
Definition value_form_of (v : string) : option vform :=
  match strip_prefix "#b" v, strip_prefix "#x" v with
  | Some r, _ => if negb (String.eqb r EmptyString) && all_chars is_bin r then Some VBin else None
  | _, Some r => if negb (String.eqb r EmptyString) && all_chars is_hex r then Some VHex else None
  | _, _ =>
      match parse_line v with
      | Some (SList [Atom u; Atom k; Atom w]) =>
          match strip_prefix "bv" k with
          | Some ks => if String.eqb u "_" && is_digits ks && is_digits w then Some VDec else None
          | None => None
          end
      | _ => None
      end
  end.

Definition vform_eqb (a b : vform) : bool :=
  match a, b with VBin, VBin | VHex, VHex | VDec, VDec => true | _, _ => false end.

(* one (define-fun NAME () (_ BitVec W) VALUE) entry: Some (W, value) when the pattern
   matches and parse_const_value succeeds *)
Definition parse_model_var (name width value : string) : option (Z * Z) :=
  if var_name_ok name && is_digits width then
    match value_form_of value with
    | Some f =>
        if existsb (vform_eqb f) value_forms then
          match parse_const_value value with
          | Some n => Some (dec_acc 0 width, n)
          | None => None
          end
        else None
    | None => None
    end
  else None.

(* ------------------------------------------------------------------ validity and control flow *)
Fixpoint contains (m s : string) : bool :=
  starts_with m s || match s with EmptyString => false | String _ r => contains m r end.

(* solve.is_model_valid *)
Definition is_model_valid (stdout : string) : bool := negb (contains invalid_marker stdout).

Fixpoint first_line (s : string) : string :=
  match s with
  | EmptyString => EmptyString
  | String c r => if (N_of_ascii c =? 10)%N then EmptyString else String c (first_line r)
  end.

Inductive outcome : Type :=
| OUnsat
| OSat (valid : bool) (stdout : string)   (* model parsed from this solver output *)
| OUnknown
| OErr.

(* SolverOutput.from_result *)
Definition from_result (stdout : string) : outcome :=
  let l := first_line stdout in
  if String.eqb l "unsat" then OUnsat
  else if String.eqb l "sat" then OSat (is_model_valid stdout) stdout
  else if String.eqb l "unknown" then OUnknown
  else OErr.

(* solve_end_to_end: core_hit = check_unsat_cores; out1 = solver output on the query;
   refine_changes = refined text differs; out2 = solver output on the refined query.
   Returns the outcome and the number of solver invocations. *)
Definition solve_e2e (core_hit is_refined : bool) (out1 : string) (refine_changes : bool) (out2 : string)
  : outcome * Z :=
  if core_hit then (OUnsat, 0)
  else
    match from_result out1 with
    | OSat false s =>
        if negb is_refined then
          if refine_changes then (from_result out2, 2) else (OSat false s, 1)
        else (OSat false s, 1)
    | o => (o, 1)
    end.

(* _solve_end_to_end_callback: which list the model goes to *)
Inductive verdict : Type := NoModel | ValidCex | InvalidCex.
Definition classify (o : outcome) : verdict :=
  match o with
  | OSat true _ => ValidCex
  | OSat false _ => InvalidCex
  | _ => NoModel
  end.
