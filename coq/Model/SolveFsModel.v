(* C04 model, file-system level: PathContext.dump_file / refine, solve.dump,
   solve.solve_low_level and solve.solve_end_to_end acting on the dump directory.
   The directory is state that outlives a query (with --dump-smt-directory it outlives the
   test and the halmos run): files of the same name may already exist when a path is solved.
   gen_dump / gen_low_level (Gen/GenSolveFs.v) are regenerated from solve.py on every run and
   interpreted here; the solver is any function from the content of the file it is handed
   to its answer.  No proofs. *)
From Coq Require Import ZArith List String Ascii Bool.
From HV Require Import Model.SexpDefs Gen.GenRefine Spec.SmtQuerySpec Model.SmtTextModel
  Model.SolveModel Model.SolveFsDefs Gen.GenSolveFs.
From HV Require Spec.VerdictSpec.
Import ListNotations.
Open Scope Z_scope.

(* the dump directory: file name -> content; a write shadows older entries *)
Definition dir : Type := list (string * string).

Fixpoint dir_get (d : dir) (name : string) : option string :=
  match d with
  | [] => None
  | (n, c) :: r => if String.eqb n name then Some c else dir_get r name
  end.

Definition dir_put (d : dir) (name content : string) : dir := (name, content) :: d.

(* PathContext (the fields that matter here) *)
Record pctx : Type := mkCtx {
  path_id : Z;
  refined : bool;                (* is_refined *)
  cache : bool;                  (* args.cache_solver *)
  smtlib : string;               (* query.smtlib *)
  ids : list string              (* query.assertions *)
}.

(* PathContext.dump_file (file name inside the dump directory) *)
Definition dump_name (c : pctx) : string :=
  (print_dec (path_id c) ++ (if refined c then gen_refined_infix else gen_plain_infix) ++ gen_query_ext)%string.

Definition file_of (c : pctx) (f : fref) : string :=
  match f with FDump suffix => (dump_name c ++ suffix)%string end.

(* PathContext.refine; `rf` is solve.refine on the query text (C11's subject) *)
Definition refine_ctx (rf : string -> string) (c : pctx) : pctx :=
  mkCtx (path_id c) true (cache c) (rf (smtlib c)) (ids c).

(* the text of the query file of a context: what the solver is supposed to be handed *)
Definition query_text (c : pctx) : string := dump_text (cache c) (smtlib c) (ids c).

(* a solver: content of the file it is handed (None: no such file) -> Some (stdout, stderr),
   or None when it does not answer within the timeout *)
Definition solver_t : Type := option string -> option (string * string).

Record lstate : Type := mkSt { st_dir : dir; st_out : option (string * string) }.

(* result of running statements: still running, returned a SolverOutput, or stuck (a
   Python exception: output used before the solver ran, dump inside dump) *)
Inductive lres : Type :=
| RGo (s : lstate)
| RRet (o : outcome) (s : lstate)
| RStuck (s : lstate).

Definition tmo_outcome (t : tmo) : outcome :=
  match t with TUnknown => OUnknown | TUnsat => OUnsat | TErr => OErr end.

Section Interp.
  Variable solver : solver_t.
  Variable c : pctx.

  Fixpoint eval_cond (k : lcond) (s : lstate) : option bool :=
    match k with
    | CExists f => Some (match dir_get (st_dir s) (file_of c f) with Some _ => true | None => false end)
    | CNot k' => match eval_cond k' s with Some b => Some (negb b) | None => None end
    | CRefined => Some (refined c)
    | CCache => Some (cache c)
    | CStderr => match st_out s with
                 | Some (_, e) => Some (negb (String.eqb e EmptyString))
                 | None => None
                 end
    end.

  (* on_dump: what `dump(path_ctx)` does (None inside dump itself) *)
  Fixpoint exec (on_dump : option (lstate -> lres)) (x : lstmt) (s : lstate) : lres :=
    match x with
    | LDump => match on_dump with Some f => f s | None => RStuck s end
    | LWriteQuery named =>
        RGo (mkSt (dir_put (st_dir s) (dump_name c) (dump_text named (smtlib c) (ids c))) (st_out s))
    | LRun f t =>
        match solver (dir_get (st_dir s) (file_of c f)) with
        | Some a => RGo (mkSt (st_dir s) (Some a))
        | None => RRet (tmo_outcome t) s
        end
    | LWrite f w =>
        match st_out s with
        | Some (o, e) => RGo (mkSt (dir_put (st_dir s) (file_of c f) (match w with WStdout => o | WStderr => e end)) (st_out s))
        | None => RStuck s
        end
    | LIf k th el =>
        let fix go (l : list lstmt) (s : lstate) : lres :=
          match l with
          | [] => RGo s
          | y :: r => match exec on_dump y s with RGo s' => go r s' | other => other end
          end in
        match eval_cond k s with
        | Some true => go th s
        | Some false => go el s
        | None => RStuck s
        end
    | LFromResult =>
        match st_out s with
        | Some (o, _) => RRet (from_result o) s
        | None => RStuck s
        end
    end.

  Fixpoint exec_list (on_dump : option (lstate -> lres)) (l : list lstmt) (s : lstate) : lres :=
    match l with
    | [] => RGo s
    | y :: r => match exec on_dump y s with RGo s' => exec_list on_dump r s' | other => other end
    end.

  (* solve.dump: returns None, so a return value inside it is dropped *)
  Definition run_dump (s : lstate) : lres := exec_list None gen_dump s.

  (* solve.solve_low_level on the directory d: the SolverOutput (None: no return / exception)
     and the directory afterwards *)
  Definition run_low (d : dir) : option outcome * dir :=
    match exec_list (Some run_dump) gen_low_level (mkSt d None) with
    | RRet o s => (Some o, st_dir s)
    | RGo s => (None, st_dir s)
    | RStuck s => (None, st_dir s)
    end.
End Interp.

(* solve.solve_end_to_end with the directory threaded through: outcome, number of solver
   invocations, directory afterwards *)
Definition solve_e2e_fs (solver : solver_t) (rf : string -> string) (core_hit : bool) (c : pctx) (d : dir)
  : option outcome * Z * dir :=
  if core_hit then (Some OUnsat, 0, d)
  else
    match run_low solver c d with
    | (Some (OSat false s), d1) =>
        if negb (refined c) then
          let c' := refine_ctx rf c in
          if negb (String.eqb (smtlib c') (smtlib c)) then
            let (o2, d2) := run_low solver c' d1 in (o2, 2, d2)
          else (Some (OSat false s), 1, d1)
        else (Some (OSat false s), 1, d1)
    | (o, d1) => (o, 1, d1)
    end.

(* what the solver says about a text, as an answer string for SolveModel.solve_e2e: a
   timeout is reported like the answer "unknown" *)
Definition answer_text (solver : solver_t) (q : string) : string :=
  match solver (Some q) with Some (o, _) => o | None => "unknown"%string end.

(* SolverOutput.result of an outcome, in the result classes of Gen/GenSolveDispatch.v (the
   `match first_line` of from_result and the guards of solve_end_to_end as translated from
   solve.py by T-solvedispatch) *)
Definition class_of (o : outcome) : VerdictSpec.rclass :=
  match o with
  | OUnsat => VerdictSpec.CUnsat
  | OSat _ _ => VerdictSpec.CSat
  | OUnknown => VerdictSpec.CUnknown
  | OErr => VerdictSpec.CErr
  end.
Definition out_is_sat (o : outcome) : bool := match o with OSat _ _ => true | _ => false end.
Definition out_valid (o : outcome) : bool := match o with OSat v _ => v | _ => false end.
