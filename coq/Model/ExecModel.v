(* Executable model of halmos.processes (PopenFuture, PopenExecutor) together with the
   caller protocol of halmos.solve.solve_low_level, as a labelled transition system.
   No proofs in this file (Proofs/ExecProofs.v).

   The model follows the Python statement by statement; every label is one atomic step
   of one thread (CPython's GIL makes each of the modelled statements atomic):

   submitter j  (solve_low_level: executor.submit(future); future.result())
       SCheck    `if self._shutdown.is_set(): raise ShutdownError()`   -- outside the lock
       SAcquire  `with self._lock:`
       SRecheck  `if self._shutdown.is_set(): raise ShutdownError()`   -- again, holding the lock
       SUnlock   (flag was set) the exception leaves the `with`: the lock is released, submit raises
       SAppend   `self._futures.append(future)`
       SStart    `future.start()`  -> threading.Thread(target=run).start()
       SRelease  leaving the `with`; submit returns
       SWait     `future.result()` blocks until the future is FINISHED, then raises
                 `_exception` if set, else returns the (stdout, stderr, returncode) tuple
   worker j     (PopenFuture.start.run)
       WStarted  `with self._spawn_lock:` + `if self._cancel_requested: raise ShutdownError()`
                 (label LSpawnEnter: the worker now HOLDS the job's spawn lock, or -- cancel was
                 requested -- the ShutdownError is stored by `except Exception` and the worker goes
                 on to its finally block without ever spawning)
       WSpawn    `self.process = Popen(...)`            (may raise: process stays None); leaving
                 the `with` releases the spawn lock
       WComm     `self.process.communicate(timeout=self.timeout)` returns / raises
                 TimeoutExpired / raises something else
       WFinally  `if self.process: self.cancel()`       (kills the process if running)
       WSetRes   `self.set_result((stdout, stderr, returncode))`
   shutdown caller k   (PopenExecutor.shutdown(wait))
       DSet      `self._shutdown.set()`
       wait=False: DAcquire `with self._lock, ThreadPoolExecutor()`; one cancel task per
                 registered future (DCancel pending, any order); leaving the `with`
       wait=True:  DAcquire `with self._lock:` (in _join); DSnap `futures = list(self._futures)`;
                 DUnlock leaving the `with`; DJoin: `future.result()` each, inside
                 `contextlib.suppress(Exception)`: result() blocks until the future is finished
                 and re-raises its `_exception` (TimeoutExpired, a Popen error), which is
                 suppressed -- every future of the snapshot is waited for, shutdown() never
                 raises (label LSdRaise is never enabled)
   PopenFuture.cancel(): first `with self._spawn_lock: self._cancel_requested = True` -- it
   waits while the worker is between its test and the end of Popen (LSdCancel is not enabled
   while the worker holds the spawn lock), so afterwards either the process exists or the worker
   will not spawn it; the lock is released at once.  Then `if not self.is_running(): return` -- a no-op while
   `self.process is None` or after the process has terminated; otherwise the escalation
   terminate() (SIGTERM) -> `<parent>.wait(timeout=0.5)` -> kill() (SIGKILL) if still running.
   A solver process may ignore SIGTERM ([stub], a job parameter): then the grace-period wait
   raises the TimeoutExpired of its library; whether that exception is suppressed on the spot
   (-> force kill), caught by the outer `except` (-> force kill skipped, process survives) or
   leaves cancel() (-> process survives AND the caller sees an exception: the worker's finally
   block is left before set_result, a cancel task swallows it) is decided by the except / suppress
   lists regenerated from processes.py (Gen/GenCancel.v, translator T-cancel).  *)
From Coq Require Import List Arith Bool.
From HV Require Import Spec.ExecSpec Gen.GenSolveLow Gen.GenCancel.
Import ListNotations.

Inductive exn := ETimeout | EOther.
Inductive proc_t := PNone | PRun | PDead.   (* self.process: None / running / terminated *)
Inductive spc_t := SCheck | SAcquire | SRecheck | SAppend | SStart | SRelease | SWait
                 | SGot (v : verdict) | SUnlock | SRejected.
Inductive wpc_t := WNew | WStarted | WSpawn | WComm | WFinally | WSetRes | WDone
                 | WDead.   (* the worker thread died with an exception before set_result *)
Inductive dpc_t := DSet | DAcquire | DCancel (pending : list nat) | DSnap
                 | DUnlock (pending : list nat) | DJoin (pending : list nat) | DDone.
Inductive owner := OSub (j : nat) | OSd (k : nat).

Record job := mkJob {
  tmo : bool;             (* PopenFuture.timeout is not None *)
  stub : bool;            (* the solver process ignores SIGTERM (only SIGKILL ends it) *)
  spc : spc_t;            (* program counter of the submitting thread *)
  wpc : wpc_t;            (* program counter of the worker thread (WNew: not started) *)
  proc : proc_t;          (* self.process *)
  exc : option exn;       (* self._exception *)
  out : option answer;    (* self.stdout (first line) *)
  sets : nat;             (* number of set_result calls on the future *)
  creq : bool;            (* self._cancel_requested *)
  slock : bool            (* self._spawn_lock is held (by the worker, between LSpawnEnter and LPopen) *)
}.

Record sd := mkSd { swait : bool; dpc : dpc_t }.

Record state := mkState {
  flag : bool;            (* PopenExecutor._shutdown *)
  lock : option owner;    (* PopenExecutor._lock *)
  reg : list nat;         (* PopenExecutor._futures (job ids, in append order) *)
  jobs : list job;
  sds : list sd
}.

Definition init_job (c : bool * bool) : job := mkJob (fst c) (snd c) SCheck WNew PNone None None 0 false false.
Definition init_sd (w : bool) : sd := mkSd w DSet.
Definition init (cfgs : list (bool * bool)) (waits : list bool) : state :=
  mkState false None [] (map init_job cfgs) (map init_sd waits).

(* ---- what solve_low_level returns for a finished future ---------------------
   result() re-raises `_exception`; `except subprocess.TimeoutExpired` maps to
   gen_timeout_verdict; other exceptions propagate; otherwise
   SolverOutput.from_result looks at the first line (gen_first_line).  Both gen_*
   are regenerated from solve.py on every run (translator T-solvelow). *)
Definition low_level (jb : job) : verdict :=
  match exc jb with
  | Some ETimeout => gen_timeout_verdict
  | Some EOther => VRaise
  | None => match out jb with
            | Some a => gen_first_line a
            | None => VRaise     (* stdout is None: f.write(None) raises TypeError *)
            end
  end.

(* ---- setters ---------------------------------------------------------------- *)
Definition set_spc (jb : job) (p : spc_t) : job :=
  mkJob (tmo jb) (stub jb) p (wpc jb) (proc jb) (exc jb) (out jb) (sets jb) (creq jb) (slock jb).
Definition set_w (jb : job) (w : wpc_t) (p : proc_t) (e : option exn) (o : option answer) (n : nat) : job :=
  mkJob (tmo jb) (stub jb) (spc jb) w p e o n (creq jb) (slock jb).
Definition set_slock (jb : job) (b : bool) : job :=
  mkJob (tmo jb) (stub jb) (spc jb) (wpc jb) (proc jb) (exc jb) (out jb) (sets jb) (creq jb) b.
Definition set_creq (jb : job) : job :=
  mkJob (tmo jb) (stub jb) (spc jb) (wpc jb) (proc jb) (exc jb) (out jb) (sets jb) true (slock jb).

(* ---- PopenFuture.cancel() ------------------------------------------------------
   the exception of the grace-period wait on a process that ignored SIGTERM *)
Definition grace_exn : exn_class := wait_timeout_exn gen_grace_receiver.
Definition grace_suppressed : bool := catches gen_cancel_suppressed grace_exn.
Definition grace_handled : bool := catches gen_cancel_handlers grace_exn.
(* the process of jb survives cancel() *)
Definition survives (jb : job) : bool := stub jb && negb grace_suppressed.
(* cancel() on jb terminates with an exception *)
Definition kill_raises (jb : job) : bool :=
  match proc jb with
  | PRun => survives jb && negb grace_handled
  | _ => false
  end.
Definition kill (jb : job) : job :=      (* the effect of PopenFuture.cancel() on the process *)
  match proc jb with
  | PRun => if survives jb then jb
            else mkJob (tmo jb) (stub jb) (spc jb) (wpc jb) PDead (exc jb) (out jb) (sets jb) (creq jb) (slock jb)
  | _ => jb
  end.
(* PopenFuture.cancel() as a whole: record the request (under the spawn lock), then the escalation *)
Definition cancel (jb : job) : job := kill (set_creq jb).
(* the worker's finally block: `if self.process: self.cancel()` *)
Definition fin (jb : job) : job := match proc jb with PNone => jb | _ => cancel jb end.
(* run(): the ShutdownError raised when a cancel was requested before the spawn is stored by an except clause *)
Definition refusal_caught : bool := catches gen_run_handlers gen_refusal_exn.
(* run(): `except ...: self._exception = e` around communicate() *)
Definition timeout_caught : bool := catches gen_run_handlers communicate_timeout_exn.

Fixpoint set_nth {A} (n : nat) (x : A) (l : list A) : list A :=
  match l, n with
  | [], _ => []
  | _ :: t, O => x :: t
  | h :: t, S n' => h :: set_nth n' x t
  end.

Definition with_jobs (st : state) (js : list job) : state :=
  mkState (flag st) (lock st) (reg st) js (sds st).
Definition with_lock (st : state) (l : option owner) : state :=
  mkState (flag st) l (reg st) (jobs st) (sds st).
Definition with_reg (st : state) (r : list nat) : state :=
  mkState (flag st) (lock st) r (jobs st) (sds st).
Definition with_flag (st : state) (b : bool) : state :=
  mkState b (lock st) (reg st) (jobs st) (sds st).
Definition with_sds (st : state) (l : list sd) : state :=
  mkState (flag st) (lock st) (reg st) (jobs st) l.

(* apply a partial update to job j *)
Definition on_job (st : state) (j : nat) (f : job -> option job) : option state :=
  match nth_error (jobs st) j with
  | Some jb => match f jb with
               | Some jb' => Some (with_jobs st (set_nth j jb' (jobs st)))
               | None => None
               end
  | None => None
  end.

Definition on_sd (st : state) (k : nat) (f : sd -> option (sd * state)) : option state :=
  match nth_error (sds st) k with
  | Some s => match f s with
              | Some (s', st') => Some (with_sds st' (set_nth k s' (sds st')))
              | None => None
              end
  | None => None
  end.

Definition is_free (l : option owner) : bool := match l with None => true | Some _ => false end.

Fixpoint remove1 (j : nat) (l : list nat) : option (list nat) :=
  match l with
  | [] => None
  | h :: t => if Nat.eqb h j then Some t
              else match remove1 j t with Some t' => Some (h :: t') | None => None end
  end.

Definition finished (st : state) (j : nat) : bool :=   (* Future._state == FINISHED *)
  match nth_error (jobs st) j with
  | Some jb => negb (Nat.eqb (sets jb) 0)
  | None => false
  end.

(* ---- the step function -------------------------------------------------------- *)
Definition step (st : state) (l : label) : option state :=
  match l with
  | LSubCheck j =>
      on_job st j (fun jb => match spc jb with
        | SCheck => Some (set_spc jb (if flag st then SRejected else SAcquire))
        | _ => None end)
  | LSubAcquire j =>
      if is_free (lock st) then
        on_job (with_lock st (Some (OSub j))) j (fun jb => match spc jb with
          | SAcquire => Some (set_spc jb SRecheck)
          | _ => None end)
      else None
  | LSubRecheck j =>
      on_job st j (fun jb => match spc jb with
        | SRecheck => Some (set_spc jb (if flag st then SUnlock else SAppend))
        | _ => None end)
  | LSubUnlock j =>
      on_job (with_lock st None) j (fun jb => match spc jb with
        | SUnlock => Some (set_spc jb SRejected)
        | _ => None end)
  | LSubAppend j =>
      on_job (with_reg st (reg st ++ [j])) j (fun jb => match spc jb with
        | SAppend => Some (set_spc jb SStart)
        | _ => None end)
  | LSubStart j =>
      on_job st j (fun jb => match spc jb, wpc jb with
        | SStart, WNew => Some (set_w (set_spc jb SRelease) WStarted (proc jb) (exc jb) (out jb) (sets jb))
        | _, _ => None end)
  | LSubRelease j =>
      on_job (with_lock st None) j (fun jb => match spc jb with
        | SRelease => Some (set_spc jb SWait)
        | _ => None end)
  | LSubWait j =>
      on_job st j (fun jb => match spc jb with
        | SWait => if Nat.eqb (sets jb) 0 then None else Some (set_spc jb (SGot (low_level jb)))
        | _ => None end)
  | LPopen j ok =>
      on_job st j (fun jb => match wpc jb with
        | WSpawn => if ok then Some (set_slock (set_w jb WComm PRun (exc jb) (out jb) (sets jb)) false)
                    else Some (set_slock (set_w jb WFinally (proc jb) (Some EOther) (out jb) (sets jb)) false)
        | _ => None end)
  | LSpawnEnter j =>
      on_job st j (fun jb => match wpc jb with
        | WStarted =>
            if creq jb
            then Some (set_w jb WFinally (proc jb) (if refusal_caught then Some EOther else exc jb) (out jb) (sets jb))
            else Some (set_slock (set_w jb WSpawn (proc jb) (exc jb) (out jb) (sets jb)) true)
        | _ => None end)
  | LExit j =>
      on_job st j (fun jb => match proc jb with
        | PRun => Some (set_w jb (wpc jb) PDead (exc jb) (out jb) (sets jb))
        | _ => None end)
  | LCommRet j a =>
      on_job st j (fun jb => match wpc jb, proc jb with
        | WComm, PDead => Some (set_w jb WFinally PDead (exc jb) (Some a) (sets jb))
        | _, _ => None end)
  | LCommTimeout j =>
      on_job st j (fun jb => match wpc jb with
        | WComm => if tmo jb
                   then Some (set_w jb WFinally (proc jb) (if timeout_caught then Some ETimeout else exc jb) (out jb) (sets jb))
                   else None
        | _ => None end)
  | LCommExc j =>
      on_job st j (fun jb => match wpc jb with
        | WComm => Some (set_w jb WFinally (proc jb) (Some EOther) (out jb) (sets jb))
        | _ => None end)
  | LFinally j =>
      on_job st j (fun jb => match wpc jb with
        | WFinally => let jb' := fin jb in
                      (* an exception of cancel() leaves the finally block before set_result,
                         unless the call is protected *)
                      if kill_raises jb && negb gen_finally_guarded
                      then Some (set_w jb' WDead (proc jb') (exc jb') (out jb') (sets jb'))
                      else Some (set_w jb' WSetRes (proc jb') (exc jb') (out jb') (sets jb'))
        | _ => None end)
  | LSetResult j =>
      on_job st j (fun jb => match wpc jb with
        | WSetRes => Some (set_w jb WDone (proc jb) (exc jb) (out jb) (S (sets jb)))
        | _ => None end)
  | LSdSet k =>
      on_sd st k (fun s => match dpc s with
        | DSet => Some (mkSd (swait s) DAcquire, with_flag st true)
        | _ => None end)
  | LSdAcquire k =>
      if is_free (lock st) then
        on_sd st k (fun s => match dpc s with
          | DAcquire => Some (mkSd (swait s) (if swait s then DSnap else DCancel (reg st)),
                              with_lock st (Some (OSd k)))
          | _ => None end)
      else None
  | LSdCancel k j =>
      on_sd st k (fun s => match dpc s with
        | DCancel pend =>
            match remove1 j pend with
            | Some pend' =>
                match on_job st j (fun jb => if slock jb then None else Some (cancel jb)) with
                | Some st' => Some (mkSd (swait s) (DCancel pend'), st')
                | None => None
                end
            | None => None
            end
        | _ => None end)
  | LSdSnap k =>
      on_sd st k (fun s => match dpc s with
        | DSnap => Some (mkSd (swait s) (DUnlock (reg st)), st)
        | _ => None end)
  | LSdRelease k =>
      on_sd st k (fun s => match dpc s with
        | DUnlock pend => Some (mkSd (swait s) (DJoin pend), with_lock st None)
        | _ => None end)
  | LSdJoin k =>
      on_sd st k (fun s => match dpc s with
        | DJoin (j :: rest) =>
            if finished st j then Some (mkSd (swait s) (DJoin rest), st) else None
        | _ => None end)
  | LSdRaise k => None
  | LSdReturn k =>
      on_sd st k (fun s => match dpc s with
        | DCancel [] => Some (mkSd (swait s) DDone, with_lock st None)
        | DJoin [] => Some (mkSd (swait s) DDone, st)
        | _ => None end)
  end.

Fixpoint run (st : state) (sched : list label) : option state :=
  match sched with
  | [] => Some st
  | l :: r => match step st l with Some st' => run st' r | None => None end
  end.

(* ---- all labels that can possibly be enabled in [st] (for enumeration) --------- *)
Definition all_labels (st : state) : list label :=
  let js := seq 0 (length (jobs st)) in
  let ks := seq 0 (length (sds st)) in
  flat_map (fun j =>
    [LSubCheck j; LSubAcquire j; LSubRecheck j; LSubUnlock j; LSubAppend j; LSubStart j; LSubRelease j; LSubWait j;
     LSpawnEnter j; LPopen j true; LPopen j false; LExit j;
     LCommRet j AUnsat; LCommRet j ASat; LCommRet j AUnknown; LCommRet j AGarbage;
     LCommTimeout j; LCommExc j; LFinally j; LSetResult j]) js
  ++ flat_map (fun k =>
    [LSdSet k; LSdAcquire k; LSdSnap k; LSdRelease k; LSdJoin k; LSdReturn k]
    ++ map (fun j => LSdCancel k j) js) ks.

Definition is_some {A} (o : option A) : bool := match o with Some _ => true | None => false end.
Definition enabled (st : state) : list label :=
  filter (fun l => is_some (step st l)) (all_labels st).
Definition quiescentb (st : state) : bool := match enabled st with [] => true | _ => false end.

(* ---- ranking function: every step decreases it --------------------------------- *)
Definition rank_spc (p : spc_t) : nat :=
  match p with SCheck => 7 | SAcquire => 6 | SRecheck => 5 | SAppend => 4 | SStart => 3 | SRelease => 2
             | SWait => 1 | SGot _ => 0 | SUnlock => 1 | SRejected => 0 end.
Definition rank_wpc (w : wpc_t) : nat :=
  match w with WNew => 12 | WStarted => 10 | WSpawn => 8 | WComm => 6 | WFinally => 4 | WSetRes => 2 | WDone => 0 | WDead => 0 end.
Definition rank_proc (p : proc_t) : nat := match p with PRun => 1 | _ => 0 end.
Definition rank_job (jb : job) : nat := rank_spc (spc jb) + rank_wpc (wpc jb) + rank_proc (proc jb).
Definition pre_append (jb : job) : nat :=
  match spc jb with SCheck | SAcquire | SRecheck | SAppend => 1 | _ => 0 end.
Definition sum {A} (f : A -> nat) (l : list A) : nat := fold_right (fun x a => f x + a) 0 l.
(* phi bounds the length the registry can still reach *)
Definition phi (st : state) : nat := length (reg st) + sum pre_append (jobs st).
Definition rank_sd (ph : nat) (s : sd) : nat :=
  match dpc s with
  | DSet => 6 + ph | DAcquire => 5 + ph | DSnap => 4 + ph
  | DCancel l => 2 + length l | DUnlock l => 3 + length l | DJoin l => 2 + length l | DDone => 0
  end.
Definition rank (st : state) : nat := sum rank_job (jobs st) + sum (rank_sd (phi st)) (sds st).
