(* Model of Exec.select (src/halmos/sevm.py), branch by branch, over the decision functions
   regenerated from its source (Gen/GenSelectRow.v):

     if array in arrays:                         -- chain = (key0, val0) :: base
         if eq(key, key0): return val0
         if check(key == key0) <decides skip>: return select(base, key)
         if check(key != key0) <decides hit>:  return val0
     elif not symbolic and <empty array>: return ZERO
     return Select(array, key)                   -- on the array as defined: the whole remaining chain

   No proofs here. *)
From Coq Require Import ZArith List Bool.
From HV Require Import Spec.SelectRowSpec Gen.GenSelectRow.
Import ListNotations.
Open Scope Z_scope.

Definition term_eqb (a b : term) : bool :=
  match a, b with
  | TConst x, TConst y => x =? y
  | TVar n, TVar m => Nat.eqb n m
  | _, _ => false
  end.

(* result terms: a stored value term, the constant ZERO, or a Select on the rest of the chain *)
Inductive res := RVal (v : term) | RZero | RSelect (rest : list (term * term)) (k : term).

Definition ev_res (rho : nat -> Z) (init : Z -> Z) (r : res) : Z :=
  match r with
  | RVal v => ev rho v
  | RZero => 0
  | RSelect rest k => last_write rho init rest (ev rho k)
  end.

(* parametric in the two decision functions (for the necessity / refutation statements) *)
Fixpoint select_with (skip hit : Z -> bool) (check : query -> Z) (symbolic : bool)
         (chain : list (term * term)) (k : term) : res :=
  match chain with
  | [] => if negb symbolic then RZero else RSelect [] k
  | (k0, v0) :: base =>
      if term_eqb k k0 then RVal v0
      else if skip (check (QEq k k0)) then select_with skip hit check symbolic base k
      else if hit (check (QNe k k0)) then RVal v0
      else RSelect chain k
  end.

(* Exec.select as the code says now *)
Definition select := select_with select_skip select_hit.

(* encoding for the extracted entry point: result -> [tag; payload]
   tag 0 = ZERO, 1 = stored value (payload: position of the store in the chain, newest = 0),
   tag 2 = Select (payload: number of stores skipped) *)
Fixpoint select_pos (skip hit : Z -> bool) (check : query -> Z) (symbolic : bool)
         (chain : list (term * term)) (k : term) (pos : Z) : list Z :=
  match chain with
  | [] => if negb symbolic then [0; pos] else [2; pos]
  | (k0, v0) :: base =>
      if term_eqb k k0 then [1; pos]
      else if skip (check (QEq k k0)) then select_pos skip hit check symbolic base k (pos + 1)
      else if hit (check (QNe k k0)) then [1; pos]
      else [2; pos]
  end.
