(* C16 — the consumers of the solver inside one test (no proofs here).
   Follows src/halmos/__main__.py run_test (the path loop: assertion violation -> thread pool ->
   solve_end_to_end -> callback; stuck path -> feasibility query, synchronously; normal path ->
   counted) and setup (feasibility of the candidate setUp paths).
   HOW each consumer obtains its SolverOutput is the *generated* function of Gen/GenCacheUsers.v
   (gen_stuck_solve / gen_setup_solve / gen_assert_solve), regenerated from __main__.py on every
   run: a consumer may call solve_low_level (the query as posed, un-refined, no look-up),
   solve_end_to_end (look-up, solver, refinement) or answer from check_unsat_cores directly.
   The cache of a function context contains cores learnt from REFINED queries; which consumer may
   be answered from it is the subject of Proofs/CacheTestProofs.v. *)
From Coq Require Import ZArith List Bool.
From HV Require Import Gen.GenUnsatCore Gen.GenCoreAppend Gen.GenCacheUsers Spec.CacheSpec Model.CacheModel.
Import ListNotations.

Section CacheTest.
  Variable id : Type.
  Variable id_eqb : id -> id -> bool.
  Variable formula : Type.
  Variable model : Type.
  Variable low : bool -> query id formula -> reply id model.
  Variable refine_changes : query id formula -> bool.

  Notation query := (query id formula).
  Notation reply := (reply id model).

  (* what run_test does with a path returned by the engine *)
  Inductive pkind :=
    | KAssert      (* panic / fail flag: handle_assertion_violation *)
    | KStuck       (* ex.context.is_stuck(): halmos could not continue the path *)
    | KNormal      (* no error output: counted in `normal` *)
    | KOther.      (* reverted: nothing *)

  Definition tpath := (pkind * query)%type.

  (* check_unsat_cores(path_ctx.query, ctx.solving_ctx.unsat_cores) at this moment *)
  Definition lookup (cores : list (list id)) (q : query) : bool :=
    check_unsat_cores id id_eqb (qids id formula q) cores.

  (* the SolverOutput a consumer gets, given the decision function generated from its code *)
  Definition consume (g : bool -> bool -> reply -> reply -> reply -> reply)
      (cache : bool) (cores : list (list id)) (q : query) : reply :=
    g cache (lookup cores q) (Unsat None)
      (solve_low_level id formula model low cache false q)
      (solve_end_to_end id id_eqb formula model low refine_changes cache cores q).

  Definition stuck_solve := consume (@gen_stuck_solve reply).
  Definition setup_solve := consume (@gen_setup_solve reply).
  Definition assert_solve := consume (@gen_assert_solve reply).

  (* ghost: is the consumer answered without any solver call (the same decision function over bool:
     the cached branch is `true`, a solve_low_level call `false`, solve_end_to_end skips the solver
     exactly on a hit) *)
  Definition skips (g : bool -> bool -> bool -> bool -> bool -> bool)
      (cache : bool) (cores : list (list id)) (q : query) : bool :=
    g cache (lookup cores q) true false (lookup cores q).

  Record tstate := mkt {
    t_cores : list (list id);      (* ctx.solving_ctx.unsat_cores *)
    t_outs : list reply;           (* ctx.solver_outputs (assertion queries only) *)
    t_stuck : nat;                 (* len(stuck) *)
    t_normal : nat;                (* normal *)
    t_skipped : list bool          (* ghost: per solver consumer in path order, answered without the solver *)
  }.

  Definition tinit : tstate := mkt [] [] 0 0 [].

  (* one iteration of the path loop, the solver answering before the next path is taken (any other
     completion order of the assertion queries: Proofs, the *_any_state theorems) *)
  Definition test_step (cache : bool) (s : tstate) (p : tpath) : tstate :=
    let (k, q) := p in
    match k with
    | KAssert =>
        let o := assert_solve cache (t_cores s) q in
        mkt (callback id model (t_cores s) o) (t_outs s ++ [o]) (t_stuck s) (t_normal s)
            (t_skipped s ++ [skips (@gen_assert_solve bool) cache (t_cores s) q])
    | KStuck =>
        let o := stuck_solve cache (t_cores s) q in
        (* the output does not go through the callback: nothing is learnt, nothing is counted in solver_outputs *)
        mkt (t_cores s) (t_outs s)
            (if gen_stuck_counted (is_unsat id model o) then S (t_stuck s) else t_stuck s) (t_normal s)
            (t_skipped s ++ [skips (@gen_stuck_solve bool) cache (t_cores s) q])
    | KNormal => mkt (t_cores s) (t_outs s) (t_stuck s) (S (t_normal s)) (t_skipped s)
    | KOther => s
    end.

  Definition test_run (cache : bool) (ps : list tpath) : tstate := fold_left (test_step cache) ps tinit.

  Definition test_verdict (cache : bool) (ps : list tpath) : verdict :=
    let s := test_run cache ps in verdict_of id model (t_outs s) (t_stuck s) (t_normal s).

  (* what an observer sees of a finished test: the outputs (result, model, validity), the counters *)
  Definition observe (s : tstate) : list reply * nat * nat :=
    (map (strip id model) (t_outs s), t_stuck s, t_normal s).

  (* setup(): a candidate setUp path is kept when its feasibility query is not unsat *)
  Definition setup_keeps (cache : bool) (cores : list (list id)) (q : query) : bool :=
    negb (is_unsat id model (setup_solve cache cores q)).

  (* ---------------- any completion order of the solver pool.
     The main loop (TPath) hands an assertion query to the thread pool and goes on; some time later a worker
     enters solve_end_to_end for it (TStart j: the look-up sees the cache AS IT IS THEN) and some time after that
     its done-callback runs (TCb j: output recorded, core learnt).  A stuck path is solved synchronously by the main
     loop, in whatever state the cache is at that moment.  A schedule is any list of such events; an event that
     does not apply (unknown job, job already started / not yet started) changes nothing. *)
  Inductive tevent := TPath (p : tpath) | TStart (j : nat) | TCb (j : nat).

  (* a submitted assertion query: path id, query, output once its worker has run *)
  Definition tjob := (nat * query * option reply)%type.

  Record sstate := mks { s_t : tstate; s_jobs : list tjob; s_next : nat }.
  Definition sinit : sstate := mks tinit [] 0.

  Definition start_job (cache : bool) (cores : list (list id)) (j : nat) (l : list tjob) : list tjob :=
    map (fun b : tjob =>
           match b with
           | (i, q, None) => if Nat.eqb i j then (i, q, Some (assert_solve cache cores q)) else b
           | _ => b
           end) l.

  (* the first finished job with path id j, and the other jobs *)
  Fixpoint take_done (j : nat) (l : list tjob) : option (reply * list tjob) :=
    match l with
    | [] => None
    | (i, q, st) :: r =>
        match (if Nat.eqb i j then st else None) with
        | Some o => Some (o, r)
        | None => match take_done j r with
                  | Some (o, r') => Some (o, (i, q, st) :: r')
                  | None => None
                  end
        end
    end.

  Definition sched_step (cache : bool) (s : sstate) (e : tevent) : sstate :=
    match e with
    | TPath (KAssert, q) => mks (s_t s) (s_jobs s ++ [(s_next s, q, None)]) (S (s_next s))
    | TPath p => mks (test_step cache (s_t s) p) (s_jobs s) (S (s_next s))
    | TStart j => mks (s_t s) (start_job cache (t_cores (s_t s)) j (s_jobs s)) (s_next s)
    | TCb j =>
        match take_done j (s_jobs s) with
        | Some (o, l') =>
            let t := s_t s in
            mks (mkt (callback id model (t_cores t) o) (t_outs t ++ [o]) (t_stuck t) (t_normal t) (t_skipped t)) l' (s_next s)
        | None => s
        end
    end.

  Definition sched_run (cache : bool) (evs : list tevent) : sstate := fold_left (sched_step cache) evs sinit.

  Fixpoint sched_paths (evs : list tevent) : list tpath :=
    match evs with
    | [] => []
    | TPath p :: r => p :: sched_paths r
    | _ :: r => sched_paths r
    end.

  (* run_test's verdict once the pool has drained (thread_pool.shutdown(wait=True)) *)
  Definition sched_verdict (cache : bool) (evs : list tevent) : option verdict :=
    let s := sched_run cache evs in
    match s_jobs s with
    | [] => Some (verdict_of id model (t_outs (s_t s)) (t_stuck (s_t s)) (t_normal (s_t s)))
    | _ => None
    end.
End CacheTest.

Arguments TPath {id formula} _.
Arguments TStart {id formula} _.
Arguments TCb {id formula} _.
