(* The branch points of the exploration other than JUMPI (which is Model/SymExec.v over
   Gen.GenJumpi): address aliases, the insufficient-funds fork, symbolic JUMP destinations.
   Each is a function from the current state's ingredients and the solver's answers to the list
   of alternatives that are explored, written over the decision functions regenerated from
   src/halmos/sevm.py (Gen/GenBranch.v).  Conditions are semantic: functions of the valuation
   of the symbolic inputs.  No proofs in this file. *)
From Coq Require Import ZArith List Bool.
From HV Require Import Gen.GenBranch Gen.GenAssertBranch.
Import ListNotations.
Open Scope Z_scope.

Section BranchPoints.
Variable V : Type.                       (* valuations of the symbolic inputs *)
Definition cnd := V -> bool.
Variable chk : cnd -> Z.                 (* ex.check(c): the solver asked for path /\ c *)

(* ---- SEVM.resolve_address_alias: target is a symbolic 160-bit term, not structurally a known
   account; accts = keys of ex.code in order; test = FOUNDRY_TEST.  An alternative is the alias
   (None: an account without code) and the condition appended to the path. *)
Definition is_alias (tgt : V -> Z) (a : Z) : cnd := fun v => tgt v =? a.
Definition is_empty (tgt : V -> Z) (accts : list Z) : cnd :=
  fun v => forallb (fun a => negb (tgt v =? a)) accts.

Definition alias_alternatives (accts : list Z) (test : Z) (tgt : V -> Z) : list (option Z * cnd) :=
  let cands := filter (fun a => negb (alias_skips_test_contract && (a =? test))) accts in
  let kept := filter (fun a => alias_keep (chk (is_alias tgt a))) cands in
  map (fun a => (Some a, is_alias tgt a)) kept ++
  (if alias_empty_keep (chk (is_empty tgt accts)) then [(None, is_empty tgt accts)] else []).
(* [] = InfeasiblePath: the state is dropped *)

(* ---- handle_insufficient_fund_case + transfer_value: value is not the constant 0.
   (true, c): the failing alternative (flag 0 pushed, nothing transferred);
   (false, c): the alternative on which the call goes ahead.  transfer_value drops it only when
   UGE(balance, value) simplifies to the literal false, which implies it holds nowhere: it is
   modelled as always kept (keeping an infeasible path is harmless for both C01 and C02). *)
Definition funds_alternatives (bal val : V -> Z) : list (bool * cnd) :=
  (if funds_fail_keep (chk (fun v => bal v <? val v)) then [(true, fun v => bal v <? val v)] else []) ++
  [(false, fun v => val v <=? bal v)].

(* the same fork at a call site (SEVM.call / SEVM.create): [balc] is the balance the fork looks at, [bald] the balance
   transfer_value constrains and debits on the side that goes ahead.  funds_payer_same (regenerated from the call
   sites) says the two are one account and one amount; the code's behaviour is then funds_alternatives. *)
Definition funds_site_alternatives (balc bald val : V -> Z) : list (bool * cnd) :=
  (if funds_fail_keep (chk (fun v => balc v <? val v)) then [(true, fun v => balc v <? val v)] else []) ++
  [(false, fun v => val v <=? (if funds_payer_same then balc v else bald v))].

(* ---- symbolic JUMP (--symbolic-jump): one branch per valid destination that is kept;
   None = InvalidJumpDestError raised for the whole state (a halting end state). *)
Definition jump_alternatives (valid : list Z) (dst : V -> Z) : option (list (Z * cnd)) :=
  match filter (fun t => jump_keep (chk (fun v => dst v =? t))) valid with
  | [] => None
  | kept => Some (map (fun t => (t, fun v => dst v =? t)) kept)
  end.

(* the inputs whose destination is none of the valid ones (fix: a branch of their own, kept unless the solver refutes
   it, on which the JUMP is executed again with a concrete invalid destination and halts).  It exists only when some
   valid destination is kept: otherwise the whole state has already halted (jump_alternatives = None). *)
Definition jump_invalid_cond (valid : list Z) (dst : V -> Z) : cnd :=
  fun v => forallb (fun t => negb (dst v =? t)) valid.
Definition jump_invalid_alternative (valid : list Z) (dst : V -> Z) : option cnd :=
  match jump_alternatives valid dst with
  | None => None
  | Some _ => if jump_invalid_keep (chk (jump_invalid_cond valid dst)) then Some (jump_invalid_cond valid dst) else None
  end.

(* ---- vm.assert* (hevm_cheat_code.handle): c is the asserted relation.  (true, k): a state that ends as
   a failed assertion, under the additional constraint k; (false, k): the state that goes on. *)
Definition assert_alternatives (c : cnd) : list (bool * cnd) :=
  if assert_all_fail (chk c) then [(true, fun _ => true)]
  else (if assert_fail_keep (chk (fun v => negb (c v))) then [(true, fun v => negb (c v))] else [])
       ++ [(false, fun _ => true)].

(* ---- vm.assume: the state goes on under the assumed condition (abandoned only when the condition
   simplifies to false, i.e. holds nowhere) *)
Definition assume_alternatives (c : cnd) : list cnd := [c].

(* ---- apply_vmaddr (vm.addr / vm.sign): key terms seen before are remembered with their addresses;
   a new key term k gets the address f k and, for every remembered (k', a'), the path constraint
   k <> k' -> f k <> a'   (the guard is there iff vmaddr_distinctness_guarded).  f is the
   uninterpreted f_vmaddr. *)
Definition vmaddr_constraints (f : Z -> Z) (known : list ((V -> Z) * (V -> Z))) (k : V -> Z) : list cnd :=
  map (fun ka => fun v =>
         if vmaddr_distinctness_guarded
         then (k v =? fst ka v) || negb (f (k v) =? snd ka v)
         else negb (f (k v) =? snd ka v)) known.

End BranchPoints.
