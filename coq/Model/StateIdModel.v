(* C15 model: what the state id of the invariant frontier covers.

   get_state_id(ex) = snapshot_state(ex, include_path=True)   (src/halmos/__main__.py, cheatcodes.py)
   reads from the Exec, after Exec.path_slice():
     ex.balance.get_id()                          the id of the (hash-consed) balance term
     ex.code.items()                              (address, identity of the code object), insertion order
     ex.storage.items()                           (address, StorageData) ; StorageData.digest() hashes the
                                                  mapping items (key words, id of the value term)
     ex.path.conditions, ex.path.sliced           the path conditions (term ids, in order) and the set of
                                                  indices of those that constrain state variables
   and hashes them in four sections (xxh3_64 each, xxh3_128 for a storage digest).

   The data read is Spec/StateIdSpec.v's [xstate].  This file has the helpers the regenerated
   bodies (Gen/GenStateId.v from cheatcodes.py, Gen/GenStorageDigest.v from sevm.py) are written
   with.  The hash functions are parameters; a hash input is a list of fixed-width items (a
   32-byte word written by int.to_bytes(_, length=32), or a 16-byte storage digest).
   Definitions only. *)
From Coq Require Import ZArith List Bool.
From HV Require Import Spec.StateIdSpec.
Import ListNotations.
Open Scope Z_scope.

(* items of a hash input *)
Inductive item (D : Type) := W (v : Z) | Dg (d : D).
Arguments W {D} _.
Arguments Dg {D} _.

(* helpers of the regenerated bodies *)
Definition zmem (x : Z) (l : list Z) : bool := existsb (Z.eqb x) l.
Fixpoint enumerate_from {A} (i : Z) (l : list A) : list (Z * A) :=
  match l with [] => [] | x :: r => (i, x) :: enumerate_from (i + 1) r end.
Definition enumerate {A} (l : list A) : list (Z * A) := enumerate_from 0 l.          (* enumerate(xs) *)
Definition sliced_set (ex : xstate) : list Z := match x_sliced ex with Some s => s | None => [] end.
Definition sliced_is_none (ex : xstate) : bool := match x_sliced ex with Some _ => false | None => true end.
(* sorted(set of ints): insertion sort of the de-duplicated members *)
Fixpoint zinsert (x : Z) (l : list Z) : list Z :=
  match l with [] => [x] | y :: r => if x <? y then x :: l else if x =? y then l else y :: zinsert x r end.
Definition zsorted (l : list Z) : list Z := fold_right zinsert [] l.
(* the ids of the terms held in the given block fields *)
Definition block_ids (ex : xstate) (flds : list bfield) : list Z := map (x_block ex) flds.
Definition key_is_int (k : xkey) : bool := match k with KInt _ => true | KTup _ => false end.
Definition key_int (k : xkey) : Z := match k with KInt z => z | KTup _ => 0 end.
Definition key_tuple (k : xkey) : list Z := match k with KInt _ => [] | KTup ks => ks end.

(* ------------------------------------------------------------------ decidable equality of ids
   (used by the extracted correspondence entry point, with the identity as the ideal hash) *)
Fixpoint list_eqb {A} (eqb : A -> A -> bool) (a b : list A) : bool :=
  match a, b with
  | [], [] => true
  | x :: a', y :: b' => eqb x y && list_eqb eqb a' b'
  | _, _ => false
  end.
Definition item_eqb {D} (deqb : D -> D -> bool) (a b : item D) : bool :=
  match a, b with
  | W x, W y => x =? y
  | Dg x, Dg y => deqb x y
  | _, _ => false
  end.
Definition opt_eqb {A} (eqb : A -> A -> bool) (a b : option A) : bool :=
  match a, b with Some x, Some y => eqb x y | None, None => true | _, _ => false end.

(* index of the first element of [seen] (oldest first) equal to x, or the length of [seen] *)
Fixpoint first_index {A} (eqb : A -> A -> bool) (x : A) (seen : list A) : nat :=
  match seen with [] => O | y :: r => if eqb y x then O else S (first_index eqb x r) end.
(* class_ids [i0; i1; ...] = for each position the position of the first equal id *)
Fixpoint class_ids_from {A} (eqb : A -> A -> bool) (seen : list A) (l : list A) : list Z :=
  match l with
  | [] => []
  | x :: r => Z.of_nat (first_index eqb x seen) :: class_ids_from eqb (seen ++ [x]) r
  end.
Definition class_ids {A} (eqb : A -> A -> bool) (l : list A) : list Z := class_ids_from eqb [] l.

(* ------------------------------------------------------------------ a witness pair
   The two end states of   set(x) { s = x; if (x > 9) {} else {} } :
   same balance, code and storage term x; condition 0 is `x > 9` on one path and `not (x > 9)`
   on the other; both slices are {0}.  Term ids: 100 = x, 200 = `x > 9`, 201 = `not (x > 9)`.
   (A digest of the slice INDICES instead of the conditions could not tell them apart.) *)
Module BranchInst.
  Definition hi : xstate := mkX 1 [(10, 77)] [(10, [(KTup [0; 0; 0], 100)])] [200] (Some [0]) (fun _ => 0).
  Definition lo : xstate := mkX 1 [(10, 77)] [(10, [(KTup [0; 0; 0], 100)])] [201] (Some [0]) (fun _ => 0).
End BranchInst.
