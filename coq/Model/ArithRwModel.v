(* What SEVM.arith returns for DIV as a function of the operand VALUES and of the syntactic shape of the dividend
   (Gen/GenArithRw.v is regenerated from SEVM.arith / SEVM.div_xy_y on every run).  No proofs here. *)
From Coq Require Import ZArith Bool.
From HV Require Import Base.Word Gen.GenArithRw.
Open Scope Z_scope.

(* the dividend is syntactically a product a * b whose factors are known to fit in bits_a / bits_b bits;
   is_a / is_b: the divisor is syntactically the factor a / b *)
Record product := mkProduct { pa : Z; pb : Z; bits_a : Z; bits_b : Z; is_a : bool; is_b : bool }.

(* SEVM.div_xy_y: the other factor, when the divisor is one of the factors and the product cannot wrap *)
Definition div_xy_y (p : product) (y : Z) : option Z :=
  if (is_a p || is_b p) && (bits_a p + bits_b p <=? 256) && (negb xy_y_checks_nonzero || negb (y =? 0))
  then Some (if is_a p then pb p else pa p)
  else None.

(* the VALUE of the term arith builds for  x / y *)
Definition arith_div (x y : Z) (shape : option product) : Z :=
  match (if div_uses_xy_y then shape else None) with
  | Some p => match div_xy_y p y with Some v => v | None => evm_div x y end
  | None => evm_div x y
  end.
