(* Executable model of halmos.bytevec (Chunk, ConcreteChunk, SymbolicChunk, ByteVec),
   following src/halmos/bytevec.py branch by branch.  No proofs in this file
   (Proofs/ByteVecProofs.v).

   Parametric in the byte type B with a [zero] (one model for concrete bytes, symbolic
   bytes and their values under any valuation).

   chunk  := Leaf sym data start len     a ConcreteChunk (sym = false) / SymbolicChunk
                                         (sym = true): [len] bytes of [data] from [start]
           | Nest tag cs len             a ByteVec object stored as ONE chunk (the aligned
                                         fast path of set_slice stores the value object
                                         itself) with its chunk dict [cs] and length [len];
                                         [tag] is the identity of that object in the
                                         object store of the second layer (None = an
                                         object only this dict refers to); the pure layer
                                         never looks at it.
   bvec   := { chunks : list (nat * chunk) sorted by key like the SortedDict; blen }

   Deviations, all confined to states the invariant [wf] excludes (Proofs show they are
   unreachable from [empty]): Python's negative index after bisect_right(...) - 1 on a
   dict whose first key is above the offset, IndexError / assert raised by
   Chunk.__getitem__ and the Chunk constructors on out-of-range slices, the `assert`s of
   set_byte / set_slice / slice.  Values are never the receiver itself.               *)
From Coq Require Import List Arith Bool ZArith.
From HV Require Import Spec.ByteVecSpec Gen.GenByteVecSugar.
Import ListNotations.

Section Model.
Variable B : Type.
Variable zero : B.

Inductive chunk : Type :=
| Leaf (sym : bool) (data : list B) (start len : nat)
| Nest (tag : option nat) (cs : list (nat * chunk)) (len : nat).

(* len(chunk): Chunk.length / ByteVec.length *)
Definition clen (c : chunk) : nat :=
  match c with Leaf _ _ _ l => l | Nest _ _ l => l end.

Record bvec : Type := BV { chunks : list (nat * chunk); blen : nat }.

Definition as_chunk (tag : option nat) (v : bvec) : chunk := Nest tag (chunks v) (blen v).
Definition empty : bvec := BV [] 0.

(* Chunk.wrap(bytes | BitVecRef) *)
Definition wrap (sym : bool) (d : list B) : chunk := Leaf sym d 0 (length d).
(* Chunk.wrap(b"\x00" * n) *)
Definition zeros_chunk (n : nat) : chunk := Leaf false (repeat zero n) 0 n.

(* ---- SortedDict ---- *)

(* self.chunks[k] = c *)
Fixpoint sd_set (k : nat) (c : chunk) (l : list (nat * chunk)) : list (nat * chunk) :=
  match l with
  | [] => [(k, c)]
  | (k', c') :: r =>
      if k <? k' then (k, c) :: l
      else if k =? k' then (k, c) :: r
      else (k', c') :: sd_set k c r
  end.

(* ByteVec.__set_chunk: ignore empty chunks *)
Definition set_chunk (cs : list (nat * chunk)) (k : nat) (c : chunk) : list (nat * chunk) :=
  if clen c =? 0 then cs else sd_set k c cs.

(* index = bisect_right(offset) - 1; start, chunk = peekitem(index) *)
Fixpoint find_chunk (cs : list (nat * chunk)) (off i : nat) : option (nat * nat * chunk) :=
  match cs with
  | [] => None
  | (k, c) :: r =>
      if (match r with (k2, _) :: _ => k2 <=? off | [] => false end)
      then find_chunk r off (S i)
      else Some (i, k, c)
  end.

(* ByteVec._load_chunk; None = ChunkInfo(index=-1) *)
Definition load_chunk (v : bvec) (off : nat) : option (nat * nat * chunk) :=
  if blen v <=? off then None else find_chunk (chunks v) off 0.

(* for key in self.chunks.keys()[from:to]: del self.chunks[key] *)
Definition remove_range (cs : list (nat * chunk)) (from to : nat) : list (nat * chunk) :=
  if to <=? from then cs else firstn from cs ++ skipn to cs.

(* ---- chunk level reads (recursive through nested ByteVecs) ---- *)

(* the leaf chunks `append` stores when given this chunk (a ByteVec is unpacked
   recursively) *)
Fixpoint leaves (c : chunk) : list chunk :=
  match c with
  | Leaf _ _ _ _ => [c]
  | Nest _ cs _ => flat_map (fun kc => leaves (snd kc)) cs
  end.

(* the bytes a chunk denotes (abstraction function; not part of the Python) *)
Fixpoint cflat (c : chunk) : list B :=
  match c with
  | Leaf _ d s l => firstn l (skipn s d)
  | Nest _ cs _ => flat_map (fun kc => cflat (snd kc)) cs
  end.

Definition flat (v : bvec) : list B := flat_map (fun kc => cflat (snd kc)) (chunks v).

(* append of one non-ByteVec chunk: start = self.length; if __set_chunk: length += len *)
Definition append_leaf (v : bvec) (c : chunk) : bvec :=
  if clen c =? 0 then v
  else BV (sd_set (blen v) c (chunks v)) (blen v + clen c).

(* ByteVec.append *)
Definition append (v : bvec) (c : chunk) : bvec := fold_left append_leaf (leaves c) v.

Definition from_leaves (ls : list chunk) : bvec := fold_left append_leaf ls empty.

Definition sum_len (ls : list chunk) : nat := fold_right (fun c n => clen c + n) 0 ls.

(* chunk.get_byte(off) / ByteVec.get_byte(off) *)
Fixpoint cget (c : chunk) (off : nat) : B :=
  match c with
  | Leaf _ d s _ => nth (s + off) d zero
  | Nest _ cs len =>
      if len <=? off then zero
      else
        (fix go (l : list (nat * chunk)) : B :=
           match l with
           | [] => zero
           | (k, c') :: r =>
               if (match r with (k2, _) :: _ => k2 <=? off | [] => false end)
               then go r
               else cget c' (off - k)
           end) cs
  end.

(* the chunks appended, in order, to the result of ByteVec.slice(a, b) (for a Leaf:
   the single chunk Chunk.__getitem__(slice(a, b)) returns) *)
Fixpoint cslice (c : chunk) (a b : nat) : list chunk :=
  match c with
  | Leaf sym d s _ => [Leaf sym d (s + a) (b - a)]
  | Nest _ cs len =>
      if b <=? a then []
      else if len <=? a then [zeros_chunk (b - a)]
      else
        let parts :=
          (fix go (l : list (nat * chunk)) : list chunk :=
             match l with
             | [] => []
             | (k, c') :: r =>
                 if (match r with (k2, _) :: _ => k2 <=? a | [] => false end)
                 then go r                                  (* before first_chunk.index *)
                 else if b <=? k then []                    (* break *)
                 else
                   (if (a <=? k) && (k + clen c' <=? b)
                    then leaves c'                          (* result.append(chunk) *)
                    else cslice c' (a - k) (Nat.min (clen c') (b - k)))
                   ++ go r
             end) cs in
        let missing := (b - a) - sum_len parts in
        if missing =? 0 then parts else parts ++ [zeros_chunk missing]
  end.

(* ByteVec.slice *)
Definition bslice (v : bvec) (a b : nat) : bvec := from_leaves (cslice (as_chunk None v) a b).

(* chunk[a:b]: Chunk.__getitem__ gives a chunk over the same data, ByteVec.__getitem__
   a new ByteVec *)
Definition csub (c : chunk) (a b : nat) : chunk :=
  match c with
  | Leaf sym d s _ => Leaf sym d (s + a) (b - a)
  | Nest _ _ _ => as_chunk None (from_leaves (cslice c a b))
  end.

Definition get_byte (v : bvec) (off : nat) : B := cget (as_chunk None v) off.

(* ---- unwrap / defrag ---- *)

(* a segment: (true, bytes) = python bytes; (false, bytes) = a BitVecRef *)
Definition seg : Type := (bool * list B)%type.

Fixpoint defrag_go (acc : seg) (l : list seg) : list seg :=
  match l with
  | [] => [acc]
  | e :: r =>
      if fst acc && fst e then defrag_go (true, snd acc ++ snd e) r
      else acc :: defrag_go e r
  end.

Definition defrag (l : list seg) : list seg :=
  match l with [] => [] | e :: r => defrag_go e r end.

Fixpoint cunwrap (c : chunk) : seg :=
  match c with
  | Leaf sym d s l => (negb sym, firstn l (skipn s d))
  | Nest _ cs len =>
      if len =? 0 then (true, [])
      else
        match defrag (map (fun kc => cunwrap (snd kc)) cs) with
        | [x] => x
        | segs => (false, concat (map snd segs))
        end
  end.

Definition unwrap (v : bvec) : seg := cunwrap (as_chunk None v).

(* get_word before unbox_int: slice(off, off + 32).unwrap() *)
Definition get_word (v : bvec) (off : nat) : seg := unwrap (bslice v off (off + 32)).

(* ---- writes; None = the Python raises before mutating anything ---- *)

Definition set_byte (v : bvec) (off : nat) (sym : bool) (x : B) : option bvec :=
  let bc := Leaf sym [x] 0 1 in
  if blen v <=? off then
    Some (append_leaf (append_leaf v (zeros_chunk (off - blen v))) bc)
  else
    match load_chunk v off with
    | None => None
    | Some (_, s, c) =>
        let oic := off - s in
        let cs1 := set_chunk (chunks v) s (csub c 0 oic) in
        let cs2 := sd_set off bc cs1 in
        let cs3 := set_chunk cs2 (off + 1) (csub c (oic + 1) (clen c)) in
        Some (BV cs3 (blen v))
    end.

(* the value is a chunk: Leaf for bytes / BitVecRef / Chunk, Nest for a ByteVec *)
Definition set_slice (v : bvec) (start stop : nat) (val : chunk) : option bvec :=
  if start =? stop then Some v
  else if stop <? start then None
  else if negb (stop - start =? clen val) then None
  else if blen v <=? start then
    Some (append (append_leaf v (zeros_chunk (start - blen v))) val)
  else
    match load_chunk v start with
    | None => None
    | Some (fi, fs, fc) =>
        let fe := fs + clen fc in
        if (start =? fs) && (stop =? fe) then
          Some (BV (set_chunk (chunks v) fs val) (blen v))
        else
          let last := load_chunk v (stop - 1) in
          let remove_to :=
            if blen v <=? stop then length (chunks v)
            else match last with Some (li, _, _) => li + 1 | None => 0 end in
          let cs1 := remove_range (chunks v) (fi + 1) remove_to in
          let cs2 := set_chunk cs1 fs (csub fc 0 (start - fs)) in
          let cs3 :=
            match val with
            | Nest _ wcs _ =>
                fold_left (fun acc kc => set_chunk acc (start + fst kc) (snd kc)) wcs cs2
            | Leaf _ _ _ _ => set_chunk cs2 start val
            end in
          let cs4 :=
            match last with
            | Some (_, ls, lc) =>
                if stop <? ls + clen lc
                then set_chunk cs3 stop (csub lc (stop - ls) (clen lc))
                else cs3
            | None => cs3
            end in
          Some (BV cs4 (Nat.max (blen v) stop))
    end.

Definition set_word (v : bvec) (off : nat) (val : chunk) : option bvec :=
  set_slice v off (off + 32) val.

(* ByteVec.__setitem__ / __getitem__ with a slice key (step 1):
     start = <bound of key.start> ; stop = <bound of key.stop, default self.length>
     return self.set_slice(start, stop, value)   /   return self.slice(start, stop)
   The two bound expressions are regenerated from the Python (Gen/GenByteVecSugar.v:
   `x or d` takes the default for None AND for 0, `x if x is not None else d` for None only);
   None = the bound is omitted in the key *)
Definition oz (x : option nat) : option Z := option_map Z.of_nat x.

Definition setitem_bounds (v : bvec) (start stop : option nat) : nat * nat :=
  (Z.to_nat (setitem_start (oz start) (Z.of_nat (blen v))),
   Z.to_nat (setitem_stop (oz stop) (Z.of_nat (blen v)))).

Definition setitem_slice (v : bvec) (start stop : option nat) (val : chunk) : option bvec :=
  set_slice v (fst (setitem_bounds v start stop)) (snd (setitem_bounds v start stop)) val.

Definition getitem_bounds (v : bvec) (start stop : option nat) : nat * nat :=
  (Z.to_nat (getitem_start (oz start) (Z.of_nat (blen v))),
   Z.to_nat (getitem_stop (oz stop) (Z.of_nat (blen v)))).

Definition getitem_slice (v : bvec) (start stop : option nat) : bvec :=
  bslice v (fst (getitem_bounds v start stop)) (snd (getitem_bounds v start stop)).

(* ---- observations of a ByteVec (every public read): len(v), v.get_byte(off),
   v.slice(a, b) (a fresh object, read through unwrap), v.get_word(off), v.unwrap(),
   v[start:stop].  In the model they are functions of the chunk dict alone: nothing is
   cached between a write and a read, and a read leaves the object as it is ---- *)
Inductive obs : Type :=
| OLen
| OGet (off : nat)
| OSliceQ (a b : nat)
| OWord (off : nat)
| OUnwrap
| OItem (start stop : option nat).

Definition observe (v : bvec) (q : obs) : fres B :=
  match q with
  | OLen => FRLen (blen v)
  | OGet off => FRBytes [get_byte v off]
  | OSliceQ a b => FRBytes (snd (unwrap (bslice v a b)))
  | OWord off => FRBytes (snd (get_word v off))
  | OUnwrap => FRBytes (snd (unwrap v))
  | OItem start stop => FRBytes (snd (unwrap (getitem_slice v start stop)))
  end.

Definition abs_obs (q : obs) : fobs :=
  match q with
  | OLen => FOLen
  | OGet off => FOGet off
  | OSliceQ a b => FOSlice a b
  | OWord off => FOWord off
  | OUnwrap => FOAll
  | OItem start stop => FOItem start stop
  end.

(* a ConcreteChunk (unwrap gives python bytes) *)
Definition leaf_conc (c : chunk) : bool :=
  match c with Leaf sym _ _ _ => negb sym | Nest _ _ _ => true end.

(* ---- ByteVec._well_formed, extended to nested ByteVecs and to the Chunk constructor
   assertion (start + length <= data_byte_length): keys contiguous from 0, no empty
   chunk, lengths add up ---- *)

Inductive wfc : chunk -> Prop :=
| wfc_leaf : forall sym d s l, s + l <= length d -> wfc (Leaf sym d s l)
| wfc_nest : forall tag cs len, wfl 0 cs len -> wfc (Nest tag cs len)
with wfl : nat -> list (nat * chunk) -> nat -> Prop :=
| wfl_nil : forall b, wfl b [] b
| wfl_cons : forall b c r e,
    0 < clen c -> wfc c -> wfl (b + clen c) r e -> wfl b ((b, c) :: r) e.

Definition wf (v : bvec) : Prop := wfl 0 (chunks v) (blen v).

(* ---- operation sequences on one ByteVec ---- *)

Inductive op : Type :=
| OAppend (val : chunk)
| OSetByte (off : nat) (sym : bool) (x : B)
| OSetSlice (a b : nat) (val : chunk)
| OSetWord (off : nat) (val : chunk)
| OCopyWithin (dst a b : nat)         (* set_slice(dst, dst + (b - a), self.slice(a, b)) *)
| OAppendSelf (a b : nat).            (* append(self.slice(a, b)) *)

Definition or_unchanged (v : bvec) (r : option bvec) : bvec :=
  match r with Some v' => v' | None => v end.

Definition apply_op (v : bvec) (o : op) : bvec :=
  match o with
  | OAppend val => append v val
  | OSetByte off sym x => or_unchanged v (set_byte v off sym x)
  | OSetSlice a b val => or_unchanged v (set_slice v a b val)
  | OSetWord off val => or_unchanged v (set_word v off val)
  | OCopyWithin dst a b =>
      or_unchanged v (set_slice v dst (dst + (b - a)) (as_chunk None (bslice v a b)))
  | OAppendSelf a b => append v (as_chunk None (bslice v a b))
  end.

Definition run_ops (ops : list op) : bvec := fold_left apply_op ops empty.

(* what an operation means on the flat array: values are replaced by the bytes they denote *)
Definition abs_op (o : op) : fop B :=
  match o with
  | OAppend val => FAppend (cflat val)
  | OSetByte off _ x => FSetByte off x
  | OSetSlice a b val => FSetSlice a b (cflat val)
  | OSetWord off val => FSetSlice off (off + 32) (cflat val)
  | OCopyWithin dst a b => FCopyWithin dst a b
  | OAppendSelf a b => FAppendSelf a b
  end.

(* values handed to an operation are well-formed chunks / ByteVecs *)
Definition op_ok (o : op) : Prop :=
  match o with
  | OAppend val | OSetSlice _ _ val | OSetWord _ val => wfc val
  | _ => True
  end.

(* writes and observations interleaved in any way *)
Inductive ev : Type := EOp (o : op) | EObs (q : obs).

Fixpoint trace (v : bvec) (es : list ev) : list (fres B) :=
  match es with
  | [] => []
  | EOp o :: r => trace (apply_op v o) r
  | EObs q :: r => observe v q :: trace v r
  end.

Definition abs_ev (e : ev) : fev B :=
  match e with EOp o => FEOp (abs_op o) | EObs q => FEObs (abs_obs q) end.

Definition ev_ok (e : ev) : Prop := match e with EOp o => op_ok o | EObs _ => True end.

End Model.

Arguments Leaf {B}.
Arguments Nest {B}.
Arguments BV {B}.
Arguments chunks {B}.
Arguments blen {B}.
Arguments clen {B}.
Arguments as_chunk {B}.
Arguments empty {B}.
Arguments wrap {B}.
Arguments sd_set {B}.
Arguments set_chunk {B}.
Arguments find_chunk {B}.
Arguments load_chunk {B}.
Arguments remove_range {B}.
Arguments leaves {B}.
Arguments cflat {B}.
Arguments flat {B}.
Arguments append_leaf {B}.
Arguments append {B}.
Arguments from_leaves {B}.
Arguments sum_len {B}.
Arguments defrag_go {B}.
Arguments defrag {B}.
Arguments cunwrap {B}.
Arguments unwrap {B}.
Arguments leaf_conc {B}.
Arguments wfc {B}.
Arguments wfl {B}.
Arguments wf {B}.
Arguments OAppend {B}.
Arguments OSetByte {B}.
Arguments OSetSlice {B}.
Arguments OSetWord {B}.
Arguments OCopyWithin {B}.
Arguments OAppendSelf {B}.
Arguments or_unchanged {B}.
Arguments abs_op {B}.
Arguments op_ok {B}.
Arguments apply_op {B}.
Arguments run_ops {B}.
Arguments setitem_bounds {B}.
Arguments EOp {B}.
Arguments EObs {B}.
Arguments abs_ev {B}.
Arguments ev_ok {B}.
Arguments getitem_bounds {B}.
