(* Executable model of halmos.cheatcodes.Prank / PrankResult and of the way SEVM.call /
   SEVM.create / hevm_cheat_code.handle use the per-frame Prank record (CallContext.prank).
   Follows the Python branch by branch.  No proofs in this file (Proofs/PrankProofs.v).

   The addresses exempted by Prank.lookup and the cheatcode addresses are regenerated
   from the source on every run (Gen/GenCheatSelectors.v). *)
From Coq Require Import ZArith List Bool.
From HV Require Import Gen.GenCheatSelectors Spec.FoundrySpec.
Import ListNotations.
Open Scope Z_scope.

(* PrankResult(sender, origin); NO_PRANK = PrankResult() *)
Record presult := { p_sender : option addr; p_origin : option addr }.
Definition NO_PRANK : presult := {| p_sender := None; p_origin := None |}.

(* PrankResult.__bool__: sender is not None or origin is not None *)
Definition presult_bool (r : presult) : bool :=
  match p_sender r, p_origin r with None, None => false | _, _ => true end.

(* Prank(active, keep) *)
Record prank := { active : presult; keep : bool }.
Definition fresh_prank : prank := {| active := NO_PRANK; keep := false |}.
Definition prank_bool (p : prank) : bool := presult_bool (active p).

(* Prank.stopPrank *)
Definition stop_prank (p : prank) : prank := {| active := NO_PRANK; keep := false |}.

Definition mem_addr (a : Z) (l : list Z) : bool := existsb (Z.eqb a) l.

(* Prank.lookup(to)   (the list is regenerated from the source: Gen.prank_exempt):
     if self and to not in [halmos_cheat_code.address, hevm_cheat_code.address, console.address]:
         result = self.active
         if not self.keep: self.stopPrank()
         return result
     return NO_PRANK *)
Definition lookup (p : prank) (to : Z) : presult * prank :=
  if prank_bool p && negb (mem_addr to prank_exempt) then
    (active p, if keep p then p else stop_prank p)
  else (NO_PRANK, p).

(* Prank.prank(sender, origin=None, _keep=False) -> bool *)
Definition do_prank (p : prank) (sender : addr) (origin : option addr) (k : bool) : bool * prank :=
  if presult_bool (active p) then (false, p)
  else (true, {| active := {| p_sender := Some sender; p_origin := origin |}; keep := k |}).

(* a call frame: CallContext.message.{target, caller, origin} + CallContext.prank *)
Record mframe := { m_this : addr; m_caller : addr; m_origin : addr; m_prank : prank }.

Definition m_fresh (this sender origin : addr) : mframe :=
  {| m_this := this; m_caller := sender; m_origin := origin; m_prank := fresh_prank |}.
Definition m_with (f : mframe) (p : prank) : mframe :=
  {| m_this := m_this f; m_caller := m_caller f; m_origin := m_origin f; m_prank := p |}.

(* Exec.resolve_prank(to) *)
Definition resolve_prank (f : mframe) (to : Z) : (addr * addr) * mframe :=
  let '(res, p') := lookup (m_prank f) to in
  let caller := match p_sender res with None => m_this f | Some s => s end in
  let origin := match p_origin res with None => m_origin f | Some o => o end in
  ((caller, origin), m_with f p').

Definition cheat_addr (c : cheat_target) : Z :=
  match c with CHevm => hevm_address | CSvm => svm_address | CConsole => console_address end.

Inductive mres := MErr | MOk (frames : list mframe) (out : list obs).

(* SEVM.call with `to` = the hevm address and a prank-family selector:
   resolve_prank(to) first, then hevm_cheat_code.handle: ex.context.prank.prank(...);
   a False result raises HalmosException (the path is stuck) *)
Definition m_set_prank (k : bool) (s : addr) (o : option addr) (f : mframe) (rest : list mframe) : mres :=
  let '(_, f1) := resolve_prank f hevm_address in
  let '(ok, p') := do_prank (m_prank f1) s o k in
  if ok then MOk (m_with f1 p' :: rest) [] else MErr.

Definition m_step (st : list mframe) (o : op) : mres :=
  match o, st with
  | ONewTx this sender origin, _ => MOk [m_fresh this sender origin] []
  | _, [] => MOk [] []
  | OPrank s, f :: rest => m_set_prank false s None f rest
  | OPrank2 s og, f :: rest => m_set_prank false s (Some og) f rest
  | OStartPrank s, f :: rest => m_set_prank true s None f rest
  | OStartPrank2 s og, f :: rest => m_set_prank true s (Some og) f rest
  | OStopPrank, f :: rest =>
      let '(_, f1) := resolve_prank f hevm_address in
      MOk (m_with f1 (stop_prank (m_prank f1)) :: rest) []
  | OCheat c, f :: rest =>
      (* call_unknown: the callee is a cheatcode address; no frame is entered *)
      let '(_, f1) := resolve_prank f (cheat_addr c) in
      MOk (f1 :: rest) []
  | OCall _ a, f :: rest =>
      (* call_known: the parent's context (prank already resolved) is what the callback restores *)
      let '((sender, origin), f1) := resolve_prank f a in
      MOk (m_fresh a sender origin :: f1 :: rest) [Obs sender origin]
  | OCreate a, f :: rest =>
      let '((sender, origin), f1) := resolve_prank f 0 in
      MOk (m_fresh a sender origin :: f1 :: rest) [Obs sender origin]
  | OReturn, f :: [] => MOk [f] []
  | OReturn, _ :: rest => MOk rest []
  end.

Fixpoint m_run (st : list mframe) (ops : list op) : list obs :=
  match ops with
  | [] => []
  | o :: r => match m_step st o with
              | MErr => [ObsError]
              | MOk st' out => out ++ m_run st' r
              end
  end.

(* the ops whose callee is an ordinary account *)
Definition target_ok (o : op) : Prop :=
  match o with OCall _ a => ~ In a cheatcode_addresses | _ => True end.
