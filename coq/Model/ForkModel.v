(* Executable model of the state cheatcodes ACROSS SYMBOLIC BRANCHES (C14: "subsequent reads
   return exactly the supplied values" on every path, whatever a sibling path does).

   halmos keeps the world state of a path in mutable python objects hanging off its Exec:
     ex.block      a Block object; vm.warp/roll/fee/chainId/coinbase/difficulty assign its
                   attributes IN PLACE            (cheatcodes.py: `ex.block.timestamp = ...`)
     ex.storage    dict addr -> StorageData; vm.store / SSTORE mutate the StorageData IN PLACE
     ex.code       dict addr -> Contract; vm.etch assigns an entry IN PLACE (Exec.set_code)
     ex.balance    an immutable z3 array term; vm.deal REBINDS the attribute (balance_update)
   At a symbolic JUMPI (SEVM.jumpi) the jump side runs on the Exec built by
   SEVM.create_branch, the fall-through side keeps `ex`; both are pushed on the LIFO worklist
   (true side first), so the fall-through side runs to completion -- mutating the objects it
   holds -- before the jump side starts.  What create_branch copies and what it hands over
   by reference is regenerated from sevm.py on every run (Gen/GenCopies.v,
   create_branch_table: Share = `ex.f`, Shallow = `ex.f.copy()`, Deep = `deepcopy(ex.f)`).

   Objects have identity here (heaps of cells, an Exec holds references), so a component that
   is shared rather than copied makes one path read what its sibling wrote -- in the model
   exactly as in halmos.  The cheatcode semantics itself is Model/CheatModel.do_cheat.
   No proofs in this file (Proofs/ForkProofs.v). *)
From Coq Require Import ZArith NArith List Bool String.
From HV Require Import Gen.GenCheatSelectors Gen.GenCopies Model.CheatModel.
Import ListNotations.
Open Scope Z_scope.

(* ------------------------------------------------------------------ programs *)
Inductive item :=
| ICheat (c : cheat)
| IBalance (a : Z)            (* BALANCE *)
| ISload (a s : Z)            (* SLOAD executed by account a *)
| IExtcodesize (a : Z)
| ITimestamp | INumber | IBasefee | IChainid | ICoinbase | IPrevrandao
| IMark (v : Z).              (* LOG of a constant: tells the sides of a fork apart *)

(* a program with symbolic two-sided branches *)
Inductive ftree :=
| FEnd
| FItem (i : item) (k : ftree)
| FFork (fall jump : ftree).

(* ------------------------------------------------------------------ one item on a world value *)
Inductive ires := IErr (out : list Z) | IOk (w : mworld) (out : list Z).

(* outputs as Extract/ExC14.state_run prints them: 1 per cheatcode (1 v for vm.load), the
   value per read; a refused cheatcode ends the path with 0 (HalmosException) or 2 (fail) *)
Definition item_fun (w : mworld) (i : item) : ires :=
  match i with
  | ICheat c =>
      match do_cheat w c with
      | SErrNonexistent => IErr [0]
      | SFail => IErr [2]
      | SDone w' None => IOk w' [1]
      | SDone w' (Some v) => IOk w' [1; v]
      end
  | IBalance a => match read_balance_checked w a with Some v => IOk w [v] | None => IErr [0] end
  | ISload a s => IOk w [read_storage w a s]
  | IExtcodesize a =>
      IOk w [match read_code w (u160 a) with Some c => Z.of_nat (List.length c) | None => -1 end]
  | ITimestamp => IOk w [mw_timestamp w]
  | INumber => IOk w [mw_number w]
  | IBasefee => IOk w [mw_basefee w]
  | IChainid => IOk w [mw_chainid w]
  | ICoinbase => IOk w [mw_coinbase w]
  | IPrevrandao => IOk w [mw_difficulty w]
  | IMark v => IOk w [v]
  end.

(* straight-line execution of one path *)
Fixpoint lin_run (w : mworld) (l : list item) : list Z :=
  match l with
  | [] => []
  | i :: r => match item_fun w i with IErr o => o | IOk w' o => o ++ lin_run w' r end
  end.

(* ------------------------------------------------------------------ objects with identity *)
Definition blockrec := (Z * Z * Z * Z * Z * Z)%type.   (* basefee chainid coinbase difficulty number timestamp *)
Definition zero_block : blockrec := (0, 0, 0, 0, 0, 0).

Record heaps := {
  hb : list blockrec;                 (* Block objects *)
  hs : list (list (Z * Z * Z));       (* storage: the dict addr -> StorageData with everything below it *)
  hc : list (list (Z * list Z))       (* code dicts *)
}.

(* an Exec: references to its Block / storage / code objects, and the balance term *)
Record exec := { xb : nat; xs : nat; xc : nat; xbal : list (Z * Z) }.

Fixpoint upd {A} (l : list A) (n : nat) (a : A) : list A :=
  match l, n with
  | [], _ => []
  | _ :: t, O => a :: t
  | x :: t, S n' => x :: upd t n' a
  end.

Definition blk_of (w : mworld) : blockrec :=
  (mw_basefee w, mw_chainid w, mw_coinbase w, mw_difficulty w, mw_number w, mw_timestamp w).

(* what the opcodes of the path running on x read *)
Definition view (h : heaps) (x : exec) : mworld :=
  let '(bf, ci, cb, df, nb, ts) := nth (xb x) (hb h) zero_block in
  {| mw_balance := xbal x; mw_storage := nth (xs x) (hs h) []; mw_code := nth (xc x) (hc h) [];
     mw_basefee := bf; mw_chainid := ci; mw_coinbase := cb; mw_difficulty := df;
     mw_number := nb; mw_timestamp := ts |}.

(* the effect of an item that produced world w', as halmos performs it: the component the
   cheatcode touches is mutated in place through the Exec's reference; the balance is rebound *)
Definition commit (h : heaps) (x : exec) (i : item) (w' : mworld) : heaps * exec :=
  match i with
  | ICheat (Deal _ _) =>
      (h, {| xb := xb x; xs := xs x; xc := xc x; xbal := mw_balance w' |})
  | ICheat (Store _ _ _) =>
      ({| hb := hb h; hs := upd (hs h) (xs x) (mw_storage w'); hc := hc h |}, x)
  | ICheat (Etch _ _) =>
      ({| hb := hb h; hs := hs h; hc := upd (hc h) (xc x) (mw_code w') |}, x)
  | ICheat (Load _ _) => (h, x)
  | ICheat _ =>       (* warp roll fee chainId coinbase difficulty *)
      ({| hb := upd (hb h) (xb x) (blk_of w'); hs := hs h; hc := hc h |}, x)
  | _ => (h, x)
  end.

(* the premise of [commit] for the Block object, against the source: each of the six handlers
   vm.fee/chainId/coinbase/difficulty/roll/warp is `ex.block.<attr> = word` (Gen.block_handlers,
   regenerated from hevm_cheat_code.handle) -- an assignment to ONE attribute of the object the
   Exec references; [cheat_of_selector] is the cheat the model runs for that selector *)
Definition field_index (f : string) : option nat :=
  if String.eqb f "basefee" then Some 0%nat
  else if String.eqb f "chainid" then Some 1%nat
  else if String.eqb f "coinbase" then Some 2%nat
  else if String.eqb f "difficulty" then Some 3%nat
  else if String.eqb f "number" then Some 4%nat
  else if String.eqb f "timestamp" then Some 5%nat
  else None.
Definition blk_list (w : mworld) : list Z :=
  [mw_basefee w; mw_chainid w; mw_coinbase w; mw_difficulty w; mw_number w; mw_timestamp w].
Definition cheat_of_selector (sel : N) (x : Z) : option cheat :=
  if N.eqb sel fee_sig then Some (Fee x)
  else if N.eqb sel chainid_sig then Some (ChainId x)
  else if N.eqb sel coinbase_sig then Some (Coinbase x)
  else if N.eqb sel difficulty_sig then Some (Difficulty x)
  else if N.eqb sel roll_sig then Some (Roll x)
  else if N.eqb sel warp_sig then Some (Warp x)
  else None.

(* ------------------------------------------------------------------ create_branch *)
Fixpoint kind_of (f : string) (t : list (string * copykind)) : copykind :=
  match t with
  | [] => Share                              (* unknown: assume the worst *)
  | (g, k) :: r => if String.eqb f g then k else kind_of f r
  end.

Definition block_kind : copykind := kind_of "block" create_branch_table.
Definition storage_kind : copykind := kind_of "storage" create_branch_table.
Definition code_kind : copykind := kind_of "code" create_branch_table.
Definition balance_kind : copykind := kind_of "balance" create_branch_table.

(* a new top-level object (x.copy() or deepcopy(x)) / new objects all the way down *)
Definition copied (k : copykind) : bool := match k with Shallow | Deep => true | _ => false end.
Definition deep_copied (k : copykind) : bool := match k with Deep => true | _ => false end.

(* Block: attributes are immutable terms, a new Block object is private.
   storage: the StorageData objects below the dict are mutated in place, so only deepcopy
   separates them (a shallow dict copy still shares them: modelled as shared).
   code: entries are assigned, Contract objects are never mutated: a new dict is private.
   balance: an immutable term -- the reference is the value, whatever the kind. *)
Definition branch_with (kb ks kc : copykind) (h : heaps) (x : exec) : heaps * exec :=
  let '(hb', b') := if copied kb then (hb h ++ [nth (xb x) (hb h) zero_block], List.length (hb h))
                    else (hb h, xb x) in
  let '(hs', s') := if deep_copied ks then (hs h ++ [nth (xs x) (hs h) []], List.length (hs h))
                    else (hs h, xs x) in
  let '(hc', c') := if copied kc then (hc h ++ [nth (xc x) (hc h) []], List.length (hc h))
                    else (hc h, xc x) in
  ({| hb := hb'; hs := hs'; hc := hc' |}, {| xb := b'; xs := s'; xc := c'; xbal := xbal x |}).

(* ------------------------------------------------------------------ the worklist run *)
(* SEVM.run with SEVM.jumpi on a two-sided branch: new_ex_true = create_branch(ex, ...),
   new_ex_false = ex; stack.push(new_ex_true); stack.push(new_ex_false); Worklist.pop takes
   the last one: the fall-through side (and every path below it) completes first.
   Result: the heap afterwards and the outputs of the completed paths in completion order;
   acc = what this path has printed so far. *)
Fixpoint run_with (kb ks kc : copykind) (h : heaps) (x : exec) (t : ftree) (acc : list Z)
  : heaps * list (list Z) :=
  match t with
  | FEnd => (h, [acc])
  | FItem i k =>
      match item_fun (view h x) i with
      | IErr o => (h, [acc ++ o])
      | IOk w' o => let '(h', x') := commit h x i w' in run_with kb ks kc h' x' k (acc ++ o)
      end
  | FFork a b =>
      let '(h1, y) := branch_with kb ks kc h x in
      let '(h2, oa) := run_with kb ks kc h1 x a acc in
      let '(h3, ob) := run_with kb ks kc h2 y b acc in
      (h3, oa ++ ob)
  end.

(* halmos as it is: the kinds SEVM.create_branch uses *)
Definition branch := branch_with block_kind storage_kind code_kind.
Definition run := run_with block_kind storage_kind code_kind.

(* ------------------------------------------------------------------ the paths of a program *)
(* value semantics: both sides of a branch continue from the same world VALUE; nothing a
   side does can reach the other (this is what C14 requires of every path) *)
Fixpoint spec_run (w : mworld) (t : ftree) (acc : list Z) : list (list Z) :=
  match t with
  | FEnd => [acc]
  | FItem i k =>
      match item_fun w i with
      | IErr o => [acc ++ o]
      | IOk w' o => spec_run w' k (acc ++ o)
      end
  | FFork a b => spec_run w a acc ++ spec_run w b acc
  end.

(* root-to-leaf item sequences, fall-through side first *)
Fixpoint paths (t : ftree) : list (list item) :=
  match t with
  | FEnd => [[]]
  | FItem i k => map (cons i) (paths k)
  | FFork a b => paths a ++ paths b
  end.

(* the initial Exec of a test: one object of each kind *)
Definition init_heaps (w : mworld) : heaps :=
  {| hb := [blk_of w]; hs := [mw_storage w]; hc := [mw_code w] |}.
Definition init_exec (w : mworld) : exec := {| xb := 0; xs := 0; xc := 0; xbal := mw_balance w |}.
