(* Types for Gen/GenPathQuery.v (Path.to_smt2 / Path.extend_path as regenerated from sevm.py).
   No proofs. *)

(* where Path.to_smt2 takes the assertions of the query from *)
Inductive qsrc : Type :=
| SrcConditions     (* every key of self.conditions, asserted into a fresh solver *)
| SrcSolver.        (* the path's own incremental solver, serialised *)

(* what Path.extend_path adds to the solver of the path that continues the parent *)
Inductive sadd : Type :=
| AddAll            (* every inherited condition *)
| AddSliced.        (* only the conditions the parent's slice kept (state-related ones) *)
