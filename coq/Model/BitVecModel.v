(* Executable model of halmos' word-level layer: src/halmos/bitvec.py (HalmosBool,
   HalmosBitVec: constructor, every arithmetic / comparison / bitwise / shift / byte /
   signextend method with each fast path) and the dispatch layer of src/halmos/sevm.py
   (pop/popi/top/topi, bitwise(), SEVM.arith and its abstraction choice, sym_byte_of, the
   opcode arms of SEVM.run).  The dispatch layer is an INTERPRETER (exec_arm) of the arm bodies
   regenerated from sevm.py into Gen/GenWordOps.v (syntax: Model/WordOpsIR.v): which accessor
   fetches each operand, in which order, which method of which receiver is called with which
   abstraction functions, set_top or push - all of that is read from the source on every run.  The model follows the Python branch by branch, INCLUDING its
   defects.  The literal guards / constants (g_.., e_..) and the concrete-path return expressions
   (r_.. value, rd_.. divisors, rw_.. work) come from Gen/GenBitvecGuards.v, regenerated from
   bitvec.py on every run; their parameters are the free names of the source expression in
   alphabetical order.  No proofs here.

   z3 side: [term]/[bterm] is the fragment of z3 terms halmos builds; [eval]/[beval] give
   them their SMT-LIB meaning (Base/SmtBV.v) and interpret the f_evm_* uninterpreted
   functions by their exact definitions (solve.py refine(): x/0 = x%0 = 0; exp exact).
   `simplify` is modelled as denotation-preserving; where halmos relies on z3 to FOLD a
   term over two constants into a constant (sdiv, smod, ashr, signextend on concrete
   operands) the folded value is the SmtBV function applied to the constants. *)
From Coq Require Import ZArith List Bool.
From HV Require Import Base.Word Base.SmtBV Model.PyInt Model.WordOpsIR Gen.GenBitvecGuards Gen.GenWordOps.
Import ListNotations.
Open Scope Z_scope.

(* ------------------------------------------------------------------ z3 terms *)
Inductive binop := Add | Sub | Mul | Udiv | Urem | Sdiv | Srem | Shl | Lshr | Ashr | And | Or | Xor.
Inductive cmpop := Ult | Ule | Ugt | Uge | Slt | Sgt.

Inductive term :=
| TVar (id : Z)                               (* BitVec(name, n) *)
| TConst (n v : Z)                            (* BitVecVal(v, n) *)
| TBin (o : binop) (n : Z) (a b : term)
| TNot (n : Z) (a : term)
| TExtract (hi lo : Z) (a : term)
| TConcat (m : Z) (a b : term)                (* Concat(a, b), b of width m *)
| TZext (k : Z) (a : term)
| TSext (n k : Z) (a : term)                  (* SignExt(k, a), a of width n *)
| TIte (c : bterm) (a b : term)
| TUF (f : uf) (n : Z) (a b : term)           (* f_evm_<f>_<n>(a, b) *)
with bterm :=
| BVar (id : Z)
| BConst (b : bool)
| BEq (a b : term)
| BCmp (o : cmpop) (n : Z) (a b : term)
| BNot (c : bterm)
| BAnd (c d : bterm)
| BOr (c d : bterm)
| BXor (c d : bterm)
| BIff (c d : bterm).

Definition binop_eval (o : binop) (n x y : Z) : Z :=
  match o with
  | Add => bvadd n x y | Sub => bvsub n x y | Mul => bvmul n x y
  | Udiv => bvudiv n x y | Urem => bvurem n x y
  | Sdiv => bvsdiv n x y | Srem => bvsrem n x y
  | Shl => bvshl n x y | Lshr => bvlshr n x y | Ashr => bvashr n x y
  | And => bvand x y | Or => bvor x y | Xor => bvxor x y
  end.

Definition cmp_eval (o : cmpop) (n x y : Z) : bool :=
  match o with
  | Ult => bvult x y | Ule => bvule x y | Ugt => bvult y x | Uge => bvule y x
  | Slt => bvslt n x y | Sgt => bvslt n y x
  end.

(* exact definitions of the abstractions (solve.py: refine) *)
Definition uf_eval (f : uf) (n x y : Z) : Z :=
  match f with
  | Fmul => bvmul n x y
  | Fudiv => if y =? 0 then 0 else bvudiv n x y
  | Furem => if y =? 0 then 0 else bvurem n x y
  | Fsdiv => if y =? 0 then 0 else bvsdiv n x y
  | Fsrem => if y =? 0 then 0 else bvsrem n x y
  | Fexp => modpow x y (2 ^ n)
  end.

Section Eval.
  Variable ev : Z -> Z.       (* valuation of bit-vector variables *)
  Variable eb : Z -> bool.    (* valuation of Bool variables *)

  Fixpoint eval (t : term) : Z :=
    match t with
    | TVar id => ev id
    | TConst n v => bvmod n v
    | TBin o n a b => binop_eval o n (eval a) (eval b)
    | TNot n a => bvnot n (eval a)
    | TExtract hi lo a => bvextract hi lo (eval a)
    | TConcat m a b => bvconcat m (eval a) (eval b)
    | TZext _ a => bvzext (eval a)
    | TSext n k a => bvsext n k (eval a)
    | TIte c a b => if beval c then eval a else eval b
    | TUF f n a b => uf_eval f n (eval a) (eval b)
    end
  with beval (c : bterm) : bool :=
    match c with
    | BVar id => eb id
    | BConst b => b
    | BEq a b => eval a =? eval b
    | BCmp o n a b => cmp_eval o n (eval a) (eval b)
    | BNot c => negb (beval c)
    | BAnd c d => beval c && beval d
    | BOr c d => beval c || beval d
    | BXor c d => xorb (beval c) (beval d)
    | BIff c d => Bool.eqb (beval c) (beval d)
    end.
End Eval.

(* ------------------------------------------------------------------ halmos values *)
Inductive bv := Cv (v : Z) | Sv (t : term).       (* HalmosBitVec payload: int | BitVecRef *)
Inductive bl := BC (b : bool) | BS (c : bterm).   (* HalmosBool: TRUE/FALSE | BoolRef *)
Inductive val := VBV (x : bv) | VBool (b : bl).   (* a stack word (HalmosBitVec of size 256 | HalmosBool) *)
Inductive err := ENotConcrete | EZeroDivision | ETypeError | ENotImplemented
               | EStackUnderflow | EAttribute | EValue | EStackDepth.
Inductive res (A : Type) := Ok (a : A) | Err (e : err).
Arguments Ok {A} a.
Arguments Err {A} e.

Definition bv_den ev eb (a : bv) : Z := match a with Cv v => v | Sv t => eval ev eb t end.
Definition bl_den ev eb (a : bl) : bool := match a with BC b => b | BS c => beval ev eb c end.
Definition denote ev eb (v : val) : Z :=
  match v with VBV x => bv_den ev eb x | VBool b => b2w (bl_den ev eb b) end.

(* ------------------------------------------------------------------ Python int primitives *)
Definition py_mask (n v : Z) : Z := Z.land v (Z.ones n).          (* v & ((1 << n) - 1) *)
Definition bit_length (v : Z) : Z := if v =? 0 then 0 else Z.log2 v + 1.
(* v.to_bytes(len, "big")[idx] *)
Definition py_byte_at (len v idx : Z) : Z := (v / 2 ^ (8 * (len - 1 - idx))) mod 256.

(* HalmosBitVec(<int>, size=n) *)
Definition mk_int (n v : Z) : bv := Cv (py_mask n v).
(* HalmosBitVec(<int expression with // or %>, size=n): Python raises ZeroDivisionError when a
   divisor is 0 *)
Definition py_arith (n : Z) (divisors : list Z) (v : Z) : res bv :=
  if existsb (Z.eqb 0) divisors then Err EZeroDivision else Ok (mk_int n v).
(* what z3 makes of a python int / BitVecRef operand of an overloaded operator *)
Definition z3_of (n : Z) (a : bv) : term := match a with Cv v => TConst n v | Sv t => t end.
Definition bl_z3 (a : bl) : bterm := match a with BC b => BConst b | BS c => c end.

(* HalmosBitVec(<HalmosBitVec of size n>, size=n'): same object | mask | Extract | Concat(0, .) *)
Definition bv_resize (n n' : Z) (a : bv) : bv :=
  if n' =? n then a else
  match a with
  | Cv x => mk_int n' x
  | Sv t => if n' <? n then Sv (TExtract (n' - 1) 0 t) else Sv (TConcat n (TConst (n' - n) 0) t)
  end.

(* ------------------------------------------------------------------ HalmosBool *)
Definition bl_is_zero (a : bl) : bl :=
  match a with BC true => BC false | BC false => BC true | BS c => BS (BNot c) end.
Definition bl_not (a : bl) : bl := bl_is_zero a.     (* HalmosBool.bitwise_not = is_zero *)
Definition bl_and (a b : bl) : bl :=
  match a with
  | BC true => b
  | BC false => a
  | BS _ => match b with BC true => a | BC false => b | BS _ => BS (BAnd (bl_z3 a) (bl_z3 b)) end
  end.
Definition bl_or (a b : bl) : bl :=
  match a with
  | BC true => a
  | _ => match b with
         | BC true => b
         | _ => match a with
                | BC false => b
                | _ => match b with BC false => a | _ => BS (BOr (bl_z3 a) (bl_z3 b)) end
                end
         end
  end.
Definition bl_xor (a b : bl) : bl :=
  match a with
  | BC true => bl_not b
  | _ => match b with
         | BC true => bl_not a
         | _ => match a with
                | BC false => b
                | _ => match b with BC false => a | _ => BS (BXor (bl_z3 a) (bl_z3 b)) end
                end
         end
  end.
(* HalmosBool(self.value == other.value): python bools compare natively, anything else is a z3 == *)
Definition bl_eq (a b : bl) : bl :=
  match a, b with
  | BC x, BC y => BC (Bool.eqb x y)
  | _, _ => BS (BIff (bl_z3 a) (bl_z3 b))
  end.
(* as_bv(size) / HalmosBitVec(<HalmosBool>, size=n) *)
Definition bl_as_bv (n : Z) (a : bl) : bv :=
  match a with
  | BC true => mk_int n 1
  | BC false => mk_int n 0
  | BS c => Sv (TIte c (TConst n 1) (TConst n 0))
  end.

(* ------------------------------------------------------------------ HalmosBitVec methods *)
Definition bv_is_zero (n : Z) (a : bv) : bl :=
  match a with Cv x => BC (g_is_zero_1 x) | Sv t => BS (BEq t (TConst n 0)) end.

Definition bv_add (n : Z) (a b : bv) : bv :=
  match a, b with
  | Cv x, Cv y => mk_int n (r_add_1 y x)
  | _, _ => Sv (TBin Add n (z3_of n a) (z3_of n b))
  end.
Definition bv_sub (n : Z) (a b : bv) : bv :=
  match a, b with
  | Cv x, Cv y => mk_int n (r_sub_1 y x)
  | _, _ => Sv (TBin Sub n (z3_of n a) (z3_of n b))
  end.

Definition bv_lshl (n : Z) (a s : bv) : bv :=
  match s with
  | Cv k =>
      if g_lshl_1 k then a
      else if g_lshl_2 k n then mk_int n 0
      else match a with
           | Cv x => mk_int n (r_lshl_1 x k)
           | Sv t => Sv (TBin Shl n t (TConst n k))
           end
  | Sv st => Sv (TBin Shl n (z3_of n a) st)
  end.

Definition bv_lshr (n : Z) (a s : bv) : bv :=
  match s with
  | Cv k =>
      if g_lshr_1 k then a
      else match a with
           | Cv x => mk_int n (r_lshr_1 x k)
           | Sv t => if g_lshr_2 k n then mk_int n 0 else Sv (TBin Lshr n t (TConst n k))
           end
  | Sv st => Sv (TBin Lshr n (z3_of n a) st)
  end.

(* self.as_z3() >> shift.value : always a z3 term; folded by z3 when both are constants *)
Definition bv_ashr (n : Z) (a s : bv) : bv :=
  match s with
  | Cv k =>
      if g_ashr_1 k then a
      else match a with
           | Cv x => Cv (bvashr n x k)
           | Sv t => Sv (TBin Ashr n t (TConst n k))
           end
  | Sv st => Sv (TBin Ashr n (z3_of n a) st)
  end.

(* abstraction=<FuncDeclRef> | None: the z3 function the caller passes is the one applied *)
Definition bv_mul (n : Z) (abs : option uf) (a b : bv) : bv :=
  match a, b with
  | Cv x, Cv y => mk_int n (r_mul_1 x y)
  | Cv x, Sv t =>
      if g_mul_1 x then a
      else if g_mul_2 x then b
      else if is_power_of_two x then bv_lshl n b (mk_int n (bit_length x - 1))
      else Sv (TBin Mul n (TConst n x) t)
  | Sv t, Cv y =>
      if g_mul_3 y then b
      else if g_mul_4 y then a
      else if is_power_of_two y then bv_lshl n a (mk_int n (bit_length y - 1))
      else Sv (TBin Mul n (TConst n y) t)
  | Sv t, Sv u => match abs with Some f => Sv (TUF f n t u) | None => Sv (TBin Mul n t u) end
  end.

Definition bv_div (n : Z) (abs : option uf) (a b : bv) : res bv :=
  let slow := match abs with
              | Some f => Sv (TUF f n (z3_of n a) (z3_of n b))
              | None => Sv (TBin Udiv n (z3_of n a) (z3_of n b))
              end in
  match b with
  | Cv y =>
      if g_div_1 y then Ok b
      else if g_div_2 y then Ok a
      else match a with
           | Cv x => py_arith n (rd_div_1 x y) (r_div_1 x y)          (* lhs // rhs *)
           | Sv _ => Ok (if is_power_of_two y then bv_lshr n a (mk_int n (bit_length y - 1)) else slow)
           end
  | Sv _ => Ok slow
  end.

(* abstraction=None reaches `other / self` on two HalmosBitVec objects: TypeError *)
Definition bv_sdiv (n : Z) (abs : option uf) (a b : bv) : res bv :=
  let slow := match abs with
              | Some f => Ok (Sv (TUF f n (z3_of n a) (z3_of n b)))
              | None => Err ETypeError
              end in
  match b with
  | Cv y =>
      if g_sdiv_1 y then Ok b
      else if g_sdiv_2 y then Ok a
      else match a with
           | Cv x => Ok (Cv (bvsdiv n x y))       (* BitVecVal / BitVecVal, folded by z3 *)
           | Sv _ => slow
           end
  | Sv _ => slow
  end.

Definition bv_mod (n : Z) (abs : option uf) (a b : bv) : res bv :=
  let slow := match abs with
              | Some f => Sv (TUF f n (z3_of n a) (z3_of n b))
              | None => Sv (TBin Urem n (z3_of n a) (z3_of n b))
              end in
  match b with
  | Cv y =>
      if g_mod_1 y then Ok b
      else if g_mod_2 y then Ok (mk_int n 0)
      else match a with
           | Cv x => py_arith n (rd_mod_1 x y) (r_mod_1 x y)          (* lhs % rhs *)
           | Sv t =>
               Ok (if is_power_of_two y then
                     let bitsize := e_mod_bitsize (bit_length y) in
                     Sv (TZext (n - bitsize) (TExtract (bitsize - 1) 0 t))
                   else slow)
           end
  | Sv _ => Ok slow
  end.

Definition bv_smod (n : Z) (abs : option uf) (a b : bv) : bv :=
  let slow := match abs with
              | Some f => Sv (TUF f n (z3_of n a) (z3_of n b))
              | None => Sv (TBin Srem n (z3_of n a) (z3_of n b))
              end in
  match b with
  | Cv y =>
      if g_smod_1 y then b
      else if g_smod_2 y then mk_int n 0
      else match a with
           | Cv x => Cv (bvsrem n x y)            (* SRem(BitVecVal, BitVecVal), folded by z3 *)
           | Sv _ => slow
           end
  | Sv _ => slow
  end.

(* exp = self; for _ in range(rhs - 1): exp = self.mul(exp, abstraction=mul_abstraction) *)
Fixpoint exp_loop (n : Z) (mabs : option uf) (self acc : bv) (k : nat) : bv :=
  match k with
  | O => acc
  | S k' => exp_loop n mabs self (bv_mul n mabs self acc) k'
  end.

Definition bv_exp (n : Z) (eabs mabs : option uf) (smt_exp_by_const : Z) (a b : bv) : res bv :=
  let slow := match eabs with
              | Some f => Ok (Sv (TUF f n (z3_of n a) (z3_of n b)))
              | None => Err ENotImplemented
              end in
  match b with
  | Cv y =>
      if g_exp_1 y then Ok (mk_int n 1)
      else if g_exp_2 y then Ok a
      else match a with
           | Cv x => py_arith n (rd_exp_1 x y n) (r_exp_1 x y n)     (* pow(lhs, rhs, 1 << size) *)
           | Sv _ => if g_exp_3 y smt_exp_by_const
                     then Ok (exp_loop n mabs a a (Z.to_nat (y - 1)))
                     else slow
           end
  | Sv _ => slow
  end.

(* work of the all-concrete EXP path that is not answered by a guard: bits of the largest integer
   CPython materialises while evaluating the (regenerated) return expression; 0 on every other
   path *)
Definition exp_work (n : Z) (a b : bv) : Z :=
  match a, b with
  | Cv x, Cv y => if g_exp_1 y || g_exp_2 y then 0 else rw_exp_1 x y n
  | _, _ => 0
  end.

Definition bind_bv (r : res bv) (f : bv -> bv) : res bv :=
  match r with Ok x => Ok (f x) | Err e => Err e end.

Definition bv_addmod (n : Z) (abs : option uf) (a b m : bv) : res bv :=
  match a, b, m with
  | Cv x, Cv y, Cv z =>
      if g_addmod_1 z then Ok (mk_int n 0)
      else py_arith n (rd_addmod_1 z y x) (r_addmod_1 z y x)      (* (x + y) % z *)
  | _, _, _ =>
      let n2 := e_addmod_newsize n in
      let r1 := bv_add n2 (bv_resize n n2 a) (bv_resize n n2 b) in
      bind_bv (bv_mod n2 abs r1 (bv_resize n n2 m)) (bv_resize n2 n)
  end.

Definition bv_mulmod (n : Z) (mabs dabs : option uf) (a b m : bv) : res bv :=
  match a, b, m with
  | Cv x, Cv y, Cv z =>
      if g_mulmod_1 z then Ok (mk_int n 0)
      else py_arith n (rd_mulmod_1 z y x) (r_mulmod_1 z y x)      (* (x * y) % z *)
  | _, _, _ =>
      let n2 := e_mulmod_newsize n in
      let r1 := bv_mul n2 mabs (bv_resize n n2 a) (bv_resize n n2 b) in
      bind_bv (bv_mod n2 dabs r1 (bv_resize n n2 m)) (bv_resize n2 n)
  end.

(* asserts size == 256; SignExt(256 - bl, Extract(bl - 1, 0, as_z3())), folded when concrete *)
Definition bv_signextend (a : bv) (size : Z) : bv :=
  if g_signextend_1 size then a
  else
    let bl := e_signextend_bl size in
    match a with
    | Cv x => Cv (bvsext bl (256 - bl) (bvextract (bl - 1) 0 x))
    | Sv t => Sv (TSext bl (256 - bl) (TExtract (bl - 1) 0 t))
    end.

Definition bv_not (n : Z) (a : bv) : bv :=
  match a with
  | Cv x => mk_int n (r_bitwise_not_1 n x)         (* ~v & ((1 << size) - 1) *)
  | Sv t => Sv (TNot n t)
  end.
Definition bv_bitop (o : binop) (f : Z -> Z -> Z) (n : Z) (a b : bv) : bv :=
  match a, b with
  | Cv x, Cv y => mk_int n (f x y)
  | _, _ => Sv (TBin o n (z3_of n a) (z3_of n b))
  end.
Definition bv_and := bv_bitop And (fun x y => r_bitwise_and_1 y x).
Definition bv_or := bv_bitop Or (fun x y => r_bitwise_or_1 y x).
Definition bv_xor := bv_bitop Xor (fun x y => r_bitwise_xor_1 y x).

Definition bv_cmp (o : cmpop) (f : Z -> Z -> bool) (n : Z) (a b : bv) : bl :=
  match a, b with
  | Cv x, Cv y => BC (f x y)
  | _, _ => BS (BCmp o n (z3_of n a) (z3_of n b))
  end.
(* generated guards take their free names in alphabetical order: (other_value, self_value) / (left, right) *)
Definition bv_ult := bv_cmp Ult (fun x y => g_ult_1 y x).
Definition bv_ugt := bv_cmp Ugt (fun x y => g_ugt_1 y x).
Definition bv_ule := bv_cmp Ule (fun x y => g_ule_1 y x).
Definition bv_uge := bv_cmp Uge (fun x y => g_uge_1 y x).
Definition bv_slt (n : Z) := bv_cmp Slt (fun x y => g_slt_1 (to_signed x n) (to_signed y n)) n.
Definition bv_sgt (n : Z) := bv_cmp Sgt (fun x y => g_sgt_1 (to_signed x n) (to_signed y n)) n.
Definition bv_eq (n : Z) (a b : bv) : bl :=
  match a, b with
  | Cv x, Cv y => BC (g_eq_1 y x)
  | _, _ => BS (BEq (z3_of n a) (z3_of n b))
  end.

Definition bv_byte (n : Z) (a : bv) (idx out : Z) : bv :=
  let byte_length := e_byte_byte_length n in
  if g_byte_1 byte_length idx then mk_int out 0
  else match a with
       | Cv x => mk_int out (py_byte_at byte_length x idx)
       | Sv t =>
           let lo := e_byte_lo byte_length idx in
           let hi := e_byte_hi lo in
           bv_resize 8 out (Sv (TExtract hi lo t))
       end.

(* ------------------------------------------------------------------ sevm.py dispatch layer *)
(* SEVM.sym_byte_of: 32 nested ite, zero-extended *)
Fixpoint nested_ite (fuel : nat) (curr : Z) (idx w : term) : term :=
  match fuel with
  | O => TConst 8 0
  | S f => TIte (BEq idx (TConst 256 curr))
                (TExtract ((31 - curr) * 8 + 7) ((31 - curr) * 8) w)
                (nested_ite f (curr + 1) idx w)
  end.
Definition sym_byte_of (idx w : term) : term := TZext 248 (nested_ite 32 0 idx w).

Definition popi (v : val) : bv := match v with VBV x => x | VBool b => bl_as_bv 256 b end.
(* BV(x, size=256) in bitwise() / the mixed EQ arm: the same coercion *)
Definition to_bv256 (v : val) : bv := popi v.

Inductive op :=
| ADD | MUL | SUB | DIV | SDIV | MOD | SMOD | EXP | SIGNEXTEND
| LT | GT | SLT | SGT | EQ | AND | OR | XOR | BYTE | SHL | SHR | SAR.
Inductive op1 := ISZERO | NOT.
Inductive op3 := ADDMOD | MULMOD.

Definition lift (x : bv) : res val := Ok (VBV x).
Definition liftr (r : res bv) : res val := match r with Ok x => Ok (VBV x) | Err e => Err e end.

(* ---- interpreter of the regenerated arms (Gen/GenWordOps.v) *)
(* a Python value held in a local of an arm: a stack word, or the int returned by ex.int_of *)
Inductive pv := PV (v : val) | PI (z : Z).
Record st := { stk : list val; loc : list pv; pth : list bterm }.

(* state.pop() / popi() / top() / topi(): IndexError -> StackUnderflowError *)
Definition acc_eval (a : acc) (s : list val) : res (val * list val) :=
  match s with
  | [] => Err EStackUnderflow
  | v :: r =>
      match a with
      | APop => Ok (v, r)
      | APopi => Ok (VBV (popi v), r)
      | ATop => Ok (v, s)
      | ATopi => Ok (VBV (popi v), s)
      end
  end.

Definition nth_kw (kw : list ufn) (i : nat) : option uf := option_map uf_of (nth_error kw i).

(* <recv>.<m>(<args>, <kw>): Python dispatches on the dynamic type of the receiver: HalmosBitVec
   or HalmosBool (which only has is_zero / bitwise_not / eq / bitwise_and / or / xor) *)
Definition call_meth (sebc : Z) (m : meth) (kw : list ufn) (recv : pv) (args : list pv) : res val :=
  match recv, args with
  | PV (VBV x), [] =>
      match m with
      | Mbitwise_not => lift (bv_not 256 x)
      | Mis_zero => Ok (VBool (bv_is_zero 256 x))
      | _ => Err ETypeError
      end
  | PV (VBV x), [PV (VBV y)] =>
      match m with
      | Madd => lift (bv_add 256 x y)
      | Msub => lift (bv_sub 256 x y)
      | Mmul => lift (bv_mul 256 (nth_kw kw 0) x y)
      | Mdiv => liftr (bv_div 256 (nth_kw kw 0) x y)
      | Msdiv => liftr (bv_sdiv 256 (nth_kw kw 0) x y)
      | Mmod => liftr (bv_mod 256 (nth_kw kw 0) x y)
      | Msmod => lift (bv_smod 256 (nth_kw kw 0) x y)
      | Mexp => liftr (bv_exp 256 (nth_kw kw 0) (nth_kw kw 1) sebc x y)
      | Mlshl => lift (bv_lshl 256 x y)
      | Mlshr => lift (bv_lshr 256 x y)
      | Mashr => lift (bv_ashr 256 x y)
      | Mbitwise_and => lift (bv_and 256 x y)
      | Mbitwise_or => lift (bv_or 256 x y)
      | Mbitwise_xor => lift (bv_xor 256 x y)
      | Mult => Ok (VBool (bv_ult 256 x y))
      | Mugt => Ok (VBool (bv_ugt 256 x y))
      | Mslt => Ok (VBool (bv_slt 256 x y))
      | Msgt => Ok (VBool (bv_sgt 256 x y))
      | Meq => Ok (VBool (bv_eq 256 x y))
      | Mbyte => match y with                      (* w.byte(idx.value, output_size=256) *)
                 | Cv idx => lift (bv_byte 256 x idx 256)
                 | Sv _ => Err ETypeError
                 end
      | _ => Err ETypeError
      end
  | PV (VBV _), [PV (VBool _)] => Err EAttribute      (* other._size / other.size: no such attribute *)
  | PV (VBV x), [PI z] =>
      match m with
      | Msignextend => lift (bv_signextend x z)
      | _ => Err ETypeError
      end
  | PV (VBV x), [PV (VBV y); PV (VBV z)] =>
      match m with
      | Maddmod => liftr (bv_addmod 256 (nth_kw kw 0) x y z)
      | Mmulmod => liftr (bv_mulmod 256 (nth_kw kw 0) (nth_kw kw 1) x y z)
      | _ => Err ETypeError
      end
  | PV (VBool p), [] =>
      match m with
      | Mbitwise_not => Ok (VBool (bl_not p))
      | Mis_zero => Ok (VBool (bl_is_zero p))
      | _ => Err EAttribute
      end
  | PV (VBool p), [PV (VBool q)] =>
      match m with
      | Meq => Ok (VBool (bl_eq p q))
      | Mbitwise_and => Ok (VBool (bl_and p q))
      | Mbitwise_or => Ok (VBool (bl_or p q))
      | Mbitwise_xor => Ok (VBool (bl_xor p q))
      | _ => Err EAttribute
      end
  | _, _ => Err ETypeError
  end.

(* module-level bitwise(op, x, y) *)
Definition bitwise_meth (o : bitw) : meth :=
  match o with BwAnd => bitwise_AND | BwOr => bitwise_OR | BwXor => bitwise_XOR end.
Definition same_type (x y : val) : bool :=
  match x, y with VBV _, VBV _ | VBool _, VBool _ => true | _, _ => false end.
Definition bitwise (sebc : Z) (o : bitw) (x y : val) : res val :=
  if same_type x y then call_meth sebc (bitwise_meth o) [] (PV x) [PV y]
  else if bitwise_mismatch_coerces
       then call_meth sebc (bitwise_meth o) [] (PV (VBV (to_bv256 x))) [PV (VBV (to_bv256 y))]
       else Err ETypeError.

(* SEVM.arith(ex, op, w1, w2) for the block selected by the arm's opcode (None: `raise ValueError(op)`) *)
Definition arith (sebc : Z) (ae : option arith_entry) (w1 w2 : val) (path : list bterm) : res (val * list bterm) :=
  match ae with
  | None => Err EValue
  | Some e =>
      match call_meth sebc (ae_meth e) (ae_kw e) (PV w1) [PV w2] with
      | Err x => Err x
      | Ok r =>
          match ae_axiom e, r with
          | Some k, VBV (Sv t) =>                  (* if term.is_symbolic: ex.path.append(ULE(term, w<k>)) *)
              match (match k with O => w1 | _ => w2 end) with
              | VBV w => Ok (r, path ++ [BCmp Ule 256 t (z3_of 256 w)])
              | VBool _ => Err ETypeError
              end
          | _, _ => Ok (r, path)
          end
      end
  end.

Definition as_val (p : pv) : res val := match p with PV v => Ok v | PI _ => Err ETypeError end.

Fixpoint eval_expr (sebc : Z) (ae : option arith_entry) (e : expr) (s : st) : res (pv * st) :=
  let ev1 e s := match eval_expr sebc ae e s with
                 | Ok (p, s') => match as_val p with Ok v => Ok (v, s') | Err x => Err x end
                 | Err x => Err x
                 end in
  match e with
  | EW i => match nth_error (loc s) i with Some p => Ok (p, s) | None => Err EValue end
  | EAcc a => match acc_eval a (stk s) with
              | Ok (v, r) => Ok (PV v, {| stk := r; loc := loc s; pth := pth s |})
              | Err x => Err x
              end
  | EBV256 e1 => match ev1 e1 s with Ok (v, s1) => Ok (PV (VBV (to_bv256 v)), s1) | Err x => Err x end
  | EIntOf e1 =>                                   (* ex.int_of(<word>, msg): NotConcreteError when symbolic *)
      match ev1 e1 s with
      | Ok (VBV (Cv z), s1) => Ok (PI z, s1)
      | Ok (VBV (Sv _), _) => Err ENotConcrete
      | Ok (VBool (BC b), s1) => Ok (PI (b2w b), s1)
      | Ok (VBool (BS _), _) => Err ENotConcrete
      | Err x => Err x
      end
  | ECall0 m kw r =>
      match eval_expr sebc ae r s with
      | Ok (pr, s1) => match call_meth sebc m kw pr [] with Ok v => Ok (PV v, s1) | Err x => Err x end
      | Err x => Err x
      end
  | ECall1 m kw r a1 =>
      match eval_expr sebc ae r s with
      | Ok (pr, s1) =>
          match eval_expr sebc ae a1 s1 with
          | Ok (p1, s2) => match call_meth sebc m kw pr [p1] with Ok v => Ok (PV v, s2) | Err x => Err x end
          | Err x => Err x
          end
      | Err x => Err x
      end
  | ECall2 m kw r a1 a2 =>
      match eval_expr sebc ae r s with
      | Ok (pr, s1) =>
          match eval_expr sebc ae a1 s1 with
          | Ok (p1, s2) =>
              match eval_expr sebc ae a2 s2 with
              | Ok (p2, s3) => match call_meth sebc m kw pr [p1; p2] with Ok v => Ok (PV v, s3) | Err x => Err x end
              | Err x => Err x
              end
          | Err x => Err x
          end
      | Err x => Err x
      end
  | EBitwise o x y =>
      match ev1 x s with
      | Ok (vx, s1) =>
          match ev1 y s1 with
          | Ok (vy, s2) => match bitwise sebc o vx vy with Ok v => Ok (PV v, s2) | Err x => Err x end
          | Err x => Err x
          end
      | Err x => Err x
      end
  | EArith x y =>
      match ev1 x s with
      | Ok (vx, s1) =>
          match ev1 y s1 with
          | Ok (vy, s2) =>
              match arith sebc ae vx vy (pth s2) with
              | Ok (v, path) => Ok (PV v, {| stk := stk s2; loc := loc s2; pth := path |})
              | Err x => Err x
              end
          | Err x => Err x
          end
      | Err x => Err x
      end
  | ESymByte i w =>                                (* self.sym_byte_of(idx.value, w.as_z3()) *)
      match ev1 i s with
      | Ok (VBV (Sv it), s1) =>
          match ev1 w s1 with
          | Ok (VBV wv, s2) => Ok (PV (VBV (Sv (sym_byte_of it (z3_of 256 wv)))), s2)
          | Ok (VBool _, _) => Err ETypeError
          | Err x => Err x
          end
      | Ok (_, _) => Err ETypeError
      | Err x => Err x
      end
  end.

Definition push_val (p : pv) (s : st) : res st :=
  match p with
  | PV v => Ok {| stk := v :: stk s; loc := loc s; pth := pth s |}
  | PI _ => Err ETypeError                         (* State.push asserts BV of size 256 or Bool *)
  end.

Definition exec_stmt (sebc : Z) (ae : option arith_entry) (c : stmt) (s : st) : res st :=
  let push e s := match eval_expr sebc ae e s with Ok (p, s1) => push_val p s1 | Err x => Err x end in
  match c with
  | SBind e => match eval_expr sebc ae e s with
               | Ok (p, s1) => Ok {| stk := stk s1; loc := loc s1 ++ [p]; pth := pth s1 |}
               | Err x => Err x
               end
  | SSetTop e =>                                   (* the argument is evaluated first, then stack[-1] = v *)
      match eval_expr sebc ae e s with
      | Ok (PV v, s1) => match stk s1 with
                         | _ :: r => Ok {| stk := v :: r; loc := loc s1; pth := pth s1 |}
                         | [] => Err EStackUnderflow
                         end
      | Ok (PI _, _) => Err ETypeError
      | Err x => Err x
      end
  | SPush e => push e s
  | SMatchPush i j e1 e2 e3 =>
      match nth_error (loc s) i, nth_error (loc s) j with
      | Some (PV (VBool _)), Some (PV (VBool _)) => push e1 s
      | Some (PV (VBV _)), Some (PV (VBV _)) => push e2 s
      | Some _, Some _ => push e3 s
      | _, _ => Err EValue
      end
  | SIfConcretePush i e1 e2 =>
      match nth_error (loc s) i with
      | Some (PV (VBV (Cv _))) => push e1 s
      | Some (PV (VBV (Sv _))) =>                  (* state.push_any(x): BV(x, size=256) *)
          match eval_expr sebc ae e2 s with
          | Ok (PV v, s1) => push_val (PV (VBV (to_bv256 v))) s1
          | Ok (PI _, _) => Err ETypeError
          | Err x => Err x
          end
      | Some _ => Err ETypeError
      | None => Err EValue
      end
  end.

Fixpoint exec_arm (sebc : Z) (ae : option arith_entry) (cs : list stmt) (s : st) : res st :=
  match cs with
  | [] => Ok s
  | c :: r => match exec_stmt sebc ae c s with Ok s1 => exec_arm sebc ae r s1 | Err x => Err x end
  end.

Definition arm2 (o : op) : list stmt :=
  match o with
  | ADD => arm_ADD | MUL => arm_MUL | SUB => arm_SUB | DIV => arm_DIV | SDIV => arm_SDIV
  | MOD => arm_MOD | SMOD => arm_SMOD | EXP => arm_EXP | SIGNEXTEND => arm_SIGNEXTEND
  | LT => arm_LT | GT => arm_GT | SLT => arm_SLT | SGT => arm_SGT | EQ => arm_EQ
  | AND => arm_AND | OR => arm_OR | XOR => arm_XOR | BYTE => arm_BYTE
  | SHL => arm_SHL | SHR => arm_SHR | SAR => arm_SAR
  end.
Definition arith_of (o : op) : option arith_entry :=
  match o with
  | ADD => Some arith_ADD | SUB => Some arith_SUB | MUL => Some arith_MUL | DIV => Some arith_DIV
  | MOD => Some arith_MOD | SDIV => Some arith_SDIV | SMOD => Some arith_SMOD | EXP => Some arith_EXP
  | _ => None
  end.
Definition arm1 (o : op1) : list stmt := match o with ISZERO => arm_ISZERO | NOT => arm_NOT end.
Definition arm3 (o : op3) : list stmt := match o with ADDMOD => arm_ADDMOD | MULMOD => arm_MULMOD end.

Definition st0 (s : list val) : st := {| stk := s; loc := []; pth := [] |}.

(* one instruction on a stack whose top is a (then b, c), above an arbitrary rest: the stack and the
   path constraints afterwards.  sebc = options.smt_exp_by_const *)
Definition run2s (sebc : Z) (o : op) (a b : val) (rest : list val) : res st :=
  exec_arm sebc (arith_of o) (arm2 o) (st0 (a :: b :: rest)).
Definition run1s (o : op1) (a : val) (rest : list val) : res st :=
  exec_arm 0 None (arm1 o) (st0 (a :: rest)).
Definition run3s (o : op3) (a b c : val) (rest : list val) : res st :=
  exec_arm 0 None (arm3 o) (st0 (a :: b :: c :: rest)).

(* the word left on an otherwise empty stack (any other depth: EStackDepth) *)
Definition only (r : res st) : res val :=
  match r with
  | Ok s => match stk s with [v] => Ok v | _ => Err EStackDepth end
  | Err e => Err e
  end.
Definition run2 (sebc : Z) (o : op) (a b : val) : res val := only (run2s sebc o a b []).
Definition run1 (o : op1) (a : val) : res val := only (run1s o a []).
Definition run3 (o : op3) (a b c : val) : res val := only (run3s o a b c []).

(* SEVM.arith: constraints appended to the path next to a symbolic DIV / MOD result *)
Definition arith_axioms (sebc : Z) (o : op) (a b : val) : list bterm :=
  match run2s sebc o a b [] with Ok s => pth s | Err _ => [] end.

(* ------------------------------------------------------------------ HalmosBool(<value>) and the TRUE / FALSE singletons *)
(* Python runs HalmosBool.__new__(cls, value) and then, because the object returned is a HalmosBool,
   HalmosBool.__init__(<that object>, value) - also when __new__ returned the TRUE / FALSE singleton
   (python bool, BoolRef that simplifies to a literal, TRUE / FALSE passed through).  The heap holds
   the fields of the two singletons, of the freshly allocated object and of one other HalmosBool.
   [guard] = hb_init_guards_singletons (Gen/GenBitvecGuards.v): __init__ starts with
   `if self is TRUE or self is FALSE: return`.  [simp] is z3's simplify. *)
Inductive oref := RTrue | RFalse | RNew | ROther.
Record obj := { o_con : option bool; o_sym : option bterm }.
Record heap := { hT : obj; hF : obj; hN : obj; hO : obj }.
Inductive hb_arg :=
| ABool (b : bool)               (* python bool *)
| ATerm (c : bterm)              (* z3 BoolRef *)
| AStr (id : Z)                  (* str: Bool(name) *)
| AObj (r : oref)                (* an existing HalmosBool *)
| ABitVec (n : Z) (x : bv).      (* HalmosBitVec of size n: value.is_non_zero() *)

Definition obj_true : obj := {| o_con := Some true; o_sym := None |}.
Definition obj_false : obj := {| o_con := Some false; o_sym := None |}.
Definition hget (h : heap) (r : oref) : obj :=
  match r with RTrue => hT h | RFalse => hF h | RNew => hN h | ROther => hO h end.
Definition hset (h : heap) (r : oref) (o : obj) : heap :=
  match r with
  | RTrue => {| hT := o; hF := hF h; hN := hN h; hO := hO h |}
  | RFalse => {| hT := hT h; hF := o; hN := hN h; hO := hO h |}
  | RNew => {| hT := hT h; hF := hF h; hN := o; hO := hO h |}
  | ROther => {| hT := hT h; hF := hF h; hN := hN h; hO := o |}
  end.
Definition is_singleton (r : oref) : bool := match r with RTrue | RFalse => true | _ => false end.

Section HalmosBoolCtor.
  Variable simp : bterm -> bterm.
  Variable guard : bool.

  (* __new__ for every value but a HalmosBitVec *)
  Definition hb_new (a : hb_arg) : oref :=
    match a with
    | ABool b => if b then RTrue else RFalse
    | AObj r => r
    | ATerm c => match simp c with BConst true => RTrue | BConst false => RFalse | _ => RNew end
    | AStr _ | ABitVec _ _ => RNew
    end.

  (* __init__(self, value); the two asserts at its end hold by construction of the three stores *)
  Definition hb_init (self : oref) (a : hb_arg) (h : heap) : heap :=
    if guard && is_singleton self then h
    else match a with
         | ABool b => hset h self {| o_con := Some b; o_sym := None |}
         | ATerm c => hset h self {| o_con := None; o_sym := Some (simp c) |}
         | AStr id => hset h self {| o_con := None; o_sym := Some (BVar id) |}
         | AObj _ | ABitVec _ _ => h
         end.

  (* HalmosBool(value): the object and the heap afterwards *)
  Definition hb_ctor (a : hb_arg) (h : heap) : oref * heap :=
    match a with
    | ABitVec n x =>
        (* __new__ returns value.is_non_zero() = HalmosBool(self._value != 0): a complete inner
           construction; then the outer __init__ runs on its result with the HalmosBitVec as value *)
        let inner := match x with
                     | Cv v => ABool (negb (v =? 0))
                     | Sv t => ATerm (BNot (BEq t (TConst n 0)))
                     end in
        let r := hb_new inner in
        (r, hb_init r a (hb_init r inner h))
    | _ => let r := hb_new a in (r, hb_init r a h)
    end.
End HalmosBoolCtor.

Definition singles_ok (h : heap) : Prop := hT h = obj_true /\ hF h = obj_false.
Definition obj_den ev eb (o : obj) : option bool :=
  match o_con o, o_sym o with
  | Some b, None => Some b
  | None, Some c => Some (beval ev eb c)
  | _, _ => None                               (* neither / both: bool() and as_z3() misbehave *)
  end.
Definition arg_den ev eb (h : heap) (a : hb_arg) : option bool :=
  match a with
  | ABool b => Some b
  | ATerm c => Some (beval ev eb c)
  | AStr id => Some (eb id)
  | AObj r => obj_den ev eb (hget h r)
  | ABitVec n x => Some (negb (bv_den ev eb x =? 0))
  end.
