(* Executable model of halmos' word-level layer: src/halmos/bitvec.py (HalmosBool,
   HalmosBitVec: constructor, every arithmetic / comparison / bitwise / shift / byte /
   signextend method with each fast path) and the dispatch layer of src/halmos/sevm.py
   (pop/popi/top/topi, bitwise(), SEVM.arith and its abstraction choice, sym_byte_of, the
   opcode arms of SEVM.run).  The model follows the Python branch by branch, INCLUDING its
   defects.  The literal guards / constants (g_.., e_..) and the concrete-path return expressions
   (r_.. value, rd_.. divisors, rw_.. work) come from Gen/GenBitvecGuards.v, regenerated from
   bitvec.py on every run; their parameters are the free names of the source expression in
   alphabetical order.  No proofs here.

   z3 side: [term]/[bterm] is the fragment of z3 terms halmos builds; [eval]/[beval] give
   them their SMT-LIB meaning (Base/SmtBV.v) and interpret the f_evm_* uninterpreted
   functions by their exact definitions (solve.py refine(): x/0 = x%0 = 0; exp exact).
   `simplify` is modelled as denotation-preserving; where halmos relies on z3 to FOLD a
   term over two constants into a constant (sdiv, smod, ashr, signextend on concrete
   operands) the folded value is the SmtBV function applied to the constants. *)
From Coq Require Import ZArith List Bool.
From HV Require Import Base.Word Base.SmtBV Model.PyInt Gen.GenBitvecGuards.
Import ListNotations.
Open Scope Z_scope.

(* ------------------------------------------------------------------ z3 terms *)
Inductive uf := Fmul | Fudiv | Furem | Fsdiv | Fsrem | Fexp.
Inductive binop := Add | Sub | Mul | Udiv | Urem | Sdiv | Srem | Shl | Lshr | Ashr | And | Or | Xor.
Inductive cmpop := Ult | Ule | Ugt | Uge | Slt | Sgt.

Inductive term :=
| TVar (id : Z)                               (* BitVec(name, n) *)
| TConst (n v : Z)                            (* BitVecVal(v, n) *)
| TBin (o : binop) (n : Z) (a b : term)
| TNot (n : Z) (a : term)
| TExtract (hi lo : Z) (a : term)
| TConcat (m : Z) (a b : term)                (* Concat(a, b), b of width m *)
| TZext (k : Z) (a : term)
| TSext (n k : Z) (a : term)                  (* SignExt(k, a), a of width n *)
| TIte (c : bterm) (a b : term)
| TUF (f : uf) (n : Z) (a b : term)           (* f_evm_<f>_<n>(a, b) *)
with bterm :=
| BVar (id : Z)
| BConst (b : bool)
| BEq (a b : term)
| BCmp (o : cmpop) (n : Z) (a b : term)
| BNot (c : bterm)
| BAnd (c d : bterm)
| BOr (c d : bterm)
| BXor (c d : bterm)
| BIff (c d : bterm).

Definition binop_eval (o : binop) (n x y : Z) : Z :=
  match o with
  | Add => bvadd n x y | Sub => bvsub n x y | Mul => bvmul n x y
  | Udiv => bvudiv n x y | Urem => bvurem n x y
  | Sdiv => bvsdiv n x y | Srem => bvsrem n x y
  | Shl => bvshl n x y | Lshr => bvlshr n x y | Ashr => bvashr n x y
  | And => bvand x y | Or => bvor x y | Xor => bvxor x y
  end.

Definition cmp_eval (o : cmpop) (n x y : Z) : bool :=
  match o with
  | Ult => bvult x y | Ule => bvule x y | Ugt => bvult y x | Uge => bvule y x
  | Slt => bvslt n x y | Sgt => bvslt n y x
  end.

(* exact definitions of the abstractions (solve.py: refine) *)
Definition uf_eval (f : uf) (n x y : Z) : Z :=
  match f with
  | Fmul => bvmul n x y
  | Fudiv => if y =? 0 then 0 else bvudiv n x y
  | Furem => if y =? 0 then 0 else bvurem n x y
  | Fsdiv => if y =? 0 then 0 else bvsdiv n x y
  | Fsrem => if y =? 0 then 0 else bvsrem n x y
  | Fexp => modpow x y (2 ^ n)
  end.

Section Eval.
  Variable ev : Z -> Z.       (* valuation of bit-vector variables *)
  Variable eb : Z -> bool.    (* valuation of Bool variables *)

  Fixpoint eval (t : term) : Z :=
    match t with
    | TVar id => ev id
    | TConst n v => bvmod n v
    | TBin o n a b => binop_eval o n (eval a) (eval b)
    | TNot n a => bvnot n (eval a)
    | TExtract hi lo a => bvextract hi lo (eval a)
    | TConcat m a b => bvconcat m (eval a) (eval b)
    | TZext _ a => bvzext (eval a)
    | TSext n k a => bvsext n k (eval a)
    | TIte c a b => if beval c then eval a else eval b
    | TUF f n a b => uf_eval f n (eval a) (eval b)
    end
  with beval (c : bterm) : bool :=
    match c with
    | BVar id => eb id
    | BConst b => b
    | BEq a b => eval a =? eval b
    | BCmp o n a b => cmp_eval o n (eval a) (eval b)
    | BNot c => negb (beval c)
    | BAnd c d => beval c && beval d
    | BOr c d => beval c || beval d
    | BXor c d => xorb (beval c) (beval d)
    | BIff c d => Bool.eqb (beval c) (beval d)
    end.
End Eval.

(* ------------------------------------------------------------------ halmos values *)
Inductive bv := Cv (v : Z) | Sv (t : term).       (* HalmosBitVec payload: int | BitVecRef *)
Inductive bl := BC (b : bool) | BS (c : bterm).   (* HalmosBool: TRUE/FALSE | BoolRef *)
Inductive val := VBV (x : bv) | VBool (b : bl).   (* a stack word (HalmosBitVec of size 256 | HalmosBool) *)
Inductive err := ENotConcrete | EZeroDivision | ETypeError | ENotImplemented.
Inductive res (A : Type) := Ok (a : A) | Err (e : err).
Arguments Ok {A} a.
Arguments Err {A} e.

Definition bv_den ev eb (a : bv) : Z := match a with Cv v => v | Sv t => eval ev eb t end.
Definition bl_den ev eb (a : bl) : bool := match a with BC b => b | BS c => beval ev eb c end.
Definition denote ev eb (v : val) : Z :=
  match v with VBV x => bv_den ev eb x | VBool b => b2w (bl_den ev eb b) end.

(* ------------------------------------------------------------------ Python int primitives *)
Definition py_mask (n v : Z) : Z := Z.land v (Z.ones n).          (* v & ((1 << n) - 1) *)
Definition bit_length (v : Z) : Z := if v =? 0 then 0 else Z.log2 v + 1.
(* v.to_bytes(len, "big")[idx] *)
Definition py_byte_at (len v idx : Z) : Z := (v / 2 ^ (8 * (len - 1 - idx))) mod 256.

(* HalmosBitVec(<int>, size=n) *)
Definition mk_int (n v : Z) : bv := Cv (py_mask n v).
(* HalmosBitVec(<int expression with // or %>, size=n): Python raises ZeroDivisionError when a
   divisor is 0 *)
Definition py_arith (n : Z) (divisors : list Z) (v : Z) : res bv :=
  if existsb (Z.eqb 0) divisors then Err EZeroDivision else Ok (mk_int n v).
(* what z3 makes of a python int / BitVecRef operand of an overloaded operator *)
Definition z3_of (n : Z) (a : bv) : term := match a with Cv v => TConst n v | Sv t => t end.
Definition bl_z3 (a : bl) : bterm := match a with BC b => BConst b | BS c => c end.

(* HalmosBitVec(<HalmosBitVec of size n>, size=n'): same object | mask | Extract | Concat(0, .) *)
Definition bv_resize (n n' : Z) (a : bv) : bv :=
  if n' =? n then a else
  match a with
  | Cv x => mk_int n' x
  | Sv t => if n' <? n then Sv (TExtract (n' - 1) 0 t) else Sv (TConcat n (TConst (n' - n) 0) t)
  end.

(* ------------------------------------------------------------------ HalmosBool *)
Definition bl_is_zero (a : bl) : bl :=
  match a with BC true => BC false | BC false => BC true | BS c => BS (BNot c) end.
Definition bl_not (a : bl) : bl := bl_is_zero a.     (* HalmosBool.bitwise_not = is_zero *)
Definition bl_and (a b : bl) : bl :=
  match a with
  | BC true => b
  | BC false => a
  | BS _ => match b with BC true => a | BC false => b | BS _ => BS (BAnd (bl_z3 a) (bl_z3 b)) end
  end.
Definition bl_or (a b : bl) : bl :=
  match a with
  | BC true => a
  | _ => match b with
         | BC true => b
         | _ => match a with
                | BC false => b
                | _ => match b with BC false => a | _ => BS (BOr (bl_z3 a) (bl_z3 b)) end
                end
         end
  end.
Definition bl_xor (a b : bl) : bl :=
  match a with
  | BC true => bl_not b
  | _ => match b with
         | BC true => bl_not a
         | _ => match a with
                | BC false => b
                | _ => match b with BC false => a | _ => BS (BXor (bl_z3 a) (bl_z3 b)) end
                end
         end
  end.
(* HalmosBool(self.value == other.value): python bools compare natively, anything else is a z3 == *)
Definition bl_eq (a b : bl) : bl :=
  match a, b with
  | BC x, BC y => BC (Bool.eqb x y)
  | _, _ => BS (BIff (bl_z3 a) (bl_z3 b))
  end.
(* as_bv(size) / HalmosBitVec(<HalmosBool>, size=n) *)
Definition bl_as_bv (n : Z) (a : bl) : bv :=
  match a with
  | BC true => mk_int n 1
  | BC false => mk_int n 0
  | BS c => Sv (TIte c (TConst n 1) (TConst n 0))
  end.

(* ------------------------------------------------------------------ HalmosBitVec methods *)
Definition bv_is_zero (n : Z) (a : bv) : bl :=
  match a with Cv x => BC (x =? 0) | Sv t => BS (BEq t (TConst n 0)) end.

Definition bv_add (n : Z) (a b : bv) : bv :=
  match a, b with
  | Cv x, Cv y => mk_int n (r_add_1 y x)
  | _, _ => Sv (TBin Add n (z3_of n a) (z3_of n b))
  end.
Definition bv_sub (n : Z) (a b : bv) : bv :=
  match a, b with
  | Cv x, Cv y => mk_int n (r_sub_1 y x)
  | _, _ => Sv (TBin Sub n (z3_of n a) (z3_of n b))
  end.

Definition bv_lshl (n : Z) (a s : bv) : bv :=
  match s with
  | Cv k =>
      if g_lshl_1 k then a
      else if g_lshl_2 k n then mk_int n 0
      else match a with
           | Cv x => mk_int n (r_lshl_1 x k)
           | Sv t => Sv (TBin Shl n t (TConst n k))
           end
  | Sv st => Sv (TBin Shl n (z3_of n a) st)
  end.

Definition bv_lshr (n : Z) (a s : bv) : bv :=
  match s with
  | Cv k =>
      if g_lshr_1 k then a
      else match a with
           | Cv x => mk_int n (r_lshr_1 x k)
           | Sv t => if g_lshr_2 k n then mk_int n 0 else Sv (TBin Lshr n t (TConst n k))
           end
  | Sv st => Sv (TBin Lshr n (z3_of n a) st)
  end.

(* self.as_z3() >> shift.value : always a z3 term; folded by z3 when both are constants *)
Definition bv_ashr (n : Z) (a s : bv) : bv :=
  match s with
  | Cv k =>
      if g_ashr_1 k then a
      else match a with
           | Cv x => Cv (bvashr n x k)
           | Sv t => Sv (TBin Ashr n t (TConst n k))
           end
  | Sv st => Sv (TBin Ashr n (z3_of n a) st)
  end.

Definition bv_mul (n : Z) (abs : bool) (a b : bv) : bv :=
  match a, b with
  | Cv x, Cv y => mk_int n (r_mul_1 x y)
  | Cv x, Sv t =>
      if g_mul_1 x then a
      else if g_mul_2 x then b
      else if is_power_of_two x then bv_lshl n b (mk_int n (bit_length x - 1))
      else Sv (TBin Mul n (TConst n x) t)
  | Sv t, Cv y =>
      if g_mul_3 y then b
      else if g_mul_4 y then a
      else if is_power_of_two y then bv_lshl n a (mk_int n (bit_length y - 1))
      else Sv (TBin Mul n (TConst n y) t)
  | Sv t, Sv u => if abs then Sv (TUF Fmul n t u) else Sv (TBin Mul n t u)
  end.

Definition bv_div (n : Z) (abs : bool) (a b : bv) : res bv :=
  let slow := if abs then Sv (TUF Fudiv n (z3_of n a) (z3_of n b))
              else Sv (TBin Udiv n (z3_of n a) (z3_of n b)) in
  match b with
  | Cv y =>
      if g_div_1 y then Ok b
      else if g_div_2 y then Ok a
      else match a with
           | Cv x => py_arith n (rd_div_1 x y) (r_div_1 x y)          (* lhs // rhs *)
           | Sv _ => Ok (if is_power_of_two y then bv_lshr n a (mk_int n (bit_length y - 1)) else slow)
           end
  | Sv _ => Ok slow
  end.

(* abstraction=None reaches `other / self` on two HalmosBitVec objects: TypeError *)
Definition bv_sdiv (n : Z) (abs : bool) (a b : bv) : res bv :=
  let slow := if abs then Ok (Sv (TUF Fsdiv n (z3_of n a) (z3_of n b))) else Err ETypeError in
  match b with
  | Cv y =>
      if g_sdiv_1 y then Ok b
      else if g_sdiv_2 y then Ok a
      else match a with
           | Cv x => Ok (Cv (bvsdiv n x y))       (* BitVecVal / BitVecVal, folded by z3 *)
           | Sv _ => slow
           end
  | Sv _ => slow
  end.

Definition bv_mod (n : Z) (abs : bool) (a b : bv) : res bv :=
  let slow := if abs then Sv (TUF Furem n (z3_of n a) (z3_of n b))
              else Sv (TBin Urem n (z3_of n a) (z3_of n b)) in
  match b with
  | Cv y =>
      if g_mod_1 y then Ok b
      else if g_mod_2 y then Ok (mk_int n 0)
      else match a with
           | Cv x => py_arith n (rd_mod_1 x y) (r_mod_1 x y)          (* lhs % rhs *)
           | Sv t =>
               Ok (if is_power_of_two y then
                     let bitsize := bit_length y - 1 in
                     Sv (TZext (n - bitsize) (TExtract (bitsize - 1) 0 t))
                   else slow)
           end
  | Sv _ => Ok slow
  end.

Definition bv_smod (n : Z) (abs : bool) (a b : bv) : bv :=
  let slow := if abs then Sv (TUF Fsrem n (z3_of n a) (z3_of n b))
              else Sv (TBin Srem n (z3_of n a) (z3_of n b)) in
  match b with
  | Cv y =>
      if g_smod_1 y then b
      else if g_smod_2 y then mk_int n 0
      else match a with
           | Cv x => Cv (bvsrem n x y)            (* SRem(BitVecVal, BitVecVal), folded by z3 *)
           | Sv _ => slow
           end
  | Sv _ => slow
  end.

(* exp = self; for _ in range(rhs - 1): exp = self.mul(exp, abstraction=mul_abstraction) *)
Fixpoint exp_loop (n : Z) (mabs : bool) (self acc : bv) (k : nat) : bv :=
  match k with
  | O => acc
  | S k' => exp_loop n mabs self (bv_mul n mabs self acc) k'
  end.

Definition bv_exp (n : Z) (eabs mabs : bool) (smt_exp_by_const : Z) (a b : bv) : res bv :=
  let slow := if eabs then Ok (Sv (TUF Fexp n (z3_of n a) (z3_of n b))) else Err ENotImplemented in
  match b with
  | Cv y =>
      if g_exp_1 y then Ok (mk_int n 1)
      else if g_exp_2 y then Ok a
      else match a with
           | Cv x => py_arith n (rd_exp_1 x y n) (r_exp_1 x y n)     (* pow(lhs, rhs, 1 << size) *)
           | Sv _ => if g_exp_3 y smt_exp_by_const
                     then Ok (exp_loop n mabs a a (Z.to_nat (y - 1)))
                     else slow
           end
  | Sv _ => slow
  end.

(* work of the all-concrete EXP path that is not answered by a guard: bits of the largest integer
   CPython materialises while evaluating the (regenerated) return expression; 0 on every other
   path *)
Definition exp_work (n : Z) (a b : bv) : Z :=
  match a, b with
  | Cv x, Cv y => if g_exp_1 y || g_exp_2 y then 0 else rw_exp_1 x y n
  | _, _ => 0
  end.

Definition bind_bv (r : res bv) (f : bv -> bv) : res bv :=
  match r with Ok x => Ok (f x) | Err e => Err e end.

Definition bv_addmod (n : Z) (abs : bool) (a b m : bv) : res bv :=
  match a, b, m with
  | Cv x, Cv y, Cv z =>
      if g_addmod_1 z then Ok (mk_int n 0)
      else py_arith n (rd_addmod_1 z y x) (r_addmod_1 z y x)      (* (x + y) % z *)
  | _, _, _ =>
      let n2 := n + 8 in
      let r1 := bv_add n2 (bv_resize n n2 a) (bv_resize n n2 b) in
      bind_bv (bv_mod n2 abs r1 (bv_resize n n2 m)) (bv_resize n2 n)
  end.

Definition bv_mulmod (n : Z) (mabs dabs : bool) (a b m : bv) : res bv :=
  match a, b, m with
  | Cv x, Cv y, Cv z =>
      if g_mulmod_1 z then Ok (mk_int n 0)
      else py_arith n (rd_mulmod_1 z y x) (r_mulmod_1 z y x)      (* (x * y) % z *)
  | _, _, _ =>
      let n2 := n * 2 in
      let r1 := bv_mul n2 mabs (bv_resize n n2 a) (bv_resize n n2 b) in
      bind_bv (bv_mod n2 dabs r1 (bv_resize n n2 m)) (bv_resize n2 n)
  end.

(* asserts size == 256; SignExt(256 - bl, Extract(bl - 1, 0, as_z3())), folded when concrete *)
Definition bv_signextend (a : bv) (size : Z) : bv :=
  if g_signextend_1 size then a
  else
    let bl := e_signextend_bl size in
    match a with
    | Cv x => Cv (bvsext bl (256 - bl) (bvextract (bl - 1) 0 x))
    | Sv t => Sv (TSext bl (256 - bl) (TExtract (bl - 1) 0 t))
    end.

Definition bv_not (n : Z) (a : bv) : bv :=
  match a with
  | Cv x => mk_int n (r_bitwise_not_1 n x)         (* ~v & ((1 << size) - 1) *)
  | Sv t => Sv (TNot n t)
  end.
Definition bv_bitop (o : binop) (f : Z -> Z -> Z) (n : Z) (a b : bv) : bv :=
  match a, b with
  | Cv x, Cv y => mk_int n (f x y)
  | _, _ => Sv (TBin o n (z3_of n a) (z3_of n b))
  end.
Definition bv_and := bv_bitop And (fun x y => r_bitwise_and_1 y x).
Definition bv_or := bv_bitop Or (fun x y => r_bitwise_or_1 y x).
Definition bv_xor := bv_bitop Xor (fun x y => r_bitwise_xor_1 y x).

Definition bv_cmp (o : cmpop) (f : Z -> Z -> bool) (n : Z) (a b : bv) : bl :=
  match a, b with
  | Cv x, Cv y => BC (f x y)
  | _, _ => BS (BCmp o n (z3_of n a) (z3_of n b))
  end.
(* generated guards take their free names in alphabetical order: (other_value, self_value) / (left, right) *)
Definition bv_ult := bv_cmp Ult (fun x y => g_ult_1 y x).
Definition bv_ugt := bv_cmp Ugt (fun x y => g_ugt_1 y x).
Definition bv_ule := bv_cmp Ule (fun x y => g_ule_1 y x).
Definition bv_uge := bv_cmp Uge (fun x y => g_uge_1 y x).
Definition bv_slt (n : Z) := bv_cmp Slt (fun x y => g_slt_1 (to_signed x n) (to_signed y n)) n.
Definition bv_sgt (n : Z) := bv_cmp Sgt (fun x y => g_sgt_1 (to_signed x n) (to_signed y n)) n.
Definition bv_eq (n : Z) (a b : bv) : bl :=
  match a, b with
  | Cv x, Cv y => BC (x =? y)
  | _, _ => BS (BEq (z3_of n a) (z3_of n b))
  end.

Definition bv_byte (n : Z) (a : bv) (idx out : Z) : bv :=
  let byte_length := e_byte_byte_length n in
  if g_byte_1 byte_length idx then mk_int out 0
  else match a with
       | Cv x => mk_int out (py_byte_at byte_length x idx)
       | Sv t =>
           let lo := e_byte_lo byte_length idx in
           let hi := e_byte_hi lo in
           bv_resize 8 out (Sv (TExtract hi lo t))
       end.

(* ------------------------------------------------------------------ sevm.py dispatch layer *)
(* SEVM.sym_byte_of: 32 nested ite, zero-extended *)
Fixpoint nested_ite (fuel : nat) (curr : Z) (idx w : term) : term :=
  match fuel with
  | O => TConst 8 0
  | S f => TIte (BEq idx (TConst 256 curr))
                (TExtract ((31 - curr) * 8 + 7) ((31 - curr) * 8) w)
                (nested_ite f (curr + 1) idx w)
  end.
Definition sym_byte_of (idx w : term) : term := TZext 248 (nested_ite 32 0 idx w).

Definition popi (v : val) : bv := match v with VBV x => x | VBool b => bl_as_bv 256 b end.
(* BV(x, size=256) in bitwise() / the mixed EQ arm: the same coercion *)
Definition to_bv256 (v : val) : bv := popi v.

Definition bitwise (f : bl -> bl -> bl) (g : Z -> bv -> bv -> bv) (x y : val) : val :=
  match x, y with
  | VBool p, VBool q => VBool (f p q)
  | VBV p, VBV q => VBV (g 256 p q)
  | _, _ => VBV (g 256 (to_bv256 x) (to_bv256 y))
  end.

Inductive op :=
| ADD | MUL | SUB | DIV | SDIV | MOD | SMOD | EXP | SIGNEXTEND
| LT | GT | SLT | SGT | EQ | AND | OR | XOR | BYTE | SHL | SHR | SAR.
Inductive op1 := ISZERO | NOT.
Inductive op3 := ADDMOD | MULMOD.

Definition lift (x : bv) : res val := Ok (VBV x).
Definition liftr (r : res bv) : res val := match r with Ok x => Ok (VBV x) | Err e => Err e end.

(* a = top of the stack, b = the word below it; sebc = options.smt_exp_by_const *)
Definition run2 (sebc : Z) (o : op) (a b : val) : res val :=
  match o with
  | ADD => lift (bv_add 256 (popi a) (popi b))
  | SUB => lift (bv_sub 256 (popi a) (popi b))
  | MUL => lift (bv_mul 256 true (popi a) (popi b))
  | DIV => liftr (bv_div 256 true (popi a) (popi b))
  | MOD => liftr (bv_mod 256 true (popi a) (popi b))
  | SDIV => liftr (bv_sdiv 256 true (popi a) (popi b))
  | SMOD => lift (bv_smod 256 true (popi a) (popi b))
  | EXP => liftr (bv_exp 256 true true sebc (popi a) (popi b))
  | SIGNEXTEND =>
      match popi a with                         (* ex.int_of(state.popi(), ...) *)
      | Cv size => lift (bv_signextend (popi b) size)
      | Sv _ => Err ENotConcrete
      end
  | LT => Ok (VBool (bv_ult 256 (popi a) (popi b)))
  | GT => Ok (VBool (bv_ugt 256 (popi a) (popi b)))
  | SLT => Ok (VBool (bv_slt 256 (popi a) (popi b)))
  | SGT => Ok (VBool (bv_sgt 256 (popi a) (popi b)))
  | EQ =>
      match a, b with
      | VBool p, VBool q => Ok (VBool (bl_eq p q))
      | VBV p, VBV q => Ok (VBool (bv_eq 256 p q))
      | _, _ => Ok (VBool (bv_eq 256 (to_bv256 a) (to_bv256 b)))
      end
  | AND => Ok (bitwise bl_and bv_and a b)
  | OR => Ok (bitwise bl_or bv_or a b)
  | XOR => lift (bv_xor 256 (popi a) (popi b))
  | BYTE =>
      match popi a with
      | Cv idx => lift (bv_byte 256 (popi b) idx 256)
      | Sv it => lift (Sv (sym_byte_of it (z3_of 256 (popi b))))
      end
  | SHL => lift (bv_lshl 256 (popi b) (popi a))
  | SHR => lift (bv_lshr 256 (popi b) (popi a))
  | SAR => lift (bv_ashr 256 (popi b) (popi a))
  end.

(* ISZERO acts on state.top() WITHOUT coercion (a Bool-typed top takes the HalmosBool method);
   NOT acts on state.topi(): the 256-bit word *)
Definition run1 (o : op1) (a : val) : res val :=
  match o with
  | ISZERO => match a with
              | VBV x => Ok (VBool (bv_is_zero 256 x))
              | VBool p => Ok (VBool (bl_is_zero p))
              end
  | NOT => Ok (VBV (bv_not 256 (popi a)))
  end.

Definition run3 (o : op3) (a b c : val) : res val :=
  match o with
  | ADDMOD => liftr (bv_addmod 256 true (popi a) (popi b) (popi c))
  | MULMOD => liftr (bv_mulmod 256 true true (popi a) (popi b) (popi c))
  end.

(* SEVM.arith: constraints appended to the path next to a symbolic DIV / MOD result *)
Definition arith_axioms (o : op) (a b : val) : list bterm :=
  match o with
  | DIV => match bv_div 256 true (popi a) (popi b) with
           | Ok (Sv t) => [BCmp Ule 256 t (z3_of 256 (popi a))]
           | _ => []
           end
  | MOD => match bv_mod 256 true (popi a) (popi b) with
           | Ok (Sv t) => [BCmp Ule 256 t (z3_of 256 (popi b))]
           | _ => []
           end
  | _ => []
  end.
