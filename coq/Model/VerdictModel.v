(* C05 -- executable model of halmos' verdict aggregation (src/halmos/__main__.py run_test,
   run_tests, _main; src/halmos/solve.py from_result, solve_low_level, solve_end_to_end).
   Follows the Python branch by branch; the decision tables come from Gen/GenVerdict.v and
   Gen/GenSolveDispatch.v, regenerated from the source on every run.  No proofs here. *)
From Coq Require Import ZArith List Bool String Ascii.
From HV Require Import Spec.VerdictSpec Gen.GenVerdict Gen.GenSolveDispatch.
Import ListNotations.

(* ------------------------------------------------------------------ one solver process *)

(* stdout[:stdout.find("\n")] if a newline exists, else stdout *)
Fixpoint first_line (s : string) : string :=
  match s with
  | EmptyString => EmptyString
  | String c r => if Ascii.eqb c "010"%char then EmptyString else String c (first_line r)
  end.

(* is_model_valid: "f_evm_" not in stdout *)
Definition is_model_valid (stdout : string) : bool :=
  match index 0 invalid_marker stdout with Some _ => false | None => true end.

(* what one run of the external solver produced: text on stdout (the return code is not
   looked at by from_result), plus whether the model text can be parsed (parse_model_str
   raises otherwise); a timeout (subprocess.TimeoutExpired); or an exception when starting /
   waiting for the process (Popen failure, ShutdownError from PopenExecutor.submit) *)
Inductive raw := RawOut (stdout : string) (model_parses : bool) | RawTimeout | RawRaise.

Definition answer_of_class (c : rclass) (valid : bool) : answer :=
  match c with CSat => Sat valid | CUnsat => Unsat | CUnknown => Unknown | CErr => Err end.

(* SolverOutput.from_result: None = an exception propagates *)
Definition from_result (stdout : string) (model_parses : bool) : option answer :=
  match first_line_class (first_line stdout) with
  | CSat => if model_parses then Some (Sat (is_model_valid stdout)) else None
  | c => Some (answer_of_class c true)
  end.

(* solve_low_level *)
Definition solve_low_level (r : raw) : option answer :=
  match r with
  | RawOut s ok => from_result s ok
  | RawTimeout => Some (answer_of_class timeout_class true)
  | RawRaise => None
  end.

Definition valid_of (a : answer) : bool := match a with Sat v => v | _ => true end.

(* solve_end_to_end: unsat-core cache hit -> unsat without a solver call; sat with an invalid
   model and a refinement that changes the query -> the answer of the refined query *)
Definition solve_end_to_end (cache_hit : bool) (r1 : raw) (refinable : bool) (r2 : raw) : option answer :=
  if cache_hit then Some Unsat
  else match solve_low_level r1 with
       | None => None
       | Some a =>
           if refine_guard (is_sat a) (valid_of a) false && refinable
           then solve_low_level r2
           else Some a
       end.

(* CounterexampleHandler._get_solver_output: executor already shut down -> err;
   exception in the worker -> err; else the worker's result *)
Definition get_solver_output (shutdown : bool) (res : option answer) : answer :=
  if shutdown then answer_of_class from_error_class true
  else match res with None => answer_of_class from_error_class true | Some a => a end.

(* ------------------------------------------------------------------ verdict of one test *)

Fixpoint cnt {A} (f : A -> bool) (l : list A) : nat :=
  match l with [] => O | x :: r => (if f x then 1 else 0) + cnt f r end.

(* str(m.result) *)
Definition key_of (a : answer) : string :=
  match a with Sat _ => "sat" | Unsat => "unsat" | Unknown => "unknown" | Err => "err" end.

(* Counter(str(m.result) for m in ctx.solver_outputs)[k] *)
Definition counter (outs : list answer) (k : string) : Z :=
  Z.of_nat (cnt (fun a => String.eqb (key_of a) k) outs).

(* the if/elif chain of run_test on the collected solver outputs, len(stuck), normal *)
Definition verdict_of (outs : list answer) (nstuck normal : nat) : label * Z :=
  verdict_chain (counter outs "sat") (counter outs "unsat") (counter outs "unknown") (counter outs "err")
                (Z.of_nat nstuck) (Z.of_nat normal).

(* how run_test's loop sees a finished path: panic_found, is_global_fail_set, is_stuck, error_output *)
Definition kind_action (k : outcome) : action :=
  match k with
  | Success => classify false false false false
  | Revert => classify false false false true
  | Panic => classify true false false true
  | FailFlag => classify false true false true
  | Stuck => classify false false true true
  end.

(* run without any interference: every submitted query is answered truthfully *)
Definition submitted (ps : list path) : list answer :=
  map ans (filter (fun p => match kind_action (kind p) with ASubmit => true | _ => false end) ps).
Definition stuck_count (ps : list path) : nat :=
  cnt (fun p => match kind_action (kind p) with AStuckSolve => stuck_counted (is_unsat (ans p)) | _ => false end) ps.
Definition normal_count (ps : list path) : nat :=
  cnt (fun p => match kind_action (kind p) with ACountNormal => true | _ => false end) ps.

Definition model_verdict (ps : list path) : label * Z :=
  verdict_of (submitted ps) (stuck_count ps) (normal_count ps).

(* ------------------------------------------------------------------ run_test as a small-step system

   main thread: for each path in order: MCheck (read the executor's shutdown flag; break if
   set), then MBody (classify the path: submit the query to the thread pool / solve the stuck
   path synchronously / count / skip).  Solver threads: the done-callback of a submitted query
   (EvCb j) may run at any moment after the submission, in any order.  With --early-exit a
   callback that records a valid counterexample sets the shutdown flag; from then on every
   callback reads its result as err (_get_solver_output), the main loop breaks at its next
   check, and PopenExecutor.submit raises ShutdownError.  What that does to the synchronous
   solve of a stuck path is read off the source (Gen/GenVerdict.v): with a bare call
   (stuck_shutdown_escapes = true) the exception leaves run_test (MCrashed) and run_tests reports
   raised_label / raised_exitcode; with the `except ShutdownError: break` handler the path loop
   ends (MDone).  Any other exception of that solve (unparsable model text, Popen failure) either
   leaves run_test as well (stuck_exception_escapes = true) or is turned into a
   SolverOutput.from_error output, whose class is from_error_class. *)

Inductive mstate := MCheck | MBody | MDone | MCrashed.

Record st := mkst {
  mst : mstate;
  todo : list path;              (* paths the exploration has not delivered yet *)
  nextid : nat;                  (* path_id of the head of todo *)
  flag : bool;                   (* executor._shutdown *)
  pending : list (nat * answer); (* submitted queries whose callback has not run: path_id, truthful answer *)
  outs : list answer;            (* ctx.solver_outputs (results only) *)
  nstuck : nat;                  (* len(stuck) *)
  normal : nat
}.

Definition init (ps : list path) : st := mkst MCheck ps 0 false [] [] 0 0.

(* EvMain: the main thread takes its next step.  EvMainRaise: the same, but if that step is the
   synchronous solve of a stuck path whose solver call fails (truthful answer Err), the failure
   surfaces as an exception inside solve_low_level (unparsable model text, Popen failure)
   instead of an `err` result. *)
Inductive event := EvMain | EvMainRaise | EvCb (j : nat).

Fixpoint take (j : nat) (l : list (nat * answer)) : option (answer * list (nat * answer)) :=
  match l with
  | [] => None
  | (i, a) :: r =>
      if Nat.eqb i j then Some (a, r)
      else match take j r with Some (b, r') => Some (b, (i, a) :: r') | None => None end
  end.

Definition set_mst (s : st) (m : mstate) : st :=
  mkst m (todo s) (nextid s) (flag s) (pending s) (outs s) (nstuck s) (normal s).

(* the stuck arm after its solver output (result class a) is known: count the path unless refuted *)
Definition stuck_solved (s : st) (rest : list path) (a : answer) : st :=
  mkst MCheck rest (S (nextid s)) (flag s) (pending s) (outs s)
       (if stuck_counted (is_unsat a) then S (nstuck s) else nstuck s) (normal s).

Definition step_main (s : st) : st :=
  match mst s with
  | MCheck =>
      match todo s with
      | [] => set_mst s MDone
      | _ :: _ => if flag s then set_mst s MDone else set_mst s MBody
      end
  | MBody =>
      match todo s with
      | [] => set_mst s MDone
      | p :: rest =>
          match kind_action (kind p) with
          | ASubmit =>
              mkst MCheck rest (S (nextid s)) (flag s) (pending s ++ [(nextid s, ans p)]) (outs s) (nstuck s) (normal s)
          | AStuckSolve =>
              if flag s then   (* PopenExecutor.submit raises ShutdownError *)
                set_mst s (if stuck_shutdown_escapes then MCrashed else MDone)
              else stuck_solved s rest (ans p)
          | ACountNormal =>
              mkst MCheck rest (S (nextid s)) (flag s) (pending s) (outs s) (nstuck s) (S (normal s))
          | ANone =>
              mkst MCheck rest (S (nextid s)) (flag s) (pending s) (outs s) (nstuck s) (normal s)
          end
      end
  | MDone | MCrashed => s
  end.

Definition is_sat_valid (a : answer) : bool := match a with Sat true => true | _ => false end.

(* _solve_end_to_end_callback for the query of path j *)
Definition step_cb (early_exit : bool) (j : nat) (s : st) : st :=
  match take j (pending s) with
  | None => s
  | Some (a, rest) =>
      let out := get_solver_output (flag s) (Some a) in
      mkst (mst s) (todo s) (nextid s)
           (flag s || (early_exit && is_sat_valid out))
           rest (outs s ++ [out]) (nstuck s) (normal s)
  end.

Definition step_main_raise (s : st) : st :=
  match mst s, todo s with
  | MBody, p :: rest =>
      match kind_action (kind p) with
      | AStuckSolve =>
          if flag s then step_main s   (* the executor refuses the job first: ShutdownError *)
          else if is_err (ans p) then
            if stuck_exception_escapes then set_mst s MCrashed
            else stuck_solved s rest (answer_of_class from_error_class true)   (* except Exception: from_error *)
          else step_main s
      | _ => step_main s
      end
  | _, _ => step_main s
  end.

Definition step (early_exit : bool) (s : st) (e : event) : st :=
  match e with
  | EvMain => step_main s
  | EvMainRaise => step_main_raise s
  | EvCb j => step_cb early_exit j s
  end.

Definition run (early_exit : bool) (ps : list path) (sched : list event) : st :=
  fold_left (step early_exit) sched (init ps).

(* the TestResult once the loop is over and thread_pool.shutdown(wait=True) has returned
   (all callbacks done); None while the run is not finished *)
Definition result (s : st) : option (label * Z) :=
  match mst s with
  | MCrashed => Some (raised_label, raised_exitcode)
  | MDone => match pending s with [] => Some (verdict_of (outs s) (nstuck s) (normal s)) | _ => None end
  | _ => None
  end.

(* ------------------------------------------------------------------ process exit code (_main) *)

(* one selected contract: number of selected tests, exit codes of the TestResults returned by
   run_contract (empty when setUp failed) *)
Definition contract := (Z * list Z)%type.

Definition num_passed (results : list Z) : Z := Z.of_nat (cnt test_passed results).

Definition totals (cs : list contract) : Z * Z :=   (* total_found, total_failed *)
  fold_left (fun acc c => (fst acc + fst c, snd acc + num_failed_of (fst c) (num_passed (snd c)))%Z) cs (0, 0)%Z.

Definition main_exit (cs : list contract) : Z :=
  let t := totals cs in
  if no_tests (fst t) then no_tests_exit else final_exit (snd t).
