(* C11 model, object level: SEVERAL sevm.Path objects alive at the same time, their mutable
   containers (the `conditions` dict, the `related` dict, the `var_to_conds` defaultdict and
   its sets, the z3 solver with its scopes) as objects in a heap addressed by references.
   Path.branch / Path.extend_path hand each container of the parent to the new Path object
   as the regenerated modes (Gen/GenPathCopy.v, from sevm.py) say: the same object, a
   shallow copy or a deep copy.  Path.append mutates the containers of its own object IN
   PLACE, so whatever is aliased is seen by every path holding the reference.

   Next to it: the value-level semantics of the same programs (every Path object a value of
   the pure model, Model/SmtTextModel.v) and the lineage of every Path object (the life, in
   the sense of SmtTextModel.run, that produced it).  No proofs. *)
From Coq Require Import ZArith List Bool.
From HV Require Import Spec.SmtQuerySpec Model.PathCopyDefs Model.SmtTextModel.
Import ListNotations.
Open Scope Z_scope.

(* objs[i] = x *)
Fixpoint upd {A : Type} (l : list A) (i : nat) (x : A) : list A :=
  match l, i with
  | [], _ => []
  | _ :: r, O => x :: r
  | y :: r, S i' => y :: upd r i' x
  end.

(* ---- a defaultdict(set): var -> reference of a set object; S = the heap of set objects *)
Definition d_ref (d : list (Z * nat)) (v : Z) : option nat :=
  match find (fun kv => fst kv =? v) d with Some kv => Some (snd kv) | None => None end.

(* defaultdict.__getitem__: a missing key gets a new empty set object *)
Definition d_touch (d : list (Z * nat)) (S : list (list nat)) (v : Z) : list (Z * nat) * list (list nat) :=
  match d_ref d v with
  | Some _ => (d, S)
  | None => ((d ++ [(v, List.length S)])%list, (S ++ [[]])%list)
  end.

Definition d_get (d : list (Z * nat)) (S : list (list nat)) (v : Z) : list nat :=
  match d_ref d v with Some r => nth r S [] | None => [] end.

Fixpoint d_collect (d : list (Z * nat)) (S : list (list nat)) (vs : list Z) (acc : list nat)
  : list nat * list (Z * nat) * list (list nat) :=
  match vs with
  | [] => (acc, d, S)
  | v :: r => let (d', S') := d_touch d S v in d_collect d' S' r (acc ++ d_get d' S' v)%list
  end.

(* self.var_to_conds[var].add(idx): the set object is mutated in place *)
Definition d_add (d : list (Z * nat)) (S : list (list nat)) (v : Z) (idx : nat)
  : list (Z * nat) * list (list nat) :=
  let (d', S') := d_touch d S v in
  match d_ref d' v with
  | Some r => (d', upd S' r (set_add (nth r S' []) idx))
  | None => (d', S')
  end.

Fixpoint d_add_all (d : list (Z * nat)) (S : list (list nat)) (vs : list Z) (idx : nat)
  : list (Z * nat) * list (list nat) :=
  match vs with
  | [] => (d, S)
  | v :: r => let (d', S') := d_add d S v idx in d_add_all d' S' r idx
  end.

(* deepcopy: a new set object per entry *)
Definition deep_copy_v2c (d : list (Z * nat)) (S : list (list nat)) : list (Z * nat) * list (list nat) :=
  (combine (map fst d) (seq (List.length S) (List.length d)),
   (S ++ map (fun kv => nth (snd kv) S []) d)%list).

(* the dict with every reference replaced by the set it points to *)
Definition deref (S : list (list nat)) (d : list (Z * nat)) : list (Z * list nat) :=
  map (fun kv => (fst kv, nth (snd kv) S [])) d.

(* new.f = old.f | old.f.copy() | deepcopy(old.f) for a container whose values are never
   mutated; the object at new_ref is the empty one allocated by Path.__init__ (it is
   unreachable afterwards when the field is re-assigned, so its slot is reused for the copy) *)
Definition assign_flat {A : Type} (m : copy_mode) (objs : list (list A)) (new_ref old_ref : nat)
  : list (list A) * nat :=
  match m with
  | MAlias => (objs, old_ref)
  | _ => (upd objs new_ref (nth old_ref objs []), new_ref)
  end.

Definition assign_v2c (m : copy_mode) (objs : list (list (Z * nat))) (S : list (list nat))
  (new_ref old_ref : nat) : list (list (Z * nat)) * list (list nat) * nat :=
  match m with
  | MAlias => (objs, S, old_ref)
  | MShallow => (upd objs new_ref (nth old_ref objs []), S, new_ref)
  | MDeep => let (d', S') := deep_copy_v2c (nth old_ref objs []) S in (upd objs new_ref d', S', new_ref)
  end.

Section HeapModel.
  Variable cond : Type.
  Variable cond_eqb : cond -> cond -> bool.
  Variable simp : cond -> cond.
  Variable is_true : cond -> bool.
  Variable vars : cond -> list Z.
  Variable cid : cond -> Z.
  Variable md : modes.                        (* Gen/GenPathCopy.gen_modes *)

  (* a z3 solver object: stack of scopes, innermost first; the base scope is always there *)
  Definition s_add (s : list (list cond)) (c : cond) : list (list cond) :=
    match s with [] => [[c]] | top :: r => (top ++ [c])%list :: r end.
  Definition s_push (s : list (list cond)) : list (list cond) := [] :: s.
  Definition s_num_scopes (s : list (list cond)) : nat := pred (List.length s).
  Definition s_pop (s : list (list cond)) (n : nat) : list (list cond) := skipn n s.
  Definition s_assertions (s : list (list cond)) : list cond := concat (rev s).

  Record hpath : Type := mkHPath {
    hp_conds : nat;                (* reference of the `conditions` dict *)
    hp_rel : nat;                  (* reference of the `related` dict *)
    hp_v2c : nat;                  (* reference of the `var_to_conds` defaultdict *)
    hp_pending : list cond;
    hp_sliced : option (list nat);
    hp_solver : nat;               (* reference of the solver *)
    hp_scopes : nat;               (* num_scopes *)
  }.

  Record heap : Type := mkHeap {
    o_conds : list (list (cond * bool));
    o_rel : list (list (nat * list nat));
    o_v2c : list (list (Z * nat));
    o_sets : list (list nat);
    o_solvers : list (list (list cond));
    o_paths : list hpath;
  }.

  (* Path(solver) for the first path of an exploration *)
  Definition h_init (s0 : list cond) : heap :=
    mkHeap [[]] [[]] [[]] [] [[s0]] [mkHPath 0 0 0 [] None 0 0].

  (* paths[i].append(c0, branching) *)
  Definition h_append (h : heap) (i : nat) (c0 : cond) (branching : bool) : option heap :=
    match nth_error (o_paths h) i with
    | None => None
    | Some hp =>
        let c := simp c0 in
        if is_true c then Some h
        else
          let C := nth (hp_conds hp) (o_conds h) [] in
          if has_cond cond cond_eqb c C then Some h
          else
            let idx := List.length C in
            let vs := vars c in
            let R := nth (hp_rel hp) (o_rel h) [] in
            let '(cs, d1, S1) := d_collect (nth (hp_v2c hp) (o_v2c h) []) (o_sets h) vs [] in
            let rel := (cs ++ flat_map (rel_get R) cs)%list in
            let (d2, S2) := d_add_all d1 S1 vs idx in
            Some (mkHeap (upd (o_conds h) (hp_conds hp) (C ++ [(c, branching)])%list)
                         (upd (o_rel h) (hp_rel hp) (dict_set R idx rel))
                         (upd (o_v2c h) (hp_v2c hp) d2)
                         S2
                         (upd (o_solvers h) (hp_solver hp) (s_add (nth (hp_solver hp) (o_solvers h) []) c))
                         (o_paths h))
    end.

  Fixpoint h_extend (h : heap) (i : nat) (cs : list cond) (branching : bool) : option heap :=
    match cs with
    | [] => Some h
    | c :: r => match h_append h i c branching with Some h' => h_extend h' i r branching | None => None end
    end.

  (* child = paths[i].branch(c); the child becomes paths[len(paths)] *)
  Definition h_branch (h : heap) (i : nat) (c : cond) : option heap :=
    match nth_error (o_paths h) i with
    | None => None
    | Some hp =>
        match hp_pending hp with
        | _ :: _ => None                                   (* ValueError: branching from an inactive path *)
        | [] =>
            let s := nth (hp_solver hp) (o_solvers h) [] in
            let (oc, rc) := assign_flat (br_conditions md) (o_conds h ++ [[]])%list (List.length (o_conds h)) (hp_conds hp) in
            let (orl, rr) := assign_flat (br_related md) (o_rel h ++ [[]])%list (List.length (o_rel h)) (hp_rel hp) in
            let '(ov, S', rv) := assign_v2c (br_var_to_conds md) (o_v2c h ++ [[]])%list (o_sets h)
                                            (List.length (o_v2c h)) (hp_v2c hp) in
            Some (mkHeap oc orl ov S'
                         (upd (o_solvers h) (hp_solver hp) (s_push s))
                         (o_paths h ++ [mkHPath rc rr rv [c] None (hp_solver hp) (s_num_scopes s)])%list)
        end
    end.

  Definition set_pending (hp : hpath) (l : list cond) : hpath :=
    mkHPath (hp_conds hp) (hp_rel hp) (hp_v2c hp) l (hp_sliced hp) (hp_solver hp) (hp_scopes hp).

  Definition set_sliced (hp : hpath) (s : option (list nat)) : hpath :=
    mkHPath (hp_conds hp) (hp_rel hp) (hp_v2c hp) (hp_pending hp) s (hp_solver hp) (hp_scopes hp).

  (* paths[i].activate() *)
  Definition h_activate (h : heap) (i : nat) : option heap :=
    match nth_error (o_paths h) i with
    | None => None
    | Some hp =>
        let s := nth (hp_solver hp) (o_solvers h) [] in
        if Nat.ltb (s_num_scopes s) (hp_scopes hp) then None       (* ValueError: invalid num_scopes *)
        else
          let h1 := mkHeap (o_conds h) (o_rel h) (o_v2c h) (o_sets h)
                           (upd (o_solvers h) (hp_solver hp) (s_pop s (s_num_scopes s - hp_scopes hp)))
                           (o_paths h) in
          match h_extend h1 i (hp_pending hp) true with
          | None => None
          | Some h2 =>
              Some (mkHeap (o_conds h2) (o_rel h2) (o_v2c h2) (o_sets h2) (o_solvers h2)
                           (upd (o_paths h2) i (set_pending hp [])))
          end
    end.

  (* the worklist loop of Path.slice on the defaultdict object (look-ups create entries) *)
  Fixpoint d_slice_loop (fuel : nat) (conds : list (cond * bool)) (d : list (Z * nat)) (S : list (list nat))
                        (sl : list nat) (seen work : list Z)
    : option (list nat * list (Z * nat) * list (list nat)) :=
    match fuel with
    | O => None
    | Datatypes.S f =>
        match work with
        | [] => Some (sl, d, S)
        | var :: rest =>
            if existsb (Z.eqb var) seen then d_slice_loop f conds d S sl seen rest
            else
              let (d', S') := d_touch d S var in
              match slice_visit cond vars conds (d_get d' S' var) sl rest with
              | Some (sl', work') => d_slice_loop f conds d' S' sl' (var :: seen) work'
              | None => None
              end
        end
    end.

  (* paths[i].slice(var_set) *)
  Definition h_slice (h : heap) (i : nat) (var_set : list Z) : option heap :=
    match nth_error (o_paths h) i with
    | None => None
    | Some hp =>
        match hp_sliced hp with
        | Some _ => None                                   (* ValueError: already sliced *)
        | None =>
            let C := nth (hp_conds hp) (o_conds h) [] in
            match d_slice_loop (slice_fuel cond vars C var_set) C (nth (hp_v2c hp) (o_v2c h) []) (o_sets h)
                               [] [] (rev var_set) with
            | Some (sl, d1, S1) =>
                Some (mkHeap (o_conds h) (o_rel h) (upd (o_v2c h) (hp_v2c hp) d1) S1 (o_solvers h)
                             (upd (o_paths h) i (set_sliced hp (Some sl))))
            | None => None
            end
        end
    end.

  (* new = Path(<fresh solver holding s0>); new.extend_path(paths[i]); new becomes paths[len(paths)] *)
  Definition h_extend_path (h : heap) (i : nat) (s0 : list cond) : option heap :=
    match nth_error (o_paths h) i with
    | None => None
    | Some hp =>
        let (oc, rc) := assign_flat (ex_conditions md) (o_conds h ++ [[]])%list (List.length (o_conds h)) (hp_conds hp) in
        let (orl, rr) := assign_flat (ex_related md) (o_rel h ++ [[]])%list (List.length (o_rel h)) (hp_rel hp) in
        let '(ov, S', rv) := assign_v2c (ex_var_to_conds md) (o_v2c h ++ [[]])%list (o_sets h)
                                        (List.length (o_v2c h)) (hp_v2c hp) in
        let adds := solver_additions cond (nth rc oc []) (hp_sliced hp) in
        Some (mkHeap oc orl ov S'
                     (o_solvers h ++ [[(s0 ++ adds)%list]])%list
                     (o_paths h ++ [mkHPath rc rr rv [] None (List.length (o_solvers h)) 0])%list)
    end.

  (* a program over path objects: operand i = index of the Path object in creation order *)
  Inductive hop : Type :=
  | HAppend (i : nat) (c : cond) (branching : bool)
  | HBranch (i : nat) (c : cond)
  | HActivate (i : nat)
  | HSlice (i : nat) (var_set : list Z)
  | HExtend (i : nat) (fresh_solver : list cond).

  Definition h_step (h : heap) (o : hop) : option heap :=
    match o with
    | HAppend i c b => h_append h i c b
    | HBranch i c => h_branch h i c
    | HActivate i => h_activate h i
    | HSlice i vs => h_slice h i vs
    | HExtend i s0 => h_extend_path h i s0
    end.

  Fixpoint h_run (h : heap) (ops : list hop) : option heap :=
    match ops with
    | [] => Some h
    | o :: r => match h_step h o with Some h' => h_run h' r | None => None end
    end.

  (* what paths[i] looks like: its containers read through its references *)
  Definition h_conditions (h : heap) (hp : hpath) : list (cond * bool) := nth (hp_conds hp) (o_conds h) [].

  Definition h_view (h : heap) (hp : hpath) : path cond :=
    mkPath (h_conditions h hp) (hp_pending hp) (nth (hp_rel hp) (o_rel h) [])
           (deref (o_sets h) (nth (hp_v2c hp) (o_v2c h) [])) (hp_sliced hp)
           (s_assertions (nth (hp_solver hp) (o_solvers h) [])).

  (* paths[i].to_smt2(args) *)
  Definition h_to_smt2 (h : heap) (i : nat) (cache_solver : bool) : option (list (qassert cond) * list Z) :=
    match nth_error (o_paths h) i with
    | Some hp => Some (to_smt2_of cond cid (h_conditions h hp) cache_solver)
    | None => None
    end.

  (* ---- the same programs on VALUES: every Path object is a value of the pure model, a new
     object starts as a copy; nothing is shared by construction *)
  Definition v_step (ps : list (path cond)) (o : hop) : option (list (path cond)) :=
    match o with
    | HAppend i c b =>
        match nth_error ps i with
        | Some p => Some (upd ps i (append cond cond_eqb simp is_true vars p c b))
        | None => None
        end
    | HBranch i c =>
        match nth_error ps i with
        | Some p => match branch cond p c with Some q => Some (ps ++ [q])%list | None => None end
        | None => None
        end
    | HActivate i =>
        match nth_error ps i with
        | Some p => Some (upd ps i (activate cond cond_eqb simp is_true vars p))
        | None => None
        end
    | HSlice i vs =>
        match nth_error ps i with
        | Some p => match slice cond vars p vs with Some q => Some (upd ps i q) | None => None end
        | None => None
        end
    | HExtend i s0 =>
        match nth_error ps i with
        | Some p => Some (ps ++ [extend_path cond (empty_path cond s0) p])%list
        | None => None
        end
    end.

  Fixpoint v_run (ps : list (path cond)) (ops : list hop) : option (list (path cond)) :=
    match ops with
    | [] => Some ps
    | o :: r => match v_step ps o with Some ps' => v_run ps' r | None => None end
    end.

  (* equal except for the solver view *)
  Definition same_path (p q : path cond) : Prop :=
    conditions p = conditions q /\ pending p = pending q /\ related p = related q /\
    var_to_conds p = var_to_conds q /\ sliced p = sliced q.

  (* ---- the lineage of every Path object: the life (SmtTextModel.run) that leads to it --
     the operations on its ancestors BEFORE it was forked off / extended, then its own *)
  Definition lin_snoc (ls : list (list (pop cond))) (i : nat) (o : pop cond) : list (list (pop cond)) :=
    upd ls i (nth i ls [] ++ [o])%list.

  Definition lin_step (ls : list (list (pop cond))) (o : hop) : list (list (pop cond)) :=
    match o with
    | HAppend i c b => lin_snoc ls i (OAppend c b)
    | HBranch i c => (ls ++ [nth i ls [] ++ [OFork c]])%list
    | HActivate i => lin_snoc ls i OActivate
    | HSlice i vs => lin_snoc ls i (OSlice vs)
    | HExtend i s0 => (ls ++ [nth i ls [] ++ [OExtend s0]])%list
    end.

  Definition lineages (ops : list hop) : list (list (pop cond)) := fold_left lin_step ops [[]].

  (* ---- the exploration discipline of SEVM.run (a LIFO worklist; the parent of a fork keeps
     running, the fork is activated after everything started later on the same solver is
     done): per solver object, the Path object running on it and its forks that wait for
     activation, most recent first.  Appends and forks come from the running path only; a
     waiting fork is activated only when it is the most recent one.  A program that leaves
     the discipline has no schedule (None). *)
  Record sched : Type := mkSched {
    sc_solver_of : list nat;        (* Path object -> solver object *)
    sc_current : list nat;          (* solver object -> the Path object running on it *)
    sc_waiting : list (list nat);   (* solver object -> forks not yet activated *)
  }.

  Definition sched_init : sched := mkSched [0%nat] [0%nat] [[]].

  Definition is_current (sc : sched) (i : nat) : bool :=
    Nat.ltb i (List.length (sc_solver_of sc)) &&
    match nth_error (sc_current sc) (nth i (sc_solver_of sc) 0%nat) with
    | Some j => Nat.eqb j i
    | None => false
    end.

  Definition sched_step (sc : sched) (o : hop) : option sched :=
    match o with
    | HAppend i _ _ => if is_current sc i then Some sc else None
    | HBranch i _ =>
        if is_current sc i then
          let s := nth i (sc_solver_of sc) 0%nat in
          Some (mkSched (sc_solver_of sc ++ [s])%list (sc_current sc)
                        (upd (sc_waiting sc) s (List.length (sc_solver_of sc) :: nth s (sc_waiting sc) [])))
        else None
    | HActivate j =>
        if Nat.ltb j (List.length (sc_solver_of sc)) then
          let s := nth j (sc_solver_of sc) 0%nat in
          match nth s (sc_waiting sc) [] with
          | j' :: rest =>
              if Nat.eqb j' j then Some (mkSched (sc_solver_of sc) (upd (sc_current sc) s j) (upd (sc_waiting sc) s rest))
              else None
          | [] => None
          end
        else None
    | HSlice i _ => if Nat.ltb i (List.length (sc_solver_of sc)) then Some sc else None
    | HExtend i _ =>
        if Nat.ltb i (List.length (sc_solver_of sc)) then
          Some (mkSched (sc_solver_of sc ++ [List.length (sc_current sc)])%list
                        (sc_current sc ++ [List.length (sc_solver_of sc)])%list
                        (sc_waiting sc ++ [[]])%list)
        else None
    end.

  Fixpoint sched_run (sc : sched) (ops : list hop) : option sched :=
    match ops with
    | [] => Some sc
    | o :: r => match sched_step sc o with Some sc' => sched_run sc' r | None => None end
    end.
End HeapModel.

Arguments mkHPath {cond}.
Arguments hp_conds {cond}.
Arguments hp_rel {cond}.
Arguments hp_v2c {cond}.
Arguments hp_pending {cond}.
Arguments hp_sliced {cond}.
Arguments hp_solver {cond}.
Arguments hp_scopes {cond}.
Arguments mkHeap {cond}.
Arguments o_conds {cond}.
Arguments o_rel {cond}.
Arguments o_v2c {cond}.
Arguments o_sets {cond}.
Arguments o_solvers {cond}.
Arguments o_paths {cond}.
Arguments HAppend {cond}.
Arguments HBranch {cond}.
Arguments HActivate {cond}.
Arguments HSlice {cond}.
Arguments HExtend {cond}.
