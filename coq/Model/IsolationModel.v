(* Executable model of the parts of halmos that decide whether tests / paths are isolated
   from each other (C20).  No proofs in this file (Proofs/IsolationProofs.v).

   Part S  object store: what SEVM.create_branch / SEVM.run_message / Path.branch /
           Path.extend_path copy and what they share (tables regenerated from sevm.py in
           Gen/GenCopies.v); objects have identity, so sharing is expressible.
   Part R  the runner: run_contract / run_tests / run_test / run_message over the
           contract-level caches ContractContext.frontier_states and .visited, with
           the generator laziness of _compute_frontier and the consumer loop's `break`
           (--width, --early-exit) modelled by a budget.
   Part C  per-test configuration: run_tests gives every test its own config (with_devdoc); which
           config explores the target transactions of the SHARED frontier is regenerated from
           __main__.py (Gen/GenFrontierFlow.v: provenance of the `args` that reach run_target_function).
   Part N  fresh-symbol naming: uid() as a stream; names are (prefix, uid, counter).     *)
From Coq Require Import String ZArith List Bool Lia.
From HV Require Import Gen.GenCopies Gen.GenCallbackCopies Gen.GenFrontierFlow Spec.IsolationSpec.
Import ListNotations.
Open Scope Z_scope.

(* ================================================================ Part S: object store *)

(* a value is an immutable immediate (int, z3 term, None ...) or a reference to a mutable object *)
Inductive val := I (z : Z) | R (l : nat).
Definition obj := list (Z * val).          (* dict / list / attribute record: key -> value *)
Definition heap := list obj.               (* location = index; allocation appends *)

Definition hget (h : heap) (l : nat) : obj := nth l h [].

Fixpoint hset (h : heap) (l : nat) (o : obj) : heap :=
  match h, l with
  | [], _ => []
  | _ :: t, O => o :: t
  | x :: t, S l' => x :: hset t l' o
  end.

Fixpoint lookup (k : Z) (o : obj) : option val :=
  match o with
  | [] => None
  | (k', v) :: r => if k =? k' then Some v else lookup k r
  end.

Fixpoint set_key (k : Z) (v : val) (o : obj) : obj :=
  match o with
  | [] => [(k, v)]
  | (k', v') :: r => if k =? k' then (k, v) :: r else (k', v') :: set_key k v r
  end.

(* copy a sequence of values, each with its own copier, threading the heap *)
Fixpoint copy_list (cps : list (heap -> val -> heap * val)) (h : heap) (vs : list val) : heap * list val :=
  match cps, vs with
  | cp :: cps', v :: vs' =>
      let '(h1, v') := cp h v in
      let '(h2, r) := copy_list cps' h1 vs' in
      (h2, v' :: r)
  | _, _ => (h, [])
  end.

(* copy to depth d: depth 0 shares the reference; depth 1 is `x.copy()` (new container,
   same items); deepcopy is a depth at least the nesting depth of the structure *)
Fixpoint copy (d : nat) (h : heap) (v : val) {struct d} : heap * val :=
  match d with
  | O => (h, v)
  | S d' =>
      match v with
      | I _ => (h, v)
      | R l =>
          let o := hget h l in
          let '(h', xs) := copy_list (repeat (copy d') (length o)) h (map snd o) in
          (h' ++ [combine (map fst o) xs], R (length h'))
      end
  end.

(* ---- depths taken from the regenerated tables *)

Definition deep : nat := 8.     (* deepcopy / a fresh object: nothing mutable is shared *)

Definition kind_depth (k : copykind) : nat :=
  match k with Share => 0 | Shallow => 1 | Deep => deep | Fresh => deep | ViaPath => deep end%nat.

Definition min_depth (t : list (string * copykind)) : nat :=
  fold_right (fun fk acc => Nat.min (kind_depth (snd fk)) acc) deep t.

(* `ex.sha3s.copy()` is KeccakRegistry.copy (a new registry whose attributes are copied as
   keccak_registry_copy_table says); deepcopy(ex.st) is State.__deepcopy__ *)
Definition field_depth (fk : string * copykind) : nat :=
  let '(f, k) := fk in
  if String.eqb f "sha3s" then
    match k with Shallow => S (min_depth keccak_registry_copy_table) | _ => kind_depth k end
  else if String.eqb f "st" then
    match k with Deep => S (min_depth state_deepcopy_table) | _ => kind_depth k end
  else kind_depth k.

Definition depths (t : list (string * copykind)) : list nat := map field_depth t.

(* the new Exec built by create_branch / run_message from the fields [vs] of the old one
   (fields in table order) *)
Definition derive (t : list (string * copykind)) (h : heap) (vs : list val) : heap * list val :=
  copy_list (map copy (depths t)) h vs.

Definition create_branch := derive create_branch_table.
Definition run_message_state := derive run_message_table.
Definition path_branch := derive path_branch_table.
Definition extend_path := derive extend_path_table.

(* every field is copied at least as deep as the interpreter mutates it in place
   (Spec.exec_need / Spec.path_need); a field the specification does not know must not
   be shared at all *)
Definition need_of (need : list (string * nat)) (f : string) : nat :=
  match find (fun n => String.eqb (fst n) f) need with Some n => snd n | None => deep end.

Definition table_ok (need : list (string * nat)) (t : list (string * copykind)) : bool :=
  forallb (fun fk => Nat.leb (need_of need (fst fk)) (field_depth fk)) t
  && forallb (fun n => existsb (fun fk => String.eqb (fst fk) (fst n)) t) need.

(* a partial table (only some fields are re-established, e.g. by the return callback of a sub-call):
   every listed field is copied at least as deep as it is mutated in place *)
Definition fields_ok (need : list (string * nat)) (t : list (string * copykind)) : bool :=
  forallb (fun fk => Nat.leb (need_of need (fst fk)) (field_depth fk)) t.

(* the fields handed over by reference *)
Definition shared_fields (t : list (string * copykind)) : list string :=
  map fst (filter (fun fk => Nat.eqb (field_depth fk) 0) t).

(* ---- in-place mutation through a handle (the roots of one Exec) *)

Fixpoint nav (h : heap) (v : val) (path : list Z) : option nat :=
  match path with
  | [] => match v with R l => Some l | I _ => None end
  | k :: p =>
      match v with
      | R l => match lookup k (hget h l) with Some v' => nav h v' p | None => None end
      | I _ => None
      end
  end.

Inductive op :=
| OSet (f : nat) (path : list Z) (k : Z) (z : Z)                  (* x[k] = <immediate> *)
| ONew (f : nat) (path : list Z) (k : Z)                          (* x[k] = <new empty container> *)
| OLink (f : nat) (path : list Z) (k : Z) (g : nat) (q : list Z). (* x[k] = <object reachable from this Exec> *)

Definition root (roots : list val) (f : nat) : val := nth f roots (I 0).

Definition exec_op (roots : list val) (h : heap) (o : op) : heap :=
  match o with
  | OSet f p k z =>
      match nav h (root roots f) p with
      | Some l => hset h l (set_key k (I z) (hget h l))
      | None => h
      end
  | ONew f p k =>
      match nav h (root roots f) p with
      | Some l => hset (h ++ [[]]) l (set_key k (R (length h)) (hget h l))
      | None => h
      end
  | OLink f p k g q =>
      match nav h (root roots f) p, nav h (root roots g) q with
      | Some l, Some r => hset h l (set_key k (R r) (hget h l))
      | _, _ => h
      end
  end.

Definition run_ops (roots : list val) (ops : list op) (h : heap) : heap :=
  fold_left (exec_op roots) ops h.

(* ---- observation: the content of a value to depth d (references below are opaque) *)
Inductive tree := TI (z : Z) | TR (l : nat) | TN (kids : list (Z * tree)).

Fixpoint view (d : nat) (h : heap) (v : val) : tree :=
  match d with
  | O => match v with I z => TI z | R l => TR l end
  | S d' =>
      match v with
      | I z => TI z
      | R l => TN (map (fun kx => (fst kx, view d' h (snd kx))) (hget h l))
      end
  end.


(* ---- ownership predicates used in the isolation theorems *)

(* every reference points inside the heap *)
Definition wf_val (n : nat) (v : val) : Prop := match v with I _ => True | R l => (l < n)%nat end.
Definition wf_heap (h : heap) : Prop := forall l k v, In (k, v) (hget h l) -> wf_val (length h) v.

(* the objects at nesting levels < d below v all satisfy P *)
Fixpoint inside (d : nat) (h : heap) (P : nat -> Prop) (v : val) : Prop :=
  match d with
  | O => True
  | S d' =>
      match v with
      | I _ => True
      | R l => P l /\ forall k x, In (k, x) (hget h l) -> inside d' h P x
      end
  end.

(* r is referenced at nesting level exactly d below v *)
Fixpoint at_level (d : nat) (h : heap) (v : val) (r : nat) : Prop :=
  match d with
  | O => v = R r
  | S d' =>
      match v with
      | I _ => False
      | R l => exists k x, In (k, x) (hget h l) /\ at_level d' h x r
      end
  end.

(* no object outside P holds a reference into P *)
Definition no_ptr_into (P : nat -> Prop) (h : heap) : Prop :=
  forall l, ~ P l -> forall k r, In (k, R r) (hget h l) -> ~ P r.

(* allocated between h and h' *)
Definition fresh (h h' : heap) (l : nat) : Prop := (length h <= l < length h')%nat.

(* ================================================================ Part R: the runner *)

(* ContractContext: frontier_states (dict depth -> list of states; keys are 0..n-1) and
   the visited set of state ids *)
Record ctx := mkCtx { frontier : list (list Z); visited : list Z }.

Record test := mkTest {
  t_depth : nat;              (* max_call_depth: 0 for regular tests, --invariant-depth otherwise *)
  t_body : Z -> list Z;       (* outcome codes of the paths of the test started in a state *)
  t_budget : option nat       (* None: the path generator is consumed to the end;
                                 Some k: the consumer loop `break`s having pulled k paths
                                 (--width w: k = w+1; --early-exit: whenever the executor
                                 shut down) and the generators are never resumed *)
}.

Definition take_budget (b : option nat) (paths : list Z) : list Z * option nat :=
  match b with
  | None => (paths, None)
  | Some k => (firstn k paths, Some (k - length paths)%nat)
  end.

Definition exhausted (b : option nat) : bool :=
  match b with Some O => true | _ => false end.

(* for ex in <cached list>: yield from sevm.run_message(ex, ...) *)
Fixpoint run_states (body : Z -> list Z) (b : option nat) (sts : list Z) : list Z * option nat :=
  match sts with
  | [] => ([], b)
  | s :: rest =>
      if exhausted b then ([], b)
      else
        let '(p, b1) := take_budget b (body s) in
        let '(q, b2) := run_states body b1 rest in
        (p ++ q, b2)
  end.

(* the body of _compute_frontier's loops over the post states of the previous layer,
   interleaved with the consumer: a post state is appended to the cached list and marked
   visited *before* it is yielded; if the consumer stops, the rest is never computed *)
Fixpoint lazy_posts (sd : Z -> Z) (body : Z -> list Z) (b : option nat) (vis acc posts : list Z)
  : list Z * option nat * list Z * list Z :=
  match posts with
  | [] => ([], b, vis, acc)
  | p :: rest =>
      if exhausted b then ([], b, vis, acc)
      else if memZ (sd p) vis then lazy_posts sd body b vis acc rest
      else
        let '(paths, b1) := take_budget b (body p) in
        let '(q, b2, vis2, acc2) := lazy_posts sd body b1 (sd p :: vis) (acc ++ [p]) rest in
        (paths ++ q, b2, vis2, acc2)
  end.

(* one iteration of `for depth in range(max_call_depth + 1): for ex in get_frontier(ctx, depth)` *)
Definition run_depth (sys : system) (body : Z -> list Z) (c : ctx) (b : option nat) (d : nat)
  : list Z * option nat * ctx :=
  match nth_error (frontier c) d with
  | Some sts =>                                  (* cached: ctx.frontier_states.get(depth) is not None *)
      let '(p, b') := run_states body b sts in (p, b', c)
  | None =>
      if exhausted b then ([], b, c)             (* the generator is never started *)
      else if (d =? length (frontier c))%nat then
        let curr := nth (d - 1) (frontier c) [] in          (* frontier_states[depth - 1] *)
        let '(p, b', vis', acc) :=
          lazy_posts (sid sys) body b (visited c) [] (flat_map (step sys) curr) in
        (p, b', mkCtx (frontier c ++ [acc]) vis')           (* frontier_states[depth] = next_exs *)
      else ([], b, c)                            (* KeyError in python; depths are visited in order *)
  end.

Fixpoint run_depths (sys : system) (body : Z -> list Z) (ds : list nat) (c : ctx) (b : option nat)
  : list Z * option nat * ctx :=
  match ds with
  | [] => ([], b, c)
  | d :: ds' =>
      let '(p, b1, c1) := run_depth sys body c b d in
      let '(q, b2, c2) := run_depths sys body ds' c1 b1 in
      (p ++ q, b2, c2)
  end.

(* run_test: (outcome codes of the consumed paths, new context) *)
Definition run_test (sys : system) (t : test) (c : ctx) : list Z * ctx :=
  let '(p, _, c') := run_depths sys (t_body t) (seq 0 (S (t_depth t))) c (t_budget t) in (p, c').

(* run_tests: the results in order, threading the contract context *)
Fixpoint run_tests (sys : system) (ts : list test) (c : ctx) : list (list Z) * ctx :=
  match ts with
  | [] => ([], c)
  | t :: r =>
      let '(p, c1) := run_test sys t c in
      let '(ps, c2) := run_tests sys r c1 in
      (p :: ps, c2)
  end.

(* run_contract: ctx.frontier_states[0] = [setup_ex]; whether the id of the setUp state is registered in
   ctx.visited is what the code does (Gen/GenFrontierFlow.v, regenerated): it is not *)
Definition init_visited (sd : Z -> Z) (s0 : Z) : list Z := if setup_state_visited then [sd s0] else [].
Definition init_ctx (sys : system) (s0 : Z) : ctx := mkCtx [[s0]] (init_visited (sid sys) s0).

Definition run_contract (sys : system) (s0 : Z) (ts : list test) : list (list Z) :=
  fst (run_tests sys ts (init_ctx sys s0)).

(* what TestResult shows of the paths: exit code, paths (path_id + 1, so at least 1), successes *)
Definition result_of (paths : list Z) : Z * Z * Z :=
  (verdict_of paths, Z.max 1 (Z.of_nat (length paths)), countZ 0 paths).

(* ================================================================ Part C: per-test configuration *)

(* run_tests: test_config = with_devdoc(ctx.args, funsig, ...); FunctionContext(args=test_config,
   contract_ctx=ctx, max_call_depth=test_config.invariant_depth | 0).  A configuration is an
   integer; the test's own body (t_body) and depth (t_depth) are already those of ITS config. *)
Record ctest := mkCTest { ct_cfg : Z; ct_test : test }.

Definition pick_cfg (s : cfg_src) (contract_cfg test_cfg : Z) : Z :=
  match s with SrcContract => contract_cfg | SrcTest => test_cfg end.

(* the config under which _compute_frontier -> run_target_contract -> run_target_function explore
   the target transactions while a test with config tc runs in a contract with config cc: what
   the code does (explore_cfg_src is regenerated from the source on every run) *)
Definition frontier_cfg : Z -> Z -> Z := pick_cfg explore_cfg_src.

(* what one target transaction can do depends on the config that explores it (loop bound,
   array / bytes lengths, ...): cstep e; the state id does not *)
Definition sys_of (cstep : Z -> Z -> list Z) (sd : Z -> Z) (e : Z) : system := mkSystem (cstep e) sd.

Section Configured.
  Variable fc : Z -> Z -> Z.               (* contract config -> running test's config -> exploring config *)
  Variable cstep : Z -> Z -> list Z.
  Variable sd : Z -> Z.
  Variable cc : Z.                         (* ContractContext.args *)

  (* run_test with the frontier depths it needs computed (on a cache miss) under fc cc (its config);
     cached depths are reused whoever computed them: the cache key is the depth alone *)
  Definition run_test_c (t : ctest) (c : ctx) : list Z * ctx :=
    run_test (sys_of cstep sd (fc cc (ct_cfg t))) (ct_test t) c.

  Fixpoint run_tests_c (ts : list ctest) (c : ctx) : list (list Z) * ctx :=
    match ts with
    | [] => ([], c)
    | t :: r =>
        let '(p, c1) := run_test_c t c in
        let '(ps, c2) := run_tests_c r c1 in
        (p :: ps, c2)
    end.

  Definition run_contract_c (s0 : Z) (ts : list ctest) : list (list Z) :=
    fst (run_tests_c ts (mkCtx [[s0]] (init_visited sd s0))).
End Configured.

(* ---- function-level annotations.  run_tests computes the config of a test as with_devdoc(BASE, funsig):
   the test's annotation (a config transformer) applied to a base config; body, depth and the target
   exploration of the test are those of the resulting config.  Which BASE the next test starts from
   -- the contract's config again, or the config of the test that has just run -- is what the code does
   (test_cfg_base_src, regenerated from run_tests). *)
Record atest := mkATest {
  a_ann : Z -> Z;                  (* with_devdoc(., funsig): identity for a test without annotation *)
  a_depth : Z -> nat;              (* max_call_depth under a config (0 for regular tests) *)
  a_body : Z -> Z -> list Z;       (* outcome codes of the test body under a config, from a state *)
  a_budget : option nat }.

Definition resolve (base : Z) (t : atest) : ctest :=
  let e := a_ann t base in mkCTest e (mkTest (a_depth t e) (a_body t e) (a_budget t)).

Definition next_base : Z -> Z -> Z := pick_cfg test_cfg_base_src.

Section Annotated.
  Variable nb : Z -> Z -> Z.               (* contract config -> config of the test that just ran -> next base *)
  Variable fc : Z -> Z -> Z.
  Variable cstep : Z -> Z -> list Z.
  Variable sd : Z -> Z.
  Variable cc : Z.

  Fixpoint run_tests_a (base : Z) (ts : list atest) (c : ctx) : list (list Z) * ctx :=
    match ts with
    | [] => ([], c)
    | t :: r =>
        let ct := resolve base t in
        let '(p, c1) := run_test_c fc cstep sd cc ct c in
        let '(ps, c2) := run_tests_a (nb cc (ct_cfg ct)) r c1 in
        (p :: ps, c2)
    end.

  Definition run_contract_a (s0 : Z) (ts : list atest) : list (list Z) :=
    fst (run_tests_a cc ts (mkCtx [[s0]] (init_visited sd s0))).
End Annotated.

(* ================================================================ Part N: naming *)

(* a fresh symbol's name: f"{prefix}_{uid()}_{counter:>02}"; in a run the k-th call of uid()
   returns [us k].  A path formula of the run is the formula over call indices, renamed. *)
Definition solver := term -> option (Z -> Z).

Definition has_cex (slv : solver) (queries : list term) : bool :=
  existsb (fun q => match slv q with Some _ => true | None => false end) queries.
