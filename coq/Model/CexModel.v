(* C04 model: from the solver's outputs to the list a counterexample is reported in, when the
   solver executor may have been shut down meanwhile (first valid counterexample under
   --early-exit, exit handlers).  A shutdown kills the solver processes that are still running;
   what a killed process has printed so far is a PREFIX of what it would have printed, and
   solve_low_level parses whatever text it is given.  gen_get_solver_output /
   gen_callback_verdict / gen_callback_shutdown (Gen/GenCexHandler.v) are regenerated from
   CounterexampleHandler in __main__.py on every run.  No proofs. *)
From Coq Require Import ZArith List String Ascii Bool.
From HV Require Import Model.SexpDefs Gen.GenRefine Model.SmtTextModel Model.SolveModel
  Model.CexDefs Gen.GenCexHandler.
Import ListNotations.
Open Scope Z_scope.

(* the first k characters *)
Fixpoint prefix (k : nat) (s : string) : string :=
  match k, s with
  | S k', String c r => String c (prefix k' r)
  | _, _ => EmptyString
  end.

(* stdout of a solver process: all of it, or what it had printed when it was killed *)
Definition observed (killed : bool) (k : nat) (full : string) : string :=
  if killed then prefix k full else full.

(* one assertion-violation candidate: solve_end_to_end on the (possibly cut) outputs of the
   first and of the refined query, then _get_solver_output and the callback's dispatch.
   is_shutdown: executor.is_shutdown() when the callback runs. *)
Definition handle (early_exit is_shutdown killed : bool) (k1 k2 : nat) (core_hit is_refined : bool)
  (out1 : string) (changes : bool) (out2 : string) : verdict :=
  gen_callback_verdict early_exit
    (gen_get_solver_output is_shutdown
       (FRes (fst (solve_e2e core_hit is_refined (observed killed k1 out1) changes (observed killed k2 out2))))).
