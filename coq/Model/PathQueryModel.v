(* C04 model: which path conditions reach the solver.  A Path keeps `conditions` (everything the
   executed path assumed, over all transactions) and an incremental z3 solver that is only used to
   prune infeasible branches.  At the end of a transaction the path is sliced (the conditions
   related to state variables are marked); the path of the next transaction extends it: it
   inherits ALL conditions, but its solver only receives what gen_extend_adds says.  The query
   whose model becomes the counterexample is built by Path.to_smt2 from gen_query_source.
   Both gen_* are regenerated from sevm.py (Gen/GenPathQuery.v).  The slice is an arbitrary set of
   indices here: nothing below depends on which conditions slicing keeps.  No proofs. *)
From Coq Require Import List Bool Arith.
From HV Require Import Model.PathQueryDefs Gen.GenPathQuery.
Import ListNotations.

Section PathQuery.
  Variable cond : Type.                          (* a z3 Boolean term *)
  Variable norm : cond -> cond.                  (* z3.simplify *)
  Variable skip : list cond -> cond -> bool.     (* append's early returns: is_true / already a key *)

  Record qpath : Type := mkQ {
    q_conds : list cond;               (* keys of self.conditions, in insertion order *)
    q_solver : list cond;              (* assertions in self.solver while this path is active *)
    q_sliced : option (list nat)       (* self.sliced *)
  }.

  Definition is_none {A} (o : option A) : bool := match o with None => true | Some _ => false end.

  (* Path.append (also what branch + activate do to the child for the branching condition) *)
  Definition q_append (p : qpath) (c0 : cond) : qpath :=
    let c := norm c0 in
    if skip (q_conds p) c then p
    else mkQ (q_conds p ++ [c]) (q_solver p ++ [c]) (q_sliced p).

  (* Path.slice with whatever set of indices it computes *)
  Definition q_slice (p : qpath) (keep : list nat) : qpath :=
    mkQ (q_conds p) (q_solver p) (Some keep).

  Fixpoint select (keep : list nat) (idx : nat) (l : list cond) : list cond :=
    match l with
    | [] => []
    | c :: r => if existsb (Nat.eqb idx) keep then c :: select keep (S idx) r else select keep (S idx) r
    end.

  (* new = Path(fresh solver); new.extend_path(parent) *)
  Definition q_extend (fresh : list cond) (parent : qpath) : qpath :=
    mkQ (q_conds parent)
        (fresh ++ match gen_extend_adds (is_none (q_sliced parent)), q_sliced parent with
                  | AddSliced, Some keep => select keep 0 (q_conds parent)
                  | _, _ => q_conds parent
                  end)
        None.

  (* Path.to_smt2: the asserted conditions *)
  Definition q_query (p : qpath) (cache_solver : bool) : list cond :=
    match gen_query_source cache_solver (is_none (q_sliced p)) with
    | SrcConditions => q_conds p
    | SrcSolver => q_solver p
    end.

  (* the life of the path object that is finally handed to the solver *)
  Inductive qop : Type :=
  | QAppend (c : cond)
  | QSlice (keep : list nat)
  | QExtend (fresh : list cond).

  Definition q_step (p : qpath) (o : qop) : qpath :=
    match o with
    | QAppend c => q_append p c
    | QSlice keep => q_slice p keep
    | QExtend fresh => q_extend fresh p
    end.

  Definition q_run (p : qpath) (ops : list qop) : qpath := fold_left q_step ops p.

  Definition q_empty : qpath := mkQ [] [] None.

  (* specification side: every condition the executed path assumed, over all transactions *)
  Fixpoint assumed (acc : list cond) (ops : list qop) : list cond :=
    match ops with
    | [] => acc
    | QAppend c :: r => assumed (if skip acc (norm c) then acc else acc ++ [norm c]) r
    | _ :: r => assumed acc r
    end.
End PathQuery.
