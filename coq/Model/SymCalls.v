(* Mini-SEVM with message calls and creations: the frame-level exploration of
   Model/SymExec.v (local instructions, JUMPI branching) extended with CALL / CALLCODE /
   DELEGATECALL / STATICCALL / CREATE over a symbolic world, following SEVM.call /
   SEVM.create: the callee frame is explored to all its leaves and every leaf resumes the
   caller (halmos: sub-Exec pushed on the worklist + callback); a failing callee restores
   the caller's world; the insufficient-funds case is a branch of its own, kept according to
   Gen.GenBranch.funds_fail_keep (regenerated from SEVM.handle_insufficient_fund_case).
   Modelled as the code is AFTER the repairs of F11 (value-bearing CALL in a static frame)
   and F20 (CALLCODE needs the balance too).  No proofs in this file. *)
From Coq Require Import ZArith List Bool.
From HV Require Import Base.Word Spec.Evm Gen.GenJumpi Gen.GenBranch Model.SymExec.
Import ListNotations.
Open Scope Z_scope.

Record sworld := mkSW {
  sw_code : list (Z * list Z);                    (* accounts that exist, concrete code *)
  sw_store : list (Z * list (term * term));       (* per account: write list (latest first) *)
  sw_tstore : list (Z * list (term * term));
  sw_bal : list (Z * term);                       (* balances changed so far *)
}.

Definition get_writes (m : list (Z * list (term * term))) (a : Z) : list (term * term) :=
  match alookup a m with Some l => l | None => [] end.
Definition sw_get_code (w : sworld) (a : Z) : list Z :=
  match alookup a (sw_code w) with Some c => c | None => [] end.
Definition sw_has_account (w : sworld) (a : Z) : bool :=
  match alookup a (sw_code w) with Some _ => true | None => false end.
Definition sw_balance (w : sworld) (a : Z) : term :=
  match alookup a (sw_bal w) with Some t => t | None => TVar (VBal a) end.
Definition sw_set_balance (w : sworld) (a : Z) (t : term) : sworld :=
  mkSW (sw_code w) (sw_store w) (sw_tstore w) ((a, t) :: sw_bal w).
(* debit first, then credit: a self-transfer is neutral (as transfer_value / Evm.transfer) *)
Definition sw_transfer (w : sworld) (from to : Z) (v : term) : sworld :=
  let w1 := sw_set_balance w from (TZSub (sw_balance w from) v) in
  sw_set_balance w1 to (TZAdd (sw_balance w1 to) v).

Record frame := mkFrame {
  f_this : Z; f_code : list Z; f_caller : term; f_origin : term; f_value : term;
  f_data : list bterm; f_static : bool; f_depth : nat; f_block : blockctx;
}.
Definition se_of (fr : frame) (w : sworld) : senv :=
  mkSEnv (f_this fr) (f_code fr) (f_caller fr) (f_origin fr) (f_value fr) (f_data fr)
         (f_static fr) (f_depth fr) (f_block fr) (sw_bal w).

(* write the running frame's storage back into the world *)
Definition sync (fr : frame) (w : sworld) (s : sstate) : sworld :=
  mkSW (sw_code w) ((f_this fr, ss_store s) :: sw_store w) ((f_this fr, ss_tstore s) :: sw_tstore w) (sw_bal w).

Inductive kind2 :=
| K2Ok (ret : list bterm) (w : sworld) (ctr : Z)
| K2Revert (ret : list bterm) (ctr : Z)
| K2Halt (kd : Z) (ctr : Z)
| K2Stuck (why : Z)
| K2Fuel.
Record leaf2 := mkLeaf2 { l2_path : list cond; l2_kind : kind2 }.

Definition ST_SPECIAL := 3.    (* precompile / cheatcode address *)
Definition ST_SYMCODE := 4.    (* symbolic creation / deployed code *)

Definition const_byte (b : bterm) : option Z :=
  match snd b with TConst v => Some (nth (fst b) (be_bytes 32 v) 0) | _ => None end.
Fixpoint const_bytes (l : list bterm) : option (list Z) :=
  match l with
  | [] => Some []
  | b :: r => match const_byte b, const_bytes r with
              | Some z, Some zs => Some (z :: zs)
              | _, _ => None
              end
  end.

Section Calls.
Variable mem_limit : Z.
Variable special : Z -> bool.            (* cheatcode / console addresses: not modelled *)
Variable oracle : list cond -> term -> bool -> Z.
Variable loop : Z.

Definition leaf_of (fr : frame) (w : sworld) (ctr : Z) (s : sstate) (k : leaf_kind) : leaf2 :=
  mkLeaf2 (ss_path s)
    match k with
    | LOk ret st tst =>
        K2Ok ret (mkSW (sw_code w) ((f_this fr, st) :: sw_store w) ((f_this fr, tst) :: sw_tstore w) (sw_bal w)) ctr
    | LRevert ret => K2Revert ret ctr
    | LHalt kd => K2Halt kd ctr
    | LStuck why => K2Stuck why
    | LFuel => K2Fuel
    end.

Definition with_path (s : sstate) (p : list cond) : sstate :=
  mkSS (ss_pc s) (ss_stack s) (ss_mem s) (ss_store s) (ss_tstore s) p (ss_visits s) (ss_ret s).

(* the caller resumes after a sub-frame: status word, returndata, copy into memory *)
Definition resume (fr : frame) (s : sstate) (rest : list term) (status : Z) (ret : list bterm)
           (ro rsz : Z) (w : sworld) (p : list cond) : sstate :=
  let n := Nat.min (Z.to_nat rsz) (length ret) in
  let m := if (n =? 0)%nat then ss_mem s else smwrite (ss_mem s) (Z.to_nat ro) (firstn n ret) in
  mkSS (S (ss_pc s)) (TConst status :: rest) m
       (get_writes (sw_store w) (f_this fr)) (get_writes (sw_tstore w) (f_this fr))
       p (ss_visits s) ret.

Definition nonneg (l : list Z) : bool := forallb (fun z => 0 <=? z) l.

Definition rres := (list leaf2 * bool)%type.
Definition recfun := frame -> sworld -> Z -> sstate -> rres.

Section Body.
Variable rec : recfun.            (* the exploration with one unit of fuel less *)

Definition stuck_leaf (s : sstate) (why : Z) : rres := ([mkLeaf2 (ss_path s) (K2Stuck why)], false).
Definition halt_leaf (s : sstate) (kd ctr : Z) : rres := ([mkLeaf2 (ss_path s) (K2Halt kd ctr)], false).

(* a local instruction: SymExec.sstep_i, branching as in SymExec.sexec *)
Definition local_step (fr : frame) (w : sworld) (ctr : Z) (s : sstate) (i : instr) : rres :=
  let se := se_of fr w in
  match sstep_i mem_limit se i s with
  | SNext s' => rec fr w ctr s'
  | SLeaf k => ([leaf_of fr w ctr s k], false)
  | SBranch c target rest =>
      let ct := oracle (ss_path s) c true in
      let cf := oracle (ss_path s) c false in
      let j := jumpid se s in
      let '(vt, vf) := visits_of j (ss_visits s) in
      let d := jumpi_decide ct cf vt vf loop in
      if d_follow_true d && negb (is_jumpdest (f_code fr) target) then
        (* invalid destination: see SymExec.sexec *)
        let vis_f := (j, (vt, vf + 1)) :: ss_visits s in
        let s_f := mkSS (S (ss_pc s)) rest (ss_mem s) (ss_store s) (ss_tstore s)
                        ((c, false) :: ss_path s) vis_f (ss_ret s) in
        let r2 := if d_symbolic d && d_follow_false d then rec fr w ctr s_f else ([], false) in
        (mkLeaf2 ((c, true) :: ss_path s) (K2Halt H_BADJUMP ctr) :: fst r2, d_logged d || snd r2)
      else
        let vis_t := if d_symbolic d then (j, (vt + 1, vf)) :: ss_visits s else ss_visits s in
        let vis_f := if d_symbolic d then (j, (vt, vf + 1)) :: ss_visits s else ss_visits s in
        let s_t := mkSS (S (Z.to_nat target)) rest (ss_mem s) (ss_store s) (ss_tstore s)
                        ((c, true) :: ss_path s) vis_t (ss_ret s) in
        let s_f := mkSS (S (ss_pc s)) rest (ss_mem s) (ss_store s) (ss_tstore s)
                        ((c, false) :: ss_path s) vis_f (ss_ret s) in
        let r1 := if d_follow_true d then rec fr w ctr s_t else ([], false) in
        let r2 := if d_follow_false d then rec fr w ctr s_f else ([], false) in
        (fst r1 ++ fst r2, d_logged d || snd r1 || snd r2)
  end.

(* how one leaf of the sub-frame resumes the caller *)
Definition resume_one (fr : frame) (s : sstate) (w_fail : sworld) (rest : list term) (ro rsz : Z)
           (on_ok : list bterm -> sworld -> option (Z * list bterm * sworld)) (sl : leaf2) : rres :=
  match l2_kind sl with
  | K2Ok ret w2 ctr2 =>
      match on_ok ret w2 with
      | Some (status, ret', w3) => rec fr w3 ctr2 (resume fr s rest status ret' ro rsz w3 (l2_path sl))
      | None => ([mkLeaf2 (l2_path sl) (K2Stuck ST_SYMCODE)], false)
      end
  | K2Revert ret ctr2 => rec fr w_fail ctr2 (resume fr s rest 0 ret ro rsz w_fail (l2_path sl))
  | K2Halt _ ctr2 => rec fr w_fail ctr2 (resume fr s rest 0 [] ro rsz w_fail (l2_path sl))
  | _ => ([sl], false)            (* a stuck sub-frame makes the whole path stuck *)
  end.

Definition resume_all (fr : frame) (s : sstate) (subs : rres) (w_fail : sworld) (rest : list term) (ro rsz : Z)
           (on_ok : list bterm -> sworld -> option (Z * list bterm * sworld)) : rres :=
  fold_right (fun sl acc => let r := resume_one fr s w_fail rest ro rsz on_ok sl in
                            (fst r ++ fst acc, snd r || snd acc))
             ([], snd subs) (fst subs).

Definition as_const (t : term) : option Z := match t with TConst z => Some z | _ => None end.

(* None: stack underflow; Some None: a needed operand is symbolic; Some (Some _): parsed *)
Definition call_args (op : Z) (st : list term) : option (option (Z * term * Z * Z * Z * Z * list term)) :=
  let with_value := (op =? 241) || (op =? 242) in
  match st with
  | _ :: to :: rest =>
      let vr := if with_value then match rest with v :: r' => Some (v, r') | [] => None end
                else Some (TConst 0, rest) in
      match vr with
      | Some (v, ao :: asz :: ro :: rsz :: r) =>
          match as_const to, as_const ao, as_const asz, as_const ro, as_const rsz with
          | Some to', Some ao', Some asz', Some ro', Some rsz' => Some (Some (to', v, ao', asz', ro', rsz', r))
          | _, _, _, _, _ => Some None
          end
      | _ => None
      end
  | _ => None
  end.

Definition call_step (fr : frame) (w : sworld) (ctr : Z) (s : sstate) (op : Z) : rres :=
  match call_args op (ss_stack s) with
  | None => halt_leaf s H_UNDERFLOW ctr
  | Some None => stuck_leaf s ST_SYMBOLIC
  | Some (Some (to0, v, ao, asz, ro, rsz, r)) =>
    let to := to0 mod 2 ^ 160 in
    let this := f_this fr in
    let static_value :=             (* CALL with value inside a static frame *)
      if (op =? 241) && f_static fr then
        match v with TConst z => if z =? 0 then 0 else 1 | _ => 2 end
      else 0 in
    if static_value =? 1 then halt_leaf s H_STATIC ctr
    else if static_value =? 2 then stuck_leaf s ST_SYMBOLIC
    else if negb (nonneg [ao; asz; ro; rsz]) then stuck_leaf s ST_SYMBOLIC
    else if s_oog_range mem_limit ao asz || s_oog_range mem_limit ro rsz then halt_leaf s H_OOG ctr
    else if ((1 <=? to) && (to <=? 10)) || special to then stuck_leaf s ST_SPECIAL
    else
      let data := smread (ss_mem s) (Z.to_nat ao) (Z.to_nat asz) in
      let w0 := sync fr w s in
      if (1024 <? Z.of_nat (f_depth fr) + 1) then
        rec fr w0 ctr (resume fr s r 0 [] ro rsz w0 (ss_path s))
      else
        let transfers := (op =? 241) || (op =? 242) in
        let c := TBin BLt (sw_balance w this) v in          (* balance < value *)
        let r_fail :=
          if transfers && funds_fail_keep (oracle (ss_path s) c true) then
            rec fr w0 ctr (resume fr s r 0 [] ro rsz w0 ((c, true) :: ss_path s))
          else ([], false) in
        let p_ok := if transfers then (c, false) :: ss_path s else ss_path s in
        let w1 := if op =? 241 then sw_transfer w0 this to v else w0 in
        let sub_this := if (op =? 241) || (op =? 250) then to else this in
        let sub :=
          mkFrame sub_this (sw_get_code w to)
                  (if op =? 244 then f_caller fr else TConst this)
                  (f_origin fr)
                  (if op =? 244 then f_value fr else v)
                  data (f_static fr || (op =? 250)) (S (f_depth fr)) (f_block fr) in
        let s_sub := mkSS 0 [] [] (get_writes (sw_store w1) sub_this) (get_writes (sw_tstore w1) sub_this)
                          p_ok [] [] in
        let subs := rec sub w1 ctr s_sub in
        let r_ok := resume_all fr s subs w0 r ro rsz (fun ret w2 => Some (1, ret, w2)) in
        (fst r_fail ++ fst r_ok, snd r_fail || snd r_ok)
  end.

Definition create_step (fr : frame) (w : sworld) (ctr : Z) (s : sstate) : rres :=
  match ss_stack s with
  | v :: TConst off :: TConst size :: r =>
      if f_static fr then halt_leaf s H_STATIC ctr
      else if negb (nonneg [off; size]) then stuck_leaf s ST_SYMBOLIC
      else if s_oog_range mem_limit off size then halt_leaf s H_OOG ctr
      else
        match const_bytes (smread (ss_mem s) (Z.to_nat off) (Z.to_nat size)) with
        | None => stuck_leaf s ST_SYMCODE
        | Some init =>
            let this := f_this fr in
            let ctr1 := ctr + 1 in
            let new := CREATE_BASE + ctr1 in
            let w0 := sync fr w s in
            if (1024 <? Z.of_nat (f_depth fr) + 1) then
              rec fr w0 ctr1 (resume fr s r 0 [] 0 0 w0 (ss_path s))
            else
              let c := TBin BLt (sw_balance w this) v in
              let r_fail :=
                if funds_fail_keep (oracle (ss_path s) c true) then
                  rec fr w0 ctr1 (resume fr s r 0 [] 0 0 w0 ((c, true) :: ss_path s))
                else ([], false) in
              let p_ok := (c, false) :: ss_path s in
              if sw_has_account w new then
                let r_col := rec fr w0 ctr1 (resume fr s r 0 [] 0 0 w0 p_ok) in
                (fst r_fail ++ fst r_col, snd r_fail || snd r_col)
              else
                let wn := mkSW ((new, []) :: sw_code w0) ((new, []) :: sw_store w0)
                               ((new, []) :: sw_tstore w0) (sw_bal w0) in
                let w1 := sw_transfer wn this new v in
                let sub := mkFrame new init (TConst this) (f_origin fr) v [] false
                                   (S (f_depth fr)) (f_block fr) in
                let s_sub := mkSS 0 [] [] [] [] p_ok [] [] in
                let subs := rec sub w1 ctr1 s_sub in
                let r_ok :=
                  resume_all fr s subs w0 r 0 0
                    (fun ret w2 =>
                       match const_bytes ret with
                       | Some code =>
                           Some (new, [], mkSW ((new, code) :: sw_code w2) (sw_store w2) (sw_tstore w2) (sw_bal w2))
                       | None => None
                       end) in
                (fst r_fail ++ fst r_ok, snd r_fail || snd r_ok)
        end
  | _ :: _ :: _ :: _ => stuck_leaf s ST_SYMBOLIC
  | _ => halt_leaf s H_UNDERFLOW ctr
  end.

Definition body (fr : frame) (w : sworld) (ctr : Z) (s : sstate) : rres :=
  match nth_error (f_code fr) (ss_pc s) with
  | None => ([leaf_of fr w ctr s (LOk [] (ss_store s) (ss_tstore s))], false)
  | Some opc =>
      match decode_op opc with
      | ICall op => call_step fr w ctr s op
      | ICreate => create_step fr w ctr s
      | i => local_step fr w ctr s i
      end
  end.
End Body.

Fixpoint sexec2 (fuel : nat) : recfun :=
  match fuel with
  | O => fun fr w ctr s => ([mkLeaf2 (ss_path s) K2Fuel], false)
  | S f => body (sexec2 f)
  end.
End Calls.
