(* C09 -- MODEL of halmos' message-call machinery (src/halmos/sevm.py: SEVM.call with
   call_known / call_unknown / send_callvalue / callback, SEVM.create + callback,
   handle_insufficient_fund_case, transfer_value, copy_returndata_to_memory,
   Exec.returndata, the static checks of SSTORE/TSTORE/LOG/CREATE, the depth limit),
   executing the frame scripts of Spec/CallSpec.v the way the Python does, branch by
   branch, under ONE concrete valuation of the symbolic inputs:

   * the network state (code / storage / transient storage / balance + the address
     counter cnts["address"]) is ONE value threaded through the sub-frame (the Python
     shares the dicts by reference with the sub-Exec); orig_* backups are taken where the
     Python takes them and the callback puts back exactly the fields the Python puts back;
   * a path split of the Python (insufficient-funds branch vs main branch, JUMPI on a
     symbolic word) becomes a LIST of results: the reported paths whose constraints hold
     under the valuation, in the order in which the LIFO worklist explores them (the
     insufficient-funds branch is pushed first, hence comes last).  An InfeasiblePath
     (balance_cond false) is the empty list.  That exploring ALL paths over shared Python
     objects yields, for the holding ones, exactly this state-passing result is the
     subject of Model/CallHeapModel.v / Proofs/CallHeapProofs.v;
   * the first-order decision logic (Message fields per call scheme, fund, who sends
     value, insufficiency / balance conditions, debit / credit, effective return size,
     returndata visibility, address scheme, depth guard, which fields are restored,
     backup-before-transfer, static checks, RETURNDATACOPY guards) is NOT written here: it
     is Gen/GenCallMsg.v, regenerated from sevm.py on every run.
   No prank is active (Exec.resolve_prank returns (this, origin)): pranks are C14.
   No proofs in this file. *)
From Coq Require Import ZArith List Bool.
From HV Require Import Base.Word Spec.Evm Spec.CallSpec Gen.GenOpcodes Gen.GenConsts Gen.GenCallMsg.
Import ListNotations.
Open Scope Z_scope.

Record mstate := mkM {
  m_code : list (Z * list Z);
  m_storage : list (Z * list (Z * Z));
  m_transient : list (Z * list (Z * Z));
  m_balance : list (Z * Z);
  m_cnt : Z;
}.

Definition world_of (st : mstate) : world :=
  mkWorld (m_code st) (m_storage st) (m_transient st) (m_balance st).
Definition mstate_of (w : world) (cnt : Z) : mstate :=
  mkM (w_code w) (w_storage w) (w_transient w) (w_balance w) cnt.

(* last sub-context of the trace: (message.is_create(), output.error is not None, output.data) *)
Definition lastsub := option (bool * bool * list Z).
Definition returndata (l : lastsub) : list Z :=
  match l with
  | None => []
  | Some (is_create, has_error, d) => if returndata_hidden is_create has_error then [] else d
  end.

Definition mres := (fres * mstate * list logitem)%type.
Definition addlog (pre : list logitem) (r : mres) : mres :=
  let '(f, st, lg) := r in (f, st, pre ++ lg).

Definition op_of (kd : ckind) : Z :=
  match kd with
  | KCall => OP_CALL | KCallcode => OP_CALLCODE | KDelegate => OP_DELEGATECALL | KStatic => OP_STATICCALL
  end.

(* ex.balance_of / ex.balance_update (z3 Select / Store on the balance array) *)
Definition balance_of (st : mstate) (a : Z) : Z :=
  match alookup a (m_balance st) with Some b => b | None => 0 end.
Definition balance_update (st : mstate) (a v : Z) : mstate :=
  mkM (m_code st) (m_storage st) (m_transient st) (aset a v (m_balance st)) (m_cnt st).
Definition in_code (st : mstate) (a : Z) : bool :=
  match alookup a (m_code st) with Some _ => true | None => false end.
Definition code_at (st : mstate) (a : Z) : list Z :=
  match alookup a (m_code st) with Some c => c | None => [] end.

(* SEVM.transfer_value: the condition joining the path (None of [transfer_value] =
   InfeasiblePath / a path whose constraints do not hold) and the balance updates *)
Definition transfer_cond (st : mstate) (caller value : Z) : bool :=
  (value =? 0) || balance_ok (balance_of st caller) value.
Definition transfer_force (st : mstate) (caller to value : Z) : mstate :=
  if value =? 0 then st
  else
    let caller_balance := balance_of st caller in
    let st1 := balance_update st caller (transfer_debit caller_balance value) in
    balance_update st1 to (transfer_credit (balance_of st1 to) value).
Definition transfer_value (st : mstate) (caller to value : Z) : option mstate :=
  if transfer_cond st caller value then Some (transfer_force st caller to value) else None.

(* send_callvalue of SEVM.call: CALL transfers; a scheme that moves nothing may still
   require the balance (CALLCODE: path.append(balance_cond), InfeasiblePath when false) *)
Definition send_cond (op : Z) (st : mstate) (caller fund : Z) : bool :=
  if sends_value op then transfer_cond st caller fund
  else if callvalue_checks_balance op fund then callvalue_balance_ok (balance_of st caller) fund
  else true.
Definition send_force (op : Z) (st : mstate) (caller to fund : Z) : mstate :=
  if sends_value op then transfer_force st caller to fund else st.
Definition send_callvalue (op : Z) (st : mstate) (caller to fund : Z) : option mstate :=
  if send_cond op st caller fund then Some (send_force op st caller to fund) else None.
(* the condition that joins the main path of SEVM.call: that of send_callvalue, unless the call
   of an account without code fails at the depth limit (nothing is sent then) *)
Definition main_cond (op : Z) (st : mstate) (caller to fund depth : Z) : bool :=
  if in_code st to || unknown_call_ok depth then send_cond op st caller fund else true.

Definition m_sstore (st : mstate) (a k v : Z) : mstate :=
  mkM (m_code st) (sstore_of (m_storage st) a k v) (m_transient st) (m_balance st) (m_cnt st).
Definition m_tstore (st : mstate) (a k v : Z) : mstate :=
  mkM (m_code st) (m_storage st) (sstore_of (m_transient st) a k v) (m_balance st) (m_cnt st).
Definition m_set_code (st : mstate) (a : Z) (c : list Z) : mstate :=
  mkM (aset a c (m_code st)) (m_storage st) (m_transient st) (m_balance st) (m_cnt st).
Definition m_new_account (st : mstate) (a : Z) : mstate :=
  mkM (aset a [] (m_code st)) (aset a [] (m_storage st)) (aset a [] (m_transient st)) (m_balance st) (m_cnt st).
Definition m_set_cnt (st : mstate) (n : Z) : mstate :=
  mkM (m_code st) (m_storage st) (m_transient st) (m_balance st) n.

(* callbacks: put back what the Python puts back *)
Definition restore_call (orig sub : mstate) : mstate :=
  mkM (if call_restores_code then m_code orig else m_code sub)
      (if call_restores_storage then m_storage orig else m_storage sub)
      (if call_restores_transient_storage then m_transient orig else m_transient sub)
      (if call_restores_balance then m_balance orig else m_balance sub)
      (m_cnt sub).
Definition restore_create (orig sub : mstate) : mstate :=
  mkM (if create_restores_code then m_code orig else m_code sub)
      (if create_restores_storage then m_storage orig else m_storage sub)
      (if create_restores_transient_storage then m_transient orig else m_transient sub)
      (if create_restores_balance then m_balance orig else m_balance sub)
      (m_cnt sub).

Definition m_observation (c : fctx) (st : mstate) (k : Z) : list Z :=
  words [c_caller c; c_value c; c_this c; c_origin c; blen (c_code c);
         sload_of (m_storage st) (c_this c) k; sload_of (m_transient st) (c_this c) k;
         balance_of st (c_this c)].

(* EXTCODESIZE / EXTCODECOPY of account [a] (concrete address): len(ex.code[alias]) or ZERO;
   then the copy of 32 bytes from [off] over memory holding 0xff bytes -- Contract.slice for
   an account that qualifies, else a run of zero bytes of the length the Python produces *)
Definition m_ext_observation (st : mstate) (a off : Z) : list Z :=
  let a' := a mod 2 ^ 160 in
  let code := code_at st a' in
  let size := if in_code st a' then blen code else 0 in
  let mem0 := repeat 255 32 in
  let mem :=
    if extcodecopy_guard 32 then
      let copied := if extcodecopy_use_code (in_code st a') (blen code)
                    then code_window code off
                    else repeat 0 (Z.to_nat (extcodecopy_empty_len off 32)) in
      firstn 32 (copied ++ skipn (length copied) mem0)
    else mem0 in
  words [size] ++ mem.

(* copy_returndata_to_memory into the zero-initialised [rsz]-byte return area *)
Definition m_ret_area (rsz : Z) (data : list Z) : list Z :=
  let eff := Z.to_nat (effective_ret_size rsz (blen data)) in
  firstn eff data ++ repeat 0 (Z.to_nat rsz - eff).
Definition m_after_call (ob : list Z) (flag : Z) (l : lastsub) (rsz : Z) (data : list Z) : list Z :=
  ob ++ words [flag; blen (returndata l)] ++ m_ret_area rsz data.
Definition m_after_create (ob : list Z) (pushed : Z) (l : lastsub) : list Z :=
  ob ++ words [pushed; blen (returndata l)].

Definition output_of (r : fres) : list Z * bool :=      (* (output.data, output.error is not None) *)
  match r with FOk d => (d, false) | FRevert d => (d, true) | FHalt => ([], true) end.

Definition m_end (e : ending) (ob : list Z) : fres :=
  match e with
  | EStop => FOk []
  | EReturn tag => FOk (words [tag] ++ ob)
  | ERevert tag => FRevert (words [tag] ++ ob)
  | EInvalid => FHalt
  end.

(* the first step of a sub-Exec: depth guard of SEVM.run, then the code (empty code = STOP) *)
Definition sub_frame (msg : fctx) (st : mstate) (run : fctx -> mstate -> list mres) : list mres :=
  if depth_exceeded (c_depth msg) then [(FHalt, st, [])]
  else
    match c_code msg with
    | [] => [(FOk [], st, [LFrame msg; LEnd (FOk [])])]
    | _ => map (addlog [LFrame msg]) (run msg st)
    end.

(* SEVM.call: everything between popping the arguments and pushing the continuation *)
Definition m_call (kd : ckind) (to0 v0 rsz : Z) (c : fctx) (st : mstate) (ob : list Z)
    (run_callee : fctx -> mstate -> list mres)
    (continue : mstate -> list Z -> lastsub -> list mres) : list mres :=
  let op := op_of kd in
  let to := to0 mod 2 ^ 160 in
  let fund := call_fund op v0 in
  let pranked_caller := c_this c in
  let pranked_origin := c_origin c in
  let msg := mkCtx (msg_target op to (c_this c)) (msg_caller op pranked_caller (c_caller c))
                   (msg_origin pranked_origin) (msg_value op fund (c_value c))
                   (code_at st to) (msg_static op (c_static c)) (c_depth c + 1) in
  (* handle_insufficient_fund_case *)
  let fail_branch :=
    if negb (fund =? 0) && insufficient (balance_of st pranked_caller) fund then
      let l := Some (false, true, []) in
      continue st (m_after_call ob 0 l rsz []) l
    else [] in
  let main :=
    if in_code st to then
      (* call_known *)
      let orig0 := st in
      match send_callvalue op st pranked_caller to fund with
      | None => []
      | Some st1 =>
          let orig := if call_backup_before_transfer then orig0 else st1 in
          flat_map
            (fun sub : mres =>
               let '(r, st2, lg) := sub in
               let '(data, has_error) := output_of r in
               let success := call_success has_error in
               let l := Some (false, has_error, data) in
               let st3 := if success then st2 else restore_call orig st2 in
               map (addlog lg) (continue st3 (m_after_call ob (if success then 1 else 0) l rsz data) l))
            (sub_frame msg st1 run_callee)
      end
    else if unknown_call_ok (c_depth c) then
      (* call_unknown, non-existing account: exit code 1, then the transfer *)
      match send_callvalue op st pranked_caller to fund with
      | None => []
      | Some st1 =>
          let l := Some (false, false, []) in
          map (addlog [LFrame msg; LEnd (FOk [])]) (continue st1 (m_after_call ob 1 l rsz []) l)
      end
    else
      (* ... unless the depth limit is exceeded: exit code 0, nothing is sent, empty return data *)
      let l := Some (false, false, []) in
      continue st (m_after_call ob 0 l rsz []) l in
  (* a value-bearing CALL in a static context raises WriteInStaticContext before anything else *)
  if call_static_value_check op (c_static c) fund then [(FHalt, st, [LEnd FHalt])]
  else main ++ fail_branch.

(* SEVM.create *)
Definition m_create (v : Z) (initcode : list Z) (c : fctx) (st : mstate) (ob : list Z)
    (run_init : fctx -> mstate -> list mres)
    (continue : mstate -> list Z -> lastsub -> list mres) : list mres :=
  if create_static_check && c_static c then [(FHalt, st, [LEnd FHalt])]
  else
    let pranked_caller := c_this c in
    let cnt := m_cnt st + 1 in
    let st0 := m_set_cnt st cnt in
    let new_addr := new_address cnt in
    let msg := mkCtx new_addr pranked_caller (c_origin c) v initcode false (c_depth c + 1) in
    let fail_branch :=
      if negb (v =? 0) && insufficient (balance_of st0 pranked_caller) v then
        let l := Some (true, true, []) in continue st0 (m_after_create ob 0 l) l
      else [] in
    let main :=
      if in_code st0 new_addr then
        let l := Some (true, true, []) in continue st0 (m_after_create ob 0 l) l
      else
        let st1 := m_new_account st0 new_addr in
        let orig := if create_backup_before_setup then st0 else st1 in
        match transfer_value st1 pranked_caller new_addr v with
        | None => []
        | Some st2 =>
            flat_map
              (fun sub : mres =>
                 let '(r, st3, lg) := sub in
                 let '(data, has_error) := output_of r in
                 let l := Some (true, has_error, data) in
                 map (addlog lg)
                   (if create_success has_error
                    then continue (m_set_code st3 new_addr data) (m_after_create ob new_addr l) l
                    else continue (restore_create orig st3) (m_after_create ob 0 l) l))
              (sub_frame msg st2 run_init)
        end in
    main ++ fail_branch.

Fixpoint mexec (s : script) (c : fctx) (st : mstate) (ob : list Z) (l : lastsub) {struct s} : list mres :=
  match s with
  | SEnd e => let r := m_end e ob in [(r, st, [LEnd r])]
  | SSstore k v rest =>
      if sstore_static_check && c_static c then [(FHalt, st, [LEnd FHalt])]
      else mexec rest c (m_sstore st (c_this c) k v) ob l
  | STstore k v rest =>
      if sstore_static_check && c_static c then [(FHalt, st, [LEnd FHalt])]
      else mexec rest c (m_tstore st (c_this c) k v) ob l
  | SLog rest =>
      if log_static_check && c_static c then [(FHalt, st, [LEnd FHalt])]
      else map (addlog [LEvent (c_this c)]) (mexec rest c st ob l)
  | SObserve k rest => mexec rest c st (ob ++ m_observation c st k) l
  | SRetCopy off size rest =>
      if retcopy_guard size && retcopy_oob off size (blen (returndata l)) then [(FHalt, st, [LEnd FHalt])]
      else if retcopy_copy_guard size then
        mexec rest c st (ob ++ firstn (Z.to_nat size) (skipn (Z.to_nat off) (returndata l))) l
      else mexec rest c st ob l
  | SIf cond s1 s2 => if cond =? 0 then mexec s2 c st ob l else mexec s1 c st ob l
  | SExtCode a off rest => mexec rest c st (ob ++ m_ext_observation st a off) l
  | SCall kd to v rsz callee rest =>
      m_call kd to v rsz c st ob
        (fun c' st' => mexec callee c' st' [] None)
        (fun st' ob' l' => mexec rest c st' ob' l')
  | SCreate v initcode init rest =>
      m_create v initcode c st ob
        (fun c' st' => mexec init c' st' [] None)
        (fun st' ob' l' => mexec rest c st' ob' l')
  end.

(* a whole frame, as the first step of an Exec does it *)
Definition mframe (s : script) (c : fctx) (st : mstate) : list mres :=
  sub_frame c st (fun c' st' => mexec s c' st' [] None).
