(* Executable model of the life cycle of the branching solver in halmos.__main__.life_run (the
   loop that runs ONE test on every frontier state), with the solver context as explicit state.
   No proofs in this file (Proofs/SolverLifeProofs.v).

   Part Z  the z3 solver as halmos uses it: a stack of scopes of assertions (add / push / pop /
           check / reset).
   Part E  SEVM.run on one state, as far as the solver is concerned: JUMPI asks the solver about
           both sides under whatever the solver holds; when both are feasible Path.branch records
           the scope count and pushes, the current path goes on with the negated condition, and the
           sibling -- when it is taken from the worklist -- pops back to the recorded scope and adds
           its pending condition THERE (Path.activate).  Nothing removes what the last path added:
           it is still in the solver when run() returns.
   Part L  life_run: WHERE the solver is created and reset relative to the loop over the depths
           and the loop over the frontier states is regenerated from __main__.py
           (Gen/GenSolverLife.v); the solver is threaded through the loops accordingly.
   Part C  a concrete condition language (literals v == k / v != k) with a decision procedure, for
           the refutation witness and the extracted entry points. *)
From Coq Require Import ZArith List Bool.
From HV Require Import Gen.GenSolverLife Spec.SolverLifeSpec.
Import ListNotations.
Open Scope Z_scope.

Section Model.
  Variable cond : Type.
  Variable neg : cond -> cond.              (* simplify(Not(c)) *)
  Variable sat : list cond -> bool.         (* the solver's answer for a set of assertions: true unless `unsat` *)

  (* ============================================================== Part Z: the solver *)

  (* innermost scope, enclosing scopes (the last one is the base level): a z3 Solver *)
  Definition zsolver := (list cond * list (list cond))%type.

  Definition zfresh : zsolver := ([], []).                                   (* SolverFor(...) / solver.reset() *)
  Definition scopes (s : zsolver) : list (list cond) := fst s :: snd s.
  Definition assertions (s : zsolver) : list cond := concat (scopes s).     (* solver.assertions() *)
  Definition num_scopes (s : zsolver) : nat := length (snd s).              (* solver.num_scopes() *)
  Definition s_add (c : cond) (s : zsolver) : zsolver := (c :: fst s, snd s).          (* solver.add(c) *)
  Definition s_push (s : zsolver) : zsolver := ([], fst s :: snd s).                    (* solver.push() *)
  (* solver.pop(solver.num_scopes() - n) *)
  Definition s_pop_to (n : nat) (s : zsolver) : zsolver :=
    match skipn (num_scopes s - n) (scopes s) with
    | top :: rest => (top, rest)
    | [] => s
    end.
  Definition s_check (s : zsolver) (c : cond) : bool := sat (c :: assertions s).      (* solver.check(c) != unsat *)

  (* ============================================================== Part E: SEVM.run on one state *)

  (* (outcomes in the order the paths end, the solver as run() leaves it) *)
  Fixpoint explore (p : prog cond) (s : zsolver) : list Z * zsolver :=
    match p with
    | Leaf o => ([o], s)
    | Br c t f =>
        let pt := s_check s c in               (* potential_true  = ex.check(cond_true)  != unsat *)
        let pf := s_check s (neg c) in         (* potential_false = ex.check(cond_false) != unsat *)
        if pt && pf then
          (* new_ex_true = create_branch(ex, cond_true, ..): path.branch records num_scopes and pushes;
             new_ex_false = ex continues with cond_false in the new scope and is explored first (LIFO);
             then new_ex_true is activated: pop to the recorded scope, add cond_true there *)
          let n := num_scopes s in
          let '(o_f, s1) := explore f (s_add (neg c) (s_push s)) in
          let '(o_t, s2) := explore t (s_add c (s_pop_to n s1)) in
          (o_f ++ o_t, s2)
        else if pt then explore t (s_add c s)
        else if pf then explore f (s_add (neg c) s)
        else ([], s)                           (* neither side is followed: the path ends silently *)
    end.

  (* Path(solver); path.extend_path(ex.path): the state's (sliced) conditions are added to the solver *)
  Definition extend (cs : list cond) (s : zsolver) : zsolver := fold_left (fun s c => s_add c s) cs s.

  (* the run of the test on a state that is the only one: a new solver, the state's conditions, run *)
  Definition alone (st : fstate cond) : list Z := fst (explore (f_prog st) (extend (f_slice st) zfresh)).

  (* ============================================================== Part L: life_run *)

  Record life := mkLife { l_created : life_pos; l_reset : option life_pos }.

  Definition pos_eqb (p q : life_pos) : bool :=
    match p, q with
    | InTest, InTest | InDepth, InDepth | InState, InState => true
    | _, _ => false
    end.

  (* entering position p: `solver = mk_solver(args)` if it sits there *)
  Definition enter (L : life) (p : life_pos) (s : zsolver) : zsolver :=
    if pos_eqb (l_created L) p then zfresh else s.

  (* leaving position p: `reset(solver)` if it sits there *)
  Definition leave (L : life) (p : life_pos) (s : zsolver) : zsolver :=
    match l_reset L with
    | Some q => if pos_eqb q p then zfresh else s
    | None => s
    end.

  (* body of the state loop *)
  Definition life_state (L : life) (st : fstate cond) (s : zsolver) : list Z * zsolver :=
    let s0 := enter L InState s in
    let '(o, s1) := explore (f_prog st) (extend (f_slice st) s0) in
    (o, leave L InState s1).

  (* for ex in get_frontier(contract_ctx, depth) *)
  Fixpoint life_states (L : life) (sts : list (fstate cond)) (s : zsolver) : list (list Z) * zsolver :=
    match sts with
    | [] => ([], s)
    | st :: r =>
        let '(o, s1) := life_state L st s in
        let '(os, s2) := life_states L r s1 in
        (o :: os, s2)
    end.

  (* for depth in range(max_call_depth + 1) *)
  Fixpoint life_depths (L : life) (fr : list (list (fstate cond))) (s : zsolver) : list (list (list Z)) * zsolver :=
    match fr with
    | [] => ([], s)
    | sts :: r =>
        let '(o, s1) := life_states L sts (enter L InDepth s) in
        let '(os, s2) := life_depths L r (leave L InDepth s1) in
        (o :: os, s2)
    end.

  (* life_run on the frontiers fr (one list of states per depth): the outcomes per depth and state *)
  Definition life_run (L : life) (fr : list (list (fstate cond))) : list (list (list Z)) :=
    fst (life_depths L fr (enter L InTest zfresh)).

  (* a life cycle under which every state's run starts from an empty solver: created per state, or
     emptied after every state *)
  Definition isolating (L : life) : bool :=
    pos_eqb (l_created L) InState
    || match l_reset L with Some q => pos_eqb q InState | None => false end.
End Model.

Arguments zfresh {cond}.

(* the life cycle life_run implements (regenerated from the source on every run) *)
Definition gen_life : life := mkLife solver_created_at solver_reset_at.

(* ================================================================ Part C: literals *)

(* (symbol, constant, polarity): symbol == constant / symbol != constant over 256-bit words *)
Definition eqlit := (Z * Z * bool)%type.
Definition l_var (l : eqlit) : Z := fst (fst l).
Definition l_val (l : eqlit) : Z := snd (fst l).
Definition l_pol (l : eqlit) : bool := snd l.
Definition l_neg (l : eqlit) : eqlit := (l_var l, l_val l, negb (l_pol l)).
Definition l_holds (e : Z -> Z) (l : eqlit) : bool :=
  if l_pol l then e (l_var l) =? l_val l else negb (e (l_var l) =? l_val l).

(* satisfiable iff every equation is consistent with every other literal on its symbol (a symbol that
   is only excluded from finitely many constants has a value left) *)
Definition l_sat (cs : list eqlit) : bool :=
  forallb (fun l =>
    if l_pol l then
      forallb (fun m => negb (l_var m =? l_var l)
                        || (if l_pol m then l_val m =? l_val l else negb (l_val m =? l_val l))) cs
    else true) cs.

Definition l_explore := explore eqlit l_neg l_sat.
Definition l_alone := alone eqlit l_neg l_sat.
Definition l_life_run := life_run eqlit l_neg l_sat.

(* the test of the seeded-change demo: if (x == 5) INVALID else STOP, on two states without constraints *)
Definition wit_prog : prog eqlit := Br (0, 5, true) (Leaf 1) (Leaf 0).
Definition wit_state : fstate eqlit := mkF [] wit_prog.
(* ... and on the two end states of  set(x) { s = x; if (x == 12) {} else {} } *)
Definition hi_state : fstate eqlit := mkF [(0, 12, true)] wit_prog.
Definition lo_state : fstate eqlit := mkF [(0, 12, false)] wit_prog.
