(* C11 model of the dump / solve protocol: PathContext.dump_file / refine, solve.dump,
   solve.solve_low_level and the two invocations of solve_low_level in
   solve.solve_end_to_end, acting on a FILE SYSTEM (full file name -> content) that outlives
   every query: with --dump-smt-directory the directory of a function is DIR/<function name>
   and path ids restart at 0 in every FunctionContext, so the name of the current query's
   file may already be taken by the file of another path / function / contract / run.
   The interpreter records, for every solver process it starts, the file name it was given
   and the content of that file at that moment (what the process reads).
   gen_dump / gen_low_level / gen_e2e_* / the literals of the file name come from
   Gen/GenDumpFs.v, regenerated from solve.py on every run.  No proofs. *)
From Coq Require Import ZArith List String Ascii Bool.
From HV Require Import Model.SexpDefs Gen.GenRefine Spec.SmtQuerySpec Model.SmtTextModel
  Model.DumpFsDefs Gen.GenDumpFs.
Import ListNotations.
Open Scope Z_scope.

(* the file system: full file name -> content; a write shadows older entries *)
Definition fsys : Type := list (string * string).

Fixpoint fs_get (d : fsys) (name : string) : option string :=
  match d with
  | [] => None
  | (n, c) :: r => if String.eqb n name then Some c else fs_get r name
  end.

Definition fs_put (d : fsys) (name content : string) : fsys := (name, content) :: d.

(* what a write leaves in the file *)
Definition written (m : wmode) (old : option string) (text : string) : string :=
  match m with
  | MTrunc => text
  | MAppend => match old with Some o => (o ++ text)%string | None => text end
  end.

(* PathContext (the fields that matter here); c_dir is dirname(solving_ctx.dump_dir) *)
Record pctx : Type := mkCtx {
  c_dir : string;
  c_id : Z;                      (* path_id *)
  c_refined : bool;              (* is_refined *)
  c_cache : bool;                (* args.cache_solver *)
  c_smtlib : string;             (* query.smtlib *)
  c_ids : list string            (* query.assertions *)
}.

(* PathContext.dump_file *)
Definition file_name (c : pctx) : string :=
  (print_dec (c_id c) ++ (if c_refined c then gen_fs_refined_infix else gen_fs_plain_infix) ++ gen_fs_ext)%string.
Definition full_name (c : pctx) : string := (c_dir c ++ "/" ++ file_name c)%string.

Definition ref_name (c : pctx) (f : fref) : string :=
  match f with FQ suffix => (full_name c ++ suffix)%string end.

(* PathContext.refine; rf is solve.refine on the query text *)
Definition refine_ctx (rf : string -> string) (c : pctx) : pctx :=
  mkCtx (c_dir c) (c_id c) true (c_cache c) (rf (c_smtlib c)) (c_ids c).

(* the query of a context as text: what the solver solving it must read *)
Definition query_text (c : pctx) : string := dump_text (c_cache c) (c_smtlib c) (c_ids c).

(* one started solver process: for which context, on which file, reading which content
   (None: no such file) *)
Record event : Type := mkEv { ev_ctx : pctx; ev_file : string; ev_read : option string }.

(* a solver: content of the file it reads -> Some (stdout, stderr), None = no answer in time *)
Definition solver_t : Type := option string -> option (string * string).

Record fstate : Type := mkSt {
  st_fs : fsys;
  st_out : option (string * string);
  st_trace : list event
}.

(* still running / returned / raised (a Python exception: output used before the solver ran) *)
Inductive fres : Type :=
| RGo (s : fstate)
| RRet (s : fstate)
| RExc (s : fstate).

Section Interp.
  Variable solver : solver_t.
  Variable c : pctx.

  Fixpoint eval_cond (k : fcond) (s : fstate) : option bool :=
    match k with
    | KExists f => Some (match fs_get (st_fs s) (ref_name c f) with Some _ => true | None => false end)
    | KNot k' => match eval_cond k' s with Some b => Some (negb b) | None => None end
    | KRefined => Some (c_refined c)
    | KCache => Some (c_cache c)
    | KStderr => match st_out s with
                 | Some (_, e) => Some (negb (String.eqb e EmptyString))
                 | None => None
                 end
    end.

  Definition text_of (t : wtext) (s : fstate) : option string :=
    match t with
    | TQuery named => Some (dump_text named (c_smtlib c) (c_ids c))
    | TStdout => match st_out s with Some (o, _) => Some o | None => None end
    | TStderr => match st_out s with Some (_, e) => Some e | None => None end
    end.

  (* on_dump: what `dump(path_ctx)` does (None inside dump itself) *)
  Fixpoint exec (on_dump : option (fstate -> fres)) (x : fstmt) (s : fstate) : fres :=
    match x with
    | SDump => match on_dump with Some f => f s | None => RExc s end
    | SWrite f m t =>
        match text_of t s with
        | Some txt =>
            let n := ref_name c f in
            RGo (mkSt (fs_put (st_fs s) n (written m (fs_get (st_fs s) n) txt)) (st_out s) (st_trace s))
        | None => RExc s
        end
    | SStart f =>
        let n := ref_name c f in
        let rd := fs_get (st_fs s) n in
        let tr := (st_trace s ++ [mkEv c n rd])%list in
        match solver rd with
        | Some a => RGo (mkSt (st_fs s) (Some a) tr)
        | None => RRet (mkSt (st_fs s) None tr)
        end
    | SIf k th el =>
        let fix go (l : list fstmt) (s : fstate) : fres :=
          match l with
          | [] => RGo s
          | y :: r => match exec on_dump y s with RGo s' => go r s' | other => other end
          end in
        match eval_cond k s with
        | Some true => go th s
        | Some false => go el s
        | None => RExc s
        end
    | SReturn => match st_out s with Some _ => RRet s | None => RExc s end
    end.

  Fixpoint exec_list (on_dump : option (fstate -> fres)) (l : list fstmt) (s : fstate) : fres :=
    match l with
    | [] => RGo s
    | y :: r => match exec on_dump y s with RGo s' => exec_list on_dump r s' | other => other end
    end.

  (* solve.dump as program pd (it returns nothing: a return inside it would only end it) *)
  Definition run_dump_with (pd : list fstmt) (s : fstate) : fres :=
    match exec_list None pd s with
    | RRet s' => RGo s'
    | other => other
    end.

  (* solve.solve_low_level as program pl (dump = pd): what the caller gets - Some (Some
     answer): a SolverOutput built from the solver's answer; Some None: the timeout result;
     None: an exception - with the file system and the processes started so far *)
  Definition run_low_with (pd pl : list fstmt) (fs : fsys) (tr : list event)
    : option (option (string * string)) * fsys * list event :=
    match exec_list (Some (run_dump_with pd)) pl (mkSt fs None tr) with
    | RRet s => (Some (st_out s), st_fs s, st_trace s)
    | RGo s => (None, st_fs s, st_trace s)
    | RExc s => (None, st_fs s, st_trace s)
    end.

  (* the programs regenerated from solve.py *)
  Definition run_dump : fstate -> fres := run_dump_with gen_dump.
  Definition run_low : fsys -> list event -> option (option (string * string)) * fsys * list event :=
    run_low_with gen_dump gen_low_level.
End Interp.

Definition target_ctx (rf : string -> string) (t : etarget) (c : pctx) : pctx :=
  match t with ESelf => c | ERefinedCtx => refine_ctx rf c end.

(* one call of solve.solve_end_to_end: the context, whether a known unsat core already
   answers it (then no solver runs), and the decision - from the first answer's stdout - to
   solve again with refinement (the conjunction of the guards `result == sat and not
   model.is_valid and not ctx.is_refined` and `refined_ctx.query.smtlib != query.smtlib`;
   ANY decision function is allowed here) *)
Record job : Type := mkJob { j_ctx : pctx; j_core : bool; j_again : string -> bool }.

Definition world : Type := (fsys * list event)%type.

Definition run_job (solver : solver_t) (rf : string -> string) (w : world) (j : job) : world :=
  let (fs, tr) := w in
  if j_core j then w
  else
    match run_low solver (target_ctx rf gen_e2e_first (j_ctx j)) fs tr with
    | (Some (Some (o, _)), fs1, tr1) =>
        if j_again j o then
          match run_low solver (target_ctx rf gen_e2e_second (j_ctx j)) fs1 tr1 with
          | (_, fs2, tr2) => (fs2, tr2)
          end
        else (fs1, tr1)
    | (_, fs1, tr1) => (fs1, tr1)
    end.

(* paths, functions, contracts and runs one after the other on the same file system *)
Definition run_jobs (solver : solver_t) (rf : string -> string) (w : world) (js : list job) : world :=
  fold_left (run_job solver rf) js w.
