(* C15 model: the invariant-testing frontier of halmos, following
   src/halmos/__main__.py (_compute_frontier, run_message's depth loop, run_contract's
   initialisation) branch by branch.  Definitions only.

     ctx.frontier_states[0] = [setup_ex];  ctx.visited = {} -- or {state_id(setup_ex)}: which one is regenerated
                                            from run_contract (Gen/GenInvFilters.v setup_registered_as_visited)
     for depth in range(max_call_depth + 1):        (run_message)
         for ex in get_frontier(depth):  run the invariant on ex
     _compute_frontier(depth): for pre_ex in frontier[depth-1]:
         for addr in resolve_target_contracts(pre_ex): for each resolved selector:
             for post_ex in one symbolic transaction:
                 stuck           -> error message, continue
                 reverted        -> normal revert: continue;  panic / fail flag: probe
                                    (skipped if already reported; solved in a dummy context), continue
                 post_id in visited -> continue
                 visited.add(post_id); refresh timestamp; next.append(post_ex)

   The symbolic engine is a parameter (one transaction from a symbolic state for a
   resolved (contract, selector) target gives a list of outcomes), as are state ids
   (what snapshot_state hashes: balance term id, code identities, storage digests, ids
   of the sliced path conditions and of the block fields but the timestamp: modelled in
   Model/StateIdModel.v over the regenerated snapshot_state) and the timestamp refresh. *)
From Coq Require Import ZArith List Bool.
From HV Require Import Model.SetOps Gen.GenInvFilters.
Import ListNotations.
Open Scope Z_scope.

Section Frontier.
  Variable SS : Type.                 (* symbolic state (an Exec after a transaction, with its path) *)
  Variable Tgt : Type.                (* a resolved (target contract, selector) pair *)

  Inductive outcome :=
  | OStuck                            (* halmos-level error: reported with error(), dropped *)
  | ORevert                           (* ordinary revert: dropped *)
  | OAssert (probe : Z)               (* Panic(code in panic_error_codes) or global fail flag inside the target; probe = the target function *)
  | OOk (s : SS).                     (* successful end state *)

  Variable targets : SS -> list Tgt.              (* resolve_target_contracts x resolve_target_selectors, in iteration order *)
  Variable sstep : SS -> Tgt -> list outcome.     (* run_target_function: all end states, in the order they are yielded *)
  Variable sid : SS -> Z.                         (* get_state_id after path_slice *)
  Variable refresh : SS -> SS -> SS.              (* refresh pre post: fresh symbolic timestamp >= pre's timestamp *)

  Record facc := mkAcc { a_vis : list Z; a_next : list SS; a_probes : list Z }.

  Definition on_outcome (pre : SS) (a : facc) (o : outcome) : facc :=
    match o with
    | OStuck => a
    | ORevert => a
    | OAssert p =>
        (* handed to the probe handler of a dummy FunctionContext; never part of the
           invariant test's own solver outputs *)
        mkAcc (a_vis a) (a_next a) (a_probes a ++ [p])
    | OOk s =>
        let i := sid s in
        if existsb (Z.eqb i) (a_vis a) then a
        else mkAcc (i :: a_vis a) (a_next a ++ [refresh pre s]) (a_probes a)
    end.

  Definition on_target (pre : SS) (a : facc) (t : Tgt) : facc :=
    fold_left (on_outcome pre) (sstep pre t) a.
  Definition on_state (a : facc) (pre : SS) : facc :=
    fold_left (on_target pre) (targets pre) a.
  (* _compute_frontier: visited is shared by all depths; next_exs starts empty *)
  Definition compute_frontier (vis : list Z) (cur : list SS) : facc :=
    fold_left on_state cur (mkAcc vis [] []).

  (* frontiers 0..d, the visited set being threaded through *)
  Fixpoint explore (d : nat) (cur : list SS) (vis : list Z) : list (list SS) :=
    match d with
    | O => [cur]
    | S d' => let a := compute_frontier vis cur in cur :: explore d' (a_next a) (a_vis a)
    end.

  Fixpoint explore_probes (d : nat) (cur : list SS) (vis : list Z) : list Z :=
    match d with
    | O => []
    | S d' => let a := compute_frontier vis cur in a_probes a ++ explore_probes d' (a_next a) (a_vis a)
    end.

  Variable setup : SS.
  (* run_contract + run_message: the states the invariant is executed on, for --invariant-depth d *)
  Definition initial_visited : list Z := if setup_registered_as_visited then [sid setup] else [].
  Definition frontiers (d : nat) : list (list SS) := explore d [setup] initial_visited.
  Definition evaluated (d : nat) : list SS := concat (frontiers d).
  (* assertion failures inside targets seen while computing the frontiers *)
  Definition probes (d : nat) : list Z := explore_probes d [setup] initial_visited.

  (* "ss is the result of exactly k successful target transactions after setUp" *)
  Inductive deep : nat -> SS -> Prop :=
  | deep_0 : deep 0 setup
  | deep_S : forall k pre t s, deep k pre -> In t (targets pre) -> In (OOk s) (sstep pre t) ->
                               deep (S k) (refresh pre s).

  (* verdict of the invariant test as far as path exploration is concerned: PASS iff the
     invariant's own run finds no violation on any evaluated state.  The probes do not
     enter (their solver outputs live in the dummy context). *)
  Variable inv_ok : SS -> bool.
  Definition verdict_pass (d : nat) : bool := forallb inv_ok (evaluated d).
End Frontier.

Arguments OStuck {SS}.
Arguments ORevert {SS}.
Arguments OAssert {SS} _.
Arguments OOk {SS} _.

(* ------------------------------------------------------------------ concrete instances *)
(* Explicit instances used for the remaining _refuted witness (probes) and the examples. *)

(* A target with noop() (succeeds, changes nothing) and late() = require(block.timestamp >= 100); x = 1.
   Symbolic state = (x, lower bound of the timestamp, timestamp is concrete?).  The setup
   state has the concrete timestamp 1; refreshed states have any timestamp >= the bound. *)
Module TsInst.
  Definition St := (Z * Z)%type.                       (* concrete: (x, timestamp) *)
  Record sst := mkS { s_x : Z; s_lo : Z; s_fixed : bool }.
  Inductive tx := Noop (next_ts : Z) | Late (next_ts : Z).
  Definition next_ts (t : tx) := match t with Noop n => n | Late n => n end.
  Definition cstep (s : St) (t : tx) : option St :=
    match t with
    | Noop n => Some (fst s, n)
    | Late n => if 100 <=? snd s then Some (1, n) else None
    end.
  Definition adm (s : St) (t : tx) : Prop := snd s <= next_ts t.
  Definition gamma (ss : sst) (s : St) : Prop :=
    fst s = s_x ss /\ (if s_fixed ss then snd s = s_lo ss else s_lo ss <= snd s).
  Inductive tgt := TNoop | TLate.
  Definition targets (_ : sst) : list tgt := [TNoop; TLate].
  Definition sstep (s : sst) (t : tgt) : list (outcome sst) :=
    match t with
    | TNoop => [OOk s]
    | TLate => if s_fixed s
               then (if 100 <=? s_lo s then [OOk (mkS 1 (s_lo s) true)] else [ORevert])
               else [OOk (mkS 1 (Z.max 100 (s_lo s)) false); ORevert]
    end.
  Definition sid (s : sst) : Z := s_x s.
  Definition refresh (pre s : sst) : sst := mkS (s_x s) (s_lo s) false.
  Definition setup : sst := mkS 0 1 true.
  Definition inv_ok (s : sst) : bool := negb (s_x s =? 1).
End TsInst.

(* A target with inc() and bad(): if (x == 1) Panic(1); invariant: true. *)
Module ProbeInst.
  Inductive tgt := Inc | Bad.
  Definition targets (_ : Z) : list tgt := [Inc; Bad].
  Definition sstep (x : Z) (t : tgt) : list (outcome Z) :=
    match t with
    | Inc => [OOk (x + 1)]
    | Bad => if x =? 1 then [OAssert 7] else [OOk x]
    end.
  Definition sid (x : Z) : Z := x.
  Definition refresh (_ x : Z) : Z := x.
  Definition setup : Z := 0.
  Definition inv_ok (_ : Z) : bool := true.
End ProbeInst.

(* inc() on a counter; explicit-state, injective state id (non-vacuity of C15_cover) *)
Module CounterInst.
  Definition targets (_ : Z) : list unit := [tt].
  Definition sstep (x : Z) (_ : unit) : list (outcome Z) := [OOk (x + 1)].
  Definition cstep (x : Z) (_ : unit) : option Z := Some (x + 1).
  Definition sid (x : Z) : Z := x.
  Definition refresh (_ x : Z) : Z := x.
  Definition setup : Z := 0.
End CounterInst.

(* Table-driven instance used by the extracted model in the correspondence run: a state is
   (uid, state id); the outcomes of each expanded state are given as a table. *)
Module TableInst.
  Definition St := (Z * Z)%type.
  Definition otable := list (Z * list (list (outcome St))).
  Fixpoint lookup (tb : otable) (u : Z) : list (list (outcome St)) :=
    match tb with [] => [] | (k, v) :: r => if k =? u then v else lookup r u end.
  Definition targets (tb : otable) (s : St) : list nat := seq 0 (length (lookup tb (fst s))).
  Definition sstep (tb : otable) (s : St) (t : nat) : list (outcome St) := nth t (lookup tb (fst s)) [].
  Definition sid (s : St) : Z := snd s.
  Definition refresh (_ s : St) : St := s.
End TableInst.
