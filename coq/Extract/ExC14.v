(* Extraction entry points for C14 (list Z -> list Z each). *)
From Coq Require Import ZArith NArith List Bool String Ascii.
From Coq Require Extraction.
From Coq Require Import ExtrOcamlBasic ExtrOcamlString.
From HV Require Import Gen.GenCheatSelectors Gen.GenCopies Spec.FoundrySpec Spec.PrankKindSpec Model.PrankModel Model.PrankKindModel Model.CheatModel Model.ForkModel.
Import ListNotations.
Open Scope Z_scope.

(* ---------------------------------------------------------------- prank op sequences
   0 s | 1 s o | 2 s | 3 s o | 4 | 5 c | 6 k a | 7 a | 8 | 9 this sender origin *)
Definition dec_cheat (c : Z) : cheat_target := if c =? 0 then CHevm else if c =? 1 then CSvm else CConsole.
Fixpoint dec_ops (fuel : nat) (l : list Z) : list op :=
  match fuel with
  | O => []
  | S f =>
    match l with
    | 0 :: s :: r => OPrank s :: dec_ops f r
    | 1 :: s :: o :: r => OPrank2 s o :: dec_ops f r
    | 2 :: s :: r => OStartPrank s :: dec_ops f r
    | 3 :: s :: o :: r => OStartPrank2 s o :: dec_ops f r
    | 4 :: r => OStopPrank :: dec_ops f r
    | 5 :: c :: r => OCheat (dec_cheat c) :: dec_ops f r
    | 6 :: k :: a :: r => OCall (if k =? 0 then KCall else KStatic) a :: dec_ops f r
    | 7 :: a :: r => OCreate a :: dec_ops f r
    | 8 :: r => OReturn :: dec_ops f r
    | 9 :: t :: s :: o :: r => ONewTx t s o :: dec_ops f r
    | _ => []
    end
  end.
Definition enc_obs (o : obs) : list Z := match o with Obs s g => [1; s; g] | ObsError => [0] end.

Definition c14_prank (a : list Z) : list Z :=
  match a with
  | t :: s :: o :: r => flat_map enc_obs (m_run [m_fresh t s o] (dec_ops (List.length r) r))
  | _ => []
  end.
Definition c14_prank_spec (a : list Z) : list Z :=
  match a with
  | t :: s :: o :: r => flat_map enc_obs (s_run [s_fresh t s o] (dec_ops (List.length r) r))
  | _ => []
  end.

(* ---------------------------------------------------------------- prank x call kind x value
   input: this sender origin value n (account balance)*n ops...
   ops: 0 keep s has_o o | 1 | 2 c | 3 k a v (k: 0 CALL 1 CALLCODE 2 DELEGATECALL 3 STATICCALL) | 4 k a v (k: 0 CREATE 1 CREATE2) | 5 | 6 a
   output: 1 this sender origin value | 2 balance | 3 (no funds) | 0 (rejected) | 4 (lost) | 5 (double) *)
Definition dec_ckind (k : Z) : ckind := if k =? 0 then CkCall else if k =? 1 then CkCallcode else if k =? 2 then CkDelegate else CkStatic.
Fixpoint dec_kops (fuel : nat) (l : list Z) : list kop :=
  match fuel with
  | O => []
  | S f =>
    match l with
    | 0 :: k :: s :: h :: o :: r => KPrank (negb (k =? 0)) s (if h =? 0 then None else Some o) :: dec_kops f r
    | 1 :: r => KStopPrank :: dec_kops f r
    | 2 :: c :: r => KCheat (dec_cheat c) :: dec_kops f r
    | 3 :: k :: a :: v :: r => KCallK (dec_ckind k) a v :: dec_kops f r
    | 4 :: k :: a :: v :: r => KCreate (if k =? 0 then NkCreate else NkCreate2) a v :: dec_kops f r
    | 5 :: r => KReturn :: dec_kops f r
    | 6 :: a :: r => KBalance a :: dec_kops f r
    | _ => []
    end
  end.
Fixpoint dec_bal (n : nat) (l : list Z) : balances * list Z :=
  match n, l with
  | S m, a :: x :: r => let '(b, rest) := dec_bal m r in (fun y => if y =? a then x else b y, rest)
  | _, _ => (fun _ => 0, l)
  end.
Definition enc_kobs (o : kobs) : list Z :=
  match o with
  | KObs t s g v => [1; t; s; g; v] | KObsBal b => [2; b] | KObsNoFunds => [3] | KObsError => [0]
  | KObsLost => [4] | KObsDouble => [5]
  end.
Definition c14_prank_kinds (a : list Z) : list Z :=
  match a with
  | t :: s :: o :: v :: n :: r =>
      let '(b, r') := dec_bal (Z.to_nat n) r in
      flat_map enc_kobs (km_run [k_fresh t s o v] b (dec_kops (List.length r') r'))
  | _ => []
  end.
(* the specification's run, preceded by whether the sequence is in the fragment of the theorem *)
Definition c14_prank_kinds_spec (a : list Z) : list Z :=
  match a with
  | t :: s :: o :: v :: n :: r =>
      let '(b, r') := dec_bal (Z.to_nat n) r in
      let ops := dec_kops (List.length r') r' in
      Z.b2z (ks_scope [ks_fresh t s o v] b ops) :: flat_map enc_kobs (ks_run [ks_fresh t s o v] b ops)
  | _ => []
  end.

(* ---------------------------------------------------------------- the Prank object alone
   0 s | 1 s o | 2 s | 3 s o | 4 | 5 to ; after every method: result then the object's state *)
Definition enc_opt (o : option Z) : list Z := match o with Some v => [1; v] | None => [0; 0] end.
Definition enc_pres (r : presult) : list Z := enc_opt (p_sender r) ++ enc_opt (p_origin r).
Definition enc_prank (p : prank) : list Z := enc_pres (active p) ++ [Z.b2z (keep p); Z.b2z (prank_bool p)].
Fixpoint obj_run (fuel : nat) (p : prank) (l : list Z) : list Z :=
  match fuel with
  | O => []
  | S f =>
    match l with
    | 0 :: s :: r => let '(b, p') := do_prank p s None false in Z.b2z b :: enc_prank p' ++ obj_run f p' r
    | 1 :: s :: o :: r => let '(b, p') := do_prank p s (Some o) false in Z.b2z b :: enc_prank p' ++ obj_run f p' r
    | 2 :: s :: r => let '(b, p') := do_prank p s None true in Z.b2z b :: enc_prank p' ++ obj_run f p' r
    | 3 :: s :: o :: r => let '(b, p') := do_prank p s (Some o) true in Z.b2z b :: enc_prank p' ++ obj_run f p' r
    | 4 :: r => let p' := stop_prank p in 1 :: enc_prank p' ++ obj_run f p' r
    | 5 :: to :: r => let '(res, p') := lookup p to in enc_pres res ++ enc_prank p' ++ obj_run f p' r
    | _ => []
    end
  end.
Definition c14_prank_obj (a : list Z) : list Z := obj_run (List.length a) fresh_prank a.

(* ---------------------------------------------------------------- state cheatcodes
   input: basefee chainid coinbase difficulty number timestamp naccounts accounts... ops...
   ops: 0 who amt | 1 acct slot val | 2 acct slot | 3 who n bytes.. | 4..9 x (warp roll fee chainid coinbase difficulty)
        10 a (BALANCE) | 11 a s (SLOAD of account a) | 12 a (EXTCODESIZE, -1 = no account)
        13 TIMESTAMP | 14 NUMBER | 15 BASEFEE | 16 CHAINID | 17 COINBASE | 18 PREVRANDAO
   output per op: cheat -> 1 | load -> 1 v | read -> v ; error ends the run with 0 (nonexistent) or 2 (fail) *)
Fixpoint state_run (fuel : nat) (w : mworld) (l : list Z) : list Z :=
  let fin := fun (r : sres) (k : mworld -> list Z) =>
    match r with
    | SErrNonexistent => [0]
    | SFail => [2]
    | SDone w' None => 1 :: k w'
    | SDone w' (Some v) => 1 :: v :: k w'
    end in
  match fuel with
  | O => []
  | S f =>
    match l with
    | 0 :: who :: amt :: r => fin (do_cheat w (Deal who amt)) (fun w' => state_run f w' r)
    | 1 :: a :: s :: v :: r => fin (do_cheat w (Store a s v)) (fun w' => state_run f w' r)
    | 2 :: a :: s :: r => fin (do_cheat w (Load a s)) (fun w' => state_run f w' r)
    | 3 :: who :: n :: r =>
        let k := Z.to_nat n in
        fin (do_cheat w (Etch who (firstn k r))) (fun w' => state_run f w' (skipn k r))
    | 4 :: x :: r => fin (do_cheat w (Warp x)) (fun w' => state_run f w' r)
    | 5 :: x :: r => fin (do_cheat w (Roll x)) (fun w' => state_run f w' r)
    | 6 :: x :: r => fin (do_cheat w (Fee x)) (fun w' => state_run f w' r)
    | 7 :: x :: r => fin (do_cheat w (ChainId x)) (fun w' => state_run f w' r)
    | 8 :: x :: r => fin (do_cheat w (Coinbase x)) (fun w' => state_run f w' r)
    | 9 :: x :: r => fin (do_cheat w (Difficulty x)) (fun w' => state_run f w' r)
    | 10 :: a :: r => match read_balance_checked w a with Some v => v :: state_run f w r | None => [0] end
    | 11 :: a :: s :: r => read_storage w a s :: state_run f w r
    | 12 :: a :: r => match read_code w (u160 a) with Some c => Z.of_nat (List.length c) | None => -1 end :: state_run f w r
    | 13 :: r => mw_timestamp w :: state_run f w r
    | 14 :: r => mw_number w :: state_run f w r
    | 15 :: r => mw_basefee w :: state_run f w r
    | 16 :: r => mw_chainid w :: state_run f w r
    | 17 :: r => mw_coinbase w :: state_run f w r
    | 18 :: r => mw_difficulty w :: state_run f w r
    | _ => []
    end
  end.
Definition c14_state (a : list Z) : list Z :=
  match a with
  | bf :: ci :: cb :: df :: nb :: ts :: n :: r =>
      let k := Z.to_nat n in
      let w := {| mw_balance := []; mw_storage := []; mw_code := map (fun x => (x, [0])) (firstn k r);
                  mw_basefee := bf; mw_chainid := ci; mw_coinbase := cb; mw_difficulty := df;
                  mw_number := nb; mw_timestamp := ts |} in
      state_run (List.length r) w (skipn k r)
  | _ => []
  end.

(* ---------------------------------------------------------------- state cheatcodes across branches
   input: basefee chainid coinbase difficulty number timestamp naccounts accounts... tree
   tree:  the item codes of c14_state (0..18) | 19 v (log the constant v)
          | 20 <fall-through subtree> <jump subtree> | 21 (end of the path)
   output: copied(block kind) deep(storage kind) copied(code kind) npaths (len out...)* :
          the paths in completion order, first of the worklist run (objects with identity,
          create_branch as regenerated), then of the value semantics *)
Fixpoint dec_tree (fuel : nat) (l : list Z) : ftree * list Z :=
  match fuel with
  | O => (FEnd, [])
  | S f =>
    let it := fun (i : item) (r : list Z) => let '(k, r') := dec_tree f r in (FItem i k, r') in
    match l with
    | 0 :: who :: amt :: r => it (ICheat (Deal who amt)) r
    | 1 :: a :: sl :: v :: r => it (ICheat (Store a sl v)) r
    | 2 :: a :: sl :: r => it (ICheat (Load a sl)) r
    | 3 :: who :: n :: r => let k := Z.to_nat n in it (ICheat (Etch who (firstn k r))) (skipn k r)
    | 4 :: x :: r => it (ICheat (Warp x)) r
    | 5 :: x :: r => it (ICheat (Roll x)) r
    | 6 :: x :: r => it (ICheat (Fee x)) r
    | 7 :: x :: r => it (ICheat (ChainId x)) r
    | 8 :: x :: r => it (ICheat (Coinbase x)) r
    | 9 :: x :: r => it (ICheat (Difficulty x)) r
    | 10 :: a :: r => it (IBalance a) r
    | 11 :: a :: sl :: r => it (ISload a sl) r
    | 12 :: a :: r => it (IExtcodesize a) r
    | 13 :: r => it ITimestamp r
    | 14 :: r => it INumber r
    | 15 :: r => it IBasefee r
    | 16 :: r => it IChainid r
    | 17 :: r => it ICoinbase r
    | 18 :: r => it IPrevrandao r
    | 19 :: v :: r => it (IMark v) r
    | 20 :: r => let '(a, r1) := dec_tree f r in let '(b, r2) := dec_tree f r1 in (FFork a b, r2)
    | 21 :: r => (FEnd, r)
    | _ => (FEnd, [])
    end
  end.
Definition enc_paths (ps : list (list Z)) : list Z :=
  Z.of_nat (List.length ps) :: flat_map (fun o => Z.of_nat (List.length o) :: o) ps.
Definition c14_fork (a : list Z) : list Z :=
  match a with
  | bf :: ci :: cb :: df :: nb :: ts :: n :: r =>
      let k := Z.to_nat n in
      let w := {| mw_balance := []; mw_storage := []; mw_code := map (fun x => (x, [0])) (firstn k r);
                  mw_basefee := bf; mw_chainid := ci; mw_coinbase := cb; mw_difficulty := df;
                  mw_number := nb; mw_timestamp := ts |} in
      let t := fst (dec_tree (List.length r) (skipn k r)) in
      [Z.b2z (copied block_kind); Z.b2z (deep_copied storage_kind); Z.b2z (copied code_kind)] ++
      enc_paths (snd (run (init_heaps w) (init_exec w) t [])) ++ enc_paths (spec_run w t [])
  | _ => []
  end.

(* ---------------------------------------------------------------- creators
   input: mode (0 svm selector, 1 vm.random selector) sel cnt a1 a2 v
   output: status (0 unknown selector, 1 ok, 2 HalmosException, 3 python crash) cnt'
           then for ok: ret_len ret_value(rho = const v) nconds holds...  nsyms (id width |ty| ty...)*
           then for mode 1 the fixed variable name: |name| name... *)
Definition str_codes (s : string) : list Z :=
  (fix go (s : string) : list Z :=
     match s with EmptyString => [] | String c r => Z.of_N (N_of_ascii c) :: go r end) s.
Definition enc_str (s : string) : list Z := Z.of_nat (String.length s) :: str_codes s.
Fixpoint term_syms (t : term) : list (N * Z * string) :=
  match t with TSym id w ty => [(id, w, ty)] | TZext _ t => term_syms t | TSext _ _ t => term_syms t end.
Fixpoint ret_syms (l : list chunk) : list (N * Z * string) :=
  match l with [] => [] | CTerm _ t :: r => term_syms t ++ ret_syms r | CConst _ _ :: r => ret_syms r end.
Definition enc_cres (v : Z) (r : cres) : list Z :=
  match r with
  | CErr c => [2; Z.of_N c]
  | CCrash c => [3; Z.of_N c]
  | COk c ret conds =>
      let rho := fun _ : N => v in
      [1; Z.of_N c; ret_len ret; ret_value rho ret 0; Z.of_nat (List.length conds)] ++
      map (fun cd => Z.b2z (cond_holds rho cd)) conds ++
      [Z.of_nat (List.length (ret_syms ret))] ++
      flat_map (fun '(id, w, ty) => Z.of_N id :: w :: enc_str ty) (ret_syms ret)
  end.
Definition c14_creator (a : list Z) : list Z :=
  match a with
  | [mode; sel; cnt; a1; a2; v] =>
      if mode =? 0 then
        match svm_call (Z.to_N sel) (Z.to_N cnt) a1 a2 with
        | None => [0]
        | Some r => enc_cres v r
        end
      else
        match vm_random_call (Z.to_N sel) (Z.to_N cnt) a1 a2 with
        | None => [0]
        | Some (nm, r) => enc_cres v r ++ enc_str nm
        end
  | _ => []
  end.

(* label: id |name| name.. |ty| ty.. |uid| uid.. -> chars *)
Definition codes_str (l : list Z) : string :=
  (fix go (l : list Z) : string :=
     match l with [] => EmptyString | c :: r => String (ascii_of_N (Z.to_N c)) (go r) end) l.
Definition c14_label (a : list Z) : list Z :=
  match a with
  | id :: n1 :: r =>
      let k1 := Z.to_nat n1 in
      let name := codes_str (firstn k1 r) in
      match skipn k1 r with
      | n2 :: r2 =>
          let k2 := Z.to_nat n2 in
          let ty := codes_str (firstn k2 r2) in
          match skipn k2 r2 with
          | n3 :: r3 => str_codes (label name ty (codes_str (firstn (Z.to_nat n3) r3)) (Z.to_N id))
          | _ => []
          end
      | _ => []
      end
  | _ => []
  end.

Definition table : list (string * (list Z -> list Z)) :=
  [ ("c14_prank"%string, c14_prank);
    ("c14_prank_spec"%string, c14_prank_spec);
    ("c14_prank_obj"%string, c14_prank_obj);
    ("c14_prank_kinds"%string, c14_prank_kinds);
    ("c14_prank_kinds_spec"%string, c14_prank_kinds_spec);
    ("c14_state"%string, c14_state);
    ("c14_fork"%string, c14_fork);
    ("c14_creator"%string, c14_creator);
    ("c14_label"%string, c14_label) ].

Extraction "_build/C14/entries.ml" table.
