(* Extraction entry points for C06 (list Z -> list Z each).
   Operand encoding (kind, value):  0 = concrete int-backed word, 1 = symbolic term-backed word
   (a z3 variable whose valuation is `value`), 2 = concrete Bool (value <> 0), 3 = symbolic Bool
   (a z3 Bool variable whose valuation is value <> 0).  The operand in position i is variable i.
   Result encoding: [0; flag; denotation] with flag 0 = concrete HalmosBitVec, 1 = symbolic
   HalmosBitVec, 2 = TRUE/FALSE, 3 = symbolic HalmosBool;  [1 + e] for the internal exception e
   (1 NotConcreteError, 2 ZeroDivisionError, 3 TypeError, 4 NotImplementedError, 5 StackUnderflowError,
   6 AttributeError, 7 ValueError, 8 wrong stack depth after the instruction);
   [9; work] when the all-concrete EXP path would materialise an integer of more than 4096
   bits according to the regenerated work measure (the model value is then not evaluated here;
   `work` is the predicted bit size).  With pow(lhs, rhs, 1 << size) the measure is 2 * size + 2
   and this never happens; it does as soon as the source computes the unreduced power again. *)
From Coq Require Import ZArith List Bool String.
From Coq Require Extraction.
From Coq Require Import ExtrOcamlBasic ExtrOcamlString.
From HV Require Import Base.Word Base.SmtBV Model.PyInt Model.WordOpsIR Gen.GenBitvecGuards Gen.GenWordOps Model.BitVecModel.
Import ListNotations.
Open Scope Z_scope.

Definition dec_bv (id k v : Z) : bv := if k =? 0 then Cv v else Sv (TVar id).
Definition dec_val (id k v : Z) : val :=
  if k =? 0 then VBV (Cv v)
  else if k =? 1 then VBV (Sv (TVar id))
  else if k =? 2 then VBool (BC (negb (v =? 0)))
  else VBool (BS (BVar id)).
Definition mk_ev (v0 v1 v2 : Z) (id : Z) : Z := if id =? 0 then v0 else if id =? 1 then v1 else v2.
Definition mk_eb (v0 v1 v2 : Z) (id : Z) : bool := negb (mk_ev v0 v1 v2 id =? 0).

Definition err_code (e : err) : Z :=
  match e with
  | ENotConcrete => 1 | EZeroDivision => 2 | ETypeError => 3 | ENotImplemented => 4
  | EStackUnderflow => 5 | EAttribute => 6 | EValue => 7 | EStackDepth => 8
  end.
Definition enc_bv ev eb (x : bv) : list Z :=
  match x with Cv v => [0; 0; v] | Sv t => [0; 1; eval ev eb t] end.
Definition enc_bl ev eb (x : bl) : list Z :=
  match x with BC b => [0; 2; b2w b] | BS c => [0; 3; b2w (beval ev eb c)] end.
Definition enc_val ev eb (x : val) : list Z :=
  match x with VBV b => enc_bv ev eb b | VBool b => enc_bl ev eb b end.
Definition enc_res {A} (f : A -> list Z) (r : res A) : list Z :=
  match r with Ok a => f a | Err e => [1 + err_code e] end.

Definition WORK_LIMIT : Z := 4096.

Definition op_of (z : Z) : option op :=
  nth_error [ADD; MUL; SUB; DIV; SDIV; MOD; SMOD; EXP; SIGNEXTEND; LT; GT; SLT; SGT; EQ; AND; OR; XOR;
             BYTE; SHL; SHR; SAR] (Z.to_nat z).

(* [sebc; op; k1; v1; k2; v2]   (operand 1 = top of stack) *)
Definition c06_run2 (a : list Z) : list Z :=
  match a with
  | [sebc; o; k1; v1; k2; v2] =>
      match op_of o with
      | Some o =>
          let x := dec_val 0 k1 v1 in
          let y := dec_val 1 k2 v2 in
          let ev := mk_ev v1 v2 0 in
          let eb := mk_eb v1 v2 0 in
          let w := match o with EXP => exp_work 256 (popi x) (popi y) | _ => 0 end in
          if WORK_LIMIT <? w then [9; w]
          else enc_res (enc_val ev eb) (run2 sebc o x y)
      | None => []
      end
  | _ => []
  end.

(* [op1; k1; v1]  op1: 0 ISZERO, 1 NOT *)
Definition c06_run1 (a : list Z) : list Z :=
  match a with
  | [o; k1; v1] =>
      let x := dec_val 0 k1 v1 in
      enc_res (enc_val (mk_ev v1 0 0) (mk_eb v1 0 0)) (run1 (if o =? 0 then ISZERO else NOT) x)
  | _ => []
  end.

(* [op3; k1; v1; k2; v2; k3; v3]  op3: 0 ADDMOD, 1 MULMOD *)
Definition c06_run3 (a : list Z) : list Z :=
  match a with
  | [o; k1; v1; k2; v2; k3; v3] =>
      enc_res (enc_val (mk_ev v1 v2 v3) (mk_eb v1 v2 v3))
        (run3 (if o =? 0 then ADDMOD else MULMOD) (dec_val 0 k1 v1) (dec_val 1 k2 v2) (dec_val 2 k3 v3))
  | _ => []
  end.

(* path constraints appended by SEVM.arith: [op; k1; v1; k2; v2] -> truth value of each *)
Definition c06_axioms (a : list Z) : list Z :=
  match a with
  | [o; k1; v1; k2; v2] =>
      match op_of o with
      | Some o => map (fun c => b2w (beval (mk_ev v1 v2 0) (mk_eb v1 v2 0) c))
                      (arith_axioms 2 o (dec_val 0 k1 v1) (dec_val 1 k2 v2))
      | None => []
      end
  | _ => []
  end.

(* HalmosBitVec methods at any size n, with the abstraction switched on or off:
   [n; abs; sebc; m; k1; v1; k2; v2; k3; v3]
   m: 0 add 1 sub 2 mul 3 div 4 sdiv 5 mod 6 smod 7 exp 8 lshl 9 lshr 10 ashr 11 and 12 or 13 xor
      14 ult 15 ugt 16 ule 17 uge 18 slt 19 sgt 20 eq 21 not 22 is_zero 23 addmod 24 mulmod
      25 byte (operand 2 = concrete index, operand 3 = concrete output size)
      26 signextend (operand 2 = concrete size; n must be 256) *)
Definition c06_method (a : list Z) : list Z :=
  match a with
  | [n; ab; sebc; m; k1; v1; k2; v2; k3; v3] =>
      let x := dec_bv 0 k1 v1 in
      let y := dec_bv 1 k2 v2 in
      let z := dec_bv 2 k3 v3 in
      let ev := mk_ev v1 v2 v3 in
      let eb := mk_eb v1 v2 v3 in
      let abs := negb (ab =? 0) in
      let A (f : uf) : option uf := if abs then Some f else None in
      let B := enc_bv ev eb in
      let L := enc_bl ev eb in
      match m with
      | 0 => B (bv_add n x y) | 1 => B (bv_sub n x y) | 2 => B (bv_mul n (A Fmul) x y)
      | 3 => enc_res B (bv_div n (A Fudiv) x y) | 4 => enc_res B (bv_sdiv n (A Fsdiv) x y)
      | 5 => enc_res B (bv_mod n (A Furem) x y) | 6 => B (bv_smod n (A Fsrem) x y)
      | 7 => if WORK_LIMIT <? exp_work n x y then [9; exp_work n x y]
             else enc_res B (bv_exp n (A Fexp) (A Fmul) sebc x y)
      | 8 => B (bv_lshl n x y) | 9 => B (bv_lshr n x y) | 10 => B (bv_ashr n x y)
      | 11 => B (bv_and n x y) | 12 => B (bv_or n x y) | 13 => B (bv_xor n x y)
      | 14 => L (bv_ult n x y) | 15 => L (bv_ugt n x y) | 16 => L (bv_ule n x y)
      | 17 => L (bv_uge n x y) | 18 => L (bv_slt n x y) | 19 => L (bv_sgt n x y)
      | 20 => L (bv_eq n x y) | 21 => B (bv_not n x) | 22 => L (bv_is_zero n x)
      | 23 => enc_res B (bv_addmod n (A Furem) x y z) | 24 => enc_res B (bv_mulmod n (A Fmul) (A Furem) x y z)
      | 25 => B (bv_byte n x v2 v3)
      | 26 => B (bv_signextend x v2)
      | _ => []
      end
  | _ => []
  end.

(* the generated pure functions: [f; args...]  f: 0 is_power_of_two x, 1 to_signed x bit_size,
   2 py_pow3 a e m, 3 exp_work n (Cv x) (Cv y) *)
Definition c06_pure (a : list Z) : list Z :=
  match a with
  | [0; x] => [b2w (is_power_of_two x)]
  | [1; x; n] => [to_signed x n]
  | [2; x; e; m] => [py_pow3 x e m]
  | [3; n; x; y] => [exp_work n (Cv x) (Cv y)]
  | _ => []
  end.

(* HalmosBool(<value>): [kind; v; s]  kind 0 python bool (v <> 0), 1 z3 term, 2 str, 3 existing HalmosBool
   (v: 0 TRUE, 1 FALSE, 2 another symbolic one), 4 int-backed HalmosBitVec of value v, 5 term-backed one;
   s = what z3's simplify makes of the term involved: 0 the literal true, 1 the literal false, 2 neither.
   -> [object returned: 0 TRUE, 1 FALSE, 2 fresh, 3 the other one; con/sym of the object; con/sym of TRUE;
       con/sym of FALSE]   con: 0 None, 1 False, 2 True;  sym: 0 None, 1 a term *)
Definition c06_boolctor (a : list Z) : list Z :=
  match a with
  | [k; v; s] =>
      let simp := fun c : bterm => if s =? 0 then BConst true else if s =? 1 then BConst false else c in
      let arg := if k =? 0 then ABool (negb (v =? 0))
                 else if k =? 1 then ATerm (BVar 0)
                 else if k =? 2 then AStr 0
                 else if k =? 3 then AObj (if v =? 0 then RTrue else if v =? 1 then RFalse else ROther)
                 else if k =? 4 then ABitVec 256 (Cv v)
                 else ABitVec 256 (Sv (TVar 0)) in
      let h0 := {| hT := obj_true; hF := obj_false; hN := {| o_con := None; o_sym := None |};
                   hO := {| o_con := None; o_sym := Some (BVar 1) |} |} in
      let rh := hb_ctor simp hb_init_guards_singletons arg h0 in
      let con o := match o_con o with None => 0 | Some false => 1 | Some true => 2 end in
      let sym o := match o_sym o with None => 0 | Some _ => 1 end in
      let rc := match fst rh with RTrue => 0 | RFalse => 1 | RNew => 2 | ROther => 3 end in
      let h := snd rh in
      [rc; con (hget h (fst rh)); sym (hget h (fst rh)); con (hT h); sym (hT h); con (hF h); sym (hF h)]
  | _ => []
  end.

Definition table : list (string * (list Z -> list Z)) :=
  [ ("c06_run2"%string, c06_run2);
    ("c06_run1"%string, c06_run1);
    ("c06_run3"%string, c06_run3);
    ("c06_axioms"%string, c06_axioms);
    ("c06_method"%string, c06_method);
    ("c06_pure"%string, c06_pure);
    ("c06_boolctor"%string, c06_boolctor) ].

Extraction "_build/C06/entries.ml" table.
