(* Extraction entry points for C09: the halmos call model (mframe) and the call-tree
   specification (sframe) on flat-encoded scripts / worlds (encoding in harness/c09_lib.py). *)
From Coq Require Import ZArith List Bool String.
From Coq Require Extraction.
From Coq Require Import ExtrOcamlBasic ExtrOcamlString.
From HV Require Import Spec.Evm Spec.CallSpec Model.CallModel.
Import ListNotations.
Open Scope Z_scope.

Definition pop1 (l : list Z) : Z * list Z := match l with x :: r => (x, r) | [] => (0, []) end.
Definition popn (n : Z) (l : list Z) : list Z * list Z := (firstn (Z.to_nat n) l, skipn (Z.to_nat n) l).

Fixpoint parse_pairs (n : nat) (l : list Z) : list (Z * Z) * list Z :=
  match n with
  | O => ([], l)
  | S k => match l with
           | a :: b :: r => let '(ps, r') := parse_pairs k r in ((a, b) :: ps, r')
           | _ => ([], [])
           end
  end.

(* account: addr; balance; has_code; code_len; code...; n_slots; (k; v)*   (as ExEVM.v) *)
Fixpoint parse_accounts (n : nat) (l : list Z) (w : world) : world * list Z :=
  match n with
  | O => (w, l)
  | S k =>
      let '(a, l) := pop1 l in
      let '(bal, l) := pop1 l in
      let '(hc, l) := pop1 l in
      let '(cl, l) := pop1 l in
      let '(code, l) := popn cl l in
      let '(ns, l) := pop1 l in
      let '(slots, l) := parse_pairs (Z.to_nat ns) l in
      let w' := mkWorld (if hc =? 0 then w_code w else aset a code (w_code w))
                        (aset a slots (w_storage w))
                        (w_transient w)
                        (aset a bal (w_balance w)) in
      parse_accounts k l w'
  end.

Definition kind_of (z : Z) : ckind :=
  if z =? 0 then KCall else if z =? 1 then KCallcode else if z =? 2 then KDelegate else KStatic.
Definition ending_of (k tag : Z) : ending :=
  if k =? 0 then EStop else if k =? 1 then EReturn tag else if k =? 2 then ERevert tag else EInvalid.

(* prefix encoding; fuel = length of the input *)
Fixpoint parse_script (fuel : nat) (l : list Z) : script * list Z :=
  match fuel with
  | O => (SEnd EInvalid, [])
  | S f =>
      match l with
      | 0 :: k :: tag :: r => (SEnd (ending_of k tag), r)
      | 1 :: k :: v :: r => let '(s, r') := parse_script f r in (SSstore k v s, r')
      | 2 :: k :: v :: r => let '(s, r') := parse_script f r in (STstore k v s, r')
      | 3 :: r => let '(s, r') := parse_script f r in (SLog s, r')
      | 4 :: k :: r => let '(s, r') := parse_script f r in (SObserve k s, r')
      | 5 :: off :: size :: r => let '(s, r') := parse_script f r in (SRetCopy off size s, r')
      | 6 :: kd :: to :: v :: rsz :: r =>
          let '(callee, r1) := parse_script f r in
          let '(rest, r2) := parse_script f r1 in
          (SCall (kind_of kd) to v rsz callee rest, r2)
      | 8 :: cnd :: r =>
          let '(s1, r1) := parse_script f r in
          let '(s2, r2) := parse_script f r1 in
          (SIf cnd s1 s2, r2)
      | 9 :: a :: off :: r => let '(s, r') := parse_script f r in (SExtCode a off s, r')
      | 7 :: v :: n :: r =>
          let '(code, r0) := popn n r in
          let '(init, r1) := parse_script f r0 in
          let '(rest, r2) := parse_script f r1 in
          (SCreate v code init rest, r2)
      | _ => (SEnd EInvalid, [])
      end
  end.

Definition enc_bytes (bs : list Z) : list Z := Z.of_nat (List.length bs) :: bs.
Definition enc_pairs (ps : list (Z * Z)) : list Z :=
  Z.of_nat (List.length ps) :: flat_map (fun p => [fst p; snd p]) ps.
Definition enc_smap (m : list (Z * list (Z * Z))) : list Z :=
  Z.of_nat (List.length m) :: flat_map (fun p => fst p :: enc_pairs (snd p)) m.
Definition enc_world (w : world) : list Z :=
  (Z.of_nat (List.length (w_code w)) :: flat_map (fun p => fst p :: enc_bytes (snd p)) (w_code w))
  ++ enc_smap (w_storage w) ++ enc_smap (w_transient w) ++ enc_pairs (w_balance w).
Definition b2z (b : bool) : Z := if b then 1 else 0.
Definition enc_fres (r : fres) : list Z :=
  match r with FOk d => 0 :: enc_bytes d | FRevert d => 1 :: enc_bytes d | FHalt => [2; 0] end.
Definition enc_item (i : logitem) : list Z :=
  match i with
  | LFrame c => [0; c_this c; c_caller c; c_origin c; c_value c; blen (c_code c); b2z (c_static c); c_depth c]
  | LEnd r => 1 :: enc_fres r
  | LEvent a => [2; a]
  end.
Definition enc_log (lg : list logitem) : list Z :=
  Z.of_nat (List.length lg) :: flat_map enc_item lg.

(* input: this caller origin value static depth ctr codelen code... naccounts accounts... script *)
Definition parse_input (inp : list Z) : script * fctx * world * Z :=
  let '(this, l) := pop1 inp in
  let '(caller, l) := pop1 l in
  let '(origin, l) := pop1 l in
  let '(value, l) := pop1 l in
  let '(static, l) := pop1 l in
  let '(depth, l) := pop1 l in
  let '(ctr, l) := pop1 l in
  let '(cl, l) := pop1 l in
  let '(code, l) := popn cl l in
  let '(nacc, l) := pop1 l in
  let '(w, l) := parse_accounts (Z.to_nat nacc) l (mkWorld [] [] [] []) in
  let '(s, _) := parse_script (S (List.length l)) l in
  (s, mkCtx this caller origin value code (negb (static =? 0)) depth, w, ctr).

(* -> nresults; per result: fres; cnt; world; log *)
Definition c09_model (inp : list Z) : list Z :=
  let '(s, c, w, ctr) := parse_input inp in
  let rs := mframe s c (mstate_of w ctr) in
  Z.of_nat (List.length rs) ::
  flat_map (fun m : mres => let '(f, st, lg) := m in
              enc_fres f ++ [m_cnt st] ++ enc_world (world_of st) ++ enc_log lg) rs.

Definition c09_spec (inp : list Z) : list Z :=
  let '(s, c, w, ctr) := parse_input inp in
  let '(r, ctr', lg) := sframe s c w ctr in
  1 :: enc_fres (fres_of r) ++ [ctr'] ++
  enc_world (match r with SOk _ w' => w' | _ => mkWorld [] [] [] [] end) ++ enc_log lg.

Definition table : list (string * (list Z -> list Z)) :=
  [ ("c09_model"%string, c09_model); ("c09_spec"%string, c09_spec) ].

Extraction "_build/C09/entries.ml" table.
