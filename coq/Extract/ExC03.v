(* Extraction entry points for C03 / C10 runner model (list Z -> list Z each).
   Encodings: err 0 ENone, 1 ERevert, 2 EEvm, 3 EFail, 4 EHalmos; byte -1 = symbolic;
   call tree in preorder: err, nsubs, subtrees...; tri 0 False, 1 True, 2 raise. *)
From Coq Require Import ZArith List Bool String.
From Coq Require Extraction.
From Coq Require Import ExtrOcamlBasic ExtrOcamlString.
From HV Require Gen.GenSelectRow Spec.SelectRowSpec Model.SelectRowModel.
From HV Require Import Gen.GenPanic Gen.GenRunTest Spec.PanicSpec Model.RunnerModel.
Import ListNotations.
Open Scope Z_scope.

Definition err_of (z : Z) : errkind :=
  if z =? 0 then ENone else if z =? 1 then ERevert else if z =? 2 then EEvm else if z =? 3 then EFail else EHalmos.
Definition dec_bytes (l : list Z) : list sbyte := map (fun z => if z <? 0 then BS (- z) else BC z) l.
Definition enc_tri (t : tri) : Z := match t with TFalse => 0 | TTrue => 1 | TRaise => 2 end.
Definition b2z (b : bool) : Z := if b then 1 else 0.
Definition z2b (z : Z) : bool := negb (z =? 0).
Definition take (n : Z) (l : list Z) : list Z * list Z := (firstn (Z.to_nat n) l, skipn (Z.to_nat n) l).

Fixpoint parse_tree (fuel : nat) (l : list Z) : ctree * list Z :=
  match fuel with
  | O => (CNode ENone [], [])
  | S f =>
      match l with
      | e :: n :: r => let '(subs, r') := parse_forest f (Z.to_nat n) r in (CNode (err_of e) subs, r')
      | _ => (CNode ENone [], [])
      end
  end
with parse_forest (fuel : nat) (n : nat) (l : list Z) : list ctree * list Z :=
  match fuel with
  | O => ([], [])
  | S f =>
      match n with
      | O => ([], l)
      | S k =>
          let '(t, r) := parse_tree f l in
          let '(ts, r') := parse_forest f k r in
          (t :: ts, r')
      end
  end.

(* [err; has_data; ncodes; codes...; bytes...] -> [tri] *)
Definition c03_is_panic_of (a : list Z) : list Z :=
  match a with
  | e :: hd :: nc :: r =>
      let '(codes, bs) := take nc r in
      [enc_tri (is_panic_of (err_of e) (if z2b hd then Some (dec_bytes bs) else None) codes)]
  | _ => []
  end.

(* [tree...] -> [0/1] *)
Definition c03_global_fail (a : list Z) : list Z :=
  [b2z (global_fail (fst (parse_tree (S (List.length a)) a)))].

Definition c03_classify (a : list Z) : list Z :=
  match a with
  | [p; f; s; h] => [classify (z2b p) (z2b f) (z2b s) (z2b h)]
  | _ => []
  end.

Definition c03_verdict (a : list Z) : list Z :=
  match a with
  | [s; e; u; k; n] => [verdict s e u k n]
  | _ => []
  end.

(* leaves: tree, has_data, datalen, bytes..., assertion answer, low-level answer *)
Fixpoint parse_leaves (n : nat) (l : list Z) : list (leaf (Z * Z)) :=
  match n with
  | O => []
  | S k =>
      let '(t, r) := parse_tree (S (List.length l)) l in
      match r with
      | hd :: dl :: r1 =>
          let '(bs, r2) := take dl r1 in
          match r2 with
          | qa :: ql :: r3 =>
              mkLeaf t (if z2b hd then Some (dec_bytes bs) else None) (qa, ql) :: parse_leaves k r3
          | _ => []
          end
      | _ => []
      end
  end.

(* [width; bounded; depth_cut; ncodes; codes...; nleaves; leaves...] -> [exit; warn_loop; warn_depth; warn_width] *)
Definition c03_run_test (a : list Z) : list Z :=
  match a with
  | width :: bounded :: dc :: nc :: r =>
      let '(codes, r1) := take nc r in
      match r1 with
      | nl :: r2 =>
          let ls := parse_leaves (Z.to_nat nl) r2 in
          let rep := run_test (Z * Z) fst snd codes width (mkExploration ls (z2b bounded) (z2b dc)) in
          [r_exit rep; b2z (r_warn_loop rep); b2z (r_warn_depth rep); b2z (r_warn_width rep)]
      | _ => []
      end
  | _ => []
  end.

(* queries: 0 = original, 1 = refined.
   [core_hit; res0; valid0; refine_changes; res1; is_refined] -> [answer] *)
Definition c03_solve_e2e (a : list Z) : list Z :=
  match a with
  | [ch; r0; v0; chg; r1; isr] =>
      [solve_end_to_end Z (fun x y => if z2b chg then x =? y else true)
         (fun q => z2b ch) (fun q => if q =? 0 then (r0, z2b v0) else (r1, true)) (fun q => 1) 0 (z2b isr)]
  | _ => []
  end.

(* [n; kinds...; answers...] -> [0 ok / 1 no path / 2 multiple; index of the chosen path]
   kind of a setUp path: bit 0 = output.error is set, bit 1 = is_stuck() *)
Fixpoint index_paths (i : Z) (errs ans : list Z) : list (spath (Z * Z)) :=
  match errs, ans with
  | e :: es, a :: as_ => mkSpath (Z.odd e) (Z.odd (e / 2)) (i, a) :: index_paths (i + 1) es as_
  | _, _ => []
  end.
Definition c03_setup (a : list Z) : list Z :=
  match a with
  | n :: r =>
      let '(errs, ans) := take n r in
      match setup_select (Z * Z) snd (index_paths 0 errs ans) with
      | SetupOk p => [0; fst (sp_query p)]
      | SetupNoPath => [1; -1]
      | SetupMultiple => [2; -1]
      end
  | _ => []
  end.

(* [setup; test; targets...] -> [warned] *)
Definition c10_loop_warned (a : list Z) : list Z :=
  match a with
  | s :: t :: r => [b2z (loop_bound_warned (mkInvRun (z2b s) (map z2b r) (z2b t)))]
  | _ => []
  end.

Definition c03_width_cut (a : list Z) : list Z :=
  match a with
  | [w; p] => [b2z (width_cut w p)]
  | _ => []
  end.

(* Exec.select with a scripted oracle: [symbolic; n; eq_0; ne_0; ...; eq_{n-1}; ne_{n-1}]  (newest store first; the key of
   store i is the variable i+1, the key read is the variable 0; eq_i / ne_i = the answers to key == key_i / key != key_i)
   -> [tag; position]  (Model/SelectRowModel.select_pos) *)
Fixpoint c03_chain (i : nat) (n : nat) : list (SelectRowSpec.term * SelectRowSpec.term) :=
  match n with O => [] | S m => (SelectRowSpec.TVar (S i), SelectRowSpec.TConst (Z.of_nat i + 1)) :: c03_chain (S i) m end.
Definition c03_script (ans : list Z) (q : SelectRowSpec.query) : Z :=
  match q with
  | SelectRowSpec.QEq _ (SelectRowSpec.TVar (S i)) => nth (2 * i) ans 2
  | SelectRowSpec.QNe _ (SelectRowSpec.TVar (S i)) => nth (2 * i + 1) ans 2
  | _ => 2
  end.
Definition c03_select (a : list Z) : list Z :=
  match a with
  | sym :: n :: ans =>
      SelectRowModel.select_pos GenSelectRow.select_skip GenSelectRow.select_hit (c03_script ans) (z2b sym)
        (c03_chain 0 (Z.to_nat n)) (SelectRowSpec.TVar 0) 0
  | _ => []
  end.

Definition table : list (string * (list Z -> list Z)) :=
  [ ("c03_is_panic_of"%string, c03_is_panic_of);
    ("c03_global_fail"%string, c03_global_fail);
    ("c03_classify"%string, c03_classify);
    ("c03_verdict"%string, c03_verdict);
    ("c03_run_test"%string, c03_run_test);
    ("c03_solve_e2e"%string, c03_solve_e2e);
    ("c03_setup"%string, c03_setup);
    ("c03_width_cut"%string, c03_width_cut);
    ("c03_select"%string, c03_select);
    ("c10_loop_warned"%string, c10_loop_warned) ].

Extraction "_build/C03/entries.ml" table.
