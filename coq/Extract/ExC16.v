(* Extraction entry points for C16 (list Z -> list Z each).
   Identifiers are strings (lists of code points), written length-prefixed: len c1 .. clen.
   A list of strings: n s1 .. sn.  A list of cores: n core1 .. coren.
   A reply: 0 m (sat, valid model m) | 1 m (sat, invalid model) | 2 (unsat, no core)
            | 3 core (unsat with core) | 4 (unknown) | 5 (err). *)
From Coq Require Import ZArith List Bool String.
From Coq Require Extraction.
From Coq Require Import ExtrOcamlBasic ExtrOcamlString.
From HV Require Import Gen.GenUnsatCore Gen.GenCoreAppend Gen.GenCacheUsers Spec.CacheSpec Model.CacheModel Model.CacheTestModel.
Import ListNotations.
Open Scope Z_scope.

Definition sid := list Z.

Fixpoint take_strs (n : nat) (l : list Z) : list sid * list Z :=
  match n with
  | O => ([], l)
  | S n' =>
      match l with
      | [] => ([], [])
      | len :: r =>
          let k := Z.to_nat len in
          let (ss, rest) := take_strs n' (skipn k r) in
          (firstn k r :: ss, rest)
      end
  end.

Definition take_strlist (l : list Z) : list sid * list Z :=
  match l with
  | [] => ([], [])
  | n :: r => take_strs (Z.to_nat n) r
  end.

Fixpoint take_cores (n : nat) (l : list Z) : list (list sid) * list Z :=
  match n with
  | O => ([], l)
  | S n' =>
      let (c, rest) := take_strlist l in
      let (cs, rest') := take_cores n' rest in
      (c :: cs, rest')
  end.

Definition take_corelist (l : list Z) : list (list sid) * list Z :=
  match l with
  | [] => ([], [])
  | n :: r => take_cores (Z.to_nat n) r
  end.

Definition rep := @reply sid Z.

Definition take_reply (l : list Z) : rep * list Z :=
  match l with
  | 0 :: m :: r => (Sat m true, r)
  | 1 :: m :: r => (Sat m false, r)
  | 2 :: r => (Unsat None, r)
  | 3 :: r => let (c, rest) := take_strlist r in (Unsat (Some c), rest)
  | 4 :: r => (Unknown, r)
  | _ :: r => (Err, r)
  | [] => (Err, [])
  end.

Definition enc_str (s : sid) : list Z := Z.of_nat (List.length s) :: s.
Definition enc_strlist (l : list sid) : list Z := Z.of_nat (List.length l) :: List.concat (map enc_str l).
Definition enc_cores (l : list (list sid)) : list Z := Z.of_nat (List.length l) :: List.concat (map enc_strlist l).
Definition enc_reply (r : rep) : list Z :=
  match r with
  | Sat m true => [0; m]
  | Sat m false => [1; m]
  | Unsat None => [2]
  | Unsat (Some c) => 3 :: enc_strlist c
  | Unknown => [4]
  | Err => [5]
  end.

(* [cache; refine_changes; cores; ids; reply_abstract; reply_refined]
   -> [hit] ++ reply ++ cores-after-callback *)
Definition c16_step (a : list Z) : list Z :=
  match a with
  | cache :: rc :: r =>
      let (cores, r1) := take_corelist r in
      let (ids, r2) := take_strlist r1 in
      let (ra, r3) := take_reply r2 in
      let (rr, _) := take_reply r3 in
      let q : query sid unit := map (fun i => (i, tt)) ids in
      let low := fun (refined : bool) (_ : query sid unit) => if refined then rr else ra in
      let o := solve_end_to_end sid str_eqb unit Z low (fun _ => negb (rc =? 0)) (negb (cache =? 0)) cores q in
      (if check_unsat_cores sid str_eqb ids cores then 1 else 0)
        :: enc_reply o ++ enc_cores (callback sid Z cores o)
  | _ => []
  end.

(* [ids; cores] -> [0/1] *)
Definition c16_check (a : list Z) : list Z :=
  let (ids, r1) := take_strlist a in
  let (cores, _) := take_corelist r1 in
  [if check_unsat_cores sid str_eqb ids cores then 1 else 0].

(* code points of the solver output -> [0] | 1 :: ids *)
Definition c16_parse (a : list Z) : list Z :=
  match parse_unsat_core a with
  | None => [0]
  | Some ids => 1 :: enc_strlist ids
  end.

(* [len id..] ++ smtlib text -> cache-mode file for a one-assertion query; [] smtlib gives the named assertion alone *)
Definition c16_named (a : list Z) : list Z :=
  let (ids, _) := take_strs 1 a in
  List.concat (map named_assertion ids).

(* smtlib-length :: smtlib ++ ids -> whole cache-mode file *)
Definition c16_dump (a : list Z) : list Z :=
  match a with
  | n :: r =>
      let k := Z.to_nat n in
      let (ids, _) := take_strlist (skipn k r) in
      dump_cache_file (firstn k r) ids
  | [] => []
  end.

Definition c16_isspace (a : list Z) : list Z := map (fun c => if is_space c then 1 else 0) a.

(* [stuck; normal; result codes (0/1 sat, 2/3 unsat, 4 unknown, 5 err)...] -> verdict code *)
Definition c16_verdict (a : list Z) : list Z :=
  match a with
  | stuck :: normal :: codes =>
      let rs : list rep := map (fun c => if c <=? 1 then Sat 0 true else if c <=? 3 then Unsat None else if c =? 4 then Unknown else Err) codes in
      [match verdict_of sid Z rs (Z.to_nat stuck) (Z.to_nat normal) with
       | VFail => 0 | VError => 1 | VTimeout => 2 | VStuck => 3 | VRevertAll => 4 | VPass => 5
       end]
  | _ => []
  end.

(* one whole test through run_test's path loop (Model/CacheTestModel.v), the solver answering each
   assertion query before the next path is taken.
   [cache; n; path_1 .. path_n], path = kind (0 assert, 1 stuck, 2 normal, 3 other) :: ids ++
   reply_abstract ++ reply_refined ++ [refine_changes]
   -> [verdict; stuck; normal] ++ (n_outs :: replies) ++ (n_consumers :: answered-without-solver flags) ++ cores *)
Definition tq := query sid Z.

Fixpoint take_paths (n : nat) (idx : Z) (l : list Z) : list (pkind * tq * (rep * rep * bool)) :=
  match n with
  | O => []
  | S n' =>
      match l with
      | [] => []
      | k :: r =>
          let (ids, r1) := take_strlist r in
          let (ra, r2) := take_reply r1 in
          let (rr, r3) := take_reply r2 in
          let rc := match r3 with c :: _ => negb (c =? 0) | [] => false end in
          let kind := if k =? 0 then KAssert else if k =? 1 then KStuck else if k =? 2 then KNormal else KOther in
          (kind, map (fun i => (i, idx)) ids, (ra, rr, rc)) :: take_paths n' (idx + 1) (tl r3)
      end
  end.

Definition c16_test (a : list Z) : list Z :=
  match a with
  | cache :: n :: r =>
      let ps := take_paths (Z.to_nat n) 0 r in
      let tab := map snd ps in
      let entry (q : tq) : rep * rep * bool :=
        match q with
        | (_, idx) :: _ => nth (Z.to_nat idx) tab (Err, Err, false)
        | [] => (Err, Err, false)
        end in
      let low := fun (refined : bool) (q : tq) => let '(ra, rr, _) := entry q in if refined then rr else ra in
      let rc := fun (q : tq) => let '(_, _, c) := entry q in c in
      let s := test_run sid str_eqb Z Z low rc (negb (cache =? 0)) (map fst ps) in
      [match verdict_of sid Z (t_outs sid Z s) (t_stuck sid Z s) (t_normal sid Z s) with
       | VFail => 0 | VError => 1 | VTimeout => 2 | VStuck => 3 | VRevertAll => 4 | VPass => 5
       end; Z.of_nat (t_stuck sid Z s); Z.of_nat (t_normal sid Z s)]
      ++ Z.of_nat (List.length (t_outs sid Z s)) :: List.concat (map enc_reply (t_outs sid Z s))
      ++ Z.of_nat (List.length (t_skipped sid Z s)) :: map (fun b : bool => if b then 1 else 0) (t_skipped sid Z s)
      ++ enc_cores (t_cores sid Z s)
  | _ => []
  end.

(* one whole test under a given schedule of the solver pool (sched_run).
   [cache; m; ev_1 .. ev_m; n; path_1 .. path_n], ev = 0 i (the main loop takes path i of the table)
   | 1 j (a worker enters solve_end_to_end for the j-th path taken) | 2 j (its callback runs)
   -> [verdict (9: queries still pending); stuck; normal] ++ (n_outs :: replies in callback order)
      ++ [n_pending] ++ cores *)
Fixpoint take_events (m : nat) (ps : list (tpath sid Z)) (l : list Z) : list (tevent sid Z) :=
  match m with
  | O => []
  | S m' =>
      match l with
      | k :: i :: r =>
          (if k =? 0 then TPath (nth (Z.to_nat i) ps (KOther, []))
           else if k =? 1 then TStart (Z.to_nat i) else TCb (Z.to_nat i)) :: take_events m' ps r
      | _ => []
      end
  end.

Definition c16_sched (a : list Z) : list Z :=
  match a with
  | cache :: m :: r =>
      let k := (2 * Z.to_nat m)%nat in
      match skipn k r with
      | n :: r' =>
          let ps := take_paths (Z.to_nat n) 0 r' in
          let tab := map snd ps in
          let entry (q : tq) : rep * rep * bool :=
            match q with
            | (_, idx) :: _ => nth (Z.to_nat idx) tab (Err, Err, false)
            | [] => (Err, Err, false)
            end in
          let low := fun (refined : bool) (q : tq) => let '(ra, rr, _) := entry q in if refined then rr else ra in
          let rc := fun (q : tq) => let '(_, _, c) := entry q in c in
          let evs := take_events (Z.to_nat m) (map fst ps) (firstn k r) in
          let s := sched_run sid str_eqb Z Z low rc (negb (cache =? 0)) evs in
          let t := s_t sid Z Z s in
          [match sched_verdict sid str_eqb Z Z low rc (negb (cache =? 0)) evs with
           | Some VFail => 0 | Some VError => 1 | Some VTimeout => 2 | Some VStuck => 3 | Some VRevertAll => 4 | Some VPass => 5
           | None => 9
           end; Z.of_nat (t_stuck sid Z t); Z.of_nat (t_normal sid Z t)]
          ++ Z.of_nat (List.length (t_outs sid Z t)) :: List.concat (map enc_reply (t_outs sid Z t))
          ++ Z.of_nat (List.length (s_jobs sid Z Z s)) :: enc_cores (t_cores sid Z t)
      | [] => []
      end
  | _ => []
  end.

Definition table : list (string * (list Z -> list Z)) :=
  [ ("c16_step"%string, c16_step);
    ("c16_check"%string, c16_check);
    ("c16_parse"%string, c16_parse);
    ("c16_named"%string, c16_named);
    ("c16_dump"%string, c16_dump);
    ("c16_isspace"%string, c16_isspace);
    ("c16_verdict"%string, c16_verdict);
    ("c16_test"%string, c16_test);
    ("c16_sched"%string, c16_sched) ].

Extraction "_build/C16/entries.ml" table.
