(* Extraction entry points for C18 (list Z -> list Z each). *)
From Coq Require Import ZArith List Bool String.
From Coq Require Extraction.
From Coq Require Import ExtrOcamlBasic ExtrOcamlString.
From HV Require Import Gen.GenConfig Gen.GenConfigTime Gen.GenConfigMain Gen.GenConfigNatspec Spec.ConfigSpec Model.ConfigFloatModel Model.ConfigModel.
Import ListNotations.
Open Scope Z_scope.

(* ---- decoding of length-prefixed structures ---- *)
Fixpoint take_pairs (n : nat) (l : list Z) : list (Z * Z) * list Z :=
  match n, l with
  | S n', k :: v :: r => let '(ps, rest) := take_pairs n' r in ((k, v) :: ps, rest)
  | _, _ => ([], l)
  end.

Definition take_layer (l : list Z) : list (Z * Z) * list Z :=
  match l with n :: r => take_pairs (Z.to_nat n) r | [] => ([], []) end.

Definition take_annot (l : list Z) : annot * list Z :=
  match l with
  | 0 :: r => (None, r)
  | _ :: r => let '(ps, rest) := take_layer r in (Some ps, rest)
  | [] => (None, [])
  end.

Fixpoint take_fns (n : nat) (l : list Z) : list fn_decl * list Z :=
  match n with
  | O => ([], l)
  | S n' => match l with
            | f :: r => let '(a, r1) := take_annot r in
                        let '(fs, r2) := take_fns n' r1 in ((f, a) :: fs, r2)
            | [] => ([], [])
            end
  end.

Fixpoint take_contracts (n : nat) (l : list Z) : list contract_decl * list Z :=
  match n with
  | O => ([], l)
  | S n' => match l with
            | c :: r => let '(a, r1) := take_annot r in
                        match r1 with
                        | nf :: r2 => let '(fs, r3) := take_fns (Z.to_nat nf) r2 in
                                      let '(cs, r4) := take_contracts n' r3 in ((c, a, fs) :: cs, r4)
                        | [] => ([], [])
                        end
            | [] => ([], [])
            end
  end.

Fixpoint take_stack (n : nat) (l : list Z) : stack * list Z :=
  match n with
  | O => ([], l)
  | S n' => match l with
            | src :: r => let '(ps, r1) := take_layer r in
                          let '(st, r2) := take_stack n' r1 in ((src, ps) :: st, r2)
            | [] => ([], [])
            end
  end.

Definition take_n (l : list Z) : list Z * list Z :=
  match l with n :: r => (firstn (Z.to_nat n) r, skipn (Z.to_nat n) r) | [] => ([], []) end.

Definition enc_vws (r : option Z * Z) : list Z :=
  match r with (Some v, s) => [1; v; s] | (None, s) => [0; 0; s] end.

Definition enc_choice (c : solver_choice) : list Z :=
  match c with
  | UseCommand c => [0; c]
  | UseSolver (Some s) => [1; s]
  | UseSolver None => [2; 0]
  end.

Definition observe (qs : list Z) (st : stack) : list Z :=
  flat_map (fun q => enc_vws (value_with_source q st)) qs ++ enc_choice (resolved_solver_command st).

(* [nq; qs...; nlayers; (src; npairs; k; v; ...)...]   (first layer = most recent) *)
Definition c18_stack (a : list Z) : list Z :=
  let '(qs, r) := take_n a in
  match r with
  | n :: r1 => let '(st, _) := take_stack (Z.to_nat n) r1 in observe qs st
  | [] => []
  end.

(* [nq; qs...; default layer; file annot; cli layer; ncontracts; contracts...]
   -> for every contract, every function (in order): observe qs (its config) *)
Definition c18_main (a : list Z) : list Z :=
  let '(qs, r) := take_n a in
  let '(deflt, r1) := take_layer r in
  let '(file, r2) := take_annot r1 in
  let '(cli, r3) := take_layer r2 in
  match r3 with
  | nc :: r4 =>
      let '(cs, _) := take_contracts (Z.to_nat nc) r4 in
      flat_map (fun cr => flat_map (fun fr => observe qs (snd fr)) (snd cr))
               (main_loop (load_config deflt file cli) cs)
  | [] => []
  end.

(* ---- build.parse_natspec: text -> annotation ---- *)
Definition c18_natspec (a : list Z) : list Z := parse_natspec a.

(* ---- codecs ---- *)
Definition enc_opt_list (r : option (list Z)) : list Z :=
  match r with Some l => 1 :: l | None => [0] end.

Definition c18_csvint_parse (a : list Z) : list Z := enc_opt_list (csvint_parse a).
Definition c18_csvint_unparse (a : list Z) : list Z := csvint_unparse a.
Definition c18_errcodes_parse (a : list Z) : list Z := enc_opt_list (errcodes_parse a).
Definition c18_errcodes_unparse (a : list Z) : list Z := errcodes_unparse a.
Definition c18_trace_parse (a : list Z) : list Z := enc_opt_list (trace_parse a).
Definition c18_trace_unparse (a : list Z) : list Z := trace_unparse a.

(* floats travel as [tag; neg; k]: tag 0 = finite (magnitude k in units of 2^-1074), 1 = inf, 2 = nan *)
Definition enc_f64 (v : f64) : list Z :=
  match v with
  | FFin n k => [0; Z.b2z n; k]
  | FInf n => [1; Z.b2z n; 0]
  | FNan => [2; 0; 0]
  end.

Definition dec_f64 (a : list Z) : option f64 :=
  match a with
  | [0; n; k] => Some (FFin (negb (n =? 0)) k)
  | [1; n; _] => Some (FInf (negb (n =? 0)))
  | [2; _; _] => Some FNan
  | _ => None
  end.

Definition enc_opt_f64 (r : option f64) : list Z :=
  match r with Some v => 1 :: enc_f64 v | None => [0] end.

Definition c18_timeout_parse (a : list Z) : list Z := enc_opt_f64 (timeout_parse a).

(* [tag; neg; k] -> [0] (raises) | 1 :: string *)
Definition c18_timeout_unparse (a : list Z) : list Z :=
  match dec_f64 a with
  | Some v => enc_opt_list (timeout_unparse v)
  | None => []
  end.

(* a number in halmos.toml: [i] / [tag; neg; k] *)
Definition c18_timeout_parse_int (a : list Z) : list Z :=
  match a with [i] => enc_opt_f64 (timeout_parse_int i) | _ => [] end.
Definition c18_timeout_parse_float (a : list Z) : list Z :=
  match dec_f64 a with Some v => enc_opt_f64 (timeout_parse_float v) | None => [] end.

(* the float library model on its own: float(s), repr(v) *)
Definition c18_py_float (a : list Z) : list Z := enc_opt_f64 (py_float a).
Definition c18_float_repr (a : list Z) : list Z :=
  match dec_f64 a with Some v => float_repr v | None => [] end.

Definition enc_item (kv : list Z * list Z) : list Z :=
  (Z.of_nat (List.length (fst kv)) :: fst kv ++ Z.of_nat (List.length (snd kv)) :: snd kv)%list.

Definition c18_arrlen_parse (a : list Z) : list Z :=
  match arrlen_parse a with
  | AOk d => 1 :: Z.of_nat (List.length d) :: flat_map enc_item d
  | AReject => [0]
  | AOutOfFuel => [2]
  end.

Fixpoint take_items (n : nat) (l : list Z) : list (list Z * list Z) :=
  match n with
  | O => []
  | S n' => let '(k, r) := take_n l in let '(v, r1) := take_n r in (k, v) :: take_items n' r1
  end.

Definition c18_arrlen_unparse (a : list Z) : list Z :=
  match a with n :: r => arrlen_unparse (take_items (Z.to_nat n) r) | [] => [] end.

Definition c18_int0 (a : list Z) : list Z := match py_int0 a with Some v => [1; v] | None => [0] end.
Definition c18_int10 (a : list Z) : list Z := match py_int10 a with Some v => [1; v] | None => [0] end.

Definition table : list (string * (list Z -> list Z)) :=
  [ ("c18_stack"%string, c18_stack);
    ("c18_main"%string, c18_main);
    ("c18_natspec"%string, c18_natspec);
    ("c18_csvint_parse"%string, c18_csvint_parse);
    ("c18_csvint_unparse"%string, c18_csvint_unparse);
    ("c18_errcodes_parse"%string, c18_errcodes_parse);
    ("c18_errcodes_unparse"%string, c18_errcodes_unparse);
    ("c18_trace_parse"%string, c18_trace_parse);
    ("c18_trace_unparse"%string, c18_trace_unparse);
    ("c18_timeout_parse"%string, c18_timeout_parse);
    ("c18_timeout_unparse"%string, c18_timeout_unparse);
    ("c18_timeout_parse_int"%string, c18_timeout_parse_int);
    ("c18_timeout_parse_float"%string, c18_timeout_parse_float);
    ("c18_py_float"%string, c18_py_float);
    ("c18_float_repr"%string, c18_float_repr);
    ("c18_arrlen_parse"%string, c18_arrlen_parse);
    ("c18_arrlen_unparse"%string, c18_arrlen_unparse);
    ("c18_int0"%string, c18_int0);
    ("c18_int10"%string, c18_int10) ].

Extraction "_build/C18/entries.ml" table.
