(* Extraction entry points for C12 (list Z -> list Z each).
   Serialisations (all prefix codes over Z):
     str    = len c1 .. cn
     nats   = len n1 .. nn
     ty     = 0 str | 1 n ty | 2 ty | 3 count (str ty)*
     cfg    = count (str nats)* nats(default array) nats(default bytes)
     jitem  = str(name) str(type) count jitem*
     item   = 0 k str(name) str(typ) | 1 k str str n | 2 k str nats | 3 z
     dynp   = str nats id is_array
     value  = 0 w | 1 len bytes | 2 count value*                                   *)
From Coq Require Import String.
From Coq Require Import ZArith List Bool.
From Coq Require Extraction.
From Coq Require Import ExtrOcamlBasic ExtrOcamlString.
From HV Require Import Spec.AbiSpec Gen.GenAbiEnc Model.AbiEncModel.
Import ListNotations.
Open Scope Z_scope.

Definition natZ (n : nat) : Z := Z.of_nat n.

Definition take_str (l : list Z) : option (list Z * list Z) :=
  match l with
  | n :: r => let n' := Z.to_nat n in
              if (n' <=? List.length r)%nat then Some (firstn n' r, skipn n' r) else None
  | [] => None
  end.

Definition take_nats (l : list Z) : option (list nat * list Z) :=
  match take_str l with Some (s, r) => Some (map Z.to_nat s, r) | None => None end.

Fixpoint de_ty (fuel : nat) (l : list Z) : option (ty * list Z) :=
  match fuel with
  | O => None
  | S f =>
      match l with
      | 0 :: r => match take_str r with Some (s, r') => Some (Base s, r') | None => None end
      | 1 :: n :: r => match de_ty f r with Some (t, r') => Some (Fixed t (Z.to_nat n), r') | None => None end
      | 2 :: r => match de_ty f r with Some (t, r') => Some (Dyn t, r') | None => None end
      | 3 :: n :: r =>
          match
            (fix items (cnt : nat) (l : list Z) : option (list (str * ty) * list Z) :=
               match cnt with
               | O => Some ([], l)
               | S c =>
                   match take_str l with
                   | Some (nm, l1) =>
                       match de_ty f l1 with
                       | Some (t, l2) =>
                           match items c l2 with
                           | Some (its, l3) => Some ((nm, t) :: its, l3)
                           | None => None
                           end
                       | None => None
                       end
                   | None => None
                   end
               end) (Z.to_nat n) r
          with
          | Some (its, r') => Some (Tuple its, r')
          | None => None
          end
      | _ => None
      end
  end.

Definition ser_str (s : list Z) : list Z := natZ (List.length s) :: s.
Definition ser_nats (s : list nat) : list Z := natZ (List.length s) :: map natZ s.

Fixpoint ser_ty (t : ty) : list Z :=
  match t with
  | Base s => 0 :: ser_str s
  | Fixed t' n => 1 :: natZ n :: ser_ty t'
  | Dyn t' => 2 :: ser_ty t'
  | Tuple its => 3 :: natZ (List.length its) :: concat (map (fun it => ser_str (fst it) ++ ser_ty (snd it)) its)
  end.

Fixpoint de_lengths (cnt : nat) (l : list Z) : option (list (str * list nat) * list Z) :=
  match cnt with
  | O => Some ([], l)
  | S c =>
      match take_str l with
      | Some (nm, l1) =>
          match take_nats l1 with
          | Some (sz, l2) =>
              match de_lengths c l2 with
              | Some (m, l3) => Some ((nm, sz) :: m, l3)
              | None => None
              end
          | None => None
          end
      | None => None
      end
  end.

Definition de_cfg (l : list Z) : option (cfg * list Z) :=
  match l with
  | n :: r =>
      match de_lengths (Z.to_nat n) r with
      | Some (m, r1) =>
          match take_nats r1 with
          | Some (a, r2) =>
              match take_nats r2 with
              | Some (b, r3) => Some ({| c_lengths := m; c_array := a; c_bytes := b |}, r3)
              | None => None
              end
          | None => None
          end
      | None => None
      end
  | [] => None
  end.

Definition ser_item (it : item) : list Z :=
  match it with
  | SymWord k nm tp => 0 :: natZ k :: ser_str nm ++ ser_str tp
  | SymBytes k nm tp n => 1 :: natZ k :: ser_str nm ++ ser_str tp ++ [natZ n]
  | SizeVar k nm sz => 2 :: natZ k :: ser_str nm ++ ser_nats sz
  | Con z => [3; z]
  end.

Definition ser_dynp (d : dynp) : list Z :=
  ser_str (d_name d) ++ ser_nats (d_sizes d) ++ [natZ (d_id d); if d_array d then 1 else 0].

(* [k0] cfg ty -> [1; size; static; k'; n_items; items..; n_dyn; dyns..]  or [0] *)
Definition c12_encode (a : list Z) : list Z :=
  match a with
  | k0 :: r =>
      match de_cfg r with
      | Some (c, r1) =>
          match de_ty (S (List.length r1)) r1 with
          | Some (t, _) =>
              let '(e, ds, k') := create c t (Z.to_nat k0) in
              [1; natZ (e_size e); if e_static e then 1 else 0; natZ k';
               natZ (List.length (e_items e))] ++ concat (map ser_item (e_items e))
              ++ [natZ (List.length ds)] ++ concat (map ser_dynp ds)
          | None => [0]
          end
      | None => [0]
      end
  | [] => [0]
  end.

Fixpoint de_jitem (fuel : nat) (l : list Z) : option (jitem * list Z) :=
  match fuel with
  | O => None
  | S f =>
      match take_str l with
      | Some (nm, l1) =>
          match take_str l1 with
          | Some (tp, n :: l2) =>
              match
                (fix items (cnt : nat) (l : list Z) : option (list jitem * list Z) :=
                   match cnt with
                   | O => Some ([], l)
                   | S c =>
                       match de_jitem f l with
                       | Some (j, l') =>
                           match items c l' with
                           | Some (js, l'') => Some (j :: js, l'')
                           | None => None
                           end
                       | None => None
                       end
                   end) (Z.to_nat n) l2
              with
              | Some (js, l3) => Some (JItem nm tp js, l3)
              | None => None
              end
          | _ => None
          end
      | None => None
      end
  end.

(* jitem (a pseudo-item whose components are the inputs) -> [1; ty] | [0] (exception) | [2] (bad input) *)
Definition c12_parse (a : list Z) : list Z :=
  match de_jitem (S (List.length a)) a with
  | Some (JItem _ _ inputs, _) =>
      match parse_inputs inputs with
      | Some t => 1 :: ser_ty t
      | None => [0]
      end
  | None => [2]
  end.

Fixpoint ser_value (v : value) : list Z :=
  match v with
  | VWord w => [0; w]
  | VBytes bs => 1 :: ser_str bs
  | VSeq vs => 2 :: natZ (List.length vs) :: concat (map ser_value vs)
  end.

(* ty  str(buffer) -> [1; value] | [0] *)
Definition c12_decode (a : list Z) : list Z :=
  match de_ty (S (List.length a)) a with
  | Some (t, r) =>
      match take_str r with
      | Some (buf, _) =>
          match decode buf t 0 with
          | Some v => 1 :: ser_value v
          | None => [0]
          end
      | None => [2]
      end
  | None => [2]
  end.

Fixpoint de_pairs (cnt : nat) (l : list Z) : option (list (nat * Z) * list Z) :=
  match cnt, l with
  | O, _ => Some ([], l)
  | S c, k :: z :: r =>
      match de_pairs c r with Some (m, r') => Some ((Z.to_nat k, z) :: m, r') | None => None end
  | _, _ => None
  end.

Fixpoint de_dyns (cnt : nat) (l : list Z) : option (list dynp * list Z) :=
  match cnt, l with
  | O, _ => Some ([], l)
  | S c, k :: r =>
      match take_nats r with
      | Some (sz, r1) =>
          match de_dyns c r1 with
          | Some (m, r2) => Some ({| d_name := []; d_sizes := sz; d_id := Z.to_nat k; d_array := false |} :: m, r2)
          | None => None
          end
      | None => None
      end
  | _, _ => None
  end.

(* n_subst (k z)*  n_dyn (id nats)*  kind k  ->  n (has_cond k cand push_kind z)* *)
Definition c12_calldataload (a : list Z) : list Z :=
  match a with
  | ns :: r =>
      match de_pairs (Z.to_nat ns) r with
      | Some (subst, nd :: r1) =>
          match de_dyns (Z.to_nat nd) r1 with
          | Some (ds, kind :: k :: _) =>
              let l := if kind =? 1 then LVar (Z.to_nat k) else LOther in
              let brs := calldataload subst (process_dyn_params ds []) l in
              natZ (List.length brs) ::
              concat (map (fun br =>
                match br with
                | (Some (k', c), PConst z) => [1; natZ k'; natZ c; 1; z]
                | (Some (k', c), PSame) => [1; natZ k'; natZ c; 0; 0]
                | (None, PConst z) => [0; 0; 0; 1; z]
                | (None, PSame) => [0; 0; 0; 0; 0]
                end) brs)
          | _ => [-1]
          end
      | _ => [-1]
      end
  | [] => [-1]
  end.

Definition ser_branches (brs : list (option (nat * nat) * pushed)) : list Z :=
  natZ (List.length brs) ::
  concat (map (fun br =>
    match br with
    | (Some (k', c), PConst z) => [1; natZ k'; natZ c; 1; z]
    | (Some (k', c), PSame) => [1; natZ k'; natZ c; 0; 0]
    | (None, PConst z) => [0; 0; 0; 1; z]
    | (None, PSame) => [0; 0; 0; 0; 0]
    end) brs).

(* event = 0 cfg ty | 1 (Path.branch) | 2 (extend_path) | 3 k z (fix) | 4 n (skip n symbols) *)
Fixpoint de_events (cnt : nat) (l : list Z) : option (list pev) :=
  match cnt with
  | O => Some []
  | S c =>
      match l with
      | 0 :: r =>
          match de_cfg r with
          | Some (cf, r1) =>
              match de_ty (S (List.length r1)) r1 with
              | Some (t, r2) =>
                  match de_events c r2 with Some evs => Some (EvCalldata cf t :: evs) | None => None end
              | None => None
              end
          | None => None
          end
      | 1 :: r => match de_events c r with Some evs => Some (EvBranch :: evs) | None => None end
      | 2 :: r => match de_events c r with Some evs => Some (EvExtend :: evs) | None => None end
      | 3 :: k :: z :: r => match de_events c r with Some evs => Some (EvFix (Z.to_nat k) z :: evs) | None => None end
      | 4 :: n :: r => match de_events c r with Some evs => Some (EvSkip (Z.to_nat n) :: evs) | None => None end
      | _ => None
      end
  end.

(* k0 n_events event*  ->  [1; next index; n_dyn; (dynp branches-of-its-size-symbol-in-the-final-state)*] | [0] *)
Definition c12_path (a : list Z) : list Z :=
  match a with
  | k0 :: n :: r =>
      match de_events (Z.to_nat n) r with
      | Some evs =>
          let '(s', all) := prun {| p_next := Z.to_nat k0; p_subst := []; p_cands := [] |} evs in
          [1; natZ (p_next s'); natZ (List.length all)]
          ++ concat (map (fun d => ser_dynp d ++ ser_branches (calldataload (p_subst s') (p_cands s') (LVar (d_id d)))) all)
      | None => [0]
      end
  | _ => [0]
  end.

Definition table : list (string * (list Z -> list Z)) :=
  [ ("c12_encode"%string, c12_encode);
    ("c12_parse"%string, c12_parse);
    ("c12_decode"%string, c12_decode);
    ("c12_calldataload"%string, c12_calldataload);
    ("c12_path"%string, c12_path) ].

Extraction "_build/C12/entries.ml" table.
