(* Extraction entries for Model/BranchPoints.v over a FINITE valuation space 0..nv-1, so that the
   model's alternatives can be compared with what the real code produces: terms are value tables,
   conditions are evaluated on every valuation of the path.  The oracle is the complete one
   (sat iff some valuation of the path satisfies the condition) or, with unk = 1, always `unknown`. *)
From Coq Require Import ZArith List Bool String.
From Coq Require Extraction.
From Coq Require Import ExtrOcamlBasic ExtrOcamlString.
From HV Require Import Gen.GenBranch Gen.GenAssertBranch Model.BranchPoints.
Import ListNotations.
Open Scope Z_scope.

Definition pop1 (l : list Z) : Z * list Z := match l with x :: r => (x, r) | [] => (0, []) end.
Definition popn (n : Z) (l : list Z) : list Z * list Z := (firstn (Z.to_nat n) l, skipn (Z.to_nat n) l).
Definition range (n : Z) : list Z := map Z.of_nat (seq 0 (Z.to_nat n)).
Definition table_fn (t : list Z) (v : Z) : Z := nth (Z.to_nat v) t 0.

(* Exec.check decides a condition that simplifies to a literal before asking the solver: a condition that is
   constant over the whole valuation space is answered sat / unsat even by the always-`unknown` solver *)
Definition oracle (nv : Z) (pathmask : list Z) (unk : Z) (c : cnd Z) : Z :=
  if unk =? 1 then
    (if forallb c (range nv) then 1 else if forallb (fun v => negb (c v)) (range nv) then 0 else 2)
  else if existsb (fun v => negb (table_fn pathmask v =? 0) && c v) (range nv) then 1 else 0.

Definition bits (nv : Z) (c : cnd Z) : list Z := map (fun v => if c v then 1 else 0) (range nv).

(* [test; na; accts...; nv; tgt table...; pathmask...; unk]  ->  [n; (alias or -1; bits...)...] *)
Definition bp_alias (inp : list Z) : list Z :=
  let '(test, l) := pop1 inp in
  let '(na, l) := pop1 l in let '(accts, l) := popn na l in
  let '(nv, l) := pop1 l in let '(tgt, l) := popn nv l in
  let '(mask, l) := popn nv l in
  let '(unk, _) := pop1 l in
  let alts := alias_alternatives Z (oracle nv mask unk) accts test (table_fn tgt) in
  Z.of_nat (List.length alts) ::
  flat_map (fun oc : option Z * cnd Z => (match fst oc with Some a => a | None => -1 end) :: bits nv (snd oc)) alts.

(* [nv; bal table...; val table...; pathmask...; unk] -> [n; (fails; bits...)...] *)
Definition bp_funds (inp : list Z) : list Z :=
  let '(nv, l) := pop1 inp in
  let '(bal, l) := popn nv l in let '(val, l) := popn nv l in
  let '(mask, l) := popn nv l in
  let '(unk, _) := pop1 l in
  let alts := funds_alternatives Z (oracle nv mask unk) (table_fn bal) (table_fn val) in
  Z.of_nat (List.length alts) ::
  flat_map (fun fc : bool * cnd Z => (if fst fc then 1 else 0) :: bits nv (snd fc)) alts.

(* [nd; valid...; nv; dst table...; pathmask...; unk] -> [-1] (whole state halts) | [n; (target; bits...)...; 0 | 1; bits of the halting branch...] *)
Definition bp_jump (inp : list Z) : list Z :=
  let '(nd, l) := pop1 inp in let '(valid, l) := popn nd l in
  let '(nv, l) := pop1 l in let '(dst, l) := popn nv l in
  let '(mask, l) := popn nv l in
  let '(unk, _) := pop1 l in
  match jump_alternatives Z (oracle nv mask unk) valid (table_fn dst) with
  | None => [-1]
  | Some alts => Z.of_nat (List.length alts) :: flat_map (fun tc : Z * cnd Z => fst tc :: bits nv (snd tc)) alts ++
                 match jump_invalid_alternative Z (oracle nv mask unk) valid (table_fn dst) with
                 | Some c => 1 :: bits nv c
                 | None => [0]
                 end
  end.

(* [nv; cond table (0/1)...; pathmask...; unk] -> [n; (fails; bits...)...] *)
Definition bp_assert (inp : list Z) : list Z :=
  let '(nv, l) := pop1 inp in
  let '(c, l) := popn nv l in
  let '(mask, l) := popn nv l in
  let '(unk, _) := pop1 l in
  let alts := assert_alternatives Z (oracle nv mask unk) (fun v => negb (table_fn c v =? 0)) in
  Z.of_nat (List.length alts) ::
  flat_map (fun fc : bool * cnd Z => (if fst fc then 1 else 0) :: bits nv (snd fc)) alts.

Definition table : list (string * (list Z -> list Z)) :=
  [ ("bp_alias"%string, bp_alias); ("bp_funds"%string, bp_funds); ("bp_jump"%string, bp_jump); ("bp_assert"%string, bp_assert) ].

Extraction "_build/BP/entries.ml" table.
