(* Extraction entry points for C07 (list Z -> list Z).  The byte type is instantiated
   with Z: 0..255 = a concrete byte, any other code = the identity of one byte of a
   symbolic value (the harness maps codes to bytes of fresh z3 symbols and evaluates them
   under valuations). *)
From Coq Require Import ZArith List Bool String.
From Coq Require Extraction.
From Coq Require Import ExtrOcamlBasic ExtrOcamlString.
From HV Require Import Spec.ByteVecSpec Model.ByteVecModel Model.ByteVecHeapModel Model.MemOpsModel.
Import ListNotations.
Open Scope Z_scope.

Definition zn (z : Z) : nat := Z.to_nat z.
Definition nz (n : nat) : Z := Z.of_nat n.
Definition FUEL : nat := 64%nat.

Inductive cmd : Type :=
| CStep (s : hstep Z)
| CGet (r off : nat)          (* objects[r].get_byte(off) *)
| CUnwrap (r : nat)           (* objects[r].unwrap() *)
| CWord (r off : nat)         (* objects[r].slice(off, off + 32).unwrap() *)
| CSetItem (r : nat) (start stop : option nat) (v : hval Z)    (* objects[r][start:stop] = v *)
| CObs (r : nat) (q : obs).   (* len(objects[r]) / objects[r].slice(a, b).unwrap() / objects[r][start:stop].unwrap() *)

(* value encodings:  0 sym n d1..dn start len | 1 r a b | 2 r *)
Definition dec_val (l : list Z) : option (hval Z * list Z) :=
  match l with
  | t :: r =>
      if t =? 0 then
        match r with
        | sym :: n :: r1 =>
            match skipn (zn n) r1 with
            | st :: ln :: r2 => Some (HVLeaf (Leaf (sym =? 1) (firstn (zn n) r1) (zn st) (zn ln)), r2)
            | _ => None
            end
        | _ => None
        end
      else if t =? 1 then
        match r with
        | o :: a :: b :: r1 => Some (HVSlice (zn o) (zn a) (zn b), r1)
        | _ => None
        end
      else if t =? 2 then
        match r with
        | o :: r1 => Some (HVWhole (zn o), r1)
        | _ => None
        end
      else None
  | [] => None
  end.

(* command encodings:
   0 | 1 r | 2 r a b | 3 r <val> | 4 r off sym x | 5 r a b <val> | 6 r off <val>
   7 r off | 8 r | 9 r off | 10 r has_start start has_stop stop <val>
   11 r | 12 r a b | 13 r has_start start has_stop stop        (observations: len, slice, v[start:stop]) *)
Fixpoint dec_cmds (fuel : nat) (l : list Z) : list cmd :=
  match fuel with
  | O => []
  | S f =>
      match l with
      | [] => []
      | t :: r =>
          if t =? 0 then CStep HNew :: dec_cmds f r
          else if t =? 1 then
            match r with o :: r1 => CStep (HCopy (zn o)) :: dec_cmds f r1 | _ => [] end
          else if t =? 2 then
            match r with
            | o :: a :: b :: r1 => CStep (HSliceOf (zn o) (zn a) (zn b)) :: dec_cmds f r1
            | _ => []
            end
          else if t =? 3 then
            match r with
            | o :: r1 =>
                match dec_val r1 with
                | Some (v, r2) => CStep (HMut (zn o) (HAppend v)) :: dec_cmds f r2
                | None => []
                end
            | _ => []
            end
          else if t =? 4 then
            match r with
            | o :: off :: sym :: x :: r1 =>
                CStep (HMut (zn o) (HSetByte (zn off) (sym =? 1) x)) :: dec_cmds f r1
            | _ => []
            end
          else if t =? 5 then
            match r with
            | o :: a :: b :: r1 =>
                match dec_val r1 with
                | Some (v, r2) => CStep (HMut (zn o) (HSetSlice (zn a) (zn b) v)) :: dec_cmds f r2
                | None => []
                end
            | _ => []
            end
          else if t =? 6 then
            match r with
            | o :: off :: r1 =>
                match dec_val r1 with
                | Some (v, r2) => CStep (HMut (zn o) (HSetWord (zn off) v)) :: dec_cmds f r2
                | None => []
                end
            | _ => []
            end
          else if t =? 7 then
            match r with o :: off :: r1 => CGet (zn o) (zn off) :: dec_cmds f r1 | _ => [] end
          else if t =? 8 then
            match r with o :: r1 => CUnwrap (zn o) :: dec_cmds f r1 | _ => [] end
          else if t =? 9 then
            match r with o :: off :: r1 => CWord (zn o) (zn off) :: dec_cmds f r1 | _ => [] end
          else if t =? 11 then
            match r with o :: r1 => CObs (zn o) OLen :: dec_cmds f r1 | _ => [] end
          else if t =? 12 then
            match r with o :: a :: b :: r1 => CObs (zn o) (OSliceQ (zn a) (zn b)) :: dec_cmds f r1 | _ => [] end
          else if t =? 13 then
            match r with
            | o :: hs :: a :: he :: b :: r1 =>
                CObs (zn o) (OItem (if hs =? 1 then Some (zn a) else None) (if he =? 1 then Some (zn b) else None))
                  :: dec_cmds f r1
            | _ => []
            end
          else if t =? 10 then
            match r with
            | o :: hs :: a :: he :: b :: r1 =>
                match dec_val r1 with
                | Some (v, r2) =>
                    CSetItem (zn o) (if hs =? 1 then Some (zn a) else None)
                             (if he =? 1 then Some (zn b) else None) v :: dec_cmds f r2
                | None => []
                end
            | _ => []
            end
          else []
      end
  end.

(* chunk layout, depth first: key len kind(0 concrete,1 symbolic) start data_len
                              key len 2 nchunks 0  followed by the nested entries *)
Fixpoint lay (c : chunk Z) (key : nat) : list Z :=
  match c with
  | Leaf sym d s l => [nz key; nz l; if sym then 1 else 0; nz s; nz (List.length d)]
  | Nest _ cs len =>
      [nz key; nz len; 2; nz (List.length cs); 0] ++ flat_map (fun kc => lay (snd kc) (fst kc)) cs
  end.

Definition obs_obj (h : heap Z) (r : nat) : option (list Z) :=
  match h_load Z FUEL h r with
  | Some t =>
      let l := flat_map (fun kc => lay (snd kc) (fst kc)) (chunks t) in
      let f := flat t in
      Some ([nz (blen t); nz (List.length l)] ++ l ++ [nz (List.length f)] ++ f)
  | None => None
  end.

Fixpoint obs_all (h : heap Z) (n : nat) (r : nat) : option (list Z) :=
  match n with
  | O => Some []
  | S m =>
      match obs_obj h r, obs_all h m (S r) with
      | Some a, Some b => Some (a ++ b)
      | _, _ => None
      end
  end.

Definition out_seg (s : seg Z) : list Z :=
  [if fst s then 0 else 1; nz (List.length (snd s))] ++ snd s.

Definition framed (l : list Z) : list Z := nz (List.length l) :: l.

Definition exec_step (h : heap Z) (s : hstep Z) (k : heap Z -> list Z) : list Z :=
  match h_step Z 0 FUEL h s with
  | Some (h', raised) =>
      match obs_all h' (List.length h') O with
      | Some o => framed ([if raised then 1 else 0; nz (List.length h')] ++ o) ++ k h'
      | None => [1; -1]
      end
  | None => [1; -1]
  end.

(* every command emits  n x1..xn ; a model error emits  1 -1  and stops *)
Fixpoint exec (h : heap Z) (cs : list cmd) : list Z :=
  match cs with
  | [] => []
  | c :: r =>
      let exec_after := fun h' => exec h' r in
      match c with
      | CStep s => exec_step h s exec_after
      | CSetItem o os oe v =>
          (* __setitem__ resolves the bounds against the receiver's current length, then
             calls set_slice (ByteVecModel.setitem_slice) *)
          match h_load Z FUEL h o with
          | Some t =>
              exec_step h (HMut o (HSetSlice (fst (setitem_bounds t os oe)) (snd (setitem_bounds t os oe)) v)) exec_after
          | None => [1; -1]
          end
      | CGet o off =>
          match h_load Z FUEL h o with
          | Some t => framed [get_byte Z 0 t off] ++ exec h r
          | None => [1; -1]
          end
      | CUnwrap o =>
          match h_load Z FUEL h o with
          | Some t => framed (out_seg (unwrap t)) ++ exec h r
          | None => [1; -1]
          end
      | CWord o off =>
          match h_load Z FUEL h o with
          | Some t => framed (out_seg (get_word Z 0 t off)) ++ exec h r
          | None => [1; -1]
          end
      | CObs o q =>
          match h_load Z FUEL h o with
          | Some t =>
              framed (match observe Z 0 t q with FRLen n => [nz n] | FRBytes l => l end) ++ exec h r
          | None => [1; -1]
          end
      end
  end.

Definition c07_run (a : list Z) : list Z := exec [] (dec_cmds (S (List.length a)) a).

(* ByteVec(bytes d)[start:stop] = bytes x
   [has_start; start; has_stop; stop; n; d1..dn; m; x1..xm] -> [raised; len; bytes...] *)
Definition c07_setitem (a : list Z) : list Z :=
  match a with
  | hs :: s :: he :: e :: n :: r =>
      let d := firstn (zn n) r in
      match skipn (zn n) r with
      | m :: r2 =>
          let x := firstn (zn m) r2 in
          let v := append (@empty Z) (wrap false d) in
          let os := if hs =? 1 then Some (zn s) else None in
          let oe := if he =? 1 then Some (zn e) else None in
          match setitem_slice Z 0 v os oe (wrap false x) with
          | Some v' => [0; nz (blen v')] ++ flat v'
          | None => [1; nz (blen v)] ++ flat v
          end
      | [] => []
      end
  | _ => []
  end.

(* ByteVec(bytes d)[start:stop]  ->  [len; bytes...] *)
Definition c07_getitem (a : list Z) : list Z :=
  match a with
  | hs :: s :: he :: e :: n :: r =>
      let d := firstn (zn n) r in
      let v := append (@empty Z) (wrap false d) in
      let os := if hs =? 1 then Some (zn s) else None in
      let oe := if he =? 1 then Some (zn e) else None in
      let g := getitem_slice Z 0 v os oe in
      nz (blen g) :: flat g
  | _ => []
  end.

(* ---- the memory-instruction layer (Model/MemOpsModel.v) ----
   leaf:  sym n d1..dn start len          bvec:  k leaf1..leafk  (ByteVec([...]): appended)
   basic op:  0 loc <leaf> | 1 loc sym x | 2 kind loc off size [<bvec> when kind = 3]
              (kind 0 calldata, 1 code, 2 account without code, 3 account with code)
              | 3 loc off size | 4 dst src size | 5 src dst
   op:        <basic op> | 6 <bvec ccode> aloc asize nbody <basic ops> roff rsize oloc osize
              | 7 loc size nbody <basic ops> roff rsize reverts
   input:     <bvec calldata> <bvec code> nops <ops>
   input:     ... optionally followed by  roff rsize  (the frame ends with RETURN / REVERT)
   output:    status (0 ok, 1 halt, 2 python exception, 3 malformed input)
              [len; nlayout; layout...; nflat; flat...; nrd; rd...; msize; nout; out...]  *)
Definition dec_leaf (l : list Z) : option (chunk Z * list Z) :=
  match l with
  | sym :: n :: r1 =>
      match skipn (zn n) r1 with
      | st :: ln :: r2 => Some (Leaf (sym =? 1) (firstn (zn n) r1) (zn st) (zn ln), r2)
      | _ => None
      end
  | _ => None
  end.

Fixpoint dec_leaves (k : nat) (l : list Z) : option (list (chunk Z) * list Z) :=
  match k with
  | O => Some ([], l)
  | S k' =>
      match dec_leaf l with
      | Some (c, r) =>
          match dec_leaves k' r with
          | Some (cs, r2) => Some (c :: cs, r2)
          | None => None
          end
      | None => None
      end
  end.

Definition dec_bvec (l : list Z) : option (bvec Z * list Z) :=
  match l with
  | k :: r =>
      match dec_leaves (zn k) r with
      | Some (cs, r2) => Some (from_leaves cs, r2)
      | None => None
      end
  | [] => None
  end.

Definition dec_mbop (l : list Z) : option (mbop Z * list Z) :=
  match l with
  | t :: r =>
      if t =? 0 then
        match r with
        | loc :: r1 => match dec_leaf r1 with Some (c, r2) => Some (MMStore (zn loc) c, r2) | None => None end
        | _ => None
        end
      else if t =? 1 then
        match r with loc :: sym :: x :: r1 => Some (MMStore8 (zn loc) (sym =? 1) x, r1) | _ => None end
      else if t =? 2 then
        match r with
        | kind :: loc :: off :: size :: r1 =>
            if kind =? 0 then Some (MCopyIn MCalldata (zn loc) (zn off) (zn size), r1)
            else if kind =? 1 then Some (MCopyIn MCode (zn loc) (zn off) (zn size), r1)
            else if kind =? 2 then Some (MCopyIn (MExt None) (zn loc) (zn off) (zn size), r1)
            else match dec_bvec r1 with
                 | Some (c, r2) => Some (MCopyIn (MExt (Some c)) (zn loc) (zn off) (zn size), r2)
                 | None => None
                 end
        | _ => None
        end
      else if t =? 3 then
        match r with loc :: off :: size :: r1 => Some (MRetCopy (zn loc) (zn off) (zn size), r1) | _ => None end
      else if t =? 4 then
        match r with dst :: src :: size :: r1 => Some (MMCopy (zn dst) (zn src) (zn size), r1) | _ => None end
      else if t =? 5 then
        match r with src :: dst :: r1 => Some (MLoadStore (zn src) (zn dst), r1) | _ => None end
      else None
  | [] => None
  end.

Fixpoint dec_mbops (k : nat) (l : list Z) : option (list (mbop Z) * list Z) :=
  match k with
  | O => Some ([], l)
  | S k' =>
      match dec_mbop l with
      | Some (o, r) =>
          match dec_mbops k' r with
          | Some (os, r2) => Some (o :: os, r2)
          | None => None
          end
      | None => None
      end
  end.

Definition dec_mop (l : list Z) : option (mop Z * list Z) :=
  match l with
  | t :: r =>
      if t =? 6 then
        match dec_bvec r with
        | Some (cc, aloc :: asize :: nb :: r1) =>
            match dec_mbops (zn nb) r1 with
            | Some (body, roff :: rsize :: oloc :: osize :: r2) =>
                Some (MCall cc (zn aloc) (zn asize) body (zn roff) (zn rsize) (zn oloc) (zn osize), r2)
            | _ => None
            end
        | _ => None
        end
      else if t =? 7 then
        match r with
        | loc :: size :: nb :: r1 =>
            match dec_mbops (zn nb) r1 with
            | Some (body, roff :: rsize :: rev :: r2) =>
                Some (MCreate (zn loc) (zn size) body (zn roff) (zn rsize) (rev =? 1), r2)
            | _ => None
            end
        | _ => None
        end
      else match dec_mbop l with Some (b, r1) => Some (MB b, r1) | None => None end
  | [] => None
  end.

Fixpoint dec_mops (k : nat) (l : list Z) : option (list (mop Z) * list Z) :=
  match k with
  | O => Some ([], l)
  | S k' =>
      match dec_mop l with
      | Some (o, r) => match dec_mops k' r with Some (os, r2) => Some (o :: os, r2) | None => None end
      | None => None
      end
  end.

Definition c07_mem (a : list Z) : list Z :=
  match dec_bvec a with
  | Some (cd, r) =>
      match dec_bvec r with
      | Some (code, n :: r1) =>
          match dec_mops (zn n) r1 with
          | Some (ops, tail) =>
              match m_run 0 (ME cd code false) (MF empty empty) ops with
              | ROk st =>
                  let t := m_mem st in
                  let l := flat_map (fun kc => lay (snd kc) (fst kc)) (chunks t) in
                  let f := flat t in
                  let rd := flat (m_rd st) in
                  (* the frame ends with RETURN / REVERT (roff, rsize): State.ret = mslice *)
                  let out := match tail with
                             | roff :: rsize :: _ => flat (mslice 0 t (zn roff) (zn rsize))
                             | _ => []
                             end in
                  [0; nz (blen t); nz (List.length l)] ++ l ++ [nz (List.length f)] ++ f
                    ++ [nz (List.length rd)] ++ rd ++ [nz (msize t)] ++ [nz (List.length out)] ++ out
              | RHalt => [1]
              | RErr => [2]
              end
          | None => [3]
          end
      | _ => [3]
      end
  | None => [3]
  end.

(* the code deployed by a creation executed after [ops]:
   <bvec calldata> <bvec code> nops <ops> loc size nbody <basic ops> roff rsize
   -> [0; n; bytes...] deployed | [1] nothing deployed (the init code halts) | [2] | [3] *)
Definition c07_created (a : list Z) : list Z :=
  match dec_bvec a with
  | Some (cd, r) =>
      match dec_bvec r with
      | Some (code, n :: r1) =>
          match dec_mops (zn n) r1 with
          | Some (ops, loc :: size :: nb :: r2) =>
              match dec_mbops (zn nb) r2, m_run 0 (ME cd code false) (MF empty empty) ops with
              | Some (body, roff :: rsize :: _), ROk st =>
                  match m_created 0 (m_mem st) (zn loc) (zn size) body (zn roff) (zn rsize) with
                  | ROk (Some v) => [0; nz (blen v)] ++ flat v
                  | ROk None => [1]
                  | _ => [2]
                  end
              | _, _ => [3]
              end
          | _ => [3]
          end
      | _ => [3]
      end
  | None => [3]
  end.

Definition table : list (string * (list Z -> list Z)) :=
  [ ("c07_run"%string, c07_run); ("c07_setitem"%string, c07_setitem);
    ("c07_getitem"%string, c07_getitem); ("c07_mem"%string, c07_mem);
    ("c07_created"%string, c07_created) ].

Extraction "_build/C07/entries.ml" table.
