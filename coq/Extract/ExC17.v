(* Extraction entry points for C17 (list Z -> list Z each).

   input  = [njobs; cfg_0 .. cfg_{njobs-1}; nsd; wait_0 .. wait_{nsd-1}; tag a b; tag a b; ...]
            cfg_j = bit 0: job j has a time limit, bit 1: its process ignores SIGTERM
   labels = triples (tag, a, b):
     0 LSubCheck a | 1 LSubAcquire a | 2 LSubAppend a | 3 LSubStart a | 4 LSubRelease a | 5 LSubWait a
     6 LPopen a (b<>0) | 7 LExit a | 8 LCommRet a (answer b: 0 unsat 1 sat 2 unknown 3 garbage)
     9 LCommTimeout a | 10 LCommExc a | 11 LFinally a | 12 LSetResult a
     13 LSdSet a | 14 LSdAcquire a | 15 LSdCancel a b | 16 LSdSnap a | 17 LSdJoin a | 18 LSdReturn a
     19 LSdRaise a | 20 LSubRecheck a | 21 LSubUnlock a | 22 LSdRelease a | 23 LSpawnEnter a *)
From Coq Require Import ZArith List Bool String.
From Coq Require Extraction.
From Coq Require Import ExtrOcamlBasic ExtrOcamlString.
From HV Require Import Spec.ExecSpec Gen.GenSolveLow Model.ExecModel.
Import ListNotations.
Open Scope Z_scope.

Definition zn (n : nat) : Z := Z.of_nat n.
Definition nz (z : Z) : nat := Z.to_nat z.
Definition zb (b : bool) : Z := if b then 1 else 0.
Definition bz (z : Z) : bool := negb (z =? 0).

Definition dec_answer (z : Z) : answer :=
  if z =? 0 then AUnsat else if z =? 1 then ASat else if z =? 2 then AUnknown else AGarbage.
Definition enc_answer (a : answer) : Z :=
  match a with AUnsat => 0 | ASat => 1 | AUnknown => 2 | AGarbage => 3 end.
Definition enc_verdict (v : verdict) : Z :=
  match v with VUnsat => 0 | VSat => 1 | VUnknown => 2 | VErr => 3 | VRaise => 4 end.

Definition dec_label (t a b : Z) : option label :=
  let j := nz a in
  match t with
  | 0 => Some (LSubCheck j) | 1 => Some (LSubAcquire j) | 2 => Some (LSubAppend j)
  | 3 => Some (LSubStart j) | 4 => Some (LSubRelease j) | 5 => Some (LSubWait j)
  | 6 => Some (LPopen j (bz b)) | 7 => Some (LExit j) | 8 => Some (LCommRet j (dec_answer b))
  | 9 => Some (LCommTimeout j) | 10 => Some (LCommExc j) | 11 => Some (LFinally j)
  | 12 => Some (LSetResult j)
  | 13 => Some (LSdSet j) | 14 => Some (LSdAcquire j) | 15 => Some (LSdCancel j (nz b))
  | 16 => Some (LSdSnap j) | 17 => Some (LSdJoin j) | 18 => Some (LSdReturn j) | 19 => Some (LSdRaise j)
  | 20 => Some (LSubRecheck j) | 21 => Some (LSubUnlock j) | 22 => Some (LSdRelease j)
  | 23 => Some (LSpawnEnter j)
  | _ => None
  end.

Definition enc_label (l : label) : list Z :=
  match l with
  | LSubCheck j => [0; zn j; 0] | LSubAcquire j => [1; zn j; 0] | LSubAppend j => [2; zn j; 0]
  | LSubStart j => [3; zn j; 0] | LSubRelease j => [4; zn j; 0] | LSubWait j => [5; zn j; 0]
  | LPopen j ok => [6; zn j; zb ok] | LExit j => [7; zn j; 0] | LCommRet j a => [8; zn j; enc_answer a]
  | LCommTimeout j => [9; zn j; 0] | LCommExc j => [10; zn j; 0] | LFinally j => [11; zn j; 0]
  | LSetResult j => [12; zn j; 0]
  | LSdSet k => [13; zn k; 0] | LSdAcquire k => [14; zn k; 0] | LSdCancel k j => [15; zn k; zn j]
  | LSdSnap k => [16; zn k; 0] | LSdJoin k => [17; zn k; 0] | LSdReturn k => [18; zn k; 0]
  | LSdRaise k => [19; zn k; 0]
  | LSubRecheck j => [20; zn j; 0] | LSubUnlock j => [21; zn j; 0] | LSdRelease k => [22; zn k; 0]
  | LSpawnEnter j => [23; zn j; 0]
  end.

Fixpoint dec_labels (fuel : nat) (l : list Z) : option (list label) :=
  match fuel with
  | O => Some []
  | S f =>
    match l with
    | t :: a :: b :: r =>
        match dec_label t a b, dec_labels f r with
        | Some x, Some xs => Some (x :: xs)
        | _, _ => None
        end
    | [] => Some []
    | _ => None
    end
  end.

(* [n; b_1 .. b_n; rest] -> (bools, rest) *)
Definition take_bools (l : list Z) : list bool * list Z :=
  match l with
  | n :: r => (map bz (firstn (nz n) r), skipn (nz n) r)
  | [] => ([], [])
  end.

Definition take_cfgs (l : list Z) : list (bool * bool) * list Z :=
  match l with
  | n :: r => (map (fun z => (Z.testbit z 0, Z.testbit z 1)) (firstn (nz n) r), skipn (nz n) r)
  | [] => ([], [])
  end.

Definition parse (a : list Z) : option (state * list label) :=
  let '(tmos, r1) := take_cfgs a in
  let '(waits, r2) := take_bools r1 in
  match dec_labels (List.length r2) r2 with
  | Some ls => Some (init tmos waits, ls)
  | None => None
  end.

Definition enc_spc (p : spc_t) : list Z :=
  match p with
  | SCheck => [0; -1] | SAcquire => [1; -1] | SAppend => [2; -1] | SStart => [3; -1]
  | SRelease => [4; -1] | SWait => [5; -1] | SGot v => [6; enc_verdict v] | SRejected => [7; -1]
  | SRecheck => [8; -1] | SUnlock => [9; -1]
  end.
Definition enc_wpc (w : wpc_t) : Z :=
  match w with WNew => 0 | WStarted => 1 | WComm => 2 | WFinally => 3 | WSetRes => 4 | WDone => 5 | WDead => 6 | WSpawn => 7 end.
Definition enc_proc (p : proc_t) : Z := match p with PNone => 0 | PRun => 1 | PDead => 2 end.
Definition enc_exc (e : option exn) : Z :=
  match e with None => 0 | Some ETimeout => 1 | Some EOther => 2 end.
Definition enc_out (o : option answer) : Z := match o with None => -1 | Some a => enc_answer a end.
Definition enc_job (jb : job) : list Z :=
  enc_spc (spc jb) ++ [enc_wpc (wpc jb); enc_proc (proc jb); enc_exc (exc jb); enc_out (out jb); zn (sets jb);
                       zb (creq jb); zb (slock jb)].
Definition enc_list (l : list nat) : list Z := zn (List.length l) :: map zn l.
Definition enc_sd (s : sd) : list Z :=
  match dpc s with
  | DSet => [0; 0] | DAcquire => [1; 0] | DCancel l => 2 :: enc_list l | DSnap => [3; 0]
  | DJoin l => 4 :: enc_list l | DDone => [5; 0] | DUnlock l => 7 :: enc_list l
  end.
Definition enc_lock (l : option owner) : list Z :=
  match l with None => [0; 0] | Some (OSub j) => [1; zn j] | Some (OSd k) => [2; zn k] end.

(* observation of a state: [1; flag; lockkind; lockid; |reg|; reg..; jobs (9 each)..; sds (2+|pending| each)..] *)
Definition enc_state (st : state) : list Z :=
  [1; zb (flag st)] ++ enc_lock (lock st) ++ enc_list (reg st)
  ++ flat_map enc_job (jobs st) ++ flat_map enc_sd (sds st).

Fixpoint trace (st : state) (ls : list label) : list Z :=
  match ls with
  | [] => []
  | l :: r => match step st l with
              | Some st' => enc_state st' ++ trace st' r
              | None => [-1]
              end
  end.

(* observations after every step of the schedule ([-1] ends the output at the first
   label that is not enabled) *)
Definition c17_trace (a : list Z) : list Z :=
  match parse a with
  | Some (st, ls) => enc_state st ++ trace st ls
  | None => [-2]
  end.

(* labels enabled after the schedule: [1; quiescent; rank; n; triples...] or [-1] *)
Definition c17_enabled (a : list Z) : list Z :=
  match parse a with
  | Some (st, ls) =>
      match run st ls with
      | Some st' => [1; zb (quiescentb st'); zn (rank st'); zn (List.length (enabled st'))] ++ flat_map enc_label (enabled st')
      | None => [-1]
      end
  | None => [-2]
  end.

(* ---- schedule enumeration (harness tooling, not part of any theorem) ---------------
   all maximal schedules with at most [maxpre] preemptions.  Threads: submitter j,
   worker j together with its process (LExit), shutdown caller k together with its
   cancel tasks.  A switch away from a thread that still has an enabled label costs
   one preemption.  [mask] restricts the data alternatives:
     bit0 Popen may fail, bit1 communicate may raise, bit2 timeouts, bit3 all four answers
     (otherwise only "unsat"). *)
Definition thread_of (l : label) : nat :=
  match l with
  | LSubCheck j | LSubAcquire j | LSubRecheck j | LSubUnlock j | LSubAppend j | LSubStart j
  | LSubRelease j | LSubWait j => 4 * j
  | LSpawnEnter j | LPopen j _ | LExit j | LCommRet j _ | LCommTimeout j | LCommExc j | LFinally j
  | LSetResult j => 4 * j + 1
  | LSdSet k | LSdAcquire k | LSdCancel k _ | LSdSnap k | LSdRelease k | LSdJoin k | LSdRaise k
  | LSdReturn k => 4 * k + 2
  end.

Definition allowed (mask : Z) (l : label) : bool :=
  match l with
  | LPopen _ false => Z.testbit mask 0
  | LCommExc _ => Z.testbit mask 1
  | LCommTimeout _ => Z.testbit mask 2
  | LCommRet _ AUnsat => true
  | LCommRet _ _ => Z.testbit mask 3
  | _ => true
  end.

Fixpoint enum (fuel : nat) (st : state) (last : option nat) (npre maxpre : nat) (mask : Z)
              (racc : list label) : list (list label) :=
  match fuel with
  | O => [rev racc]
  | S f =>
      let en := filter (allowed mask) (enabled st) in
      match en with
      | [] => [rev racc]
      | _ =>
          flat_map (fun l =>
            let th := thread_of l in
            let cost := match last with
                        | Some t => if Nat.eqb t th then O
                                    else if existsb (fun l2 => Nat.eqb (thread_of l2) t) en then 1%nat else O
                        | None => O
                        end in
            if Nat.leb (npre + cost) maxpre then
              match step st l with
              | Some st' => enum f st' (Some th) (npre + cost)%nat maxpre mask (l :: racc)
              | None => []
              end
            else []) en
      end
  end.

(* [maxpre; mask; njobs; tmos..; nsd; waits..; prefix labels..] -> schedules, each as [len; triples..] *)
Definition c17_enum (a : list Z) : list Z :=
  match a with
  | maxpre :: mask :: r =>
      match parse r with
      | Some (st, ls) =>
          match run st ls with
          | Some st' =>
              flat_map (fun s => zn (List.length s) :: flat_map enc_label s)
                       (enum (S (rank st')) st' None O (nz maxpre) mask (rev ls))
          | None => [-1]
          end
      | None => [-2]
      end
  | _ => [-2]
  end.

(* one random maximal schedule (64-bit LCG; stays on the current thread with probability
   3/4, always once [maxpre] preemptions are used up) *)
Definition lcg (s : Z) : Z := (s * 6364136223846793005 + 1442695040888963407) mod 18446744073709551616.
Definition pick (s : Z) (n : nat) : nat := nz ((s / 8589934592) mod (Z.max 1 (zn n))).

Fixpoint rwalk (fuel : nat) (st : state) (last : option nat) (npre maxpre : nat) (seed : Z)
               (racc : list label) : list label :=
  match fuel with
  | O => rev racc
  | S f =>
      let en := enabled st in
      match en with
      | [] => rev racc
      | _ =>
          let s1 := lcg seed in
          let s2 := lcg s1 in
          let same := match last with
                      | Some t => filter (fun l => Nat.eqb (thread_of l) t) en
                      | None => []
                      end in
          let stay := match same with
                      | [] => false
                      | _ => Nat.leb maxpre npre || negb (Nat.eqb (pick s1 4) 0)
                      end in
          let pool := if stay then same else en in
          match nth_error pool (pick s2 (List.length pool)) with
          | Some l =>
              let th := thread_of l in
              let cost := match last, same with
                          | Some t, _ :: _ => if Nat.eqb t th then O else 1%nat
                          | _, _ => O
                          end in
              match step st l with
              | Some st' => rwalk f st' (Some th) (npre + cost)%nat maxpre s2 (l :: racc)
              | None => rev racc
              end
          | None => rev racc
          end
      end
  end.

(* [seed; maxpre; njobs; tmos..; nsd; waits..] -> schedule triples *)
Definition c17_random (a : list Z) : list Z :=
  match a with
  | seed :: maxpre :: r =>
      match parse r with
      | Some (st, _) => flat_map enc_label (rwalk (S (rank st)) st None O (nz maxpre) seed [])
      | None => [-2]
      end
  | _ => [-2]
  end.

Definition table : list (string * (list Z -> list Z)) :=
  [ ("c17_trace"%string, c17_trace);
    ("c17_enabled"%string, c17_enabled);
    ("c17_enum"%string, c17_enum);
    ("c17_random"%string, c17_random) ].

Extraction "_build/C17/entries.ml" table.
