(* Extraction entry points for the C10 report model (list Z -> list Z each). *)
From Coq Require Import ZArith List Bool String.
From Coq Require Extraction.
From Coq Require Import ExtrOcamlBasic ExtrOcamlString.
From HV Require Import Gen.GenCutWarn Gen.GenLogFilter Gen.GenRunTest Gen.GenFrontierCls Spec.PanicSpec Model.RunnerModel Model.ReportModel Model.InvCutModel.
Import ListNotations.
Open Scope Z_scope.

Definition b2z (b : bool) : Z := if b then 1 else 0.

Fixpoint parse_runs (fuel : nat) (l : list Z) : list test_run :=
  match fuel with
  | O => []
  | S f =>
      match l with
      | c :: n :: s :: sel :: cuts :: r => mkTestRun (mkFunInfo c n s sel) (Z.to_nat cuts) :: parse_runs f r
      | _ => []
      end
  end.

(* [max_depth; (contract, name, sig, selector, abandoned states)...] in execution order, fresh process
   -> per test: was the --depth warning printed during its run *)
Definition c10_depth_session (a : list Z) : list Z :=
  match a with
  | d :: r => map b2z (session d (parse_runs (List.length r) r) [])
  | _ => []
  end.

(* [max_depth; step_id] -> [is the state abandoned] *)
Definition c10_depth_cut (a : list Z) : list Z :=
  match a with
  | [d; s] => [b2z (depth_cut d s)]
  | _ => []
  end.

Definition z2b (z : Z) : bool := negb (z =? 0).

(* [setup; ntargets; targets...; states...] -> [LOOP_BOUND warned]: setUp, the target transactions, and the
   invariant transaction on each frontier state (one SEVM) *)
Definition c10_inv_warned (a : list Z) : list Z :=
  match a with
  | s :: nt :: r =>
      let targets := firstn (Z.to_nat nt) r in
      let states := skipn (Z.to_nat nt) r in
      [b2z (loop_bound_warned (mkInvRun (z2b s) (map z2b targets) (sevm_logs_after (map z2b states))))]
  | _ => []
  end.

(* ---- invariant frontier (Model/InvCutModel.v).  Encodings as in ExC03.v: err 0 ENone, 1 ERevert, 2 EEvm, 3 EFail,
   4 EHalmos; byte -1 = symbolic; call tree in preorder: err, nsubs, subtrees... *)
Definition err_of (z : Z) : errkind :=
  if z =? 0 then ENone else if z =? 1 then ERevert else if z =? 2 then EEvm else if z =? 3 then EFail else EHalmos.
Definition dec_bytes (l : list Z) : list sbyte := map (fun z => if z <? 0 then BS (- z) else BC z) l.
Definition take (n : Z) (l : list Z) : list Z * list Z := (firstn (Z.to_nat n) l, skipn (Z.to_nat n) l).

Fixpoint parse_tree (fuel : nat) (l : list Z) : ctree * list Z :=
  match fuel with
  | O => (CNode ENone [], [])
  | S f =>
      match l with
      | e :: n :: r => let '(subs, r') := parse_forest f (Z.to_nat n) r in (CNode (err_of e) subs, r')
      | _ => (CNode ENone [], [])
      end
  end
with parse_forest (fuel : nat) (n : nat) (l : list Z) : list ctree * list Z :=
  match fuel with
  | O => ([], [])
  | S f =>
      match n with
      | O => ([], l)
      | S k =>
          let '(t, r) := parse_tree f l in
          let '(ts, r') := parse_forest f k r in
          (t :: ts, r')
      end
  end.

(* [is_stuck; has_error; panic (0 False / 1 True / 2 raises); fail_set; probe_reported; visited] -> [effects] *)
Definition c10_frontier_step (a : list Z) : list Z :=
  match a with
  | [st; he; p; fs; pr; v] =>
      [frontier_step (z2b st) (z2b he) (if p =? 2 then PRaise else if p =? 1 then PTrue else PFalse) (z2b fs) (z2b pr) (z2b v)]
  | _ => []
  end.

(* result states: tree, has_data, datalen, bytes..., probe_reported, visited *)
Fixpoint parse_tstates (n : nat) (l : list Z) : list (tstate unit) :=
  match n with
  | O => []
  | S k =>
      let '(t, r) := parse_tree (S (List.length l)) l in
      match r with
      | hd :: dl :: r1 =>
          let '(bs, r2) := take dl r1 in
          match r2 with
          | pr :: v :: r3 =>
              mkTstate (mkLeaf t (if z2b hd then Some (dec_bytes bs) else None) tt) (z2b pr) (z2b v) :: parse_tstates k r3
          | _ => []
          end
      | _ => []
      end
  end.

Definition nats (l : list nat) : list Z := Z.of_nat (List.length l) :: map Z.of_nat l.

(* [ncodes; codes...; nstates; states...] -> [raised at (-1: no); n; errors...; n; probes...; n; next...] *)
Definition c10_frontier_run (a : list Z) : list Z :=
  match a with
  | nc :: r =>
      let '(codes, r1) := take nc r in
      match r1 with
      | ns :: r2 =>
          let fr := frontier_run unit codes (parse_tstates (Z.to_nat ns) r2) in
          (match f_raised fr with Some j => Z.of_nat j | None => -1 end)
            :: nats (f_errors fr) ++ nats (f_probes fr) ++ nats (f_next fr)
      | _ => []
      end
  | _ => []
  end.

Definition table : list (string * (list Z -> list Z)) :=
  [ ("c10_depth_session"%string, c10_depth_session);
    ("c10_depth_cut"%string, c10_depth_cut);
    ("c10_inv_warned"%string, c10_inv_warned);
    ("c10_frontier_step"%string, c10_frontier_step);
    ("c10_frontier_run"%string, c10_frontier_run) ].

Extraction "_build/C10/entries.ml" table.
