(* Extraction entry points for the C10 report model (list Z -> list Z each). *)
From Coq Require Import ZArith List Bool String.
From Coq Require Extraction.
From Coq Require Import ExtrOcamlBasic ExtrOcamlString.
From HV Require Import Gen.GenCutWarn Gen.GenLogFilter Gen.GenRunTest Spec.PanicSpec Model.RunnerModel Model.ReportModel.
Import ListNotations.
Open Scope Z_scope.

Definition b2z (b : bool) : Z := if b then 1 else 0.

Fixpoint parse_runs (fuel : nat) (l : list Z) : list test_run :=
  match fuel with
  | O => []
  | S f =>
      match l with
      | c :: n :: s :: sel :: cuts :: r => mkTestRun (mkFunInfo c n s sel) (Z.to_nat cuts) :: parse_runs f r
      | _ => []
      end
  end.

(* [max_depth; (contract, name, sig, selector, abandoned states)...] in execution order, fresh process
   -> per test: was the --depth warning printed during its run *)
Definition c10_depth_session (a : list Z) : list Z :=
  match a with
  | d :: r => map b2z (session d (parse_runs (List.length r) r) [])
  | _ => []
  end.

(* [max_depth; step_id] -> [is the state abandoned] *)
Definition c10_depth_cut (a : list Z) : list Z :=
  match a with
  | [d; s] => [b2z (depth_cut d s)]
  | _ => []
  end.

Definition z2b (z : Z) : bool := negb (z =? 0).

(* [setup; ntargets; targets...; states...] -> [LOOP_BOUND warned]: setUp, the target transactions, and the
   invariant transaction on each frontier state (one SEVM) *)
Definition c10_inv_warned (a : list Z) : list Z :=
  match a with
  | s :: nt :: r =>
      let targets := firstn (Z.to_nat nt) r in
      let states := skipn (Z.to_nat nt) r in
      [b2z (loop_bound_warned (mkInvRun (z2b s) (map z2b targets) (sevm_logs_after (map z2b states))))]
  | _ => []
  end.

Definition table : list (string * (list Z -> list Z)) :=
  [ ("c10_depth_session"%string, c10_depth_session);
    ("c10_depth_cut"%string, c10_depth_cut);
    ("c10_inv_warned"%string, c10_inv_warned) ].

Extraction "_build/C10/entries.ml" table.
