(* Extraction entry points for C08 (list Z -> list Z each).

   term encoding (prefix):  0 z = K z | 1 x = V x | 2 t = Sha256 t | 3 k a = Sha512 k a
                            4 bits kind v a = ShaN bits (NKc v | NKv v) a | 5 bits p = ShaC bits p
                            6 n t1..tn = Add [t1..tn]
   registry encoding:       n (hash bits pre)*n    registered in this order through `register`
   env encoding:            m v0..v(m-1)           value of variable i (0 beyond m) *)
From Coq Require Import ZArith NArith List Bool String.
From Coq Require Extraction.
From Coq Require Import ExtrOcamlBasic ExtrOcamlString.
From HV Require Import Base.Keccak Spec.StorageSpec Gen.GenStoreConsts Gen.GenHashes Gen.GenStoreAxioms Model.StorageModel.
Import ListNotations.
Open Scope Z_scope.

(* the real hash, for evaluating keys that contain hashes *)
Definition Hk (bits x : Z) : Z :=
  Z.of_N (keccak256_num (rev (bytes_of_lane (Z.to_nat (bits / 8)) (Z.to_N x)))).

Fixpoint parse (fuel : nat) (a : list Z) : option (loc * list Z) :=
  match fuel with
  | O => None
  | S f =>
    match a with
    | 0 :: z :: r => Some (K z, r)
    | 1 :: x :: r => Some (V (Z.to_nat x), r)
    | 2 :: r => match parse f r with Some (t, r') => Some (Sha256 t, r') | None => None end
    | 3 :: r =>
        match parse f r with
        | Some (k, r') => match parse f r' with Some (t, r'') => Some (Sha512 k t, r'') | None => None end
        | None => None
        end
    | 4 :: bits :: kind :: v :: r =>
        match parse f r with
        | Some (t, r') => Some (ShaN bits (if kind =? 0 then NKc v else NKv (Z.to_nat v)) t, r')
        | None => None
        end
    | 5 :: bits :: p :: r => Some (ShaC bits p, r)
    | 6 :: n :: r =>
        match (fix go (n : nat) (r : list Z) : option (list loc * list Z) :=
                 match n with
                 | O => Some ([], r)
                 | S n' =>
                     match parse f r with
                     | Some (t, r') => match go n' r' with Some (ts, r'') => Some (t :: ts, r'') | None => None end
                     | None => None
                     end
                 end) (Z.to_nat n) r with
        | Some (ts, r') => Some (Add ts, r')
        | None => None
        end
    | _ => None
    end
  end.

Fixpoint parse_reg (n : nat) (a : list Z) (R : res registry) : res registry * list Z :=
  match n with
  | O => (R, a)
  | S n' =>
      match a with
      | h :: b :: p :: r => parse_reg n' r (bind R (fun R' => register R' {| r_hash := h; r_bits := b; r_pre := p |}))
      | _ => (Err 9, [])
      end
  end.

Definition parse_env (a : list Z) : env * list Z :=
  match a with
  | m :: r => let vs := firstn (Z.to_nat m) r in ((fun i => nth i vs 0), skipn (Z.to_nat m) r)
  | [] => ((fun _ => 0), [])
  end.

(* common prefix: registry, env, term *)
Definition with_input (a : list Z) (k : registry -> env -> loc -> list Z) : list Z :=
  match a with
  | n :: r =>
      match parse_reg (Z.to_nat n) r (Ok reg_empty) with
      | (Ok R, r1) =>
          let (e, r2) := parse_env r1 in
          match parse 200 r2 with
          | Some (t, []) => k R e t
          | _ => [-9]
          end
      | (Err c, _) => [-c]
      end
  | [] => [-9]
  end.

(* -> [0; slot; num_keys; size_keys; (bits value)*]  or [-code] *)
Definition c08_decode_sol (a : list Z) : list Z :=
  with_input a (fun R e t =>
    match key_structure precomputed R FUEL t with
    | Ok (slot, keys, n, sz) => 0 :: slot :: n :: sz :: flat_map (fun k => [key_bits k; kt_val Hk e k]) keys
    | Err c => [-c]
    end).

(* -> [0; size; value] or [-code] *)
Definition c08_decode_gen (a : list Z) : list Z :=
  with_input a (fun R e t =>
    match decode_gen precomputed R e FUEL t with
    | Ok (sz, v) => [0; sz; v]
    | Err c => [-c]
    end).

(* the EVM value of the term *)
Definition c08_eval (a : list Z) : list Z := with_input a (fun R e t => [eval Hk e t]).

(* OffsetMap: [n; k1..kn; q] : set k1..kn (value = entry with hash ki), then get q
   -> [-4] assertion | [0] not found | [1; hash of the entry; delta] *)
Definition c08_offsetmap (a : list Z) : list Z :=
  match a with
  | n :: r =>
      let ks := firstn (Z.to_nat n) r in
      match skipn (Z.to_nat n) r with
      | [q] =>
          match om_set_all (map (fun k => {| r_hash := k; r_bits := 256; r_pre := 0 |}) ks) (Some []) with
          | None => [-4]
          | Some m => match om_get m q with None => [0] | Some (en, d) => [1; r_hash en; d] end
          end
      | _ => [-9]
      end
  | [] => [-9]
  end.

(* Exec.select with a scripted oracle: [sym; n; a_{n-1} .. a_0]  chain of n stores, newest first,
   a_i in {0 MustEq, 1 MustNeq, 2 Unknown} = answer for the store with value i
   -> [0] ZERO | [1; i] value i | [2; m] Select over the chain of the m oldest stores *)
Definition c08_select (a : list Z) : list Z :=
  match a with
  | sym :: n :: answers =>
      let ch := map (fun i => (Z.of_nat i, Z.of_nat i)) (rev (seq 0 (Z.to_nat n))) in
      let orc (_ k0 : Z) : tri :=
        match nth (Z.to_nat (n - 1 - k0)) answers 2 with 0 => MustEq | 1 => MustNeq | _ => Unknown end in
      match select Z Z orc (negb (sym =? 0)) (0, 1, 256) ch (-1) with
      | LZero => [0]
      | LVal v => [1; v]
      | LSelect _ ch' _ => [2; Z.of_nat (List.length ch')]
      | LInit _ => [3]
      end
  | _ => [-9]
  end.

(* the path side of load/store with a scripted oracle, on already decoded locations.
   input : layout (0 solidity guard | 1 generic guard) :: sym :: n :: orc[n*n] :: ops...  (n ops)
             orc row = index of the loading op, column = index of the storing op whose key it is
             compared with; 0 MustEq 1 MustNeq 2 Unknown  (the answers Exec.check gave, so the
             oracle may answer differently at different times)
           op = 0 c1 c2 c3 key is_value val   (store)   | 1 c1 c2 c3 key is_value   (load)
   a key is modelled as ((index of the op) * 1024 + id) * 2 + is_value
   output: per load its result  0 | 1 v | 3 c1 c2 c3 | 2 <array> id ; then -1 ; then ex.path, oldest
           axiom first:  10 n <array of the base> id v | 11 c1 c2 c3 id
           <array> = 0 c1 c2 c3 (initial array of the chunk) | 1 n 0 0 (array variable n) *)
Definition key_id (k : Z) : Z := (k / 2) mod 1024.
Definition key_op (k : Z) : Z := (k / 2) / 1024.
Definition enc_aref (a : aref) : list Z :=
  match a with AEmpty (c1, c2, c3) => [0; c1; c2; c3] | AVar n => [1; Z.of_nat n; 0; 0] end.
Definition enc_pres (r : pres Z Z) : list Z :=
  match r with
  | PZero => [0]
  | PVal v => [1; v]
  | PSelect a k => 2 :: enc_aref a ++ [key_id k]
  | PInit (c1, c2, c3) => [3; c1; c2; c3]
  end.
Definition enc_axiom (ax : axiom Z Z) : list Z :=
  match ax with
  | AxDef n base k v => 10 :: Z.of_nat n :: enc_aref base ++ [key_id k; v]
  | AxEmpty (c1, c2, c3) k => [11; c1; c2; c3; key_id k]
  end.

Fixpoint path_ops (fuel : nat) (i : Z) (a : list Z) : option (list (bool * chunkid * Z * Z)) :=
  match fuel with
  | O => None
  | S f =>
    match a with
    | [] => Some []
    | 0 :: c1 :: c2 :: c3 :: k :: kv :: v :: r =>
        match path_ops f (i + 1) r with
        | Some os => Some ((true, (c1, c2, c3), (i * 1024 + k) * 2 + kv, v) :: os)
        | None => None
        end
    | 1 :: c1 :: c2 :: c3 :: k :: kv :: r =>
        match path_ops f (i + 1) r with
        | Some os => Some ((false, (c1, c2, c3), (i * 1024 + k) * 2 + kv, 0) :: os)
        | None => None
        end
    | _ => None
    end
  end.

Definition c08_pathrun (a : list Z) : list Z :=
  match a with
  | layout :: sym :: nops :: r =>
      let n := Z.to_nat nops in
      let m := firstn (n * n) r in
      let orc (k k0 : Z) : tri :=
        match nth (Z.to_nat (key_op k * nops + key_op k0)) m 2 with 0 => MustEq | 1 => MustNeq | _ => Unknown end in
      let kval (k : Z) : bool := negb (k mod 2 =? 0) in
      let emits := if layout =? 0 then sol_load_emits_empty else gen_load_emits_empty in
      match path_ops 200 0 (skipn (n * n) r) with
      | None => [-9]
      | Some os =>
          let step (acc : list Z * pstate Z Z) (o : bool * chunkid * Z * Z) :=
            match o with
            | (true, c, k, v) => (fst acc, pstore Z Z (snd acc) c k v)
            | (false, c, k, _) =>
                let p := pload Z Z orc kval emits (snd acc) c k in
                (fst acc ++ enc_pres (fst p), snd p)
            end in
          let s0 : pstate Z Z := {| p_symbolic := negb (sym =? 0); p_mapping := []; p_storages := []; p_path := [] |} in
          let fin := fold_left step os ([], s0) in
          fst fin ++ [-1] ++ flat_map enc_axiom (rev (p_path Z Z (snd fin)))
      end
  | _ => [-9]
  end.

(* precomputed registry sanity: number of buckets *)
Definition c08_precomputed_size (_ : list Z) : list Z := [Z.of_nat (List.length precomputed)].

Definition table : list (string * (list Z -> list Z)) :=
  [ ("c08_decode_sol"%string, c08_decode_sol);
    ("c08_decode_gen"%string, c08_decode_gen);
    ("c08_eval"%string, c08_eval);
    ("c08_offsetmap"%string, c08_offsetmap);
    ("c08_select"%string, c08_select);
    ("c08_pathrun"%string, c08_pathrun);
    ("c08_precomputed_size"%string, c08_precomputed_size) ].

Extraction "_build/C08/entries.ml" table.
