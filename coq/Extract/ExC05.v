(* Extraction entry points for C05 (list Z -> list Z each).
   Codes: label LPass 0 | LFail 1 | LError 2 | LTimeout 3;
          kind Success 0 | Revert 1 | Panic 2 | FailFlag 3 | Stuck 4;
          answer Sat true 0 | Sat false 1 | Unsat 2 | Unknown 3 | Err 4 (None = -1);
          action ASubmit 0 | AStuckSolve 1 | ACountNormal 2 | ANone 3;
          event EvMain = -1 | EvMainRaise = -2 | EvCb j = j;
          cache event CMain = -1 | CMainRaise = -2 | CStart j = 2j | CCb j = 2j+1;
          optional core: -1 = None | len, items. *)
From Coq Require Import ZArith List Bool String Ascii.
From Coq Require Extraction.
From Coq Require Import ExtrOcamlBasic ExtrOcamlString.
From HV Require Import Spec.VerdictSpec Gen.GenVerdict Gen.GenSolveDispatch Gen.GenUnsatCore Gen.GenCoreAppend
                       Model.VerdictModel Model.VerdictCacheModel.
Import ListNotations.
Open Scope Z_scope.

Definition enc_label (l : label) : Z := match l with LPass => 0 | LFail => 1 | LError => 2 | LTimeout => 3 end.
Definition dec_kind (z : Z) : outcome :=
  if z =? 0 then Success else if z =? 1 then Revert else if z =? 2 then Panic else if z =? 3 then FailFlag else Stuck.
Definition dec_ans (z : Z) : answer :=
  if z =? 0 then Sat true else if z =? 1 then Sat false else if z =? 2 then Unsat else if z =? 3 then Unknown else Err.
Definition enc_ans (a : answer) : Z :=
  match a with Sat true => 0 | Sat false => 1 | Unsat => 2 | Unknown => 3 | Err => 4 end.
Definition enc_oans (a : option answer) : Z := match a with Some a => enc_ans a | None => -1 end.
Definition enc_action (a : action) : Z := match a with ASubmit => 0 | AStuckSolve => 1 | ACountNormal => 2 | ANone => 3 end.
Definition zb (z : Z) : bool := negb (z =? 0).
Definition bz (b : bool) : Z := if b then 1 else 0.
Definition natZ (n : nat) : Z := Z.of_nat n.

(* read n (kind, answer) pairs; returns the paths and the rest *)
Fixpoint dec_paths (n : nat) (l : list Z) : list path * list Z :=
  match n with
  | O => ([], l)
  | S n' => match l with
            | k :: a :: r => let (ps, rest) := dec_paths n' r in (mkpath (dec_kind k) (dec_ans a) :: ps, rest)
            | _ => ([], [])
            end
  end.

Definition dec_event (z : Z) : event :=
  if z =? -2 then EvMainRaise else if z <? 0 then EvMain else EvCb (Z.to_nat z).

Definition c05_chain (a : list Z) : list Z :=
  match a with
  | [ns; nu; nk; ne; nst; nn] => let v := verdict_chain ns nu nk ne nst nn in [enc_label (fst v); snd v]
  | _ => []
  end.

Definition c05_classify (a : list Z) : list Z :=
  match a with
  | [p; f; s; e] => [enc_action (classify (zb p) (zb f) (zb s) (zb e)); bz (stuck_counted true); bz (stuck_counted false)]
  | _ => []
  end.

Definition c05_model_verdict (a : list Z) : list Z :=
  match a with
  | n :: r => let (ps, _) := dec_paths (Z.to_nat n) r in
              let v := model_verdict ps in
              [enc_label (fst v); snd v; natZ (stuck_count ps); natZ (normal_count ps); natZ (List.length (submitted ps))]
  | _ => []
  end.

Definition c05_spec (a : list Z) : list Z :=
  match a with
  | n :: r => let (ps, _) := dec_paths (Z.to_nat n) r in [enc_label (spec_verdict ps); enc_label (spec_verdict_strict ps)]
  | _ => []
  end.

(* [ee; n; (kind, ans)*n; events...] -> [status (0 running, 1 done, 2 raised); label; code; normal; nstuck;
                                          #sat; #err; #unknown; #unsat outputs; shutdown flag; #pending] *)
Definition c05_run (a : list Z) : list Z :=
  match a with
  | ee :: n :: r =>
      let (ps, evs) := dec_paths (Z.to_nat n) r in
      let s := run (zb ee) ps (map dec_event evs) in
      let status := match mst s with MCrashed => 2 | MDone => match pending s with [] => 1 | _ => 0 end | _ => 0 end in
      let v := match result s with Some v => v | None => (LError, -1) end in
      [status; enc_label (fst v); snd v; natZ (normal s); natZ (nstuck s);
       counter (outs s) "sat"; counter (outs s) "err"; counter (outs s) "unknown"; counter (outs s) "unsat";
       bz (flag s); natZ (List.length (pending s))]
  | _ => []
  end.

Fixpoint string_of_codes (l : list Z) : string :=
  match l with [] => EmptyString | c :: r => String (ascii_of_nat (Z.to_nat c)) (string_of_codes r) end.

(* [ok; char codes...] -> [answer | -1] *)
Definition c05_from_result (a : list Z) : list Z :=
  match a with
  | ok :: cs => [enc_oans (from_result (string_of_codes cs) (zb ok))]
  | _ => []
  end.

(* raw: [kind (0 output, 1 timeout, 2 raise); ok; len; chars...] *)
Definition dec_raw (l : list Z) : raw * list Z :=
  match l with
  | k :: ok :: len :: r =>
      let cs := firstn (Z.to_nat len) r in
      let rest := skipn (Z.to_nat len) r in
      ((if k =? 0 then RawOut (string_of_codes cs) (zb ok) else if k =? 1 then RawTimeout else RawRaise), rest)
  | _ => (RawRaise, [])
  end.

(* [shutdown; cache_hit; refinable; raw1; raw2] -> [answer recorded by the callback] *)
Definition c05_job (a : list Z) : list Z :=
  match a with
  | sh :: hit :: refinable :: r =>
      let (r1, rest) := dec_raw r in
      let (r2, _) := dec_raw rest in
      [enc_ans (get_solver_output (zb sh) (solve_end_to_end (zb hit) r1 (zb refinable) r2));
       enc_oans (solve_low_level r1)]
  | _ => []
  end.

(* [ncontracts; (num_found; nres; res...)*] -> [exit code] *)
Fixpoint dec_contracts (n : nat) (l : list Z) : list contract :=
  match n with
  | O => []
  | S n' => match l with
            | nf :: nr :: r => (nf, firstn (Z.to_nat nr) r) :: dec_contracts n' (skipn (Z.to_nat nr) r)
            | _ => []
            end
  end.

Definition c05_main_exit (a : list Z) : list Z :=
  match a with
  | n :: r => [main_exit (dec_contracts (Z.to_nat n) r)]
  | _ => []
  end.

(* ---- the unsat-core cache *)

Definition nats (l : list Z) : list nat := map Z.to_nat l.

(* [len; items...] ++ rest -> (items, rest) *)
Definition dec_list (l : list Z) : list nat * list Z :=
  match l with
  | len :: r => (nats (firstn (Z.to_nat len) r), skipn (Z.to_nat len) r)
  | [] => ([], [])
  end.

(* -1 :: rest -> None ; len :: items ++ rest -> Some items *)
Definition dec_ocore (l : list Z) : option (list nat) * list Z :=
  match l with
  | len :: r => if len <? 0 then (None, r) else let (c, rest) := dec_list l in (Some c, rest)
  | [] => (None, [])
  end.

Fixpoint dec_lists (n : nat) (l : list Z) : list (list nat) * list Z :=
  match n with
  | O => ([], l)
  | S n' => let (c, r) := dec_list l in let (cs, rest) := dec_lists n' r in (c :: cs, rest)
  end.

(* [ids as list; ncores; cores as lists] -> [hit] *)
Definition c05_hit (a : list Z) : list Z :=
  let (ids, r) := dec_list a in
  match r with
  | n :: r' => let (cores, _) := dec_lists (Z.to_nat n) r' in [bz (gen_check_unsat_cores mem_nat ids cores)]
  | [] => []
  end.

(* [result is unsat; optional core] -> [appended] *)
Definition c05_append (a : list Z) : list Z :=
  match a with
  | u :: r => let (c, _) := dec_ocore r in [bz (gen_append_guard (zb u) c)]
  | [] => []
  end.

(* n x (kind; answer; ids as list; optional core) *)
Fixpoint dec_qpaths (n : nat) (l : list Z) : list qpath * list Z :=
  match n with
  | O => ([], l)
  | S n' => match l with
            | k :: a :: r =>
                let (ids, r1) := dec_list r in
                let (c, r2) := dec_ocore r1 in
                let (qs, rest) := dec_qpaths n' r2 in
                (mkq (mkpath (dec_kind k) (dec_ans a)) ids c :: qs, rest)
            | _ => ([], [])
            end
  end.

Definition dec_cevent (z : Z) : cevent :=
  if z =? -2 then CMainRaise else if z <? 0 then CMain
  else if Z.even z then CStart (Z.to_nat (z / 2)) else CCb (Z.to_nat (z / 2)).

(* [cache; ee; n; qpaths; events...] -> [status; label; code; normal; nstuck; #sat; #err; #unknown; #unsat;
                                          shutdown flag; #pending; #cores; #hits; hit path ids...] *)
Definition c05_crun (a : list Z) : list Z :=
  match a with
  | cache :: ee :: n :: r =>
      let (qs, evs) := dec_qpaths (Z.to_nat n) r in
      let s := crun (zb cache) (zb ee) qs (map dec_cevent evs) in
      let status := match cmst s with MCrashed => 2 | MDone => match cjobs s with [] => 1 | _ => 0 end | _ => 0 end in
      let v := match cresult s with Some v => v | None => (LError, -1) end in
      [status; enc_label (fst v); snd v; natZ (cnormal s); natZ (cnstuck s);
       counter (couts s) "sat"; counter (couts s) "err"; counter (couts s) "unknown"; counter (couts s) "unsat";
       bz (cflag s); natZ (List.length (cjobs s)); natZ (List.length (ccores s)); natZ (List.length (chits s))]
      ++ map natZ (chits s)
  | _ => []
  end.

Definition c05_consts (_ : list Z) : list Z :=
  exitcode_values ++ [enc_label raised_label; raised_exitcode; no_tests_exit].

Definition table : list (string * (list Z -> list Z)) :=
  [ ("c05_chain"%string, c05_chain);
    ("c05_classify"%string, c05_classify);
    ("c05_model_verdict"%string, c05_model_verdict);
    ("c05_spec"%string, c05_spec);
    ("c05_run"%string, c05_run);
    ("c05_from_result"%string, c05_from_result);
    ("c05_job"%string, c05_job);
    ("c05_main_exit"%string, c05_main_exit);
    ("c05_consts"%string, c05_consts);
    ("c05_hit"%string, c05_hit);
    ("c05_append"%string, c05_append);
    ("c05_crun"%string, c05_crun) ].

Extraction "_build/C05/entries.ml" table.
