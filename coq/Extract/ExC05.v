(* Extraction entry points for C05 (list Z -> list Z each).
   Codes: label LPass 0 | LFail 1 | LError 2 | LTimeout 3;
          kind Success 0 | Revert 1 | Panic 2 | FailFlag 3 | Stuck 4;
          answer Sat true 0 | Sat false 1 | Unsat 2 | Unknown 3 | Err 4 (None = -1);
          action ASubmit 0 | AStuckSolve 1 | ACountNormal 2 | ANone 3;
          event EvMain = -1 | EvMainRaise = -2 | EvCb j = j. *)
From Coq Require Import ZArith List Bool String Ascii.
From Coq Require Extraction.
From Coq Require Import ExtrOcamlBasic ExtrOcamlString.
From HV Require Import Spec.VerdictSpec Gen.GenVerdict Gen.GenSolveDispatch Model.VerdictModel.
Import ListNotations.
Open Scope Z_scope.

Definition enc_label (l : label) : Z := match l with LPass => 0 | LFail => 1 | LError => 2 | LTimeout => 3 end.
Definition dec_kind (z : Z) : outcome :=
  if z =? 0 then Success else if z =? 1 then Revert else if z =? 2 then Panic else if z =? 3 then FailFlag else Stuck.
Definition dec_ans (z : Z) : answer :=
  if z =? 0 then Sat true else if z =? 1 then Sat false else if z =? 2 then Unsat else if z =? 3 then Unknown else Err.
Definition enc_ans (a : answer) : Z :=
  match a with Sat true => 0 | Sat false => 1 | Unsat => 2 | Unknown => 3 | Err => 4 end.
Definition enc_oans (a : option answer) : Z := match a with Some a => enc_ans a | None => -1 end.
Definition enc_action (a : action) : Z := match a with ASubmit => 0 | AStuckSolve => 1 | ACountNormal => 2 | ANone => 3 end.
Definition zb (z : Z) : bool := negb (z =? 0).
Definition bz (b : bool) : Z := if b then 1 else 0.
Definition natZ (n : nat) : Z := Z.of_nat n.

(* read n (kind, answer) pairs; returns the paths and the rest *)
Fixpoint dec_paths (n : nat) (l : list Z) : list path * list Z :=
  match n with
  | O => ([], l)
  | S n' => match l with
            | k :: a :: r => let (ps, rest) := dec_paths n' r in (mkpath (dec_kind k) (dec_ans a) :: ps, rest)
            | _ => ([], [])
            end
  end.

Definition dec_event (z : Z) : event :=
  if z =? -2 then EvMainRaise else if z <? 0 then EvMain else EvCb (Z.to_nat z).

Definition c05_chain (a : list Z) : list Z :=
  match a with
  | [ns; nu; nk; ne; nst; nn] => let v := verdict_chain ns nu nk ne nst nn in [enc_label (fst v); snd v]
  | _ => []
  end.

Definition c05_classify (a : list Z) : list Z :=
  match a with
  | [p; f; s; e] => [enc_action (classify (zb p) (zb f) (zb s) (zb e)); bz (stuck_counted true); bz (stuck_counted false)]
  | _ => []
  end.

Definition c05_model_verdict (a : list Z) : list Z :=
  match a with
  | n :: r => let (ps, _) := dec_paths (Z.to_nat n) r in
              let v := model_verdict ps in
              [enc_label (fst v); snd v; natZ (stuck_count ps); natZ (normal_count ps); natZ (List.length (submitted ps))]
  | _ => []
  end.

Definition c05_spec (a : list Z) : list Z :=
  match a with
  | n :: r => let (ps, _) := dec_paths (Z.to_nat n) r in [enc_label (spec_verdict ps); enc_label (spec_verdict_strict ps)]
  | _ => []
  end.

(* [ee; n; (kind, ans)*n; events...] -> [status (0 running, 1 done, 2 raised); label; code; normal; nstuck;
                                          #sat; #err; #unknown; #unsat outputs; shutdown flag; #pending] *)
Definition c05_run (a : list Z) : list Z :=
  match a with
  | ee :: n :: r =>
      let (ps, evs) := dec_paths (Z.to_nat n) r in
      let s := run (zb ee) ps (map dec_event evs) in
      let status := match mst s with MCrashed => 2 | MDone => match pending s with [] => 1 | _ => 0 end | _ => 0 end in
      let v := match result s with Some v => v | None => (LError, -1) end in
      [status; enc_label (fst v); snd v; natZ (normal s); natZ (nstuck s);
       counter (outs s) "sat"; counter (outs s) "err"; counter (outs s) "unknown"; counter (outs s) "unsat";
       bz (flag s); natZ (List.length (pending s))]
  | _ => []
  end.

Fixpoint string_of_codes (l : list Z) : string :=
  match l with [] => EmptyString | c :: r => String (ascii_of_nat (Z.to_nat c)) (string_of_codes r) end.

(* [ok; char codes...] -> [answer | -1] *)
Definition c05_from_result (a : list Z) : list Z :=
  match a with
  | ok :: cs => [enc_oans (from_result (string_of_codes cs) (zb ok))]
  | _ => []
  end.

(* raw: [kind (0 output, 1 timeout, 2 raise); ok; len; chars...] *)
Definition dec_raw (l : list Z) : raw * list Z :=
  match l with
  | k :: ok :: len :: r =>
      let cs := firstn (Z.to_nat len) r in
      let rest := skipn (Z.to_nat len) r in
      ((if k =? 0 then RawOut (string_of_codes cs) (zb ok) else if k =? 1 then RawTimeout else RawRaise), rest)
  | _ => (RawRaise, [])
  end.

(* [shutdown; cache_hit; refinable; raw1; raw2] -> [answer recorded by the callback] *)
Definition c05_job (a : list Z) : list Z :=
  match a with
  | sh :: hit :: refinable :: r =>
      let (r1, rest) := dec_raw r in
      let (r2, _) := dec_raw rest in
      [enc_ans (get_solver_output (zb sh) (solve_end_to_end (zb hit) r1 (zb refinable) r2));
       enc_oans (solve_low_level r1)]
  | _ => []
  end.

(* [ncontracts; (num_found; nres; res...)*] -> [exit code] *)
Fixpoint dec_contracts (n : nat) (l : list Z) : list contract :=
  match n with
  | O => []
  | S n' => match l with
            | nf :: nr :: r => (nf, firstn (Z.to_nat nr) r) :: dec_contracts n' (skipn (Z.to_nat nr) r)
            | _ => []
            end
  end.

Definition c05_main_exit (a : list Z) : list Z :=
  match a with
  | n :: r => [main_exit (dec_contracts (Z.to_nat n) r)]
  | _ => []
  end.

Definition c05_consts (_ : list Z) : list Z :=
  exitcode_values ++ [enc_label raised_label; raised_exitcode; no_tests_exit].

Definition table : list (string * (list Z -> list Z)) :=
  [ ("c05_chain"%string, c05_chain);
    ("c05_classify"%string, c05_classify);
    ("c05_model_verdict"%string, c05_model_verdict);
    ("c05_spec"%string, c05_spec);
    ("c05_run"%string, c05_run);
    ("c05_from_result"%string, c05_from_result);
    ("c05_job"%string, c05_job);
    ("c05_main_exit"%string, c05_main_exit);
    ("c05_consts"%string, c05_consts) ].

Extraction "_build/C05/entries.ml" table.
