(* Extraction entry points for C04 (list Z -> list Z each; text = character codes). *)
From Coq Require Import ZArith List Bool String Ascii.
From Coq Require Extraction.
From Coq Require Import ExtrOcamlBasic ExtrOcamlString.
From HV Require Import Model.SexpDefs Gen.GenRefine Spec.SmtQuerySpec Model.SmtTextModel Model.SolveModel.
Import ListNotations.
Open Scope Z_scope.

Fixpoint str_of (l : list Z) : string :=
  match l with [] => EmptyString | c :: r => String (ascii_of_N (Z.to_N c)) (str_of r) end.
Fixpoint codes_of (s : string) : list Z :=
  match s with EmptyString => [] | String c r => Z.of_N (N_of_ascii c) :: codes_of r end.
Fixpoint take_n {A} (n : nat) (l : list A) : list A * list A :=
  match n, l with
  | S n', x :: r => let (a, b) := take_n n' r in (x :: a, b)
  | _, _ => ([], l)
  end.

(* value text -> [1; n] | [0] *)
Definition c04_parse_const (a : list Z) : list Z :=
  match parse_const_value (str_of a) with Some n => [1; n] | None => [0] end.

(* [len name; name...; len width; width...; value...] -> [1; W; n] | [0] *)
Definition c04_parse_var (a : list Z) : list Z :=
  match a with
  | ln :: r =>
      let (name, r1) := take_n (Z.to_nat ln) r in
      match r1 with
      | lw :: r2 =>
          let (width, value) := take_n (Z.to_nat lw) r2 in
          match parse_model_var (str_of name) (str_of width) (str_of value) with
          | Some (W, n) => [1; W; n]
          | None => [0]
          end
      | [] => [0]
      end
  | [] => [0]
  end.

(* [syntax; w; n] -> text.  0: #b with w digits; 1: #x lower with w digits; 2: #x upper;
   3: (_ bvn w) *)
Definition c04_print (a : list Z) : list Z :=
  match a with
  | [sx; w; n] =>
      codes_of (if sx =? 0 then print_b (Z.to_nat w) n
                else if sx =? 1 then print_x false (Z.to_nat w) n
                else if sx =? 2 then print_x true (Z.to_nat w) n
                else print_d n w)
  | _ => []
  end.

(* [core_hit; is_refined; changes; len out1; out1...; out2...] ->
   [outcome (0 unsat / 1 sat / 2 unknown / 3 err); valid; source (0 none / 1 out1 / 2 out2);
    solver invocations; verdict (0 none / 1 valid / 2 invalid)] *)
Definition c04_e2e (a : list Z) : list Z :=
  match a with
  | ch :: ir :: chg :: l1 :: r =>
      let (o1, o2) := take_n (Z.to_nat l1) r in
      let out1 := str_of o1 in
      let out2 := str_of o2 in
      let (o, k) := solve_e2e (negb (ch =? 0)) (negb (ir =? 0)) out1 (negb (chg =? 0)) out2 in
      let v := match classify o with NoModel => 0 | ValidCex => 1 | InvalidCex => 2 end in
      match o with
      | OUnsat => [0; 0; 0; k; v]
      | OSat valid s =>
          [1; if valid then 1 else 0;
           if ((k =? 2) : bool) then 2 else 1; k; v]
      | OUnknown => [2; 0; 0; k; v]
      | OErr => [3; 0; 0; k; v]
      end
  | _ => []
  end.

Definition table : list (string * (list Z -> list Z)) :=
  [ ("c04_parse_const"%string, c04_parse_const);
    ("c04_parse_var"%string, c04_parse_var);
    ("c04_print"%string, c04_print);
    ("c04_e2e"%string, c04_e2e) ].

Extraction "_build/C04/entries.ml" table.
