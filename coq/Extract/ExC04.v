(* Extraction entry points for C04 (list Z -> list Z each; text = character codes). *)
From Coq Require Import ZArith List Bool String Ascii.
From Coq Require Extraction.
From Coq Require Import ExtrOcamlBasic ExtrOcamlString.
From HV Require Import Model.SexpDefs Gen.GenRefine Spec.SmtQuerySpec Model.SmtTextModel Model.SolveModel
  Model.SolveFsDefs Gen.GenSolveFs Model.SolveFsModel
  Model.CexDefs Gen.GenCexHandler Model.CexModel Model.PathQueryDefs Gen.GenPathQuery Model.PathQueryModel.
From HV Require Spec.CexPrintSpec Model.CexPrintDefs Gen.GenCexPrint Gen.GenHexify Model.CexPrintModel.
Import ListNotations.
Open Scope Z_scope.

Fixpoint str_of (l : list Z) : string :=
  match l with [] => EmptyString | c :: r => String (ascii_of_N (Z.to_N c)) (str_of r) end.
Fixpoint codes_of (s : string) : list Z :=
  match s with EmptyString => [] | String c r => Z.of_N (N_of_ascii c) :: codes_of r end.
Fixpoint take_n {A} (n : nat) (l : list A) : list A * list A :=
  match n, l with
  | S n', x :: r => let (a, b) := take_n n' r in (x :: a, b)
  | _, _ => ([], l)
  end.

(* value text -> [1; n] | [0] *)
Definition c04_parse_const (a : list Z) : list Z :=
  match parse_const_value (str_of a) with Some n => [1; n] | None => [0] end.

(* [len name; name...; len width; width...; value...] -> [1; W; n] | [0] *)
Definition c04_parse_var (a : list Z) : list Z :=
  match a with
  | ln :: r =>
      let (name, r1) := take_n (Z.to_nat ln) r in
      match r1 with
      | lw :: r2 =>
          let (width, value) := take_n (Z.to_nat lw) r2 in
          match parse_model_var (str_of name) (str_of width) (str_of value) with
          | Some (W, n) => [1; W; n]
          | None => [0]
          end
      | [] => [0]
      end
  | [] => [0]
  end.

(* [syntax; w; n] -> text.  0: #b with w digits; 1: #x lower with w digits; 2: #x upper;
   3: (_ bvn w) *)
Definition c04_print (a : list Z) : list Z :=
  match a with
  | [sx; w; n] =>
      codes_of (if sx =? 0 then print_b (Z.to_nat w) n
                else if sx =? 1 then print_x false (Z.to_nat w) n
                else if sx =? 2 then print_x true (Z.to_nat w) n
                else print_d n w)
  | _ => []
  end.

(* [core_hit; is_refined; changes; len out1; out1...; out2...] ->
   [outcome (0 unsat / 1 sat / 2 unknown / 3 err); valid; source (0 none / 1 out1 / 2 out2);
    solver invocations; verdict (0 none / 1 valid / 2 invalid)] *)
Definition c04_e2e (a : list Z) : list Z :=
  match a with
  | ch :: ir :: chg :: l1 :: r =>
      let (o1, o2) := take_n (Z.to_nat l1) r in
      let out1 := str_of o1 in
      let out2 := str_of o2 in
      let (o, k) := solve_e2e (negb (ch =? 0)) (negb (ir =? 0)) out1 (negb (chg =? 0)) out2 in
      let v := match classify o with NoModel => 0 | ValidCex => 1 | InvalidCex => 2 end in
      match o with
      | OUnsat => [0; 0; 0; k; v]
      | OSat valid s =>
          [1; if valid then 1 else 0;
           if ((k =? 2) : bool) then 2 else 1; k; v]
      | OUnknown => [2; 0; 0; k; v]
      | OErr => [3; 0; 0; k; v]
      end
  | _ => []
  end.

(* ---- file-system level (Model/SolveFsModel.v).  Texts are length-prefixed: S(x) = [len; codes] *)
Definition get_str (l : list Z) : string * list Z :=
  match l with
  | n :: r => let (a, b) := take_n (Z.to_nat n) r in (str_of a, b)
  | [] => (EmptyString, [])
  end.

Definition put_str (s : string) : list Z := Z.of_nat (String.length s) :: codes_of s.

Fixpoint get_n {A} (get : list Z -> A * list Z) (k : nat) (l : list Z) : list A * list Z :=
  match k with
  | O => ([], l)
  | S k' => let (x, r) := get l in let (xs, r') := get_n get k' r in (x :: xs, r')
  end.

Definition get_list {A} (get : list Z -> A * list Z) (l : list Z) : list A * list Z :=
  match l with
  | n :: r => get_n get (Z.to_nat n) r
  | [] => ([], [])
  end.

Definition get_file (l : list Z) : (string * string) * list Z :=
  let (n, r) := get_str l in let (c, r') := get_str r in ((n, c), r').

(* one scripted answer: S(key) kind S(stdout) S(stderr); kind 1 = does not answer in time *)
Definition get_ans (l : list Z) : (string * option (string * string)) * list Z :=
  let (k, r) := get_str l in
  match r with
  | kind :: r1 =>
      let (o, r2) := get_str r1 in
      let (e, r3) := get_str r2 in
      ((k, if kind =? 1 then None else Some (o, e)), r3)
  | [] => ((k, None), [])
  end.

Fixpoint after (m s : string) : option string :=
  match strip_prefix m s with
  | Some r => Some r
  | None => match s with EmptyString => None | String _ r => after m r end
  end.

(* the scripted solver of the correspondence run: it answers by the `; key=K` line of the
   file it is handed (K.r when the file defines an f_evm_ function, i.e. is a refined query) *)
Definition key_of (content : string) : string :=
  let k := match after "; key=" content with Some r => first_line r | None => EmptyString end in
  if contains "(define-fun f_evm_" content then (k ++ ".r")%string else k.

Fixpoint assoc {A} (k : string) (l : list (string * A)) : option A :=
  match l with
  | [] => None
  | (k', v) :: r => if String.eqb k' k then Some v else assoc k r
  end.

Definition scripted_solver (answers : list (string * option (string * string))) : solver_t :=
  fun f =>
    match f with
    | None => Some (("(error ""no file"")" ++ nl)%string, EmptyString)
    | Some content =>
        match assoc (key_of content) answers with
        | Some a => a
        | None => Some (("(error ""no answer"")" ++ nl)%string, EmptyString)
        end
    end.

Fixpoint dedup (seen : list string) (d : dir) : dir :=
  match d with
  | [] => []
  | (n, c) :: r => if existsb (String.eqb n) seen then dedup seen r else (n, c) :: dedup (n :: seen) r
  end.

(* [core_hit; refined; cache; path_id] S(smtlib) S(refined smtlib) [n] S(id)* [n] (S(name) S(content))*
   [n] (S(key) kind S(stdout) S(stderr))*
   -> [outcome (0 unsat / 1 sat / 2 unknown / 3 err / 9 no return); valid; runs] S(model source)
      [n] (S(name) S(content))*      (the directory afterwards, newest first) *)
Definition c04_fs (a : list Z) : list Z :=
  match a with
  | ch :: rf :: ca :: pid :: r =>
      let (smt, r1) := get_str r in
      let (rsmt, r2) := get_str r1 in
      let (idl, r3) := get_list get_str r2 in
      let (files, r4) := get_list get_file r3 in
      let (answers, _) := get_list get_ans r4 in
      let c := mkCtx pid (negb (rf =? 0)) (negb (ca =? 0)) smt idl in
      match solve_e2e_fs (scripted_solver answers) (fun _ => rsmt) (negb (ch =? 0)) c files with
      | (o, k, d) =>
          let d' := dedup [] d in
          let tail := Z.of_nat (List.length d') :: flat_map (fun nc => (put_str (fst nc) ++ put_str (snd nc))%list) d' in
          match o with
          | Some OUnsat => ([0; 0; k] ++ put_str EmptyString ++ tail)%list
          | Some (OSat valid s) => ([1; if valid then 1 else 0; k] ++ put_str s ++ tail)%list
          | Some OUnknown => ([2; 0; k] ++ put_str EmptyString ++ tail)%list
          | Some OErr => ([3; 0; k] ++ put_str EmptyString ++ tail)%list
          | None => ([9; 0; k] ++ put_str EmptyString ++ tail)%list
          end
      end
  | _ => []
  end.

(* ---- CounterexampleHandler (Model/CexModel.v).  [is_shutdown; early_exit; future] with future
   0 exception / 1 result() raises / 2 unsat / 3 sat valid / 4 sat invalid / 5 unknown / 6 err
   -> [verdict (0 none / 1 valid / 2 invalid); the handler shuts the executor down] *)
Definition c04_handler (a : list Z) : list Z :=
  match a with
  | [sh; ee; fk] =>
      let f := if fk =? 0 then FExc else if fk =? 1 then FRaise
               else FRes (if fk =? 2 then OUnsat else if fk =? 3 then OSat true EmptyString
                          else if fk =? 4 then OSat false EmptyString else if fk =? 5 then OUnknown else OErr) in
      let o := gen_get_solver_output (negb (sh =? 0)) f in
      [match gen_callback_verdict (negb (ee =? 0)) o with NoModel => 0 | ValidCex => 1 | InvalidCex => 2 end;
       if gen_callback_shutdown (negb (ee =? 0)) o then 1 else 0]
  | _ => []
  end.

(* ---- Path.to_smt2 (Model/PathQueryModel.v).  [cache_solver] then operations: 0 c (append the
   condition numbered c) / 1 n k1..kn (slice keeping these indices) / 2 (a new path extends this one)
   -> conditions asserted by the query, -1, assertions of the path's own solver *)
Fixpoint pq_ops (fuel : nat) (l : list Z) : list (qop Z) :=
  match fuel with
  | O => []
  | S fuel' =>
      match l with
      | 0 :: c :: r => QAppend Z c :: pq_ops fuel' r
      | 1 :: n :: r => let (ks, r') := take_n (Z.to_nat n) r in QSlice Z (map Z.to_nat ks) :: pq_ops fuel' r'
      | 2 :: r => QExtend Z [] :: pq_ops fuel' r
      | _ => []
      end
  end.

Definition c04_pathq (a : list Z) : list Z :=
  match a with
  | cache :: r =>
      let p := q_run Z (fun c => c) (fun l c => existsb (Z.eqb c) l) (q_empty Z) (pq_ops (List.length r) r) in
      (q_query Z p (negb (cache =? 0)) ++ [-1] ++ q_solver Z p)%list
  | [] => []
  end.

(* ---- what is printed for a counterexample (Model/CexPrintModel.v) and what the printed text denotes
   (Spec/CexPrintSpec.v).  [n; then per variable: len name; name...; len type; type...; size_bits; value]
   -> bytes of str(PotentialModel), -1, then [0] or 1 :: per read line (len name; name...; value) *)
Fixpoint rd_vars (k : nat) (l : list Z) : list CexPrintDefs.mvar :=
  match k with
  | O => []
  | S k' =>
      match l with
      | ln :: r =>
          let (name, r1) := take_n (Z.to_nat ln) r in
          match r1 with
          | lt :: r2 =>
              let (ty, r3) := take_n (Z.to_nat lt) r2 in
              match r3 with
              | sz :: v :: r4 => CexPrintDefs.MVar (str_of name) (str_of name) (str_of ty) "BitVec"%string sz v :: rd_vars k' r4
              | _ => []
              end
          | [] => []
          end
      | [] => []
      end
  end.

Definition c04_render (a : list Z) : list Z :=
  match a with
  | n :: r =>
      let t := CexPrintModel.render_model (rd_vars (Z.to_nat n) r) in
      (codes_of t ++ [-1] ++
       match CexPrintSpec.read_cex t with
       | Some l => 1 :: flat_map (fun p => (Z.of_nat (String.length (fst p)) :: codes_of (fst p)) ++ [snd p]) l
       | None => [0]
       end)%list
  | [] => []
  end.

Definition table : list (string * (list Z -> list Z)) :=
  [ ("c04_parse_const"%string, c04_parse_const);
    ("c04_parse_var"%string, c04_parse_var);
    ("c04_print"%string, c04_print);
    ("c04_e2e"%string, c04_e2e);
    ("c04_fs"%string, c04_fs);
    ("c04_handler"%string, c04_handler);
    ("c04_pathq"%string, c04_pathq);
    ("c04_render"%string, c04_render) ].

Extraction "_build/C04/entries.ml" table.
