(* Extraction entry points for C19 (list Z -> list Z each; -1 encodes a symbolic byte). *)
From Coq Require Import ZArith List Bool String.
From Coq Require Extraction.
From Coq Require Import ExtrOcamlBasic ExtrOcamlString.
From HV Require Import Gen.GenOpcodes Model.CodeModel.
Import ListNotations.
Open Scope Z_scope.

Definition dec_code (l : list Z) : code := map (fun z => if z <? 0 then None else Some z) l.
Definition enc_byte (b : option Z) : Z := match b with Some z => z | None => -1 end.
Definition natZ (n : nat) : Z := Z.of_nat n.

(* [nfast; bytes...] -> jump destinations (order as accumulated) *)
Definition c19_jumpdests (a : list Z) : list Z :=
  match a with
  | nfast :: bs => map natZ (jumpdests (Z.to_nat nfast) (dec_code bs))
  | _ => []
  end.

(* [nfast; pc; bytes...] -> [kind; opcode; next_pc; operand_kind; operand]
   kind: 0 STOP-beyond-end, 1 symbolic opcode, 2 instruction
   operand_kind: 0 none, 1 symbolic, 2 concrete *)
Definition c19_decode (a : list Z) : list Z :=
  match a with
  | nfast :: pc :: bs =>
      match decode (Z.to_nat nfast) (dec_code bs) (Z.to_nat pc) with
      | DStop => [0]
      | DSymbolic => [1]
      | DInsn op npc None => [2; op; natZ npc; 0; 0]
      | DInsn op npc (Some None) => [2; op; natZ npc; 1; 0]
      | DInsn op npc (Some (Some v)) => [2; op; natZ npc; 2; v]
      end
  | _ => []
  end.

(* [nfast; start; size; bytes...] -> bytes of Contract.slice(start, size) *)
Definition c19_slice (a : list Z) : list Z :=
  match a with
  | nfast :: start :: size :: bs =>
      map enc_byte (slice (Z.to_nat nfast) (dec_code bs) (Z.to_nat start) (Z.to_nat size))
  | _ => []
  end.

(* [nfast; key; bytes...] -> [byte] *)
Definition c19_getitem (a : list Z) : list Z :=
  match a with
  | nfast :: key :: bs => [enc_byte (getitem (Z.to_nat nfast) (dec_code bs) (Z.to_nat key))]
  | _ => []
  end.

Definition c19_insn_len (a : list Z) : list Z := map insn_len a.

Definition table : list (string * (list Z -> list Z)) :=
  [ ("c19_jumpdests"%string, c19_jumpdests);
    ("c19_decode"%string, c19_decode);
    ("c19_slice"%string, c19_slice);
    ("c19_getitem"%string, c19_getitem);
    ("c19_insn_len"%string, c19_insn_len) ].

Extraction "_build/C19/entries.ml" table.
