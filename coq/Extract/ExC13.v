(* Extraction entry points for C13 (list Z -> list Z each).
   Strings are passed as ASCII codes, calldata as byte values. *)
From Coq Require Import ZArith NArith List Bool String Ascii.
From Coq Require Extraction.
From Coq Require Import ExtrOcamlBasic ExtrOcamlString.
From HV Require Import Spec.AssertSpec Model.AssertModel.
Import ListNotations.
Open Scope Z_scope.

Fixpoint string_of_codes (l : list Z) : string :=
  match l with [] => EmptyString | z :: r => String (ascii_of_N (Z.to_N z)) (string_of_codes r) end.
Fixpoint codes_of_string (s : string) : list Z :=
  match s with EmptyString => [] | String a r => Z.of_N (N_of_ascii a) :: codes_of_string r end.
Definition bz (b : bool) : Z := if b then 1 else 0.

Definition enc_handler (h : option handler) : list Z :=
  match h with
  | None => [0]
  | Some (HWord bop log) => [1; bz log] ++ codes_of_string bop
  | Some (HBytes bop log) => [2; bz log] ++ codes_of_string bop
  | Some (HArr bop log) => [3; bz log] ++ codes_of_string bop
  | Some (HNotImpl bop typ) => [4; Z.of_nat (String.length bop)] ++ codes_of_string bop ++ codes_of_string typ
  | Some (HUnary e log) => [5; bz e; bz log]
  end.

(* [sig chars] -> encoded handler parameters *)
Definition c13_handler (a : list Z) : list Z := enc_handler (mk_assert_handler (string_of_codes a)).

Definition split_sig (a : list Z) : string * list Z :=
  match a with
  | n :: r => (string_of_codes (firstn (Z.to_nat n) r), skipn (Z.to_nat n) r)
  | [] => (EmptyString, [])
  end.

(* [siglen; sig chars; calldata bytes] -> result of the handler halmos derives from sig *)
Definition c13_run (a : list Z) : list Z :=
  let '(s, cd) := split_sig a in
  match mk_assert_handler s with
  | None => [0]
  | Some h =>
    match run_handler h cd with
    | RCond c None => [1; bz c]
    | RCond c (Some m) => [2; bz c] ++ m
    | RValueError => [3]
    | RRaise cls => [4; match catch_action cls with Some AStuck => 1 | _ => 0 end] ++ codes_of_string cls
    | RUnicodeError => [5]
    end
  end.

(* [siglen; sig chars; calldata bytes] -> the specification: [0] not a valid encoding /
   unknown signature, [1; holds] *)
Definition c13_spec (a : list Z) : list Z :=
  let '(s, cd) := split_sig a in
  match descr_of_sig s with
  | None => [0]
  | Some d => match spec_assert d cd with None => [0] | Some b => [1; bz b] end
  end.

(* [calldata bytes] -> [assume condition; spec (2 = not a valid encoding)] *)
Definition c13_assume (a : list Z) : list Z :=
  [bz (assume_cond a); match spec_assume a with None => 2 | Some b => bz b end].

(* [sig chars] -> [1] when the specification knows the signature and halmos' handler parameters
   are the expected ones, else [0] *)
Definition dec_sat (z : Z) : sat_result := if z =? 0 then Unsat else if z =? 1 then Sat else Unknown.

(* [check(cond); check(not cond); depth] -> outcomes of the assert branch, each as
   [kind (1 yielded / 2 continues); path length; is_global_fail_set of the yielded context;
    number of frames] -- the prior path has one condition, the stack has depth+1 frames *)
Definition c13_step (a : list Z) : list Z :=
  match a with
  | r1 :: r2 :: depth :: _ =>
    let c : cond bool := fun i => i in
    let chk : path bool -> cond bool -> sat_result := fun _ c' => if c' true then dec_sat r1 else dec_sat r2 in
    let e := mkExec bool [fun _ => true] (repeat (Ctx ENone []) (S (Z.to_nat depth))) in
    flat_map (fun o =>
      match o with
      | Yielded _ e' => [1; Z.of_nat (List.length (ex_path bool e')); bz (is_global_fail_set (top_ctx bool e'));
                         Z.of_nat (List.length (ex_frames bool e'))]
      | Continues _ e' => [2; Z.of_nat (List.length (ex_path bool e')); bz (is_global_fail_set (top_ctx bool e'));
                           Z.of_nat (List.length (ex_frames bool e'))]
      | _ => [0]
      end) (assert_step bool chk e c)
  | _ => []
  end.

(* [is_false(cond)] -> outcomes of the assume branch, same encoding *)
Definition c13_assume_step (a : list Z) : list Z :=
  match a with
  | lf :: depth :: _ =>
    let c : cond bool := fun i => i in
    let e := mkExec bool [fun _ => true] (repeat (Ctx ENone []) (S (Z.to_nat depth))) in
    flat_map (fun o =>
      match o with
      | Yielded _ e' => [1; Z.of_nat (List.length (ex_path bool e')); 0; Z.of_nat (List.length (ex_frames bool e'))]
      | Continues _ e' => [2; Z.of_nat (List.length (ex_path bool e')); 0; Z.of_nat (List.length (ex_frames bool e'))]
      | _ => [0]
      end) (assume_step bool (fun _ => negb (lf =? 0)) e c)
  | _ => []
  end.

(* [class name chars] -> what SEVM.run does with an exception of that class:
   [0] escapes, [1] dropped, [2] frame error + finalize, [3] stuck + finalize, [4] yield without finalize *)
Definition c13_catch (a : list Z) : list Z :=
  match catch_action (string_of_codes a) with
  | None | Some AOther => [0]
  | Some ADrop => [1]
  | Some AFrameError => [2]
  | Some AStuck => [3]
  | Some AFailYield => [4]
  end.

(* a sequence of steps run by one frame: cheatcode calls and two-way branches.
   Inputs of the model are the indices 0..n-1 of the sampled valuations (each step carries the
   truth table of its condition over them) plus one tag n+k per step k, by which the oracle
   recognises a condition or its negation.  The oracle is the table of the answers the real
   ex.check gave, keyed by (the set of samples satisfying the path it was asked about, step,
   negated?); what is not in the table is Unknown.
   [depth; n; nsteps; steps...; records...]
     step   = 0 :: siglen :: sig chars ++ cdlen :: calldata ++ n bits   (a vm.assert* overload; the handler halmos
                                                derives from the signature is run on the calldata: a raise becomes KRaise)
            | 1 :: is_false(cond) :: n bits                             (vm.assume)
            | 2 :: n bits                                               (JUMPI on the condition, sides rejoin)
     record = mask :: step :: negated :: answer (0 unsat / 1 sat / 2 unknown)
   -> [9] when an exception escapes, else the outcomes, each as
      [kind (1 yielded by FailCheatcode / 2 reaches the end / 3 stuck / 4 frame error); path length;
       is_global_fail_set of the yielded context; number of frames; mask of the samples on the path] *)
Inductive senc := SA (sg : string) (cd : list Z) (tbl : list Z) | SU (lf : Z) (tbl : list Z) | SB (tbl : list Z).
Fixpoint parse_steps (cnt n : nat) (l : list Z) : list senc * list Z :=
  match cnt with
  | O => ([], l)
  | S f =>
    match l with
    | 0 :: m :: rest =>
      let sg := string_of_codes (firstn (Z.to_nat m) rest) in
      match skipn (Z.to_nat m) rest with
      | c :: rest' =>
        let cd := firstn (Z.to_nat c) rest' in
        let rest'' := skipn (Z.to_nat c) rest' in
        let '(st, r) := parse_steps f n (skipn n rest'') in
        (SA sg cd (firstn n rest'') :: st, r)
      | [] => ([], [])
      end
    | 1 :: lf :: rest => let '(st, r) := parse_steps f n (skipn n rest) in (SU lf (firstn n rest) :: st, r)
    | 2 :: rest => let '(st, r) := parse_steps f n (skipn n rest) in (SB (firstn n rest) :: st, r)
    | _ => ([], [])
    end
  end.
Definition tbl_of (st : senc) : list Z := match st with SA _ _ t | SU _ t | SB t => t end.
Fixpoint first_at (want : bool) (c : Z -> bool) (n : nat) (k : Z) : Z :=
  match n with
  | O => k
  | S n' => if Bool.eqb (c k) want then k else first_at want c n' (k + 1)
  end.
Fixpoint find_rec (recs : list Z) (mask k neg : Z) : Z :=
  match recs with
  | m :: k' :: g :: a :: r => if (m =? mask) && (k' =? k) && (g =? neg) then a else find_rec r mask k neg
  | _ => 2
  end.
Definition c13_seq (a : list Z) : list Z :=
  match a with
  | depth :: nz :: cnt :: rest =>
    let n := Z.to_nat nz in
    let '(steps, recs) := parse_steps (Z.to_nat cnt) n rest in
    let ns := List.length steps in
    let cond_of (k : Z) (st : senc) : cond Z := fun i =>
      if (0 <=? i) && (i <? nz) then nth (Z.to_nat i) (tbl_of st) 0 =? 1 else i =? nz + k in
    let ident (c : cond Z) : bool * Z :=
      if c (-1) then (true, first_at false c ns nz - nz) else (false, first_at true c ns nz - nz) in
    let mask_of (p : path Z) : Z :=
      fold_right (fun j acc => acc + (if sat_path Z p (Z.of_nat j) then 2 ^ Z.of_nat j else 0)) 0 (seq 0 n) in
    let nthz (k : Z) := nth (Z.to_nat k) steps (SB []) in
    let chk : path Z -> cond Z -> sat_result := fun p c =>
      let '(neg, k) := ident c in dec_sat (find_rec recs (mask_of p) k (bz neg)) in
    let lf : cond Z -> bool := fun c =>
      let '(_, k) := ident c in match nthz k with SU b _ => negb (b =? 0) | _ => false end in
    let prog := map (fun ks : Z * senc =>
      let '(k, st) := ks in
      match st with
      | SU _ _ => KAssume Z (cond_of k st)
      | SB _ => KBranch Z (cond_of k st)
      | SA sg cd _ =>
        match mk_assert_handler sg with
        | None => KRaise Z "unbound"
        | Some h => match hres_raises (run_handler h cd) with
                    | Some cls => KRaise Z cls
                    | None => KAssert Z (cond_of k st)
                    end
        end
      end) (combine (map Z.of_nat (seq 0 ns)) steps) in
    let e := mkExec Z [] (repeat (Ctx ENone []) (S (Z.to_nat depth))) in
    match run_prog Z chk lf 2 e prog with
    | None => [9]
    | Some outs =>
      flat_map (fun o =>
        let enc kind e' := [kind; Z.of_nat (List.length (ex_path Z e')); bz (is_global_fail_set (top_ctx Z e'));
                            Z.of_nat (List.length (ex_frames Z e')); mask_of (ex_path Z e')] in
        match o with
        | Yielded _ e' => enc 1 e'
        | Continues _ e' => enc 2 e'
        | Stuck _ e' => enc 3 e'
        | FrameError _ e' => enc 4 e'
        end) outs
    end
  | _ => []
  end.

Definition table : list (string * (list Z -> list Z)) :=
  [ ("c13_handler"%string, c13_handler);
    ("c13_run"%string, c13_run);
    ("c13_spec"%string, c13_spec);
    ("c13_assume"%string, c13_assume);
    ("c13_step"%string, c13_step);
    ("c13_assume_step"%string, c13_assume_step);
    ("c13_catch"%string, c13_catch);
    ("c13_seq"%string, c13_seq) ].

Extraction "_build/C13/entries.ml" table.
