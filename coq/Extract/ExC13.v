(* Extraction entry points for C13 (list Z -> list Z each).
   Strings are passed as ASCII codes, calldata as byte values. *)
From Coq Require Import ZArith NArith List Bool String Ascii.
From Coq Require Extraction.
From Coq Require Import ExtrOcamlBasic ExtrOcamlString.
From HV Require Import Spec.AssertSpec Model.AssertModel.
Import ListNotations.
Open Scope Z_scope.

Fixpoint string_of_codes (l : list Z) : string :=
  match l with [] => EmptyString | z :: r => String (ascii_of_N (Z.to_N z)) (string_of_codes r) end.
Fixpoint codes_of_string (s : string) : list Z :=
  match s with EmptyString => [] | String a r => Z.of_N (N_of_ascii a) :: codes_of_string r end.
Definition bz (b : bool) : Z := if b then 1 else 0.

Definition enc_handler (h : option handler) : list Z :=
  match h with
  | None => [0]
  | Some (HWord bop log) => [1; bz log] ++ codes_of_string bop
  | Some (HBytes bop log) => [2; bz log] ++ codes_of_string bop
  | Some (HArr bop log) => [3; bz log] ++ codes_of_string bop
  | Some (HNotImpl bop typ) => [4; Z.of_nat (String.length bop)] ++ codes_of_string bop ++ codes_of_string typ
  | Some (HUnary e log) => [5; bz e; bz log]
  end.

(* [sig chars] -> encoded handler parameters *)
Definition c13_handler (a : list Z) : list Z := enc_handler (mk_assert_handler (string_of_codes a)).

Definition split_sig (a : list Z) : string * list Z :=
  match a with
  | n :: r => (string_of_codes (firstn (Z.to_nat n) r), skipn (Z.to_nat n) r)
  | [] => (EmptyString, [])
  end.

(* [siglen; sig chars; calldata bytes] -> result of the handler halmos derives from sig *)
Definition c13_run (a : list Z) : list Z :=
  let '(s, cd) := split_sig a in
  match mk_assert_handler s with
  | None => [0]
  | Some h =>
    match run_handler h cd with
    | RCond c None => [1; bz c]
    | RCond c (Some m) => [2; bz c] ++ m
    | RValueError => [3]
    | RNotImplemented => [4]
    | RUnicodeError => [5]
    end
  end.

(* [siglen; sig chars; calldata bytes] -> the specification: [0] not a valid encoding /
   unknown signature, [1; holds] *)
Definition c13_spec (a : list Z) : list Z :=
  let '(s, cd) := split_sig a in
  match descr_of_sig s with
  | None => [0]
  | Some d => match spec_assert d cd with None => [0] | Some b => [1; bz b] end
  end.

(* [calldata bytes] -> [assume condition; spec (2 = not a valid encoding)] *)
Definition c13_assume (a : list Z) : list Z :=
  [bz (assume_cond a); match spec_assume a with None => 2 | Some b => bz b end].

(* [sig chars] -> [1] when the specification knows the signature and halmos' handler parameters
   are the expected ones, else [0] *)
Definition dec_sat (z : Z) : sat_result := if z =? 0 then Unsat else if z =? 1 then Sat else Unknown.

(* [check(cond); check(not cond); depth] -> outcomes of the assert branch, each as
   [kind (1 yielded / 2 continues); path length; is_global_fail_set of the yielded context;
    number of frames] -- the prior path has one condition, the stack has depth+1 frames *)
Definition c13_step (a : list Z) : list Z :=
  match a with
  | r1 :: r2 :: depth :: _ =>
    let c : cond bool := fun i => i in
    let chk : path bool -> cond bool -> sat_result := fun _ c' => if c' true then dec_sat r1 else dec_sat r2 in
    let e := mkExec bool [fun _ => true] (repeat (Ctx ENone []) (S (Z.to_nat depth))) in
    flat_map (fun o =>
      match o with
      | Yielded _ e' => [1; Z.of_nat (List.length (ex_path bool e')); bz (is_global_fail_set (top_ctx bool e'));
                         Z.of_nat (List.length (ex_frames bool e'))]
      | Continues _ e' => [2; Z.of_nat (List.length (ex_path bool e')); bz (is_global_fail_set (top_ctx bool e'));
                           Z.of_nat (List.length (ex_frames bool e'))]
      end) (assert_step bool chk e c)
  | _ => []
  end.

(* [is_false(cond)] -> outcomes of the assume branch, same encoding *)
Definition c13_assume_step (a : list Z) : list Z :=
  match a with
  | lf :: depth :: _ =>
    let c : cond bool := fun i => i in
    let e := mkExec bool [fun _ => true] (repeat (Ctx ENone []) (S (Z.to_nat depth))) in
    flat_map (fun o =>
      match o with
      | Yielded _ e' => [1; Z.of_nat (List.length (ex_path bool e')); 0; Z.of_nat (List.length (ex_frames bool e'))]
      | Continues _ e' => [2; Z.of_nat (List.length (ex_path bool e')); 0; Z.of_nat (List.length (ex_frames bool e'))]
      end) (assume_step bool (fun _ => negb (lf =? 0)) e c)
  | _ => []
  end.

Definition table : list (string * (list Z -> list Z)) :=
  [ ("c13_handler"%string, c13_handler);
    ("c13_run"%string, c13_run);
    ("c13_spec"%string, c13_spec);
    ("c13_assume"%string, c13_assume);
    ("c13_step"%string, c13_step);
    ("c13_assume_step"%string, c13_assume_step) ].

Extraction "_build/C13/entries.ml" table.
