(* Extraction entry for the mini-SEVM model (Model/SymExec.v): explore a program with the
   always-`unknown` oracle (never prunes; trivially sound) and report, for a concrete
   valuation, the outcome of every leaf whose path constraints it satisfies. *)
From Coq Require Import ZArith List Bool String.
From Coq Require Extraction.
From Coq Require Import ExtrOcamlBasic ExtrOcamlString.
From HV Require Import Base.Word Spec.Evm Gen.GenJumpi Model.SymExec Model.SymCalls.
Import ListNotations.
Open Scope Z_scope.

Definition pop1 (l : list Z) : Z * list Z := match l with x :: r => (x, r) | [] => (0, []) end.
Definition popn (n : Z) (l : list Z) : list Z * list Z := (firstn (Z.to_nat n) l, skipn (Z.to_nat n) l).
Fixpoint parse_pairs (n : nat) (l : list Z) : list (Z * Z) * list Z :=
  match n with
  | O => ([], l)
  | S k => match l with
           | a :: b :: r => let '(ps, r') := parse_pairs k r in ((a, b) :: ps, r')
           | _ => ([], [])
           end
  end.

(* calldata item: z >= 0 concrete byte; z < 0 : byte (j mod 32) of argument (j / 32), j = -z-1 *)
Definition data_item (z : Z) : bterm :=
  if 0 <=? z then (31%nat, TConst z)
  else let j := Z.to_nat (- z - 1) in (Nat.modulo j 32, TVar (VArg (Nat.div j 32))).

(* literal conditions are decided, everything else is `unknown` *)
Definition oracle_unknown (p : list cond) (c : term) (b : bool) : Z :=
  match c with
  | TConst z => if Bool.eqb (negb (z =? 0)) b then R_SAT else R_UNSAT
  | _ => R_UNKNOWN
  end.

Definition holdsb (rho : var -> Z) (c : cond) : bool := Bool.eqb (eval rho (fst c) =? 0) (negb (snd c)).

Definition enc_pairs (rho : var -> Z) (ws : list (term * term)) : list Z :=
  Z.of_nat (List.length ws) :: flat_map (fun p => [eval rho (fst p); eval rho (snd p)]) ws.
Definition enc_bytes (rho : var -> Z) (bs : list bterm) : list Z :=
  Z.of_nat (List.length bs) :: map (beval rho) bs.

Definition enc_leaf (rho : var -> Z) (l : leaf) : list Z :=
  match l_kind l with
  | LOk ret st tst => [0; 0] ++ enc_bytes rho ret ++ enc_pairs rho st ++ enc_pairs rho tst
  | LRevert ret => [1; 0] ++ enc_bytes rho ret
  | LHalt k => [2; k]
  | LStuck w => [3; w]
  | LFuel => [4; 0]
  end.

Definition sym_run (inp : list Z) : list Z :=
  let '(lim, l) := pop1 inp in
  let '(fuel, l) := pop1 l in
  let '(loop, l) := pop1 l in
  let '(this, l) := pop1 l in
  let '(static, l) := pop1 l in
  let '(nc, l) := pop1 l in let '(code, l) := popn nc l in
  let '(nd, l) := pop1 l in let '(data, l) := popn nd l in
  let '(caller, l) := pop1 l in
  let '(origin, l) := pop1 l in
  let '(value, l) := pop1 l in
  let '(na, l) := pop1 l in let '(args, l) := popn na l in
  let '(nb, l) := pop1 l in let '(bals, l) := parse_pairs (Z.to_nat nb) l in
  let blk := mkBlock 0 31337 0 0 (2 ^ 63 - 1) 1 1 [] in
  let se := mkSEnv this code (TVar VCaller) (TVar VOrigin) (TVar VValue) (map data_item data)
                   (negb (static =? 0)) 1 blk [] in
  let rho := fun v =>
    match v with
    | VCaller => caller | VOrigin => origin | VValue => value
    | VArg i => nth i args 0
    | VBal a => match alookup a bals with Some b => b | None => 0 end
    end in
  let '(leaves, logged) := sexec lim se oracle_unknown loop (Z.to_nat fuel) init_sstate in
  let sat := filter (fun lf => forallb (holdsb rho) (l_path lf)) leaves in
  [if logged then 1 else 0; Z.of_nat (List.length leaves); Z.of_nat (List.length sat)]
  ++ flat_map (enc_leaf rho) sat.

(* ---- the same for the model with calls and creations ---- *)
Fixpoint parse_codes (n : nat) (l : list Z) : list (Z * list Z) * list Z :=
  match n with
  | O => ([], l)
  | S k =>
      let '(a, l) := pop1 l in
      let '(cl, l) := pop1 l in
      let '(code, l) := popn cl l in
      let '(rest, l') := parse_codes k l in
      ((a, code) :: rest, l')
  end.

Definition special_addr (a : Z) : bool :=
  (a =? 645326474426547203313410069153905908525362434349)      (* hevm cheatcode address *)
  || (a =? 1390701857259574547118865050343858777485928729545)  (* svm cheatcode address *)
  || (a =? 120209876281281145568259943).                       (* console.log *)

Definition enc_leaf2 (rho : var -> Z) (l : leaf2) : list Z :=
  match l2_kind l with
  | K2Ok ret w ctr => [0; ctr] ++ enc_bytes rho ret
  | K2Revert ret ctr => [1; ctr] ++ enc_bytes rho ret
  | K2Halt k ctr => [2; k]
  | K2Stuck w => [3; w]
  | K2Fuel => [4; 0]
  end.

Definition sym_run2 (inp : list Z) : list Z :=
  let '(lim, l) := pop1 inp in
  let '(fuel, l) := pop1 l in
  let '(loop, l) := pop1 l in
  let '(this, l) := pop1 l in
  let '(static, l) := pop1 l in
  let '(nacc, l) := pop1 l in
  let '(codes, l) := parse_codes (Z.to_nat nacc) l in
  let '(nd, l) := pop1 l in let '(data, l) := popn nd l in
  let '(caller, l) := pop1 l in
  let '(origin, l) := pop1 l in
  let '(value, l) := pop1 l in
  let '(na, l) := pop1 l in let '(args, l) := popn na l in
  let '(nb, l) := pop1 l in let '(bals, l) := parse_pairs (Z.to_nat nb) l in
  let blk := mkBlock 0 31337 0 0 (2 ^ 63 - 1) 1 1 [] in
  let w := mkSW codes [] [] [] in
  let fr := mkFrame this (sw_get_code w this) (TVar VCaller) (TVar VOrigin) (TVar VValue) (map data_item data)
                    (negb (static =? 0)) 1 blk in
  let rho := fun v =>
    match v with
    | VCaller => caller | VOrigin => origin | VValue => value
    | VArg i => nth i args 0
    | VBal a => match alookup a bals with Some b => b | None => 0 end
    end in
  let '(leaves, logged) := sexec2 lim special_addr oracle_unknown loop (Z.to_nat fuel) fr w 0 init_sstate in
  let sat := filter (fun lf => forallb (holdsb rho) (l2_path lf)) leaves in
  [if logged then 1 else 0; Z.of_nat (List.length leaves); Z.of_nat (List.length sat)]
  ++ flat_map (enc_leaf2 rho) sat.

Definition table : list (string * (list Z -> list Z)) := [ ("sym_run"%string, sym_run); ("sym_run2"%string, sym_run2) ].

Extraction "_build/SYM/entries.ml" table.
