(* Extraction entry points for C15 (list Z -> list Z each). *)
From Coq Require Import String Ascii ZArith List Bool.
From Coq Require Extraction.
From Coq Require Import ExtrOcamlBasic ExtrOcamlString.
From HV Require Import Model.SetOps Gen.GenInvFilters Model.FrontierModel.
From HV Require Import Spec.StateIdSpec Model.StateIdModel Gen.GenStorageDigest Gen.GenStateId.
From HV Require Import Model.PathSliceModel Gen.GenPathSlice.
From HV Require Import Spec.ProbeSpec Gen.GenProbes Model.ProbeModel.
Import ListNotations.
Open Scope Z_scope.

Definition pop1 (l : list Z) : Z * list Z := match l with x :: r => (x, r) | [] => (0, []) end.
Definition popn (n : Z) (l : list Z) : list Z * list Z := (firstn (Z.to_nat n) l, skipn (Z.to_nat n) l).
(* length-prefixed list *)
Definition poplist (l : list Z) : list Z * list Z := let '(n, l) := pop1 l in popn n l.

(* n entries (addr; len; items...) *)
Fixpoint parse_map (n : nat) (l : list Z) : list (Z * list Z) * list Z :=
  match n with
  | O => ([], l)
  | S k => let '(a, l) := pop1 l in
           let '(v, l) := poplist l in
           let '(m, l) := parse_map k l in ((a, v) :: m, l)
  end.
Definition popmap (l : list Z) : list (Z * list Z) * list Z :=
  let '(n, l) := pop1 l in parse_map (Z.to_nat n) l.

Definition b2z (b : bool) : Z := if b then 1 else 0.

(* [test; tc; ec; deployed; tsel] -> [raises; resolved...] *)
Definition c15_resolve_contracts (a : list Z) : list Z :=
  let '(test, l) := pop1 a in
  let '(tc, l) := poplist l in
  let '(ec, l) := poplist l in
  let '(dep, l) := poplist l in
  let '(tsel, l) := popmap l in
  b2z (resolve_target_contracts_raises tc ec tsel dep test) :: resolve_target_contracts tc ec tsel dep test.

(* [tsend; esend; senders...] -> one bit per sender *)
Definition c15_sender_allowed (a : list Z) : list Z :=
  let '(ts, l) := poplist a in
  let '(es, l) := poplist l in
  map (fun s => b2z (sender_allowed ts es s)) l.

Definition string_of_codes (l : list Z) : string :=
  fold_right (fun c s => String (ascii_of_nat (Z.to_nat c)) s) EmptyString l.

(* n methods (sel; mut; siglen; chars...) *)
Fixpoint parse_methods (n : nat) (l : list Z) : list method :=
  match n with
  | O => []
  | S k => let '(sel, l) := pop1 l in
           let '(mut, l) := pop1 l in
           let '(cs, l) := poplist l in
           mkMethod (string_of_codes cs) sel mut :: parse_methods k l
  end.

(* [addr; test; tsel; esel; n; methods...] -> one bit per method *)
Definition c15_resolve_selectors (a : list Z) : list Z :=
  let '(addr, l) := pop1 a in
  let '(test, l) := pop1 l in
  let '(tsel, l) := popmap l in
  let '(esel, l) := popmap l in
  let '(n, l) := pop1 l in
  map (fun m => b2z (selector_selected tsel esel addr test m)) (parse_methods (Z.to_nat n) l).

(* frontier exploration over recorded outcome tables *)
Fixpoint parse_outcomes (n : nat) (l : list Z) : list (outcome TableInst.St) * list Z :=
  match n with
  | O => ([], l)
  | S k => let '(kind, l) := pop1 l in
           let '(x, l) := pop1 l in
           let '(y, l) := pop1 l in
           let o := if kind =? 0 then OStuck else if kind =? 1 then ORevert
                    else if kind =? 2 then OAssert x else OOk (x, y) in
           let '(r, l) := parse_outcomes k l in (o :: r, l)
  end.
Fixpoint parse_targets (n : nat) (l : list Z) : list (list (outcome TableInst.St)) * list Z :=
  match n with
  | O => ([], l)
  | S k => let '(no, l) := pop1 l in
           let '(os, l) := parse_outcomes (Z.to_nat no) l in
           let '(r, l) := parse_targets k l in (os :: r, l)
  end.
Fixpoint parse_table (n : nat) (l : list Z) : TableInst.otable :=
  match n with
  | O => []
  | S k => let '(uid, l) := pop1 l in
           let '(nt, l) := pop1 l in
           let '(ts, l) := parse_targets (Z.to_nat nt) l in
           (uid, ts) :: parse_table k l
  end.

(* [d; setup_uid; setup_id; n_states; table...] ->
   for each depth 0..d: len; uids...   then   len; probes... *)
Definition c15_frontier (a : list Z) : list Z :=
  let '(d, l) := pop1 a in
  let '(su, l) := pop1 l in
  let '(si, l) := pop1 l in
  let '(n, l) := pop1 l in
  let tb := parse_table (Z.to_nat n) l in
  let fr := frontiers TableInst.St nat (TableInst.targets tb) (TableInst.sstep tb) TableInst.sid TableInst.refresh (su, si) (Z.to_nat d) in
  let pr := probes TableInst.St nat (TableInst.targets tb) (TableInst.sstep tb) TableInst.sid TableInst.refresh (su, si) (Z.to_nat d) in
  flat_map (fun f => Z.of_nat (length f) :: map fst f) fr ++ (Z.of_nat (length pr) :: pr).

(* state identity: the regenerated snapshot_state / StorageData.digest with the identity as the
   (collision-free) hash, on the components recorded from the real Execs *)
Fixpoint parse_pairs (n : nat) (l : list Z) : list (Z * Z) * list Z :=
  match n with
  | O => ([], l)
  | S k => let '(a, l) := pop1 l in let '(b, l) := pop1 l in
           let '(r, l) := parse_pairs k l in ((a, b) :: r, l)
  end.
(* item: kind (0 int key / 1 tuple key); key (one word / length-prefixed words); value id *)
Fixpoint parse_items (n : nat) (l : list Z) : xstorage * list Z :=
  match n with
  | O => ([], l)
  | S k => let '(kind, l) := pop1 l in
           let '(key, l) := (if kind =? 0 then let '(z, l) := pop1 l in (KInt z, l)
                             else let '(ws, l) := poplist l in (KTup ws, l)) in
           let '(v, l) := pop1 l in
           let '(r, l) := parse_items k l in ((key, v) :: r, l)
  end.
Fixpoint parse_accounts (n : nat) (l : list Z) : list (Z * xstorage) * list Z :=
  match n with
  | O => ([], l)
  | S k => let '(a, l) := pop1 l in
           let '(ni, l) := pop1 l in
           let '(st, l) := parse_items (Z.to_nat ni) l in
           let '(r, l) := parse_accounts k l in ((a, st) :: r, l)
  end.
(* state: balance; ncode; (addr; code)*; naccounts; accounts; conds (length-prefixed); sliced flag; slice (length-prefixed);
          block fields basefee; chainid; coinbase; difficulty; gaslimit; number; timestamp *)
Definition parse_xstate (l : list Z) : xstate * list Z :=
  let '(bal, l) := pop1 l in
  let '(nc, l) := pop1 l in
  let '(code, l) := parse_pairs (Z.to_nat nc) l in
  let '(na, l) := pop1 l in
  let '(stor, l) := parse_accounts (Z.to_nat na) l in
  let '(conds, l) := poplist l in
  let '(flag, l) := pop1 l in
  let '(sl, l) := poplist l in
  let '(blk, l) := popn 7 l in
  let fld (f : bfield) : Z :=
    nth (match f with BBasefee => 0 | BChainid => 1 | BCoinbase => 2 | BDifficulty => 3 | BGaslimit => 4 | BNumber => 5 | BTimestamp => 6 end)%nat blk 0 in
  (mkX bal code stor conds (if flag =? 0 then None else Some sl) fld, l).
Fixpoint parse_xstates (n : nat) (l : list Z) : list xstate :=
  match n with
  | O => []
  | S k => let '(x, l) := parse_xstate l in x :: parse_xstates k l
  end.

Definition ideal_id (ex : xstate) : option (list (list (item (list Z)))) :=
  snapshot_state (fun x => x) (storage_digest (fun x => x)) true ex.
Definition ideal_id_eqb := opt_eqb (list_eqb (list_eqb (item_eqb (list_eqb Z.eqb)))).

(* [n; states...] -> for each state: -1 if get_state_id raises, else the position of the first
   state with the same id *)
Definition c15_state_classes (a : list Z) : list Z :=
  let '(n, l) := pop1 a in
  let ids := map ideal_id (parse_xstates (Z.to_nat n) l) in
  map (fun p => match fst p with None => -1 | Some _ => snd p end) (combine ids (class_ids ideal_id_eqb ids)).

(* the slice: [nconds; (nvars; vars...)*; nstate; state vars...] -> positions of the sliced conditions *)
Fixpoint parse_lists (n : nat) (l : list Z) : list (list Z) * list Z :=
  match n with
  | O => ([], l)
  | S k => let '(x, l) := poplist l in
           let '(r, l) := parse_lists k l in (x :: r, l)
  end.
Definition c15_slice (a : list Z) : list Z :=
  let '(n, l) := pop1 a in
  let '(vs, l) := parse_lists (Z.to_nat n) l in
  let '(sv, l) := poplist l in
  match p_slice (p_build vs) vs sv (slice_fuel vs sv) with
  | Some r => map Z.of_nat r
  | None => [-1]
  end.

(* probes: [n; (kind; a; b; c)*]  kind 0: EPath a (result b: 0 sat / 1 unsat / 2 unknown / 3 err) (model c)
                                   kind 1: EDone a
   -> len; submitted flags...; len; probes_reported...; len; counterexamples... *)
Fixpoint parse_pevents (n : nat) (l : list Z) : list pevent :=
  match n with
  | O => []
  | S k => let '(kind, l) := pop1 l in
           let '(a, l) := pop1 l in
           let '(b, l) := pop1 l in
           let '(c, l) := pop1 l in
           (if kind =? 0
            then EPath a (if b =? 0 then RSat else if b =? 1 then RUnsat else if b =? 2 then RUnknown else RErr) (negb (c =? 0))
            else EDone (Z.to_nat a)) :: parse_pevents k l
  end.
Definition c15_probes (a : list Z) : list Z :=
  let '(n, l) := pop1 a in
  let s := prun (parse_pevents (Z.to_nat n) l) in
  (Z.of_nat (length (ps_flags s)) :: map b2z (ps_flags s)) ++
  (Z.of_nat (length (ps_reported s)) :: ps_reported s) ++
  (Z.of_nat (length (ps_cex s)) :: ps_cex s).

Definition table : list (string * (list Z -> list Z)) :=
  [ ("c15_resolve_contracts"%string, c15_resolve_contracts);
    ("c15_sender_allowed"%string, c15_sender_allowed);
    ("c15_resolve_selectors"%string, c15_resolve_selectors);
    ("c15_frontier"%string, c15_frontier);
    ("c15_state_classes"%string, c15_state_classes);
    ("c15_slice"%string, c15_slice);
    ("c15_probes"%string, c15_probes) ].

Extraction "_build/C15/entries.ml" table.
