(* Extraction entry points for C15 (list Z -> list Z each). *)
From Coq Require Import String Ascii ZArith List Bool.
From Coq Require Extraction.
From Coq Require Import ExtrOcamlBasic ExtrOcamlString.
From HV Require Import Model.SetOps Gen.GenInvFilters Model.FrontierModel.
Import ListNotations.
Open Scope Z_scope.

Definition pop1 (l : list Z) : Z * list Z := match l with x :: r => (x, r) | [] => (0, []) end.
Definition popn (n : Z) (l : list Z) : list Z * list Z := (firstn (Z.to_nat n) l, skipn (Z.to_nat n) l).
(* length-prefixed list *)
Definition poplist (l : list Z) : list Z * list Z := let '(n, l) := pop1 l in popn n l.

(* n entries (addr; len; items...) *)
Fixpoint parse_map (n : nat) (l : list Z) : list (Z * list Z) * list Z :=
  match n with
  | O => ([], l)
  | S k => let '(a, l) := pop1 l in
           let '(v, l) := poplist l in
           let '(m, l) := parse_map k l in ((a, v) :: m, l)
  end.
Definition popmap (l : list Z) : list (Z * list Z) * list Z :=
  let '(n, l) := pop1 l in parse_map (Z.to_nat n) l.

Definition b2z (b : bool) : Z := if b then 1 else 0.

(* [test; tc; ec; deployed; tsel] -> [raises; resolved...] *)
Definition c15_resolve_contracts (a : list Z) : list Z :=
  let '(test, l) := pop1 a in
  let '(tc, l) := poplist l in
  let '(ec, l) := poplist l in
  let '(dep, l) := poplist l in
  let '(tsel, l) := popmap l in
  b2z (resolve_target_contracts_raises tc ec tsel dep test) :: resolve_target_contracts tc ec tsel dep test.

(* [tsend; esend; senders...] -> one bit per sender *)
Definition c15_sender_allowed (a : list Z) : list Z :=
  let '(ts, l) := poplist a in
  let '(es, l) := poplist l in
  map (fun s => b2z (sender_allowed ts es s)) l.

Definition string_of_codes (l : list Z) : string :=
  fold_right (fun c s => String (ascii_of_nat (Z.to_nat c)) s) EmptyString l.

(* n methods (sel; mut; siglen; chars...) *)
Fixpoint parse_methods (n : nat) (l : list Z) : list method :=
  match n with
  | O => []
  | S k => let '(sel, l) := pop1 l in
           let '(mut, l) := pop1 l in
           let '(cs, l) := poplist l in
           mkMethod (string_of_codes cs) sel mut :: parse_methods k l
  end.

(* [addr; test; tsel; esel; n; methods...] -> one bit per method *)
Definition c15_resolve_selectors (a : list Z) : list Z :=
  let '(addr, l) := pop1 a in
  let '(test, l) := pop1 l in
  let '(tsel, l) := popmap l in
  let '(esel, l) := popmap l in
  let '(n, l) := pop1 l in
  map (fun m => b2z (selector_selected tsel esel addr test m)) (parse_methods (Z.to_nat n) l).

(* frontier exploration over recorded outcome tables *)
Fixpoint parse_outcomes (n : nat) (l : list Z) : list (outcome TableInst.St) * list Z :=
  match n with
  | O => ([], l)
  | S k => let '(kind, l) := pop1 l in
           let '(x, l) := pop1 l in
           let '(y, l) := pop1 l in
           let o := if kind =? 0 then OStuck else if kind =? 1 then ORevert
                    else if kind =? 2 then OAssert x else OOk (x, y) in
           let '(r, l) := parse_outcomes k l in (o :: r, l)
  end.
Fixpoint parse_targets (n : nat) (l : list Z) : list (list (outcome TableInst.St)) * list Z :=
  match n with
  | O => ([], l)
  | S k => let '(no, l) := pop1 l in
           let '(os, l) := parse_outcomes (Z.to_nat no) l in
           let '(r, l) := parse_targets k l in (os :: r, l)
  end.
Fixpoint parse_table (n : nat) (l : list Z) : TableInst.otable :=
  match n with
  | O => []
  | S k => let '(uid, l) := pop1 l in
           let '(nt, l) := pop1 l in
           let '(ts, l) := parse_targets (Z.to_nat nt) l in
           (uid, ts) :: parse_table k l
  end.

(* [d; setup_uid; setup_id; n_states; table...] ->
   for each depth 0..d: len; uids...   then   len; probes... *)
Definition c15_frontier (a : list Z) : list Z :=
  let '(d, l) := pop1 a in
  let '(su, l) := pop1 l in
  let '(si, l) := pop1 l in
  let '(n, l) := pop1 l in
  let tb := parse_table (Z.to_nat n) l in
  let fr := frontiers TableInst.St nat (TableInst.targets tb) (TableInst.sstep tb) TableInst.sid TableInst.refresh (su, si) (Z.to_nat d) in
  let pr := probes TableInst.St nat (TableInst.targets tb) (TableInst.sstep tb) TableInst.sid TableInst.refresh (su, si) (Z.to_nat d) in
  flat_map (fun f => Z.of_nat (length f) :: map fst f) fr ++ (Z.of_nat (length pr) :: pr).

Definition table : list (string * (list Z -> list Z)) :=
  [ ("c15_resolve_contracts"%string, c15_resolve_contracts);
    ("c15_sender_allowed"%string, c15_sender_allowed);
    ("c15_resolve_selectors"%string, c15_resolve_selectors);
    ("c15_frontier"%string, c15_frontier) ].

Extraction "_build/C15/entries.ml" table.
