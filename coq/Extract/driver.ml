(* Generic driver for the extracted models.  Trusted glue (about 50 lines):
   reads lines "name h1 h2 ..." (hex integers, '-' prefix for negatives), looks the
   name up in Entries.table : (char list * (z list -> z list)) list, prints the result
   as hex integers on one line, or "!<msg>" if the name is unknown / an exception. *)
open Entries

let rec pos_of_bits (bits : bool list) (acc : positive) : positive =
  match bits with
  | [] -> acc
  | b :: r -> pos_of_bits r (if b then XI acc else XO acc)

(* hex string -> z ; most significant digit first *)
let z_of_hex (s : string) : z =
  let neg = String.length s > 0 && s.[0] = '-' in
  let s = if neg then String.sub s 1 (String.length s - 1) else s in
  let bits = ref [] in
  String.iter (fun ch ->
    let d = int_of_string ("0x" ^ String.make 1 ch) in
    bits := !bits @ [d land 8 <> 0; d land 4 <> 0; d land 2 <> 0; d land 1 <> 0]) s;
  let rec strip = function false :: r -> strip r | l -> l in
  match strip !bits with
  | [] -> Z0
  | _ :: r -> let p = pos_of_bits r XH in if neg then Zneg p else Zpos p

let hex_of_pos (p : positive) : string =
  let rec bits p acc = match p with
    | XH -> true :: acc
    | XO q -> bits q (false :: acc)
    | XI q -> bits q (true :: acc) in
  let bs = bits p [] in
  let pad = (4 - List.length bs mod 4) mod 4 in
  let bs = List.init pad (fun _ -> false) @ bs in
  let buf = Buffer.create 16 in
  let rec go = function
    | a :: b :: c :: d :: r ->
        let v = (if a then 8 else 0) + (if b then 4 else 0) + (if c then 2 else 0) + (if d then 1 else 0) in
        Buffer.add_string buf (Printf.sprintf "%x" v); go r
    | _ -> () in
  go bs; Buffer.contents buf

let hex_of_z = function
  | Z0 -> "0"
  | Zpos p -> hex_of_pos p
  | Zneg p -> "-" ^ hex_of_pos p

let chars_of_string s = List.init (String.length s) (String.get s)

let () =
  let tbl = Hashtbl.create 64 in
  List.iter (fun (name, f) -> Hashtbl.replace tbl (String.of_seq (List.to_seq name)) f) table;
  try
    while true do
      let line = input_line stdin in
      match String.split_on_char ' ' (String.trim line) with
      | [] | [""] -> print_newline ()
      | name :: args ->
        (match Hashtbl.find_opt tbl name with
         | None -> print_endline ("!unknown entry " ^ name)
         | Some f ->
           (try
              let res = f (List.map z_of_hex (List.filter (fun s -> s <> "") args)) in
              print_endline (String.concat " " (List.map hex_of_z res))
            with e -> print_endline ("!" ^ Printexc.to_string e)))
    done
  with End_of_file -> ()
