(* Extraction entry points for C11 (list Z -> list Z each; text = character codes). *)
From Coq Require Import ZArith List Bool String Ascii.
From Coq Require Extraction.
From Coq Require Import ExtrOcamlBasic ExtrOcamlString.
From HV Require Import Model.SexpDefs Gen.GenRefine Spec.SmtQuerySpec Model.SmtTextModel
  Model.PathCopyDefs Gen.GenPathCopy Model.PathHeapModel
  Model.DumpFsDefs Gen.GenDumpFs Model.DumpFsModel.
Import ListNotations.
Open Scope Z_scope.

Fixpoint str_of (l : list Z) : string :=
  match l with [] => EmptyString | c :: r => String (ascii_of_N (Z.to_N c)) (str_of r) end.
Fixpoint codes_of (s : string) : list Z :=
  match s with EmptyString => [] | String c r => Z.of_N (N_of_ascii c) :: codes_of r end.

(* text of one line -> text after solve.refine *)
Definition c11_refine_line (a : list Z) : list Z := codes_of (refine_line (str_of a)).

(* [rule index; op index; x; y; digits of the width...] ->
   [1; width; value] of the instantiated replacement applied to (x, y), or [0] *)
Definition c11_eval (a : list Z) : list Z :=
  match a with
  | ri :: oi :: x :: y :: ds =>
      match nth_error refine_rules (Z.to_nat ri) with
      | Some r =>
          match nth_error (rule_ops r) (Z.to_nat oi), parse_dec (str_of ds) with
          | Some op, Some N =>
              match eval_define (inst op (str_of ds) (rule_repl r)) [VBV N x; VBV N y] with
              | Some (VBV w v) => [1; w; v]
              | _ => [0]
              end
          | _, _ => [0]
          end
      | None => [0]
      end
  | _ => [0]
  end.

Fixpoint take_n {A} (n : nat) (l : list A) : list A * list A :=
  match n, l with
  | S n', x :: r => let (a, b) := take_n n' r in (x :: a, b)
  | _, _ => ([], l)
  end.

(* [cache_solver; number of ids; ids...; text of query.smtlib...] -> text of the dumped file *)
Definition c11_dump (a : list Z) : list Z :=
  match a with
  | cs :: n :: r =>
      let (ids, txt) := take_n (Z.to_nat n) r in
      codes_of (dump_text (negb (cs =? 0)) (str_of txt) (map print_dec ids))
  | _ => []
  end.

(* ---- Path scripts.  Conditions are integers: 0 is `true`; they arrive simplified
   (simp = identity), var sets come from a table. *)
Definition zpath := path Z.

Fixpoint read_table (n : nat) (l : list Z) : list (list Z) * list Z :=
  match n with
  | O => ([], l)
  | S n' =>
      match l with
      | k :: r => let (vs, r') := take_n (Z.to_nat k) r in
                  let (t, r'') := read_table n' r' in (vs :: t, r'')
      | [] => ([], [])
      end
  end.

(* ops: 1 c b | 2 c | 3 k v1..vk | 4 k s1..sk *)
Fixpoint read_ops (fuel : nat) (l : list Z) : list (pop Z) :=
  match fuel with
  | O => []
  | S f =>
      match l with
      | 1 :: c :: b :: r => OAppend c (negb (b =? 0)) :: read_ops f r
      | 2 :: c :: r => OBranch c :: read_ops f r
      | 3 :: k :: r => let (vs, r') := take_n (Z.to_nat k) r in OSlice vs :: read_ops f r'
      | 4 :: k :: r => let (s0, r') := take_n (Z.to_nat k) r in OExtend s0 :: read_ops f r'
      | _ => []
      end
  end.

Definition natZ (n : nat) : Z := Z.of_nat n.
Definition lenZ {A} (l : list A) : Z := Z.of_nat (List.length l).

(* [cache_solver; number of table rows; rows (k v1..vk)...; ops...] ->
   [status; n; conditions (c, branching)...; n; solver...; sliced flag; n; sliced...;
    n; asserted...; n; ids...] *)
Definition c11_path (a : list Z) : list Z :=
  match a with
  | cs :: nt :: r =>
      let (table, r') := read_table (Z.to_nat nt) r in
      let vars := fun c : Z => nth (Z.to_nat c) table [] in
      let ops := read_ops (List.length r') r' in
      match run Z Z.eqb (fun c => c) (fun c => c =? 0) vars (empty_path Z []) ops with
      | None => [0]
      | Some p =>
          let q := to_smt2 Z (fun c => c) p (negb (cs =? 0)) in
          [1; lenZ (conditions p)]
          ++ flat_map (fun cb => [fst cb; if snd cb : bool then 1 else 0]) (conditions p)
          ++ [lenZ (solver p)] ++ solver p
          ++ match sliced p with
             | None => [0; 0]
             | Some s => [1; lenZ s] ++ map natZ s
             end
          ++ [lenZ (fst q)]
          ++ map (fun x => match x with QPlain c => c | QTracked i c => i end) (fst q)
          ++ [lenZ (snd q)] ++ snd q
      end
  | _ => [0]
  end.

(* ---- programs over several Path objects (Model/PathHeapModel.v with the regenerated copy
   modes).  ops: 1 i c b | 2 i c | 3 i k v1..vk | 4 i k s1..sk | 5 i *)
Fixpoint read_hops (fuel : nat) (l : list Z) : list (hop Z) :=
  match fuel with
  | O => []
  | S f =>
      match l with
      | 1 :: i :: c :: b :: r => HAppend (Z.to_nat i) c (negb (b =? 0)) :: read_hops f r
      | 2 :: i :: c :: r => HBranch (Z.to_nat i) c :: read_hops f r
      | 3 :: i :: k :: r => let (vs, r') := take_n (Z.to_nat k) r in HSlice (Z.to_nat i) vs :: read_hops f r'
      | 4 :: i :: k :: r => let (s0, r') := take_n (Z.to_nat k) r in HExtend (Z.to_nat i) s0 :: read_hops f r'
      | 5 :: i :: r => HActivate (Z.to_nat i) :: read_hops f r
      | _ => []
      end
  end.

Definition enc_hpath (cs : bool) (h : heap Z) (hp : hpath Z) : list Z :=
  let p := h_view Z h hp in
  let q := to_smt2 Z (fun c => c) p cs in
  [lenZ (conditions p)]
  ++ flat_map (fun cb => [fst cb; if snd cb : bool then 1 else 0]) (conditions p)
  ++ [lenZ (pending p)]
  ++ match sliced p with
     | None => [0; 0]
     | Some s => [1; lenZ s] ++ map natZ s
     end
  ++ [lenZ (solver p)] ++ solver p
  ++ [lenZ (fst q)]
  ++ map (fun x => match x with QPlain c => c | QTracked i c => i end) (fst q)
  ++ [lenZ (snd q)] ++ snd q.

(* [cache_solver; number of table rows; rows (k v1..vk)...; ops...] ->
   [status; number of Path objects; per object: n; conditions (c, branching)...; number of
    pending conditions; sliced flag; n; sliced...; n; assertions of its solver...;
    n; asserted...; n; ids...] *)
Definition c11_heap (a : list Z) : list Z :=
  match a with
  | cs :: nt :: r =>
      let (table, r') := read_table (Z.to_nat nt) r in
      let vars := fun c : Z => nth (Z.to_nat c) table [] in
      let ops := read_hops (List.length r') r' in
      match h_run Z Z.eqb (fun c => c) (fun c => c =? 0) vars gen_modes (h_init Z []) ops with
      | None => [0]
      | Some h => [1; lenZ (o_paths h)] ++ flat_map (enc_hpath (negb (cs =? 0)) h) (o_paths h)
      end
  | _ => [0]
  end.

(* the same program on values, every object along its own lineage (the right-hand side of
   C11_every_path_query): [status; number of objects; per object: n; constraints...] *)
Definition c11_lineage_spec (a : list Z) : list Z :=
  match a with
  | _ :: nt :: r =>
      let (table, r') := read_table (Z.to_nat nt) r in
      let ops := read_hops (List.length r') r' in
      let ls := lineages Z ops in
      [1; lenZ ls]
      ++ flat_map (fun l => let cs := add_all Z Z.eqb (fun c => c) (fun c => c =? 0) [] (accumulated Z l) in
                            lenZ cs :: cs) ls
  | _ => [0]
  end.

(* does the program follow the exploration discipline?  [1; n; running path of every solver
   object...] or [0] *)
Definition c11_sched (a : list Z) : list Z :=
  match a with
  | _ :: nt :: r =>
      let (_, r') := read_table (Z.to_nat nt) r in
      match sched_run Z sched_init (read_hops (List.length r') r') with
      | Some sc => ([1; lenZ (sc_current sc)] ++ map natZ (sc_current sc))%list
      | None => [0]
      end
  | _ => [0]
  end.

(* the pure model run along the lineage of every object (the right-hand side of
   C11_solver_mirrors_running_path): per object [status; n; solver view...] *)
Definition c11_lineage_solver (a : list Z) : list Z :=
  match a with
  | _ :: nt :: r =>
      let (table, r') := read_table (Z.to_nat nt) r in
      let vars := fun c : Z => nth (Z.to_nat c) table [] in
      let ls := lineages Z (read_hops (List.length r') r') in
      lenZ ls ::
      flat_map (fun l => match run Z Z.eqb (fun c => c) (fun c => c =? 0) vars (empty_path Z []) l with
                         | Some p => ([1; lenZ (solver p)] ++ solver p)%list
                         | None => [0; 0]
                         end) ls
  | _ => [0]
  end.

(* ---- the dump / solve protocol on a file system (Model/DumpFsModel.v).
   text = length, character codes.
   input : number of files, (name, content)*, number of calls,
           (directory, path id, is_refined, cache_solver, core hit, solve again, query.smtlib,
            refined smtlib, number of ids, ids...)*
   output: number of solver processes, (file name, 1 content | 0)*,
           number of files afterwards, (name, content)*
   The solver answers ("", "") to everything: only the query files matter here. *)
Definition read_str (l : list Z) : string * list Z :=
  match l with
  | n :: r => let (a, b) := take_n (Z.to_nat n) r in (str_of a, b)
  | [] => (EmptyString, [])
  end.

Definition enc_str (s : string) : list Z := Z.of_nat (String.length s) :: codes_of s.

Fixpoint read_files (n : nat) (l : list Z) : fsys * list Z :=
  match n with
  | O => ([], l)
  | S n' =>
      let (nm, r1) := read_str l in
      let (ct, r2) := read_str r1 in
      let (fs, r3) := read_files n' r2 in ((nm, ct) :: fs, r3)
  end.

Fixpoint read_jobs (n : nat) (l : list Z) : list (job * (string * string)) :=
  match n with
  | O => []
  | S n' =>
      let (dir, r1) := read_str l in
      match r1 with
      | id :: rfd :: cache :: core :: again :: r2 =>
          let (smt, r3) := read_str r2 in
          let (rsmt, r4) := read_str r3 in
          match r4 with
          | k :: r5 =>
              let (ids, r6) := take_n (Z.to_nat k) r5 in
              (mkJob (mkCtx dir id (negb (rfd =? 0)) (negb (cache =? 0)) smt (map print_dec ids))
                     (negb (core =? 0)) (fun _ => negb (again =? 0)), (smt, rsmt))
              :: read_jobs n' r6
          | [] => []
          end
      | _ => []
      end
  end.

Fixpoint fs_listing (d : fsys) (seen : list string) : list Z :=
  match d with
  | [] => []
  | (n, c) :: r =>
      if existsb (String.eqb n) seen then fs_listing r seen
      else (enc_str n ++ enc_str c ++ fs_listing r (n :: seen))%list
  end.
Fixpoint fs_count (d : fsys) (seen : list string) : Z :=
  match d with
  | [] => 0
  | (n, _) :: r => if existsb (String.eqb n) seen then fs_count r seen else 1 + fs_count r (n :: seen)
  end.

Definition c11_fs (a : list Z) : list Z :=
  match a with
  | nf :: r =>
      let (fs0, r1) := read_files (Z.to_nat nf) r in
      match r1 with
      | nj :: r2 =>
          let js := read_jobs (Z.to_nat nj) r2 in
          let rf := fun s => match find (fun p => String.eqb (fst p) s) (map snd js) with
                             | Some p => snd p
                             | None => s
                             end in
          let slv : solver_t := fun _ => Some (EmptyString, EmptyString) in
          let (fs1, tr) := run_jobs slv rf (fs0, []) (map fst js) in
          (lenZ tr ::
           flat_map (fun e => enc_str (ev_file e) ++
                              match ev_read e with Some t => 1 :: enc_str t | None => [0] end) tr ++
           fs_count fs1 [] :: fs_listing fs1 [])%list
      | [] => []
      end
  | [] => []
  end.

Definition table : list (string * (list Z -> list Z)) :=
  [ ("c11_fs"%string, c11_fs);
    ("c11_sched"%string, c11_sched);
    ("c11_lineage_solver"%string, c11_lineage_solver);
    ("c11_heap"%string, c11_heap);
    ("c11_lineage_spec"%string, c11_lineage_spec);
    ("c11_refine_line"%string, c11_refine_line);
    ("c11_eval"%string, c11_eval);
    ("c11_dump"%string, c11_dump);
    ("c11_path"%string, c11_path) ].

Extraction "_build/C11/entries.ml" table.
