(* Extraction entry point for the reference interpreter Spec/Evm.v.
   evm_run : list Z -> list Z with the flat encoding documented in harness/refevm.py. *)
From Coq Require Import ZArith List Bool String.
From Coq Require Extraction.
From Coq Require Import ExtrOcamlBasic ExtrOcamlString.
From HV Require Import Spec.Evm.
Import ListNotations.
Open Scope Z_scope.

Definition pop1 (l : list Z) : Z * list Z := match l with x :: r => (x, r) | [] => (0, []) end.
Definition popn (n : Z) (l : list Z) : list Z * list Z := (firstn (Z.to_nat n) l, skipn (Z.to_nat n) l).

Fixpoint parse_pairs (n : nat) (l : list Z) : list (Z * Z) * list Z :=
  match n with
  | O => ([], l)
  | S k => match l with
           | a :: b :: r => let '(ps, r') := parse_pairs k r in ((a, b) :: ps, r')
           | _ => ([], [])
           end
  end.

(* account: addr; balance; has_code; code_len; code...; n_slots; (k; v)* *)
Fixpoint parse_accounts (n : nat) (l : list Z) (w : world) : world * list Z :=
  match n with
  | O => (w, l)
  | S k =>
      let '(a, l) := pop1 l in
      let '(bal, l) := pop1 l in
      let '(hc, l) := pop1 l in
      let '(cl, l) := pop1 l in
      let '(code, l) := popn cl l in
      let '(ns, l) := pop1 l in
      let '(slots, l) := parse_pairs (Z.to_nat ns) l in
      let w' := mkWorld (if hc =? 0 then w_code w else aset a code (w_code w))
                        (aset a slots (w_storage w))
                        (w_transient w)
                        (aset a bal (w_balance w)) in
      parse_accounts k l w'
  end.

Definition enc_bytes (bs : list Z) : list Z := Z.of_nat (List.length bs) :: bs.
Definition enc_pairs (ps : list (Z * Z)) : list Z :=
  Z.of_nat (List.length ps) :: flat_map (fun p => [fst p; snd p]) ps.
Definition enc_smap (m : list (Z * list (Z * Z))) : list Z :=
  Z.of_nat (List.length m) :: flat_map (fun p => fst p :: enc_pairs (snd p)) m.
Definition enc_world (w : world) : list Z :=
  (Z.of_nat (List.length (w_code w)) :: flat_map (fun p => fst p :: enc_bytes (snd p)) (w_code w))
  ++ enc_smap (w_storage w) ++ enc_smap (w_transient w) ++ enc_pairs (w_balance w).
Definition enc_logs (ls : list (Z * list Z * list Z)) : list Z :=
  Z.of_nat (List.length ls) ::
  flat_map (fun l => let '(a, ts, d) := l in a :: enc_bytes ts ++ enc_bytes d) ls.

Definition evm_run (inp : list Z) : list Z :=
  let '(lim, l) := pop1 inp in
  let '(fuel, l) := pop1 l in
  let '(ctr, l) := pop1 l in
  let '(nacc, l) := pop1 l in
  let '(w, l) := parse_accounts (Z.to_nat nacc) l (mkWorld [] [] [] []) in
  let '(bf, l) := pop1 l in let '(ci, l) := pop1 l in let '(cb, l) := pop1 l in
  let '(df, l) := pop1 l in let '(gl, l) := pop1 l in let '(nu, l) := pop1 l in
  let '(ts, l) := pop1 l in
  let '(this, l) := pop1 l in
  let '(caddr, l) := pop1 l in
  let '(code, l) :=
    if caddr <? 0 then let '(n, l) := pop1 l in popn n l else (get_code w caddr, l) in
  let '(caller, l) := pop1 l in
  let '(origin, l) := pop1 l in
  let '(value, l) := pop1 l in
  let '(static, l) := pop1 l in
  let '(depth, l) := pop1 l in
  let '(dl, l) := pop1 l in
  let '(data, l) := popn dl l in
  (* naming of CREATE2 addresses: n; (EVM address; name)*   -- absent / 0 = the EVM *)
  let '(nn, l) := pop1 l in
  let '(names, l) := parse_pairs (Z.to_nat nn) l in
  let blk := mkBlock bf ci cb df gl nu ts names in
  let e := mkEnv this code caller origin value data (negb (static =? 0)) (Z.to_nat depth) blk in
  match run_message lim (Z.to_nat fuel) e w ctr with
  | ROk w' ctr' ret logs => [0; 0; ctr'] ++ enc_bytes ret ++ enc_logs logs ++ enc_world w'
  | RRevert ctr' ret => [1; 0; ctr'] ++ enc_bytes ret
  | RHalt ctr' k => [2; k; ctr']
  | RFuel => [3; 0; 0]
  | RUnsupported x => [4; x; 0]
  end.

Definition keccak_entry (bs : list Z) : list Z := [keccak_bytes bs].

Definition table : list (string * (list Z -> list Z)) :=
  [ ("evm_run"%string, evm_run); ("keccak"%string, keccak_entry) ].

Extraction "_build/EVM/entries.ml" table.
