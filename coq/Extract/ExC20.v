(* Extraction entry points for C20 (list Z -> list Z each). *)
From Coq Require Import String ZArith List Bool.
From Coq Require Extraction.
From Coq Require Import ExtrOcamlBasic ExtrOcamlString.
From HV Require Import Gen.GenCopies Gen.GenFrontierFlow Spec.IsolationSpec Model.IsolationModel.
From HV Require Import Gen.GenSolverLife Spec.SolverLifeSpec Model.SolverLifeModel.
Import ListNotations.
Open Scope Z_scope.

Definition natZ (n : nat) : Z := Z.of_nat n.
Definition chunk (l : list Z) (start len : nat) : list Z := firstn len (skipn start l).
Definition row (tbl : list Z) (w : nat) (s : Z) : list Z :=
  if s <? 0 then [] else filter (fun z => 0 <=? z) (chunk tbl (Z.to_nat s * w) w).

(* c20_run: [n; K; P; s0; ntests; step table (n*K, -1 = none); sid table (n);
             per test: depth; budget (-1 = none); body table (n*P, -1 = none)]
   -> per test: [npaths; codes...] *)
Fixpoint decode_tests (nt : nat) (n P : nat) (l : list Z) : list test :=
  match nt with
  | O => []
  | S nt' =>
      match l with
      | d :: b :: rest =>
          let tbl := firstn (n * P) rest in
          mkTest (Z.to_nat d) (fun s => if s <? natZ n then row tbl P s else [])
                 (if b <? 0 then None else Some (Z.to_nat b))
          :: decode_tests nt' n P (skipn (n * P) rest)
      | _ => []
      end
  end.

Definition c20_run (a : list Z) : list Z :=
  match a with
  | n :: K :: P :: s0 :: nt :: rest =>
      let n' := Z.to_nat n in let K' := Z.to_nat K in let P' := Z.to_nat P in
      let steps := firstn (n' * K') rest in
      let rest1 := skipn (n' * K') rest in
      let sids := firstn n' rest1 in
      let rest2 := skipn n' rest1 in
      let sys := mkSystem (fun s => if s <? n then row steps K' s else [])
                          (fun s => if (0 <=? s) && (s <? n) then nth (Z.to_nat s) sids s else s) in
      let ts := decode_tests (Z.to_nat nt) n' P' rest2 in
      flat_map (fun p => natZ (List.length p) :: p) (run_contract sys s0 ts)
  | _ => []
  end.

(* c20_spec: same input -> per test the result of the test ALONE per the specification *)
Definition c20_spec (a : list Z) : list Z :=
  match a with
  | n :: K :: P :: s0 :: nt :: rest =>
      let n' := Z.to_nat n in let K' := Z.to_nat K in let P' := Z.to_nat P in
      let steps := firstn (n' * K') rest in
      let rest1 := skipn (n' * K') rest in
      let sids := firstn n' rest1 in
      let rest2 := skipn n' rest1 in
      let sys := mkSystem (fun s => if s <? n then row steps K' s else [])
                          (fun s => if (0 <=? s) && (s <? n) then nth (Z.to_nat s) sids s else s) in
      let ts := decode_tests (Z.to_nat nt) n' P' rest2 in
      flat_map (fun t => let p := spec_paths sys (t_body t) s0 (t_depth t) in natZ (List.length p) :: p) ts
  | _ => []
  end.

(* c20_run_cfg: [n; K; P; s0; ntests; NC; cc; step tables of the NC configs (NC * n*K, -1 = none); sid table (n);
                 per test: cfg; depth; budget (-1 = none); body table (n*P, -1 = none)]
   -> per test: [npaths; codes...]   (the exploring config is Model.frontier_cfg: what the code does) *)
Fixpoint decode_ctests (nt : nat) (n P : nat) (l : list Z) : list ctest :=
  match nt with
  | O => []
  | S nt' =>
      match l with
      | e :: d :: b :: rest =>
          let tbl := firstn (n * P) rest in
          mkCTest e (mkTest (Z.to_nat d) (fun s => if s <? natZ n then row tbl P s else [])
                            (if b <? 0 then None else Some (Z.to_nat b)))
          :: decode_ctests nt' n P (skipn (n * P) rest)
      | _ => []
      end
  end.

Definition c20_run_cfg (a : list Z) : list Z :=
  match a with
  | n :: K :: P :: s0 :: nt :: NC :: cc :: rest =>
      let n' := Z.to_nat n in let K' := Z.to_nat K in let P' := Z.to_nat P in
      let sz := (n' * K')%nat in
      let steps := firstn (Z.to_nat NC * sz) rest in
      let rest1 := skipn (Z.to_nat NC * sz) rest in
      let sids := firstn n' rest1 in
      let rest2 := skipn n' rest1 in
      let cstep := fun e s => if (0 <=? e) && (e <? NC) && (s <? n)
                              then row (chunk steps (Z.to_nat e * sz) sz) K' s else [] in
      let sd := fun s => if (0 <=? s) && (s <? n) then nth (Z.to_nat s) sids s else s in
      let ts := decode_ctests (Z.to_nat nt) n' P' rest2 in
      flat_map (fun p => natZ (List.length p) :: p) (run_contract_c frontier_cfg cstep sd cc s0 ts)
  | _ => []
  end.

(* c20_run_ann: [n; K; P; s0; ntests; NL; cc; step tables of the loop bounds 0..NL-1 (NL * n*K, -1 = none); sid table (n);
                 per test: is_invariant; annotated loop bound (-1 = none); annotated depth (-1 = none);
                           budget (-1 = none); body table (n*P, -1 = none)]
   A config is loop * 16 + invariant_depth (cc: the contract's).  The annotation of a test overrides the components it
   names; which base it is applied to (Model.next_base) and which config explores the frontier (Model.frontier_cfg)
   are what the code does.  -> per test: [npaths; codes...] *)
Definition cfg_loop (e : Z) : Z := e / 16.
Definition cfg_depth (e : Z) : Z := e mod 16.

Fixpoint decode_atests (nt : nat) (n P : nat) (l : list Z) : list atest :=
  match nt with
  | O => []
  | S nt' =>
      match l with
      | inv :: al :: ad :: b :: rest =>
          let tbl := firstn (n * P) rest in
          mkATest (fun base => (if al <? 0 then cfg_loop base else al) * 16 + (if ad <? 0 then cfg_depth base else ad))
                  (fun e => if inv =? 0 then O else Z.to_nat (cfg_depth e))
                  (fun _ s => if s <? natZ n then row tbl P s else [])
                  (if b <? 0 then None else Some (Z.to_nat b))
          :: decode_atests nt' n P (skipn (n * P) rest)
      | _ => []
      end
  end.

Definition c20_run_ann (a : list Z) : list Z :=
  match a with
  | n :: K :: P :: s0 :: nt :: NL :: cc :: rest =>
      let n' := Z.to_nat n in let K' := Z.to_nat K in let P' := Z.to_nat P in
      let sz := (n' * K')%nat in
      let steps := firstn (Z.to_nat NL * sz) rest in
      let rest1 := skipn (Z.to_nat NL * sz) rest in
      let sids := firstn n' rest1 in
      let rest2 := skipn n' rest1 in
      let cstep := fun e s => let l := cfg_loop e in
                              if (0 <=? l) && (l <? NL) && (s <? n)
                              then row (chunk steps (Z.to_nat l * sz) sz) K' s else [] in
      let sd := fun s => if (0 <=? s) && (s <? n) then nth (Z.to_nat s) sids s else s in
      let ts := decode_atests (Z.to_nat nt) n' P' rest2 in
      flat_map (fun p => natZ (List.length p) :: p) (run_contract_a next_base frontier_cfg cstep sd cc s0 ts)
  | _ => []
  end.

(* nested singleton containers: depth n, key 0 -> child, key 1 -> 5 *)
Fixpoint chain (n : nat) (h : heap) : heap * val :=
  match n with
  | O => (h, I 0)
  | S n' => let '(h1, v) := chain n' h in (h1 ++ [[(0, v); (1, I 5)]], R (List.length h1))
  end.

Fixpoint chains (k : nat) (n : nat) (h : heap) : heap * list val :=
  match k with
  | O => (h, [])
  | S k' => let '(h1, v) := chain n h in let '(h2, r) := chains k' n h1 in (h2, v :: r)
  end.

Definition table_of (z : Z) : list (string * copykind) :=
  if z =? 0 then create_branch_table else if z =? 1 then run_message_table
  else if z =? 2 then path_branch_table else extend_path_table.

Fixpoint tree_eqb (a b : tree) {struct a} : bool :=
  match a, b with
  | TI x, TI y => x =? y
  | TR x, TR y => Nat.eqb x y
  | TN xs, TN ys =>
      (fix go (xs ys : list (Z * tree)) : bool :=
         match xs, ys with
         | [], [] => true
         | (k, x) :: xs', (k', y) :: ys' => (k =? k') && tree_eqb x y && go xs' ys'
         | _, _ => false
         end) xs ys
  | _, _ => false
  end.

(* c20_visible: [table; field index; level] -> [a; b]
   a = 1 iff a write at nesting level `level` below field f through the NEW state is visible
       through the OLD state; b = 1 iff a write through the OLD state is visible through the NEW one *)
Definition c20_visible (a : list Z) : list Z :=
  match a with
  | [t; f; lvl] =>
      let tbl := table_of t in
      let '(h0, olds) := chains (List.length tbl) 6 [] in
      let '(h1, news) := derive tbl h0 olds in
      let f' := Z.to_nat f in
      let o := OSet f' (repeat 0 (Z.to_nat lvl)) 1 99 in
      let ha := exec_op news h1 o in
      let hb := exec_op olds h1 o in
      [ if tree_eqb (view 7 ha (root olds f')) (view 7 h1 (root olds f')) then 0 else 1;
        if tree_eqb (view 7 hb (root news f')) (view 7 h1 (root news f')) then 0 else 1 ]
  | _ => []
  end.

(* c20_depths: [table] -> copy depth of every field, in table order *)
Definition c20_depths (a : list Z) : list Z :=
  match a with
  | [t] => map natZ (depths (table_of t))
  | _ => []
  end.

(* ---- the solver life cycle of run_message (Model/SolverLifeModel.v over the literals v == k / v != k)
   frontiers: [ndepths; per depth: nstates; per state: nslice; (v k p)*; program]
   program (preorder): 0 o = Leaf o | 1 v k p <then> <else> = Br (v, k, p <> 0) then else *)
Fixpoint dec_prog (fuel : nat) (l : list Z) : prog eqlit * list Z :=
  match fuel with
  | O => (Leaf (-1), [])
  | S n =>
      match l with
      | 0 :: o :: r => (Leaf o, r)
      | 1 :: v :: k :: p :: r =>
          let '(t, r1) := dec_prog n r in
          let '(f, r2) := dec_prog n r1 in
          (Br (v, k, negb (p =? 0)) t f, r2)
      | _ => (Leaf (-1), [])
      end
  end.

Fixpoint dec_lits (n : nat) (l : list Z) : list eqlit * list Z :=
  match n with
  | O => ([], l)
  | S m =>
      match l with
      | v :: k :: p :: r => let '(ls, r') := dec_lits m r in ((v, k, negb (p =? 0)) :: ls, r')
      | _ => ([], [])
      end
  end.

Fixpoint dec_states (n fuel : nat) (l : list Z) : list (fstate eqlit) * list Z :=
  match n with
  | O => ([], l)
  | S m =>
      match l with
      | ns :: r =>
          let '(sl, r1) := dec_lits (Z.to_nat ns) r in
          let '(p, r2) := dec_prog fuel r1 in
          let '(sts, r3) := dec_states m fuel r2 in
          (mkF sl p :: sts, r3)
      | [] => ([], [])
      end
  end.

Fixpoint dec_frontiers (n fuel : nat) (l : list Z) : list (list (fstate eqlit)) :=
  match n with
  | O => []
  | S m =>
      match l with
      | ns :: r => let '(sts, r1) := dec_states (Z.to_nat ns) fuel r in sts :: dec_frontiers m fuel r1
      | [] => []
      end
  end.

Definition enc_outs (x : list (list (list Z))) : list Z :=
  flat_map (flat_map (fun o => natZ (List.length o) :: o)) x.

(* c20_solverlife: frontiers -> per state (in order): [number of outcomes; outcomes...] as run_message
   reports them under the REGENERATED life cycle (gen_life) *)
Definition c20_solverlife (a : list Z) : list Z :=
  match a with
  | nd :: r => enc_outs (l_life_run gen_life (dec_frontiers (Z.to_nat nd) (List.length a) r))
  | [] => []
  end.

(* c20_solver_leftover: [nslice; (v k p)*; program] -> [number of outcomes; outcomes...; then the literals
   the solver holds when the run of the test on this state alone returns: (v k p)*, innermost scope first] *)
Definition c20_solver_leftover (a : list Z) : list Z :=
  match dec_states 1 (List.length a) a with
  | ([st], _) =>
      let '(o, s) := l_explore (f_prog st) (extend eqlit (f_slice st) zfresh) in
      natZ (List.length o) :: o ++
      flat_map (fun l => [l_var l; l_val l; if l_pol l then 1 else 0]) (assertions eqlit s)
  | _ => []
  end.

Definition table : list (string * (list Z -> list Z)) :=
  [ ("c20_solverlife"%string, c20_solverlife);
    ("c20_solver_leftover"%string, c20_solver_leftover);
    ("c20_run"%string, c20_run);
    ("c20_spec"%string, c20_spec);
    ("c20_run_cfg"%string, c20_run_cfg);
    ("c20_run_ann"%string, c20_run_ann);
    ("c20_visible"%string, c20_visible);
    ("c20_depths"%string, c20_depths) ].

Extraction "_build/C20/entries.ml" table.
