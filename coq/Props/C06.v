(* C06 — Word-level instruction semantics are exact and total.  Statements only. *)
From Coq Require Import ZArith List Bool.
From HV Require Import Base.Word Base.SmtBV Gen.GenBitvecGuards Model.BitVecModel Proofs.BitVecProofs.
Import ListNotations.
Open Scope Z_scope.

Theorem C06_ADD : forall ev eb sebc a b, wf ev eb a -> wf ev eb b ->
  exists r, run2 sebc ADD a b = Ok r /\ denote ev eb r = evm_add (denote ev eb a) (denote ev eb b).
Proof. exact run_add. Qed.
Print Assumptions C06_ADD.
