(* C06 -- Word-level instruction semantics are exact and total.
   Statements only; every proof is `exact <lemma from Proofs/BitVecProofs.v>`.
   Model/BitVecModel.v follows src/halmos/bitvec.py and the dispatch layer of src/halmos/sevm.py
   branch by branch; its guards, constants, is_power_of_two, to_signed and every concrete-path return
   expression (value r_.., divisors rd_.., work rw_..) are Gen/GenBitvecGuards.v, regenerated from
   bitvec.py on every run.  The spec side is Base/Word.v.

   Reading guide.  [run2 sebc OP a b] is the opcode arm of SEVM.run for a binary instruction with
   `a` on top of the stack (sebc = options.smt_exp_by_const), [run1], [run3] likewise: the arm body
   regenerated from sevm.py on every run (Gen/GenWordOps.v: accessors pop/popi/top/topi, evaluation
   order, receiver / arguments / abstraction functions of the method call, set_top / push; SEVM.arith;
   bitwise()) executed by the interpreter [exec_arm] of Model/BitVecModel.v on the stack [a; b];
   [run2s .. rest] is the same on the stack a :: b :: rest.  A stack
   word [val] is an int-backed / term-backed HalmosBitVec or a concrete / symbolic HalmosBool;
   the theorems quantify over all four representations of every operand, over every valuation
   (ev, eb) of the z3 variables, and over all operand values in [0, 2^256).  [denote] reads a
   z3 term by SMT-LIB semantics (Base/SmtBV.v) with the f_evm_* abstractions given their exact
   definitions.  `exists r, run.. = Ok r` is totality: no internal exception. *)
From Coq Require Import ZArith List Bool.
From HV Require Import Base.Word Base.SmtBV Model.PyInt Model.WordOpsIR Gen.GenBitvecGuards Gen.GenWordOps
  Model.BitVecModel Proofs.BitVecProofs Proofs.WordSpecCheck.
Import ListNotations.
Open Scope Z_scope.

Theorem C06_ADD : forall ev eb sebc a b,
  in_word (denote ev eb a) -> in_word (denote ev eb b) ->
  exists r, run2 sebc ADD a b = Ok r /\ denote ev eb r = evm_add (denote ev eb a) (denote ev eb b).
Proof. exact P_ADD. Qed.
Print Assumptions C06_ADD.

Theorem C06_MUL : forall ev eb sebc a b,
  in_word (denote ev eb a) -> in_word (denote ev eb b) ->
  exists r, run2 sebc MUL a b = Ok r /\ denote ev eb r = evm_mul (denote ev eb a) (denote ev eb b).
Proof. exact P_MUL. Qed.
Print Assumptions C06_MUL.

Theorem C06_SUB : forall ev eb sebc a b,
  in_word (denote ev eb a) -> in_word (denote ev eb b) ->
  exists r, run2 sebc SUB a b = Ok r /\ denote ev eb r = evm_sub (denote ev eb a) (denote ev eb b).
Proof. exact P_SUB. Qed.
Print Assumptions C06_SUB.

(* division by zero gives zero; power-of-two divisors take the shift fast path; the symbolic path is f_evm_bvudiv_256 read by its exact definition *)
Theorem C06_DIV : forall ev eb sebc a b,
  in_word (denote ev eb a) -> in_word (denote ev eb b) ->
  exists r, run2 sebc DIV a b = Ok r /\ denote ev eb r = evm_div (denote ev eb a) (denote ev eb b).
Proof. exact P_DIV. Qed.
Print Assumptions C06_DIV.

(* signed division truncates toward zero (Z.quot), including -2^255 / -1; concrete operands are folded by z3 (SMT-LIB bvsdiv) *)
Theorem C06_SDIV : forall ev eb sebc a b,
  in_word (denote ev eb a) -> in_word (denote ev eb b) ->
  exists r, run2 sebc SDIV a b = Ok r /\ denote ev eb r = evm_sdiv (denote ev eb a) (denote ev eb b).
Proof. exact P_SDIV. Qed.
Print Assumptions C06_SDIV.

Theorem C06_MOD : forall ev eb sebc a b,
  in_word (denote ev eb a) -> in_word (denote ev eb b) ->
  exists r, run2 sebc MOD a b = Ok r /\ denote ev eb r = evm_mod (denote ev eb a) (denote ev eb b).
Proof. exact P_MOD. Qed.
Print Assumptions C06_MOD.

(* sign of the dividend (Z.rem) *)
Theorem C06_SMOD : forall ev eb sebc a b,
  in_word (denote ev eb a) -> in_word (denote ev eb b) ->
  exists r, run2 sebc SMOD a b = Ok r /\ denote ev eb r = evm_smod (denote ev eb a) (denote ev eb b).
Proof. exact P_SMOD. Qed.
Print Assumptions C06_SMOD.

(* concrete pow(lhs, rhs, 1 << size), repeated multiplication up to smt_exp_by_const, or f_evm_exp_256 (exact): all equal modular exponentiation *)
Theorem C06_EXP : forall ev eb sebc a b,
  in_word (denote ev eb a) -> in_word (denote ev eb b) ->
  exists r, run2 sebc EXP a b = Ok r /\ denote ev eb r = evm_exp (denote ev eb a) (denote ev eb b).
Proof. exact P_EXP. Qed.
Print Assumptions C06_EXP.

Theorem C06_LT : forall ev eb sebc a b,
  in_word (denote ev eb a) -> in_word (denote ev eb b) ->
  exists r, run2 sebc LT a b = Ok r /\ denote ev eb r = evm_lt (denote ev eb a) (denote ev eb b).
Proof. exact P_LT. Qed.
Print Assumptions C06_LT.

Theorem C06_GT : forall ev eb sebc a b,
  in_word (denote ev eb a) -> in_word (denote ev eb b) ->
  exists r, run2 sebc GT a b = Ok r /\ denote ev eb r = evm_gt (denote ev eb a) (denote ev eb b).
Proof. exact P_GT. Qed.
Print Assumptions C06_GT.

Theorem C06_SLT : forall ev eb sebc a b,
  in_word (denote ev eb a) -> in_word (denote ev eb b) ->
  exists r, run2 sebc SLT a b = Ok r /\ denote ev eb r = evm_slt (denote ev eb a) (denote ev eb b).
Proof. exact P_SLT. Qed.
Print Assumptions C06_SLT.

Theorem C06_SGT : forall ev eb sebc a b,
  in_word (denote ev eb a) -> in_word (denote ev eb b) ->
  exists r, run2 sebc SGT a b = Ok r /\ denote ev eb r = evm_sgt (denote ev eb a) (denote ev eb b).
Proof. exact P_SGT. Qed.
Print Assumptions C06_SGT.

(* three-way dispatch: Bool/Bool, BV/BV, mixed (coerced to 256-bit words) *)
Theorem C06_EQ : forall ev eb sebc a b,
  in_word (denote ev eb a) -> in_word (denote ev eb b) ->
  exists r, run2 sebc EQ a b = Ok r /\ denote ev eb r = evm_eq (denote ev eb a) (denote ev eb b).
Proof. exact P_EQ. Qed.
Print Assumptions C06_EQ.

(* bitwise(): Bool/Bool stays Bool, mixed operands are coerced *)
Theorem C06_AND : forall ev eb sebc a b,
  in_word (denote ev eb a) -> in_word (denote ev eb b) ->
  exists r, run2 sebc AND a b = Ok r /\ denote ev eb r = evm_and (denote ev eb a) (denote ev eb b).
Proof. exact P_AND. Qed.
Print Assumptions C06_AND.

Theorem C06_OR : forall ev eb sebc a b,
  in_word (denote ev eb a) -> in_word (denote ev eb b) ->
  exists r, run2 sebc OR a b = Ok r /\ denote ev eb r = evm_or (denote ev eb a) (denote ev eb b).
Proof. exact P_OR. Qed.
Print Assumptions C06_OR.

Theorem C06_XOR : forall ev eb sebc a b,
  in_word (denote ev eb a) -> in_word (denote ev eb b) ->
  exists r, run2 sebc XOR a b = Ok r /\ denote ev eb r = evm_xor (denote ev eb a) (denote ev eb b).
Proof. exact P_XOR. Qed.
Print Assumptions C06_XOR.

(* concrete index (to_bytes / Extract) or symbolic index (sym_byte_of: 32 nested ite); 0 for index >= 32 *)
Theorem C06_BYTE : forall ev eb sebc a b,
  in_word (denote ev eb a) -> in_word (denote ev eb b) ->
  exists r, run2 sebc BYTE a b = Ok r /\ denote ev eb r = evm_byte (denote ev eb a) (denote ev eb b).
Proof. exact P_BYTE. Qed.
Print Assumptions C06_BYTE.

(* shift >= 256 gives 0; concrete and symbolic shift amounts and values *)
Theorem C06_SHL : forall ev eb sebc a b,
  in_word (denote ev eb a) -> in_word (denote ev eb b) ->
  exists r, run2 sebc SHL a b = Ok r /\ denote ev eb r = evm_shl (denote ev eb a) (denote ev eb b).
Proof. exact P_SHL. Qed.
Print Assumptions C06_SHL.

Theorem C06_SHR : forall ev eb sebc a b,
  in_word (denote ev eb a) -> in_word (denote ev eb b) ->
  exists r, run2 sebc SHR a b = Ok r /\ denote ev eb r = evm_shr (denote ev eb a) (denote ev eb b).
Proof. exact P_SHR. Qed.
Print Assumptions C06_SHR.

(* arithmetic shift; shift >= 256 gives 0 or 2^256-1 by sign *)
Theorem C06_SAR : forall ev eb sebc a b,
  in_word (denote ev eb a) -> in_word (denote ev eb b) ->
  exists r, run2 sebc SAR a b = Ok r /\ denote ev eb r = evm_sar (denote ev eb a) (denote ev eb b).
Proof. exact P_SAR. Qed.
Print Assumptions C06_SAR.

(* SIGNEXTEND: the index must be concrete (int-backed word or TRUE/FALSE) ... *)
Theorem C06_SIGNEXTEND : forall ev eb sebc a b s,
  in_word (denote ev eb a) -> in_word (denote ev eb b) -> popi a = Cv s ->
  exists r, run2 sebc SIGNEXTEND a b = Ok r /\ denote ev eb r = evm_signextend (denote ev eb a) (denote ev eb b).
Proof. exact P_SIGNEXTEND. Qed.
Print Assumptions C06_SIGNEXTEND.

(* ... a symbolic index is rejected (NotConcreteError, by design), never answered wrongly *)
Theorem C06_SIGNEXTEND_symbolic_index_rejected : forall sebc a b t,
  popi a = Sv t -> run2 sebc SIGNEXTEND a b = Err ENotConcrete.
Proof. exact P_SIGNEXTEND_symbolic. Qed.
Print Assumptions C06_SIGNEXTEND_symbolic_index_rejected.

(* totality of every binary instruction, in every mix of operand representations *)
Theorem C06_total : forall ev eb sebc o a b,
  in_word (denote ev eb a) -> in_word (denote ev eb b) ->
  (o = SIGNEXTEND -> exists s, popi a = Cv s) ->
  exists r, run2 sebc o a b = Ok r.
Proof. exact P_total. Qed.
Print Assumptions C06_total.

(* ISZERO acts on state.top() without coercion: HalmosBitVec.is_zero or HalmosBool.is_zero *)
Theorem C06_ISZERO : forall ev eb a, in_word (denote ev eb a) ->
  exists r, run1 ISZERO a = Ok r /\ denote ev eb r = evm_iszero (denote ev eb a).
Proof. exact P_ISZERO. Qed.
Print Assumptions C06_ISZERO.

(* NOT acts on state.topi(): the 256-bit complement for every representation of the operand,
   Bool-typed tops (ISZERO;NOT, LT;NOT, ...) included *)
Theorem C06_NOT : forall ev eb a, in_word (denote ev eb a) ->
  exists r, run1 NOT a = Ok r /\ denote ev eb r = evm_not (denote ev eb a).
Proof. exact P_NOT. Qed.
Print Assumptions C06_NOT.

(* on a Bool-typed top the result is 2^256-1 / 2^256-2, not the logical negation 0 / 1 *)
Theorem C06_NOT_bool_value : forall ev eb p,
  exists r, run1 NOT (VBool p) = Ok r /\ denote ev eb r = W - 1 - b2w (bl_den ev eb p).
Proof. exact P_NOT_bool. Qed.
Print Assumptions C06_NOT_bool_value.

Theorem C06_total_unary : forall ev eb o a, in_word (denote ev eb a) -> exists r, run1 o a = Ok r.
Proof. exact P_total1. Qed.
Print Assumptions C06_total_unary.

(* ADDMOD / MULMOD: exact in every mix of representations (264- / 512-bit widening never wraps,
   modulus 0 gives 0 - also when all three operands are concrete: the `modulus.value == 0` guard
   answers before Python's `%` is reached) *)
Theorem C06_ADDMOD : forall ev eb a b c,
  in_word (denote ev eb a) -> in_word (denote ev eb b) -> in_word (denote ev eb c) ->
  exists r, run3 ADDMOD a b c = Ok r /\
    denote ev eb r = evm_addmod (denote ev eb a) (denote ev eb b) (denote ev eb c).
Proof. exact P_ADDMOD. Qed.
Print Assumptions C06_ADDMOD.

Theorem C06_MULMOD : forall ev eb a b c,
  in_word (denote ev eb a) -> in_word (denote ev eb b) -> in_word (denote ev eb c) ->
  exists r, run3 MULMOD a b c = Ok r /\
    denote ev eb r = evm_mulmod (denote ev eb a) (denote ev eb b) (denote ev eb c).
Proof. exact P_MULMOD. Qed.
Print Assumptions C06_MULMOD.

Theorem C06_modzero_concrete : forall o a b c x y,
  popi a = Cv x -> popi b = Cv y -> popi c = Cv 0 -> run3 o a b c = Ok (VBV (Cv 0)).
Proof. exact P_modzero. Qed.
Print Assumptions C06_modzero_concrete.

(* totality of the ternary instructions: no ZeroDivisionError (or any other internal exception)
   for any operands in any representation *)
Theorem C06_total_ADDMOD_MULMOD : forall ev eb o a b c,
  in_word (denote ev eb a) -> in_word (denote ev eb b) -> in_word (denote ev eb c) ->
  exists r, run3 o a b c = Ok r.
Proof. exact P_total3. Qed.
Print Assumptions C06_total_ADDMOD_MULMOD.

(* concrete fast paths agree with the symbolic path: the denotation of the result depends only on
   the denotations of the operands, never on their representation *)
Theorem C06_fast_agree : forall ev eb sebc o a b a' b' r r',
  in_word (denote ev eb a) -> in_word (denote ev eb b) ->
  in_word (denote ev eb a') -> in_word (denote ev eb b') ->
  denote ev eb a = denote ev eb a' -> denote ev eb b = denote ev eb b' ->
  run2 sebc o a b = Ok r -> run2 sebc o a' b' = Ok r' -> denote ev eb r = denote ev eb r'.
Proof. exact P_fast_agree. Qed.
Print Assumptions C06_fast_agree.

Theorem C06_fast_agree3 : forall ev eb o a b c a' b' c' r r',
  in_word (denote ev eb a) -> in_word (denote ev eb b) -> in_word (denote ev eb c) ->
  in_word (denote ev eb a') -> in_word (denote ev eb b') -> in_word (denote ev eb c') ->
  denote ev eb a = denote ev eb a' -> denote ev eb b = denote ev eb b' -> denote ev eb c = denote ev eb c' ->
  run3 o a b c = Ok r -> run3 o a' b' c' = Ok r' -> denote ev eb r = denote ev eb r'.
Proof. exact P_fast_agree3. Qed.
Print Assumptions C06_fast_agree3.

(* promptness of concrete EXP: the all-concrete path that is not answered by a guard evaluates the
   regenerated return expression pow(lhs, rhs, 1 << size); its work measure (bits of the largest
   integer CPython materialises, rules in Model/PyInt.v) is at most 2 * 256 + 2 for ALL operands -
   with the unreduced lhs ** rhs the measure is rhs * bits(lhs) and this statement is false *)
Theorem C06_prompt_EXP : forall a e, 0 <= a < 2 ^ 256 -> 0 <= e < 2 ^ 256 ->
  exp_work 256 (Cv a) (Cv e) <= 514 /\
  exists r, bv_exp 256 (Some Fexp) (Some Fmul) 2 (Cv a) (Cv e) = Ok r /\ bv_den (fun _ => 0) (fun _ => false) r = (a ^ e) mod 2 ^ 256.
Proof. exact P_prompt_EXP. Qed.
Print Assumptions C06_prompt_EXP.

(* the same for every concrete-path return expression of bitvec.py, at every size n: none
   materialises an integer of more than 2n + 2 bits (shifts: under the generated guard
   `shift_amount >= size` being false) *)
Theorem C06_prompt_concrete : forall n x y z k, 0 < n ->
  0 <= x < 2 ^ n -> 0 <= y < 2 ^ n -> 0 <= z < 2 ^ n -> 0 <= k < 2 ^ n -> g_lshl_2 k n = false ->
  rw_add_1 y x <= n + 1 /\ rw_sub_1 y x <= n + 1 /\ rw_mul_1 x y <= 2 * n /\
  rw_div_1 x y <= n /\ rw_mod_1 x y <= n /\ rw_exp_1 x y n <= 2 * n + 2 /\
  rw_addmod_1 z y x <= n + 1 /\ rw_mulmod_1 z y x <= 2 * n /\
  rw_lshl_1 x k <= 2 * n /\ rw_lshr_1 x y <= n /\ rw_bitwise_not_1 n x <= n + 2 /\
  rw_bitwise_and_1 y x <= n /\ rw_bitwise_or_1 y x <= n /\ rw_bitwise_xor_1 y x <= n.
Proof. exact conc_work_bounded. Qed.
Print Assumptions C06_prompt_concrete.

(* Python's three-argument pow as modelled (right-to-left binary, reduced after every product) is
   modular exponentiation *)
Theorem C06_py_pow3 : forall a e m, 0 < m -> 0 <= e -> py_pow3 a e m = (a ^ e) mod m.
Proof. exact (py_pow3_spec (fun _ => 0) (fun _ => false)). Qed.
Print Assumptions C06_py_pow3.

(* stack discipline: on a stack a :: b :: rest (a :: rest, a :: b :: c :: rest) the instruction
   consumes exactly its operands and leaves exactly one word on the untouched rest; result, errors and
   the path constraints appended do not depend on the rest *)
Theorem C06_stack_frame2 : forall sebc o a b rest,
  match run2s sebc o a b rest with
  | Ok s => exists r, run2 sebc o a b = Ok r /\ stk s = r :: rest /\ pth s = arith_axioms sebc o a b
  | Err e => run2 sebc o a b = Err e
  end.
Proof. exact P_frame2. Qed.
Print Assumptions C06_stack_frame2.

Theorem C06_stack_frame1 : forall o a rest,
  match run1s o a rest with
  | Ok s => exists r, run1 o a = Ok r /\ stk s = r :: rest /\ pth s = []
  | Err e => run1 o a = Err e
  end.
Proof. exact P_frame1. Qed.
Print Assumptions C06_stack_frame1.

Theorem C06_stack_frame3 : forall o a b c rest,
  match run3s o a b c rest with
  | Ok s => exists r, run3 o a b c = Ok r /\ stk s = r :: rest /\ pth s = []
  | Err e => run3 o a b c = Err e
  end.
Proof. exact P_frame3. Qed.
Print Assumptions C06_stack_frame3.

(* the constraints SEVM.arith appends next to a symbolic DIV / MOD result are valid under the
   exact definitions of the abstractions (they never cut off a real behaviour) *)
Theorem C06_axioms_valid : forall ev eb sebc o a b c,
  in_word (denote ev eb a) -> in_word (denote ev eb b) ->
  In c (arith_axioms sebc o a b) -> beval ev eb c = true.
Proof. exact P_axioms. Qed.
Print Assumptions C06_axioms_valid.

(* size-generic method lemmas (HalmosBitVec at any size n; these back the 264- / 512-bit widening
   and the exhaustive size-8 correspondence run) *)
Theorem C06_method_mul : forall ev eb n abs a b, abs = Some Fmul \/ abs = None -> 0 < n ->
  0 <= bv_den ev eb a < 2 ^ n -> 0 <= bv_den ev eb b < 2 ^ n ->
  bv_den ev eb (bv_mul n abs a b) = (bv_den ev eb a * bv_den ev eb b) mod 2 ^ n.
Proof. exact bv_mul_den. Qed.
Print Assumptions C06_method_mul.

Theorem C06_method_div : forall ev eb n a b, 0 < n ->
  0 <= bv_den ev eb a < 2 ^ n -> 0 <= bv_den ev eb b < 2 ^ n ->
  exists r, bv_div n (Some Fudiv) a b = Ok r /\
    bv_den ev eb r = if bv_den ev eb b =? 0 then 0 else bv_den ev eb a / bv_den ev eb b.
Proof. exact bv_div_den. Qed.
Print Assumptions C06_method_div.

Theorem C06_method_mod : forall ev eb n a b, 0 < n ->
  0 <= bv_den ev eb a < 2 ^ n -> 0 <= bv_den ev eb b < 2 ^ n ->
  exists r, bv_mod n (Some Furem) a b = Ok r /\
    bv_den ev eb r = if bv_den ev eb b =? 0 then 0 else bv_den ev eb a mod bv_den ev eb b.
Proof. exact bv_mod_den. Qed.
Print Assumptions C06_method_mod.

Theorem C06_method_lshl : forall ev eb n a s, 0 < n ->
  0 <= bv_den ev eb a < 2 ^ n -> 0 <= bv_den ev eb s < 2 ^ n ->
  bv_den ev eb (bv_lshl n a s) = if bv_den ev eb s <? n then (bv_den ev eb a * 2 ^ bv_den ev eb s) mod 2 ^ n else 0.
Proof. exact bv_lshl_den. Qed.
Print Assumptions C06_method_lshl.

Theorem C06_method_lshr : forall ev eb n a s, 0 < n ->
  0 <= bv_den ev eb a < 2 ^ n -> 0 <= bv_den ev eb s < 2 ^ n ->
  bv_den ev eb (bv_lshr n a s) = if bv_den ev eb s <? n then bv_den ev eb a / 2 ^ bv_den ev eb s else 0.
Proof. exact bv_lshr_den. Qed.
Print Assumptions C06_method_lshr.

Theorem C06_method_sdiv : forall ev eb n a b, 1 < n ->
  0 <= bv_den ev eb a < 2 ^ n -> 0 <= bv_den ev eb b < 2 ^ n ->
  exists r, bv_sdiv n (Some Fsdiv) a b = Ok r /\
    bv_den ev eb r = if bv_den ev eb b =? 0 then 0
                     else (Z.quot (bvsigned n (bv_den ev eb a)) (bvsigned n (bv_den ev eb b))) mod 2 ^ n.
Proof. exact bv_sdiv_den. Qed.
Print Assumptions C06_method_sdiv.

(* with abstraction=None (never passed by sevm.py) the methods are NOT exact: latent *)
Theorem C06_method_div_noabs_refuted :
  exists ev eb a b r, 0 <= bv_den ev eb a < 2 ^ 256 /\ 0 <= bv_den ev eb b < 2 ^ 256 /\
    bv_div 256 None a b = Ok r /\
    bv_den ev eb r <> evm_div (bv_den ev eb a) (bv_den ev eb b).
Proof. exact div_noabs_latent. Qed.
Print Assumptions C06_method_div_noabs_refuted.

(* the generated pure functions *)
Theorem C06_is_power_of_two : forall x, is_power_of_two x = true -> 0 < x /\ x = 2 ^ Z.log2 x.
Proof. exact (pow2_char (fun _ => 0) (fun _ => false)). Qed.
Print Assumptions C06_is_power_of_two.

Theorem C06_to_signed : forall n x, 0 < n -> 0 <= x < 2 ^ n ->
  GenBitvecGuards.to_signed x n = bvsigned n x.
Proof. exact (to_signed_gen (fun _ => 0) (fun _ => false)). Qed.
Print Assumptions C06_to_signed.

(* Base/Word's executable modular exponentiation is the mathematical one *)
Theorem C06_evm_exp_math : forall a e, 0 <= e -> evm_exp a e = evm_exp_math a e.
Proof. exact (evm_exp_math_eq (fun _ => 0) (fun _ => false)). Qed.
Print Assumptions C06_evm_exp_math.

(* HalmosBool(<value>): __new__ followed by __init__ on whatever __new__ returned (Model/BitVecModel.v:
   hb_ctor; the presence of the `if self is TRUE or self is FALSE: return` guard at the top of __init__ is
   hb_init_guards_singletons, regenerated from bitvec.py; simp = z3's simplify, any function).
   Full strength: for EVERY value passed - python bool, any z3 term (also one that simplifies to
   true / false, for which __new__ hands back the singleton), str, an existing HalmosBool, a
   HalmosBitVec - the TRUE and FALSE singletons keep con_val = True / False, sym_val = None *)
Theorem C06_singletons_preserved : forall simp a h,
  hT h = obj_true /\ hF h = obj_false ->
  hT (snd (hb_ctor simp hb_init_guards_singletons a h)) = obj_true /\
  hF (snd (hb_ctor simp hb_init_guards_singletons a h)) = obj_false.
Proof. exact P_singletons_preserved. Qed.
Print Assumptions C06_singletons_preserved.

(* ... and the object returned denotes the value passed (simplify preserving denotation) *)
Theorem C06_bool_ctor_denotes : forall ev eb simp a h,
  (forall c, beval ev eb (simp c) = beval ev eb c) ->
  hT h = obj_true /\ hF h = obj_false ->
  obj_den ev eb (hget (snd (hb_ctor simp hb_init_guards_singletons a h))
                      (fst (hb_ctor simp hb_init_guards_singletons a h))) = arg_den ev eb h a.
Proof. exact P_bool_ctor_denotes. Qed.
Print Assumptions C06_bool_ctor_denotes.

(* non-vacuity of the two statements above: the case they were false in before the repair (a term that
   simplifies to true, no guard) really overwrites TRUE in the model, and the guard prevents it *)
Example C06_singleton_guard_nonvacuous :
  let h0 := {| hT := obj_true; hF := obj_false; hN := {| o_con := None; o_sym := None |};
               hO := {| o_con := None; o_sym := Some (BVar 1) |} |} in
  singles_ok h0 /\
  ~ singles_ok (snd (hb_ctor (fun _ => BConst true) false (ATerm (BVar 0)) h0)) /\
  singles_ok (snd (hb_ctor (fun _ => BConst true) true (ATerm (BVar 0)) h0)).
Proof. exact singleton_unguarded_corrupts. Qed.

(* non-vacuity: reachable, non-trivial instances of the hypotheses and of each repaired defect *)
Example C06_nonvacuous :
  let ev := fun _ : Z => 2 ^ 255 + 3 in
  let eb := fun _ : Z => true in
  in_word (denote ev eb (VBV (Sv (TVar 0)))) /\
  run2 2 MUL (VBV (Cv 4)) (VBV (Sv (TVar 0))) = Ok (VBV (Sv (TBin Shl 256 (TVar 0) (TConst 256 2)))) /\
  denote ev eb (VBV (Sv (TBin Shl 256 (TVar 0) (TConst 256 2)))) = 12 /\
  run2 2 SDIV (VBV (Cv (2 ^ 255))) (VBV (Cv (2 ^ 256 - 1))) = Ok (VBV (Cv (2 ^ 255))) /\
  run2 2 EQ (VBool (BS (BVar 0))) (VBV (Cv 1)) =
    Ok (VBool (BS (BEq (TIte (BVar 0) (TConst 256 1) (TConst 256 0)) (TConst 256 1)))) /\
  run1 NOT (VBool (BC true)) = Ok (VBV (Cv (2 ^ 256 - 2))) /\
  run3 ADDMOD (VBV (Cv 5)) (VBV (Cv 6)) (VBV (Cv 0)) = Ok (VBV (Cv 0)) /\
  run3 ADDMOD (VBV (Sv (TVar 0))) (VBV (Cv 6)) (VBV (Cv 0)) = Ok (VBV (Cv 0)) /\
  run2 2 EXP (VBV (Cv 3)) (VBV (Cv 1000)) = Ok (VBV (Cv (3 ^ 1000 mod 2 ^ 256))) /\
  exp_work 256 (Cv 3) (Cv (2 ^ 200 + 5)) = 514.
Proof. cbv zeta. repeat split; vm_compute; try reflexivity; discriminate. Qed.

(* ---- validation of the specification itself (Base/Word.v) against a second, bit-level reading of the
   EVM instructions (Proofs/WordSpecCheck.v): the spec the theorems above compare halmos with maps words
   to words, NOT is xor with the all-ones word, the shifts are the machine shifts, BYTE is shift-and-mask,
   SAR saturates to the sign, SDIV truncates toward zero with the single overflowing case
   (-2^255) / (-1) = -2^255, SMOD takes the sign of the dividend.  For every operand. *)
Theorem C06_spec_closed a b : in_word a -> in_word b -> 0 <= b ->
  in_word (evm_add a b) /\ in_word (evm_sub a b) /\ in_word (evm_mul a b) /\ in_word (evm_div a b) /\
  in_word (evm_mod a b) /\ in_word (evm_sdiv a b) /\ in_word (evm_smod a b) /\ in_word (evm_not a) /\
  in_word (evm_shl b a) /\ in_word (evm_shr b a) /\ in_word (evm_sar b a) /\
  in_word (evm_lt a b) /\ in_word (evm_gt a b) /\ in_word (evm_slt a b) /\ in_word (evm_sgt a b) /\
  in_word (evm_eq a b) /\ in_word (evm_iszero a).
Proof.
  intros Ha Hb Hb0. pose proof (spec_cmp_closed a b) as (H1 & H2 & H3 & H4 & H5 & H6).
  repeat split;
    first [ apply spec_add_closed | apply spec_sub_closed | apply spec_mul_closed
          | apply spec_div_closed; assumption | apply spec_mod_closed; assumption
          | apply spec_sdiv_closed | apply spec_smod_closed | apply spec_not_closed; assumption
          | apply spec_shl_closed | apply spec_shr_closed; assumption | apply spec_sar_closed
          | apply H1 | apply H2 | apply H3 | apply H4 | apply H5 | apply H6 ].
Qed.
Print Assumptions C06_spec_closed.

Theorem C06_spec_signed_roundtrip x : in_word x -> - W2 <= Word.to_signed x < W2 /\ wrap (Word.to_signed x) = x.
Proof. intros H; split; [exact (to_signed_range x H) | exact (wrap_to_signed x H)]. Qed.
Print Assumptions C06_spec_signed_roundtrip.

Theorem C06_spec_not_is_xor_ones a : in_word a -> evm_not a = Z.lxor a (W - 1).
Proof. exact (spec_not_is_xor_ones a). Qed.
Print Assumptions C06_spec_not_is_xor_ones.

Theorem C06_spec_shifts s x : 0 <= s < 256 ->
  evm_shl s x = wrap (Z.shiftl x s) /\ evm_shr s x = Z.shiftr x s /\
  evm_sar s x = wrap (Z.shiftr (Word.to_signed x) s).
Proof.
  intros H; split; [exact (spec_shl_is_shiftl s x H)|split;
    [exact (spec_shr_is_shiftr s x H) | exact (spec_sar_is_signed_shiftr s x H)]].
Qed.
Print Assumptions C06_spec_shifts.

Theorem C06_spec_sar_saturates s x : 256 <= s -> in_word x ->
  evm_sar s x = if x <? W2 then 0 else W - 1.
Proof. exact (spec_sar_saturates s x). Qed.
Print Assumptions C06_spec_sar_saturates.

Theorem C06_spec_byte_is_shift_mask i x : 0 <= i < 32 ->
  evm_byte i x = Z.land (Z.shiftr x (8 * (31 - i))) 255.
Proof. exact (spec_byte_is_shift_mask i x). Qed.
Print Assumptions C06_spec_byte_is_shift_mask.

Theorem C06_spec_sdiv_overflow : evm_sdiv W2 (W - 1) = W2.
Proof. exact spec_sdiv_overflow. Qed.
Print Assumptions C06_spec_sdiv_overflow.

Theorem C06_spec_sdiv_signed a b : in_word a -> in_word b -> b <> 0 -> ~ (a = W2 /\ b = W - 1) ->
  Word.to_signed (evm_sdiv a b) = Z.quot (Word.to_signed a) (Word.to_signed b).
Proof. exact (spec_sdiv_signed a b). Qed.
Print Assumptions C06_spec_sdiv_signed.

Theorem C06_spec_smod_signed a b : in_word a -> in_word b -> b <> 0 ->
  Word.to_signed (evm_smod a b) = Z.rem (Word.to_signed a) (Word.to_signed b) /\
  Z.abs (Word.to_signed (evm_smod a b)) < Z.abs (Word.to_signed b) /\
  0 <= Word.to_signed (evm_smod a b) * Word.to_signed a.
Proof. exact (spec_smod_signed a b). Qed.
Print Assumptions C06_spec_smod_signed.

(* SIGNEXTEND b x, bit by bit: bits below 8(b+1) are those of x, every bit from there to 255 is bit 8(b+1)-1 of x;
   identity for b >= 31; words to words *)
Theorem C06_spec_signextend_bits b x i : 0 <= b < 31 -> in_word x -> 0 <= i < 256 ->
  Z.testbit (evm_signextend b x) i =
    if i <? 8 * (b + 1) then Z.testbit x i else Z.testbit x (8 * (b + 1) - 1).
Proof. exact (spec_signextend_bits b x i). Qed.
Print Assumptions C06_spec_signextend_bits.

Theorem C06_spec_signextend_id_closed b x : 0 <= b -> in_word x ->
  in_word (evm_signextend b x) /\ (31 <= b -> evm_signextend b x = x).
Proof. intros Hb Hx; split; [exact (spec_signextend_closed b x Hb Hx) | exact (spec_signextend_id b x)]. Qed.
Print Assumptions C06_spec_signextend_id_closed.

(* ---- the SMT-LIB reading (Base/SmtBV.v, by which [denote] reads z3 terms here and in C07/C08/C12):
   extract and concat are the bit operations, bit by bit, and extract undoes concat *)
Theorem C06_smt_extract_bits hi lo x i : 0 <= lo <= hi -> 0 <= i ->
  bvextract hi lo x = Z.land (Z.shiftr x lo) (Z.ones (hi - lo + 1)) /\
  Z.testbit (bvextract hi lo x) i = if i <? hi - lo + 1 then Z.testbit x (i + lo) else false.
Proof. intros H Hi; split; [exact (smt_extract_is_shift_mask hi lo x H) | exact (smt_extract_bits hi lo x i H Hi)]. Qed.
Print Assumptions C06_smt_extract_bits.

Theorem C06_smt_concat_bits m x y i : 0 <= m -> 0 <= y < 2 ^ m -> 0 <= i ->
  bvconcat m x y = Z.lor (Z.shiftl x m) y /\
  Z.testbit (bvconcat m x y) i = if i <? m then Z.testbit y i else Z.testbit x (i - m).
Proof. intros Hm Hy Hi; split; [exact (smt_concat_is_lor m x y Hm Hy) | exact (smt_concat_bits m x y i Hm Hy Hi)]. Qed.
Print Assumptions C06_smt_concat_bits.

Theorem C06_smt_extract_concat m k x y : 0 < m -> 0 < k -> 0 <= y < 2 ^ m -> 0 <= x < 2 ^ k ->
  bvextract (m - 1) 0 (bvconcat m x y) = y /\ bvextract (m + k - 1) m (bvconcat m x y) = x.
Proof. exact (smt_extract_concat m k x y). Qed.
Print Assumptions C06_smt_extract_concat.

(* ((_ sign_extend k) x) for x of width n, bit by bit *)
Theorem C06_smt_sext_bits n k x i : 0 < n -> 0 <= k -> 0 <= x < 2 ^ n -> 0 <= i < n + k ->
  Z.testbit (bvsext n k x) i = if i <? n then Z.testbit x i else Z.testbit x (n - 1).
Proof. exact (smt_sext_bits n k x i). Qed.
Print Assumptions C06_smt_sext_bits.

(* bvneg is two's complement; bvnot is xor with the all-ones vector; at width 256 the SMT-LIB reading and the
   EVM spec agree on NOT and on the signed value of a word *)
Theorem C06_smt_neg_not n x : 0 <= n ->
  bvneg n x = bvadd n (bvnot n x) 1 /\ (0 <= x < 2 ^ n -> bvnot n x = Z.lxor x (Z.ones n)).
Proof. intros Hn; split; [exact (smt_neg_is_not_plus_one n x Hn) | exact (smt_not_is_xor_ones n x Hn)]. Qed.
Print Assumptions C06_smt_neg_not.

Theorem C06_smt_evm_agree_256 x : bvnot 256 x = evm_not x /\ bvsigned 256 x = Word.to_signed x.
Proof. exact (smt_evm_agree_256 x). Qed.
Print Assumptions C06_smt_evm_agree_256.
