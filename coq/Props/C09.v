(* C09 -- Message calls are atomic and see the right context.
   Statements only; every proof is `exact <lemma from Proofs/CallProofs.v>`.
   Model/CallModel.v executes frame scripts the way sevm.py does (shared network state,
   orig_* backups, callbacks, path splits as result lists) over Gen/GenCallMsg.v, the
   decision logic regenerated from /repo/src/halmos/sevm.py on every run;
   Spec/CallSpec.v is the EVM meaning of the same scripts (snapshot / rollback). *)
From Coq Require Import ZArith List Bool.
From HV Require Import Base.Word Spec.Evm Spec.CallSpec Gen.GenOpcodes Gen.GenConsts Gen.GenCallMsg
  Model.CallModel Model.CallHeapModel Proofs.CallProofs Proofs.CallHeapProofs.
Import ListNotations.
Open Scope Z_scope.

(* REFINEMENT, every script tree of any depth, every context, world and counter, WITHOUT
   EXCEPTION (the last marked deviation -- a call of an account-less address at the depth
   limit -- was repaired in sevm.py, 65d68f4): the model reports at least one path and EVERY
   reported path has the specified outcome: same result kind and return data, same world
   (code, storage, transient storage, balances) after a successful frame, same CREATE
   counter, and the same ghost log, i.e. every frame anywhere in the tree -- also inside
   frames that fail -- started with the specified (address, sender, origin, value, code,
   static flag, depth) and ended with the specified result. *)
Theorem C09_refines :
  forall s c w ctr r ctr' lg,
    supported s = true -> c_depth c <= MAX_DEPTH ->
    sframe s c w ctr = (r, ctr', lg) ->
    mframe s c (mstate_of w ctr) <> [] /\
    Forall (fun m : mres =>
              let '(f, st, lg_m) := m in
              lg_m = lg /\ m_cnt st = ctr' /\
              match r with
              | SOk ret w' => f = FOk ret /\ world_of st = w'
              | SRevert ret => f = FRevert ret
              | SHalt => f = FHalt
              end)
           (mframe s c (mstate_of w ctr)).
Proof. exact mframe_refines_supported. Qed.
Print Assumptions C09_refines.

(* the same for the remainder of a frame, from any buffer / last sub-context *)
Theorem C09_refines_rest :
  forall s c w ctr ob l r ctr' lg,
    sexec s c w ctr ob (returndata l) = (r, ctr', lg) ->
    mexec s c (mstate_of w ctr) ob l <> [] /\
    Forall (fun m : mres => R m (r, ctr', lg)) (mexec s c (mstate_of w ctr) ob l).
Proof. exact mexec_refines. Qed.
Print Assumptions C09_refines_rest.

(* ATOMICITY at the callbacks, for ANY behaviour of the callee ([run] is an arbitrary
   function: any number of result paths, any resulting states): whenever the caller is
   handed a failed sub-context, its code, storage, transient storage and balances are
   exactly those before the call instruction (the value transfer included). *)
Theorem C09_atomic_call :
  forall kd to v rsz c st ob run f st' lg ob',
    In (f, st', lg) (m_call kd to v rsz c st ob run probe) -> f = FRevert ob' ->
    world_of st' = world_of st.
Proof. exact model_call_atomic. Qed.
Print Assumptions C09_atomic_call.

Theorem C09_atomic_create :
  forall v initcode c st ob run f st' lg ob',
    In (f, st', lg) (m_create v initcode c st ob run probe) -> f = FRevert ob' ->
    world_of st' = world_of st.
Proof. exact model_create_atomic. Qed.
Print Assumptions C09_atomic_create.

(* CONSERVATION: the value transfer of the reference interpreter conserves the sum of the
   balances of any duplicate-free address set containing both parties (self-transfer
   included) ... *)
Theorem C09_transfer_conserves :
  forall addrs w from to v, NoDup addrs -> In from addrs -> In to addrs ->
    total addrs (transfer w from to v) = total addrs w.
Proof. exact transfer_conserves. Qed.
Print Assumptions C09_transfer_conserves.

(* ... and so does every successfully reported path of the model on every script tree: the
   final balance map extends the initial one by [delta] and the total over any
   duplicate-free address set covering the changed entries is unchanged. *)
Theorem C09_conservation :
  forall s c w ctr r ctr' lg ret st lg',
    c_depth c <= MAX_DEPTH -> sframe s c w ctr = (r, ctr', lg) ->
    In (FOk ret, st, lg') (mframe s c (mstate_of w ctr)) ->
    exists delta, w_balance (world_of st) = delta ++ w_balance w /\
      forall addrs, NoDup addrs -> (forall a, In a (map fst delta) -> In a addrs) ->
        total addrs (world_of st) = total addrs w.
Proof. exact mframe_conserves. Qed.
Print Assumptions C09_conservation.

Theorem C09_spec_conservation :
  forall s c w ctr ob rd ret w' ctr' lg,
    sexec s c w ctr ob rd = (SOk ret w', ctr', lg) ->
    exists delta, w_balance w' = delta ++ w_balance w /\
      forall addrs, NoDup addrs -> (forall a, In a (map fst delta) -> In a addrs) ->
        total addrs w' = total addrs w.
Proof. exact sexec_conserves. Qed.
Print Assumptions C09_spec_conservation.

(* STATIC CONTEXT: state-modifying instructions fail in a static frame; the flag is
   inherited by every call kind and set by STATICCALL *)
Theorem C09_static :
  forall c st ob l, c_static c = true ->
    (forall k v rest, mexec (SSstore k v rest) c st ob l = [(FHalt, st, [LEnd FHalt])]) /\
    (forall k v rest, mexec (STstore k v rest) c st ob l = [(FHalt, st, [LEnd FHalt])]) /\
    (forall rest, mexec (SLog rest) c st ob l = [(FHalt, st, [LEnd FHalt])]) /\
    (forall v ic init rest, mexec (SCreate v ic init rest) c st ob l = [(FHalt, st, [LEnd FHalt])]) /\
    (forall kd, msg_static (op_of kd) true = true) /\ (forall b, msg_static (op_of KStatic) b = true).
Proof. exact model_static_all. Qed.
Print Assumptions C09_static.

(* specification: a whole sub-tree executed in a static context cannot change the world *)
Theorem C09_static_pure :
  forall s c w ctr ob rd ret w' ctr' lg,
    c_static c = true -> sexec s c w ctr ob rd = (SOk ret w', ctr', lg) -> w' = w.
Proof. exact sexec_static_pure. Qed.
Print Assumptions C09_static_pure.

(* the reference interpreter itself (Spec/Evm.v), for ANY sub-frame executor: after CALL /
   CALLCODE / DELEGATECALL / STATICCALL either the status word is 1 or the caller's world is
   untouched; after CREATE either the new address was pushed or the world is untouched *)
Theorem C09_evm_call_atomic :
  forall lim run_sub e s op s', do_call lim run_sub e s op = Continue s' ->
    (exists r, s_stack s' = 1 :: r) \/ s_world s' = s_world s.
Proof. exact evm_do_call_atomic. Qed.
Print Assumptions C09_evm_call_atomic.

Theorem C09_evm_create_atomic :
  forall lim run_sub e s s', do_create lim run_sub e s = Continue s' ->
    (exists r, s_stack s' = (CREATE_BASE + (s_ctr s + 1)) :: r) \/ s_world s' = s_world s.
Proof. exact evm_do_create_atomic. Qed.
Print Assumptions C09_evm_create_atomic.

Theorem C09_evm_create2_atomic :
  forall lim run_sub e s s', do_create2 lim run_sub e s = Continue s' ->
    (exists v off size salt r,
        s_stack s = v :: off :: size :: salt :: r /\
        s_stack s' = c2name (e_block e) (create2_address (e_this e) salt
                        (mread (mexpand (s_mem s) (Z.to_nat off) (Z.to_nat size)) (Z.to_nat off) (Z.to_nat size))) :: r)
    \/ s_world s' = s_world s.
Proof. exact evm_do_create2_atomic. Qed.
Print Assumptions C09_evm_create2_atomic.

(* CREATE2 hands its creation frame the CREATE counter as it is (a frame that returns the counter it was given
   leaves it unchanged), whereas CREATE consumes one address *)
Theorem C09_evm_create2_counter :
  forall lim e s s' rs, (forall e' w' c, rs e' w' c = RHalt c 0) ->
    do_create2 lim rs e s = Continue s' -> s_ctr s' = s_ctr s.
Proof. exact evm_do_create2_counter. Qed.
Print Assumptions C09_evm_create2_counter.

(* ---- the four situations repaired in sevm.py, at full strength (they are also covered by
   C09_refines, which no longer excludes anything) ---- *)

(* fea28af: a value-bearing CALL inside a static frame halts the frame -- in the specification
   and in the model, whatever the target, the callee and the rest of the frame; nothing else
   is reported and nothing moves *)
Theorem C09_static_value_call_halts :
  forall to v rsz callee rest c w ctr ob l,
    c_static c = true -> v <> 0 ->
    sexec (SCall KCall to v rsz callee rest) c w ctr ob (returndata l) = (SHalt, ctr, [LEnd FHalt]) /\
    mexec (SCall KCall to v rsz callee rest) c (mstate_of w ctr) ob l = [(FHalt, mstate_of w ctr, [LEnd FHalt])].
Proof. exact static_value_call_halts. Qed.
Print Assumptions C09_static_value_call_halts.

(* 91e78e2: CALLCODE with value > balance: the callee never runs and no succeeding path is
   reported -- the paths are exactly those of the rest of the frame continued with status
   word 0, empty return data and the untouched state (below the depth limit; at the limit the
   call fails for that reason as well: C09_depth_limit_call_fails) *)
Theorem C09_callcode_insufficient_fails :
  forall to v rsz callee rest c st ob l,
    0 <= balance_of st (c_this c) < v -> c_depth c + 1 <= MAX_DEPTH ->
    mexec (SCall KCallcode to v rsz callee rest) c st ob l =
    mexec rest c st (m_after_call ob 0 (Some (false, true, [])) rsz []) (Some (false, true, [])).
Proof. exact callcode_insufficient_fails. Qed.
Print Assumptions C09_callcode_insufficient_fails.

(* 4f2dd83: RETURNDATACOPY beyond the return data halts the frame, for every size (0 included) *)
Theorem C09_retcopy_oob_halts :
  forall off size rest c w ctr ob l,
    blen (returndata l) < off + size ->
    sexec (SRetCopy off size rest) c w ctr ob (returndata l) = (SHalt, ctr, [LEnd FHalt]) /\
    mexec (SRetCopy off size rest) c (mstate_of w ctr) ob l = [(FHalt, mstate_of w ctr, [LEnd FHalt])].
Proof. exact retcopy_oob_halts. Qed.
Print Assumptions C09_retcopy_oob_halts.

(* 65d68f4: a call -- of any kind, with any value -- of an address WITHOUT ACCOUNT executed at
   the call depth limit fails like any other call: the specification goes on with status word
   0 and empty return data, and every path the model reports is a path of the rest of the
   frame continued with status word 0, RETURNDATASIZE 0, an untouched return area and the
   untouched state (nothing is sent) *)
Theorem C09_depth_limit_call_fails :
  forall kd to v rsz callee rest c w ctr ob l,
    has_account w (to mod ADDR_MOD) = false -> MAX_DEPTH < c_depth c + 1 ->
    is_kcall kd && c_static c && negb ((if carries_value kd then v else 0) =? 0) = false ->
    sexec (SCall kd to v rsz callee rest) c w ctr ob (returndata l)
      = sexec rest c w ctr (after_call ob 0 [] rsz []) [] /\
    forall m, In m (mexec (SCall kd to v rsz callee rest) c (mstate_of w ctr) ob l) ->
      exists l', returndata l' = [] /\
        In m (mexec rest c (mstate_of w ctr) (m_after_call ob 0 l' rsz []) l').
Proof. exact depth_limit_nocode_fails. Qed.
Print Assumptions C09_depth_limit_call_fails.

(* ... and concretely, the former counterexample (a frame at depth 1024 calling an address
   without account) now meets its specification: one path, the specified result *)
Example C09_depth_limit_instance :
  let s := SCall KCall 12288 0 0 (SEnd EStop) (SEnd (EReturn 7)) in
  let c := mkCtx 4096 77 77 0 [0] false 1024 in
  let w := mkWorld [(4096, [0]); (8192, [0])] [] [] [(4096, 0)] in
  length (mframe s c (mstate_of w 0)) = 1%nat /\
  Forall (fun m => R m (sframe s c w 0)) (mframe s c (mstate_of w 0)) /\
  exists ret w', fst (fst (sframe s c w 0)) = SOk ret w' /\ nth 63 ret 1 = 0.
Proof.
  vm_compute. split; [reflexivity|]. split.
  - repeat constructor.
  - eexists _, _. split; reflexivity.
Qed.

(* non-vacuity: a three-level tree (CALL -> DELEGATECALL that reverts after a store, then a
   CREATE whose init code stores and returns): the model reports exactly the
   specified result, the reverted store is gone and the successful ones persist *)
Example C09_nonvacuous :
  let callee := SSstore 1 11 (SCall KDelegate 12288 0 32 (SSstore 2 22 (SEnd (ERevert 9)))
                  (SObserve 2 (SEnd (EReturn 5)))) in
  let s := SCall KCall 8192 3 64 callee
             (SCreate 1 [96; 0] (SSstore 0 7 (SEnd (EReturn 0))) (SObserve 0 (SEnd (EReturn 1)))) in
  let c := mkCtx 4096 77 78 0 [0] false 1 in
  let w := mkWorld [(4096, [0]); (8192, [0]); (12288, [0])] [] [] [(4096, 10)] in
  let '(r, ctr', lg) := sframe s c w 0 in
  length lg = 8%nat /\
  (exists ret w', r = SOk ret w' /\
     sload_of (w_storage w') 8192 1 = 11 /\ sload_of (w_storage w') 8192 2 = 0 /\
     sload_of (w_storage w') (CREATE_BASE + 1) 0 = 7 /\
     get_balance w' 4096 = 6 /\ get_balance w' 8192 = 3 /\ get_balance w' (CREATE_BASE + 1) = 1 /\
     length (mframe s c (mstate_of w 0)) = 1%nat).
Proof.
  vm_compute. split; [reflexivity|].
  eexists _, _. split; [reflexivity|]. repeat split; reflexivity.
Qed.

(* ---- ALL THE PATHS, OVER SHARED OBJECTS ------------------------------------------------
   Model/CallHeapModel.v explores a script tree the way SEVM.run does: every side of every
   fork (JUMPI on a symbolic word, insufficient-funds split), one after the other in the
   order of the LIFO worklist, over ONE heap of mutable objects -- sub-frames share the
   objects of their caller, create_branch copies them for the side explored later, the
   orig_* backups live in a callback closure that runs once per path of the callee.  Whether
   a backup / restore / branch takes a copy or the object itself is regenerated from sevm.py.

   ISOLATION: for every feasibility oracle (which sides inconsistent with the valuation at
   hand are explored as well), every script tree, context and world, the paths that hold
   under the valuation -- read out of the heap as it is when the WHOLE exploration is over --
   are exactly, in number, order and content, the results of the state-passing model: no
   path sees or keeps anything another path did (in particular: the rollback after a failed
   sub-frame hands every path of the callee its own pre-call state, whatever the caller
   writes afterwards on the paths explored before). *)
Theorem C09_paths_isolated :
  forall feas s c w ctr, explored feas s c w ctr = mframe s c (mstate_of w ctr).
Proof. exact explored_is_mframe. Qed.
Print Assumptions C09_paths_isolated.

(* hence every holding path of the exploration has the specified outcome (C09_refines) *)
Theorem C09_explored_refines :
  forall feas s c w ctr r ctr' lg,
    supported s = true -> c_depth c <= MAX_DEPTH ->
    sframe s c w ctr = (r, ctr', lg) ->
    explored feas s c w ctr <> [] /\
    Forall (fun m : mres =>
              let '(f, st, lg_m) := m in
              lg_m = lg /\ m_cnt st = ctr' /\
              match r with
              | SOk ret w' => f = FOk ret /\ world_of st = w'
              | SRevert ret => f = FRevert ret
              | SHalt => f = FHalt
              end)
           (explored feas s c w ctr).
Proof. exact explored_refines. Qed.
Print Assumptions C09_explored_refines.

(* SEPARATION: when the exploration is over, every explored path (holding or not) holds
   references to three distinct objects of the heap, and no two paths hold an object in
   common (checked on the real Exec objects by the correspondence run) *)
Theorem C09_paths_separate :
  forall feas s c w ctr ps Hf,
    hframe feas s c (hstate_of w ctr) (heap_of w) = (ps, Hf) ->
    Forall (fun p : hpath =>
              let '(_, _, hs, _) := p in
              (h_code hs < length Hf)%nat /\ (h_storage hs < length Hf)%nat /\ (h_transient hs < length Hf)%nat /\
              h_code hs <> h_storage hs /\ h_code hs <> h_transient hs /\ h_storage hs <> h_transient hs) ps /\
    ForallOrdPairs
      (fun p q : hpath =>
         let '(_, _, hp, _) := p in
         let '(_, _, hq, _) := q in
         forall r, r = h_code hp \/ r = h_storage hp \/ r = h_transient hp ->
                   ~ (r = h_code hq \/ r = h_storage hq \/ r = h_transient hq)) ps.
Proof. exact explored_paths_separate_explicit. Qed.
Print Assumptions C09_paths_separate.

(* non-vacuity: a callee with two failing paths (fork on an input word, here non-zero),
   the caller reads slot 0, writes 7 to it and reads it again after the failed call.  With
   every side explored (3 paths: both sides of the fork, and the insufficient-funds branch)
   over 18 objects, EVERY path read 3 -- the value before the call -- first, then 7, and ends
   with 7 in its own storage object; exactly one path holds *)
Example C09_explore_nonvacuous :
  let callee := SIf 1 (SSstore 0 5 (SEnd (ERevert 21))) (STstore 1 6 (SEnd EInvalid)) in
  let s := SSstore 0 3 (SCall KCall 8192 0 32 callee
             (SObserve 0 (SSstore 0 7 (SObserve 0 (SEnd (EReturn 23)))))) in
  let c := mkCtx 4096 77 78 0 [0] false 1 in
  let w := mkWorld [(4096, [0]); (8192, [0])] [] [] [] in
  let '(ps, Hf) := hframe (fun _ => true) s c (hstate_of w 0) (heap_of w) in
  length ps = 3%nat /\ length Hf = 18%nat /\ length (filter holding ps) = 1%nat /\
  Forall (fun p : hpath =>
            let '(_, r, hs, _) := p in
            sload_of (m_storage (habs Hf hs)) 4096 0 = 7 /\
            exists ret, r = FOk ret /\ nth 319 ret 0 = 3 /\ nth 575 ret 0 = 7) ps.
Proof.
  vm_compute. repeat split; try reflexivity.
  repeat constructor; eexists; repeat split; reflexivity.
Qed.
