(* C08 -- Storage reads return the last write to the same slot; no aliasing.
   Statements only; every proof is `exact <lemma from Proofs/StorageProofs.v>`.
   Gen/GenHashes.v (the two precomputed keccak tables) and Gen/GenStoreConsts.v (OffsetMap
   bucket arithmetic, hash-range guards of sha3_data, 2^64 array bound, generic padding)
   are regenerated from /repo/src/halmos/{hashes,utils,sevm}.py on every run; so are
   Gen/GenPreRegistry.v (how mk_precomputed_keccak_registry assembles the key, the hash symbol
   and the preimage constant of each table row: the model's pre_entries is built from it) and
   Gen/GenStoreAxioms.v (the condition under which load() appends the emptiness axiom of the
   loaded index to the path, for each layout). *)
From Coq Require Import ZArith NArith List Bool.
From HV Require Import Base.Keccak Spec.StorageSpec Gen.GenStoreConsts Gen.GenHashes Gen.GenStoreAxioms
  Model.StorageModel Proofs.StorageProofs Proofs.StorageRegProofs.
Import ListNotations.
Open Scope Z_scope.

(* ---- T-hashes: every entry of the precomputed tables is the Keccak-256 of its preimage
   (32-byte big-endian slot number; 64-byte key . slot) *)
Theorem C08_tables_256 :
  forall p, In p keccak256_256 -> keccak256_num (word_bytes (snd p)) = fst p.
Proof. exact tables_keccak_256. Qed.
Print Assumptions C08_tables_256.

Theorem C08_tables_512 :
  forall p, In p keccak256_512 ->
    keccak256_num (word_bytes (fst (snd p)) ++ word_bytes (snd (snd p))) = fst p.
Proof. exact tables_keccak_512. Qed.
Print Assumptions C08_tables_512.

(* the registry entries built from them (mk_precomputed_keccak_registry): correct hash,
   inside the range sha3_data insists on, and no bucket clash (the OffsetMap assertion) *)
Theorem C08_tables_entries :
  (forall en, In en pre_entries ->
     Hkeccak (r_bits en) (r_pre en) = r_hash en /\ 0 < r_hash en <= sha3_sym_upper /\
     sha3_hash_out_of_range (r_hash en) = false) /\
  om_set_all pre_entries (Some []) <> None.
Proof. exact (conj pre_entries_ok precomputed_no_assert). Qed.
Print Assumptions C08_tables_entries.

(* ---- hash constants decoded through a registry (KeccakRegistry.reverse_lookup: per-path
   OffsetMap, then the precomputed one).  Hypothesis on a registry, stated here in full: every
   entry f_sha3_<bits>(<pre>) is filed under the hash of its own preimage.  Then the term a
   constant is decoded through DENOTES that constant, for every hash function H *)
Theorem C08_reverse_lookup_denotes :
  forall (H : Z -> Z -> Z) (pre : omap) (R : registry) (e : env) (c : Z) (t : loc),
    om_wf pre ->
    (forall raw en off, In (raw, (en, off)) pre -> H (r_bits en) (r_pre en) = r_hash en /\ 0 <= r_hash en) ->
    om_wf (hash_values R) ->
    (forall raw en off, In (raw, (en, off)) (hash_values R) -> H (r_bits en) (r_pre en) = r_hash en /\ 0 <= r_hash en) ->
    0 <= c < W ->
    reverse_lookup_in pre R c = Some t -> eval H e t = c.
Proof. exact reverse_lookup_sound. Qed.
Print Assumptions C08_reverse_lookup_denotes.

(* the hypothesis holds for the code's precomputed registry (tables of hashes.py assembled the
   way utils.py assembles them, every entry recomputed with the executable Keccak-256), for the
   empty per-path registry, and is preserved by register() of a correctly hashed entry *)
Theorem C08_registry_hypothesis :
  (om_wf precomputed /\
   forall raw en off, In (raw, (en, off)) precomputed -> Hkeccak (r_bits en) (r_pre en) = r_hash en /\ 0 <= r_hash en) /\
  (forall (H : Z -> Z -> Z) R en R',
     om_wf (hash_values R) ->
     (forall raw en off, In (raw, (en, off)) (hash_values R) -> H (r_bits en) (r_pre en) = r_hash en /\ 0 <= r_hash en) ->
     H (r_bits en) (r_pre en) = r_hash en -> 0 <= r_hash en ->
     register R en = Ok R' ->
     om_wf (hash_values R') /\
     (forall raw en off, In (raw, (en, off)) (hash_values R') -> H (r_bits en) (r_pre en) = r_hash en /\ 0 <= r_hash en)).
Proof. exact (conj (conj precomputed_wf precomputed_sound) register_sound). Qed.
Print Assumptions C08_registry_hypothesis.

Theorem C08_precomputed_constants :
  forall (e : env) (c : Z) (t : loc),
    0 <= c < W -> reverse_lookup_in precomputed reg_empty c = Some t -> eval Hkeccak e t = c.
Proof. exact precomputed_constants. Qed.
Print Assumptions C08_precomputed_constants.

(* last write wins between the constant spelling of a location and the hash-term spelling its
   registry entry stands for (solidity layout, any recursion budget f, any sound oracle): the
   two spellings denote the same EVM slot, decode to the same chunk and key, and a value stored
   through one is what a load through the other returns *)
Theorem C08_constant_spelling :
  forall (val : Type) (evalv : env -> val -> Z) (kden : env -> list kt -> Z) (orc : list kt -> list kt -> tri)
         (init : chunkid -> Z -> Z) (adm : env -> Prop),
    (forall a b, orc a b = MustEq -> forall e, adm e -> kden e a = kden e b) ->
    (forall a b, orc a b = MustNeq -> forall e, adm e -> kden e a <> kden e b) ->
    forall (H : Z -> Z -> Z) (pre : omap) (R : registry) (e : env) (c : Z) (t : loc) (f : nat)
           (s : storage (list kt) val) (v : val) (d : chunkid * list kt),
      om_wf pre ->
      (forall raw en off, In (raw, (en, off)) pre -> H (r_bits en) (r_pre en) = r_hash en /\ 0 <= r_hash en) ->
      om_wf (hash_values R) ->
      (forall raw en off, In (raw, (en, off)) (hash_values R) -> H (r_bits en) (r_pre en) = r_hash en /\ 0 <= r_hash en) ->
      0 <= c < W -> adm e ->
      reverse_lookup_in pre R c = Some t ->
      bind (key_structure pre R (S f) (K c)) (fun r => match r with (slot, keys, n, sz) => Ok ((slot, n, sz), keys) end) = Ok d ->
      eval H e t = eval H e (K c) /\
      bind (key_structure pre R f t) (fun r => match r with (slot, keys, n, sz) => Ok ((slot, n, sz), keys) end) = Ok d /\
      evalr (list kt) val kden evalv init e (symbolic _ _ s)
        (load _ _ orc (store _ _ s (fst d) (snd d) v) (fst d) (snd d)) = evalv e v.
Proof. exact const_spelling_lww. Qed.
Print Assumptions C08_constant_spelling.

(* the generic layout decodes a constant as the term its registry entry stands for, too *)
Theorem C08_constant_spelling_generic :
  forall pre R e f c t, reverse_lookup_in pre R c = Some t ->
    decode_gen pre R e (S f) (K c) = decode_gen pre R e f t.
Proof. exact decode_gen_const. Qed.
Print Assumptions C08_constant_spelling_generic.

Example C08_constant_spelling_nonvacuous :
  reverse_lookup_in precomputed reg_empty (Hkeccak 512 1) = Some (ShaC 512 1) /\
  sol_decode reg_empty (K (Hkeccak 512 1)) = Ok ((1, 2, 512), [KW [K 0]; KW [K 0]]) /\
  sol_decode reg_empty (Sha512 (V 0) (K 1)) = Ok ((1, 2, 512), [KW [V 0]; KW [K 0]]).
Proof. exact precomputed_example. Qed.

(* ---- OffsetMap: a successful lookup returns an entry whose key is exactly `delta` away,
   |delta| < 2^16 (delta may be negative); a stored key is found with its distance from any
   key of the same bucket *)
Theorem C08_offsetmap :
  forall m k en d, om_wf m -> 0 <= k -> 0 <= r_hash en ->
    om_get m k = Some (en, d) ->
    k = r_hash en + d /\ - 2 ^ om_offset_bits < d < 2 ^ om_offset_bits.
Proof. exact offsetmap_get. Qed.
Print Assumptions C08_offsetmap.

Theorem C08_offsetmap_hit :
  forall m en m' j, om_set m (r_hash en) en = Some m' -> 0 <= r_hash en ->
    om_get_bucket (r_hash en + j) = om_get_bucket (r_hash en) -> 0 <= r_hash en + j ->
    om_get m' (r_hash en + j) = Some (en, j).
Proof. exact offsetmap_hit. Qed.
Print Assumptions C08_offsetmap_hit.

Theorem C08_offsetmap_invariant :
  om_wf [] /\ (forall m en m', om_wf m -> om_set m (r_hash en) en = Some m' -> om_wf m') /\ om_wf precomputed.
Proof. exact (conj om_wf_nil (conj om_set_wf precomputed_wf)). Qed.
Print Assumptions C08_offsetmap_invariant.

(* ---- the hash range sha3_data enforces (concrete hashes) / assumes (symbolic hashes) leaves
   room for every offset below the dynamic-array bound of match_dynamic_array_overflow_condition:
   hash + offset is never 0 and never wraps *)
Theorem C08_hash_range :
  (forall h off, 0 <= h -> sha3_hash_out_of_range h = false -> 0 <= off < dyn_array_max_offset ->
     0 < h + off < 2 ^ 256) /\
  (forall h off, 0 < h <= sha3_sym_upper -> 0 <= off < dyn_array_max_offset -> 0 < h + off < 2 ^ 256).
Proof. exact (conj range_no_wrap sym_range_no_wrap). Qed.
Print Assumptions C08_hash_range.

(* ---- last write wins on decoded locations (chunk id + key), for every key/value type,
   every sound oracle (Exec.check answering unsat only when it is), every store chain,
   symbolic or empty initial storage *)
Theorem C08_raw :
  forall (key val : Type) (kden : env -> key -> Z) (evalv : env -> val -> Z)
         (orc : key -> key -> tri) (init : chunkid -> Z -> Z) (adm : env -> Prop),
    (forall a b, orc a b = MustEq -> forall e, adm e -> kden e a = kden e b) ->
    (forall a b, orc a b = MustNeq -> forall e, adm e -> kden e a <> kden e b) ->
    forall (e : env) (s : storage key val) (c : chunkid) (k : key) (v : val) (c' : chunkid) (k' : key),
      adm e ->
      evalr key val kden evalv init e (symbolic key val s) (load key val orc (store key val s c k v) c' k') =
      (if cid_eqb c c' && (cid_scalar c || (kden e k' =? kden e k)) then evalv e v
       else evalr key val kden evalv init e (symbolic key val s) (load key val orc s c' k')).
Proof. exact raw_chunk. Qed.
Print Assumptions C08_raw.

Theorem C08_load_empty :
  forall (key val : Type) (kden : env -> key -> Z) (evalv : env -> val -> Z)
         (orc : key -> key -> tri) (init : chunkid -> Z -> Z) (e : env) (c : chunkid) (k : key),
    evalr key val kden evalv init e false (load key val orc (st_empty key val) c k) = 0.
Proof. exact load_empty. Qed.
Print Assumptions C08_load_empty.

(* ---- whole sequences: for ANY decoder that is faithful on the family of locations a
   program uses (same EVM slot <-> same chunk and key), the loads of every store/load
   sequence return what the EVM's flat array returns *)
Theorem C08_sequences :
  forall (key val : Type) (kden : env -> key -> Z) (evalv : env -> val -> Z) (orc : key -> key -> tri)
         (init : chunkid -> Z -> Z) (adm : env -> Prop),
    (forall a b, orc a b = MustEq -> forall e, adm e -> kden e a = kden e b) ->
    (forall a b, orc a b = MustNeq -> forall e, adm e -> kden e a <> kden e b) ->
    forall (H : Z -> Z -> Z) (decode : loc -> res (chunkid * key)) (e : env) (fam : list loc) (ops : list (op val)),
      adm e -> faithful_on key kden H decode e fam ->
      (forall o, In o ops -> In (op_loc val o) fam) ->
      model_run key val kden evalv orc init decode e (st_empty key val) ops = ref_run H e val evalv fempty ops.
Proof. exact seq_from_empty. Qed.
Print Assumptions C08_sequences.

(* ---- transient storage at the start of a transaction: same accounts, all empty, every
   TLOAD gives 0 *)
Theorem C08_transient_fresh :
  forall (key val : Type) (kden : env -> key -> Z) (evalv : env -> val -> Z) (orc : key -> key -> tri)
         (init : chunkid -> Z -> Z) (e : env) (ts : list (Z * storage key val)) (a : Z)
         (s : storage key val) (c : chunkid) (k : key),
    In (a, s) (fresh_transient_storage key val ts) ->
    s = st_empty key val /\
    evalr key val kden evalv init e (symbolic key val s) (load key val orc s c k) = 0.
Proof. exact transient_fresh. Qed.
Print Assumptions C08_transient_fresh.

Theorem C08_transient_fresh_accounts :
  forall (key val : Type) (ts : list (Z * storage key val)),
    map fst (fresh_transient_storage key val ts) = map fst ts.
Proof. exact transient_fresh_accounts. Qed.
Print Assumptions C08_transient_fresh_accounts.

(* ---- the path side.  The terms load() returns mention z3 array terms -- the initial
   (`_00`) array of a chunk, the numbered array variables store() introduces -- whose meaning
   is given ONLY by the axioms load()/store() append to ex.path: `var == Store(base, k, v)`
   per store, `Select(initial, k) == 0` per load of a non-symbolic account (the initial array
   itself is uninterpreted).  For the guard of either layout as regenerated from the code:

   the emptiness axiom is appended by every load of a non-symbolic account, whatever the key
   looks like, and never for a symbolic one *)
Theorem C08_emptiness_axiom_guard :
  forall emits, emits = sol_load_emits_empty \/ emits = gen_load_emits_empty ->
    (forall key_is_value, emits false key_is_value = true) /\
    (forall key_is_value, emits true key_is_value = false).
Proof. exact code_guard_ok. Qed.
Print Assumptions C08_emptiness_axiom_guard.

(* one load, any Exec state satisfying the invariant of runs (pwf: definitions numbered
   1 + len(ex.storages) and referring to older arrays only, every chunk's array rooted in its
   own initial array, every recorded definition also in the path): under EVERY interpretation
   I of the array terms that satisfies the path after the load, the returned term evaluates
   to what the chain-level model of C08_raw computes, the initial contents being I's *)
Theorem C08_path_load :
  forall (key val : Type) (kden : env -> key -> Z) (evalv : env -> val -> Z) (orc : key -> key -> tri)
         (key_is_value : key -> bool) (emits : bool -> bool -> bool) (I : aref -> Z -> Z) (e : env),
    emits = sol_load_emits_empty \/ emits = gen_load_emits_empty ->
    forall (s : pstate key val) (c : chunkid) (k : key), pwf key val s ->
      (forall ax, In ax (p_path key val (snd (pload key val orc key_is_value emits s c k))) ->
         holds key val kden evalv I e ax) ->
      evalp key val kden evalv I e (fst (pload key val orc key_is_value emits s c k)) =
      evalr key val kden evalv (fun c i => I (AEmpty c) i) e (p_symbolic key val s)
        (load key val orc (abs key val s) c k).
Proof. exact path_load_code. Qed.
Print Assumptions C08_path_load.

(* whole sequences on a fresh non-symbolic account: under EVERY model I of the storage axioms
   the run left in the path (no assumption on the initial arrays other than those axioms),
   the terms returned by the loads evaluate to what the EVM's flat, zero-initialised array
   returns -- a never-written location reads as 0 in every model of the path *)
Theorem C08_path_sequences :
  forall (key val : Type) (kden : env -> key -> Z) (evalv : env -> val -> Z) (orc : key -> key -> tri)
         (key_is_value : key -> bool) (emits : bool -> bool -> bool) (adm : env -> Prop),
    emits = sol_load_emits_empty \/ emits = gen_load_emits_empty ->
    (forall a b, orc a b = MustEq -> forall e, adm e -> kden e a = kden e b) ->
    (forall a b, orc a b = MustNeq -> forall e, adm e -> kden e a <> kden e b) ->
    forall (H : Z -> Z -> Z) (decode : loc -> res (chunkid * key)) (e : env) (fam : list loc) (ops : list (op val)),
      adm e -> faithful_on key kden H decode e fam ->
      (forall o, In o ops -> In (op_loc val o) fam) ->
      forall I : aref -> Z -> Z,
        (forall ax, In ax (p_path key val (snd (prun key val orc key_is_value emits decode (p_empty key val) ops))) ->
           holds key val kden evalv I e ax) ->
        map (evalp key val kden evalv I e) (fst (prun key val orc key_is_value emits decode (p_empty key val) ops)) =
        ref_run H e val evalv fempty ops.
Proof. exact path_seq_code. Qed.
Print Assumptions C08_path_sequences.

(* the axioms never over-constrain: the path of every run has a model -- with all-zero
   initial arrays for a non-symbolic account, and with ANY initial arrays for a symbolic one
   (symbolic initial storage stays unconstrained; C08_path_sequences is not vacuous) *)
Theorem C08_path_has_model :
  forall (key val : Type) (kden : env -> key -> Z) (evalv : env -> val -> Z) (orc : key -> key -> tri)
         (key_is_value : key -> bool) (emits : bool -> bool -> bool),
    emits = sol_load_emits_empty \/ emits = gen_load_emits_empty ->
    forall (decode : loc -> res (chunkid * key)) (e : env) (sym : bool) (ops : list (op val))
           (init : chunkid -> Z -> Z),
      (sym = false -> forall c i, init c i = 0) ->
      exists I : aref -> Z -> Z,
        (forall c i, I (AEmpty c) i = init c i) /\
        (forall ax, In ax (p_path key val (snd (prun key val orc key_is_value emits decode (p_start key val sym) ops))) ->
           holds key val kden evalv I e ax).
Proof. exact path_model_code. Qed.
Print Assumptions C08_path_has_model.

(* non-vacuity: the undecided store.  m[v0] = 7; m[5] with the solver not deciding v0 = 5:
   the load returns Select(array variable 1, key 5) and the path holds both axioms *)
Example C08_path_nonvacuous :
  sol_prun Z orc_unknown reg_empty (p_empty (list kt) Z)
    [OStore (Sha512 (V 0) (K 1)) 7; OLoad (Sha512 (K 5) (K 1))] =
  ([PSelect (AVar 1) (key_m (K 5))],
   {| p_symbolic := false; p_mapping := [((1, 2, 512), PArr (AVar 1))];
      p_storages := [(1%nat, (AEmpty (1, 2, 512), key_m (V 0), 7))];
      p_path := [AxEmpty (1, 2, 512) (key_m (K 5)); AxDef 1 (AEmpty (1, 2, 512)) (key_m (V 0)) 7] |}).
Proof. exact undecided_example. Qed.

(* non-vacuity of C08_path_sequences: the program of C08_sequences_nonvacuous through the real
   solidity decoder (real Keccak), the code's guard and a deciding oracle *)
Example C08_path_sequences_nonvacuous : forall I : aref -> Z -> Z,
  (forall ax, In ax (p_path (list kt) Z (snd (sol_prun Z orc_ex reg_empty (p_empty (list kt) Z) ops_ex))) ->
     holds (list kt) Z sol_kden evalZ I env1 ax) ->
  map (evalp (list kt) Z sol_kden evalZ I env1) (fst (sol_prun Z orc_ex reg_empty (p_empty (list kt) Z) ops_ex)) = [7; 8; 7; 9].
Proof. exact path_seq_example. Qed.

(* ---- REFUTED: decoding is not monotone in the registry (finding F4).  With the real
   Keccak-256: the constant keccak(100000) decodes to the scalar slot before the hash is
   registered and to element 0 of the array at slot 100000 afterwards; a value stored
   through the constant before and loaded through the same constant after is lost, for
   every oracle, whereas the EVM returns it. *)
Theorem C08_registry_monotone_refuted :
  Hkeccak 256 100000 = h100000 /\
  sol_decode reg_empty (K h100000) = Ok ((h100000, 0, 0), []) /\
  (forall R', register reg_empty f4_entry = Ok R' ->
     sol_decode R' (K h100000) = Ok ((100000, 1, 256), [KW [K 0]])) /\
  (forall orc, f4_after orc = Ok 0) /\
  ref_run Hkeccak env1 Z evalZ fempty [OStore (K h100000) 66; OLoad (K h100000)] = [66].
Proof. exact f4_witness. Qed.
Print Assumptions C08_registry_monotone_refuted.

(* ---- REFUTED: "a registered hash is recognised with any small offset": only inside the
   hash's own 2^16 bucket.  keccak(17573) ends in 0xffff; element 1 of the dynamic array at
   slot 17573, written as the folded constant keccak(17573)+1, decodes to a scalar slot,
   while the run-time spelling keccak(17573)+i (i = 1) decodes to (17573, [i]). *)
Theorem C08_offset_recognition_refuted :
  exists R, register reg_empty hi_entry = Ok R /\
    eval Hkeccak env1 (K (Hkeccak 256 slot_hi + 1)) = eval Hkeccak env1 (Add [Sha256 (K slot_hi); V 0]) /\
    sol_decode R (Add [Sha256 (K slot_hi); V 0]) = Ok ((slot_hi, 1, 256), [KW [K 0; V 0]]) /\
    sol_decode R (K (Hkeccak 256 slot_hi)) = Ok ((slot_hi, 1, 256), [KW [K 0]]) /\
    sol_decode R (K (Hkeccak 256 slot_hi + 1)) = Ok ((Hkeccak 256 slot_hi + 1, 0, 0), []).
Proof. exact bucket_witness. Qed.
Print Assumptions C08_offset_recognition_refuted.

(* ---- REFUTED (generic layout): same-location recognition for the spelling
   (keccak(p) - 1) + n.  The two terms denote the same slot for n = 1 but decode to
   different 513-bit keys. *)
Theorem C08_generic_negative_offset_refuted :
  eval Hkeccak env1 (K h4) = eval Hkeccak env1 (Add [K (h4 - 1); V 0]) /\
  decode_gen precomputed reg_empty env1 FUEL (K h4) = Ok (513, 4 * 2 ^ 257) /\
  decode_gen precomputed reg_empty env1 FUEL (Add [K (h4 - 1); V 0]) = Ok (513, 4 * 2 ^ 257 + 2 ^ 256).
Proof. exact generic_negative_witness. Qed.
Print Assumptions C08_generic_negative_offset_refuted.

(* ---- REFUTED (solidity layout): "no aliasing" for mappings with variable-length keys.
   m[hex"ab"][hex"00cd"] and m[hex"ab00"][hex"cd"] (m at slot 1, key bytes symbolic) are
   distinct EVM slots but decode to the same chunk with the same concatenated key. *)
Theorem C08_mixed_width_keys_refuted :
  exists k1 k2,
    sol_decode reg_empty mixed1 = Ok ((1, 4, 536), k1) /\
    sol_decode reg_empty mixed2 = Ok ((1, 4, 536), k2) /\
    sol_kden env_mixed k1 = sol_kden env_mixed k2 /\
    eval Hkeccak env_mixed mixed1 <> eval Hkeccak env_mixed mixed2.
Proof. exact mixed_width_witness. Qed.
Print Assumptions C08_mixed_width_keys_refuted.

(* non-vacuity: the solidity layout does recognise that spelling (the key is 0 for n = 1),
   and C08_raw's hypotheses are satisfiable with a non-trivial oracle *)
Example C08_nonvacuous :
  sol_decode reg_empty (Add [K (h4 - 1); V 0]) = Ok ((4, 1, 256), [KW [K 0; K (2 ^ 256 - 1); V 0]]) /\
  sol_kden env1 [KW [K 0; K (2 ^ 256 - 1); V 0]] = 0.
Proof. exact solidity_negative_ok. Qed.

(* non-vacuity of C08_sequences: a concrete family (scalar, mapping element with a struct
   offset, one array element in two spellings: precomputed constant + index, index +
   run-time hash) on which the real solidity decoder is faithful under real Keccak, and a
   store/load sequence over it *)
Example C08_sequences_nonvacuous :
  faithful_on (list kt) sol_kden Hkeccak (sol_decode reg_empty) env1 fam_ex /\
  model_run (list kt) Z sol_kden evalZ orc_ex init0 (sol_decode reg_empty) env1 (st_empty (list kt) Z)
    [OStore (Add [K h2; V 1]) 7; OStore (K 0) 8; OLoad (Add [V 1; Sha256 (K 2)]);
     OStore (Add [Sha512 (V 0) (K 1); K 1]) 9; OLoad (K 0); OLoad (Add [K h2; V 1]); OLoad (Add [Sha512 (V 0) (K 1); K 1])]
  = [7; 8; 7; 9].
Proof. exact (conj fam_ex_faithful seq_example). Qed.

(* ---- REFUTED (solidity layout): same-location recognition for mappings with narrow
   (bytes/string) keys when one access has a concrete key and the other a symbolic one *)
Theorem C08_narrow_constant_key_refuted :
  exists R, register reg_empty narrow_entry = Ok R /\
    eval Hkeccak env0 (K (Hkeccak 272 narrow_pre)) = eval Hkeccak env0 (ShaN 16 (NKv 1) (K 5)) /\
    sol_decode R (K (Hkeccak 272 narrow_pre)) = Ok ((Hkeccak 272 narrow_pre, 0, 0), []) /\
    sol_decode R (ShaN 16 (NKv 1) (K 5)) = Ok ((5, 2, 272), [KN 16 (NKv 1); KW [K 0]]).
Proof. exact narrow_constant_witness. Qed.
Print Assumptions C08_narrow_constant_key_refuted.

(* ---- REFUTED (generic layout): "no aliasing" when a mapping key is itself a hash *)
Theorem C08_generic_hash_key_refuted :
  eval Hkeccak env0 (Sha512 (Sha256 (K 2)) (K 0)) <> eval Hkeccak env0 (Sha256 (Sha512 (K 2) (K 0))) /\
  decode_gen precomputed reg_empty env0 FUEL (Sha512 (Sha256 (K 2)) (K 0)) = Ok (1026, 2 * 2 ^ 770) /\
  decode_gen precomputed reg_empty env0 FUEL (Sha256 (Sha512 (K 2) (K 0))) = Ok (1026, 2 * 2 ^ 770).
Proof. exact generic_hash_key_witness. Qed.
Print Assumptions C08_generic_hash_key_refuted.
