(* C17 -- Solver subprocess lifecycle under every schedule.
   Statements only; every proof is `exact <lemma from Proofs/ExecProofs.v>`.
   The model (Model/ExecModel.v) is the labelled transition system of
   halmos.processes.{PopenFuture,PopenExecutor} + the caller protocol of
   solve.solve_low_level; Gen/GenSolveLow.v (timeout handler result, first-line dispatch)
   is regenerated from /repo/src/halmos/solve.py on every run.
   All theorems quantify over every job configuration (any number of jobs, with or
   without time limit), any number of shutdown callers (wait=True / wait=False) and
   EVERY schedule (label list) the transition system admits. *)
From Coq Require Import List Arith Bool.
From HV Require Import Spec.ExecSpec Gen.GenSolveLow Model.ExecModel Proofs.ExecProofs.
Import ListNotations.

(* a job's result or exception is delivered at most once, on every schedule *)
Theorem C17_at_most_once :
  forall tmos waits sched st j,
    run (init tmos waits) sched = Some st -> deliveries j sched <= 1.
Proof. exact at_most_once. Qed.
Print Assumptions C17_at_most_once.

(* same, on the state: set_result is never called twice on a future *)
Theorem C17_set_result_once :
  forall tmos waits sched st j jb,
    run (init tmos waits) sched = Some st -> nth_error (jobs st) j = Some jb -> sets jb <= 1.
Proof. exact sets_at_most_once. Qed.
Print Assumptions C17_set_result_once.

(* ... and exactly once in every quiescent state (no label enabled): each submit() call was
   either rejected (never delivered, no process) or its waiter holds the result that
   solve_low_level derives from the future, delivered exactly once, and no process of it
   runs; every shutdown() call has ended (returned, or raised: see F15 below) *)
Theorem C17_exactly_once_quiescent :
  forall tmos waits sched st,
    run (init tmos waits) sched = Some st -> (forall l, step st l = None) ->
    (forall j jb, nth_error (jobs st) j = Some jb ->
       (spc jb = SRejected /\ wpc jb = WNew /\ deliveries j sched = 0 /\ proc jb = PNone) \/
       (spc jb = SGot (low_level jb) /\ wpc jb = WDone /\ deliveries j sched = 1 /\ proc jb <> PRun)) /\
    (forall k s, nth_error (sds st) k = Some s -> dpc s = DDone \/ dpc s = DRaised).
Proof. exact quiescent_exactly_once. Qed.
Print Assumptions C17_exactly_once_quiescent.

(* deadlock-freedom: in every reachable state in which some submitter has neither been
   rejected nor obtained its result, or some shutdown() call has not ended, a label is enabled *)
Theorem C17_no_deadlock :
  forall tmos waits sched st,
    run (init tmos waits) sched = Some st ->
    (exists j jb, nth_error (jobs st) j = Some jb /\ spc jb <> SRejected /\ (forall v, spc jb <> SGot v)) \/
    (exists k s, nth_error (sds st) k = Some s /\ dpc s <> DDone /\ dpc s <> DRaised) ->
    exists l st', step st l = Some st'.
Proof. exact no_deadlock_run. Qed.
Print Assumptions C17_no_deadlock.

(* waiting always returns: every run extends to a quiescent state (and every schedule is
   finite, C17_schedules_bounded, so every maximal schedule is such an extension); there every
   waiter has returned with exactly one delivery *)
Theorem C17_wait_returns :
  forall tmos waits sched st,
    run (init tmos waits) sched = Some st ->
    exists ext st',
      run (init tmos waits) (sched ++ ext) = Some st' /\ (forall l, step st' l = None) /\
      (forall j jb, nth_error (jobs st') j = Some jb ->
         (spc jb = SRejected /\ deliveries j (sched ++ ext) = 0) \/
         (spc jb = SGot (low_level jb) /\ deliveries j (sched ++ ext) = 1)) /\
      (forall k s, nth_error (sds st') k = Some s -> dpc s = DDone \/ dpc s = DRaised).
Proof. exact wait_returns. Qed.
Print Assumptions C17_wait_returns.

(* a job that exceeded its time limit carries TimeoutExpired, and what its waiter
   (solve_low_level) reports is unknown -- never unsat *)
Theorem C17_timeout_unknown :
  forall tmos waits sched st j jb,
    run (init tmos waits) sched = Some st -> timed_out j sched ->
    nth_error (jobs st) j = Some jb ->
    exc jb = Some ETimeout /\
    forall v, spc jb = SGot v -> v = spec_timeout_verdict /\ v <> VUnsat.
Proof. exact timeout_unknown_spec. Qed.
Print Assumptions C17_timeout_unknown.

(* every step decreases a ranking function; hence every schedule is finite, with an
   explicit bound: no thread of the protocol can run forever *)
Theorem C17_every_step_decreases_rank :
  forall st l st', step st l = Some st' -> rank st' < rank st.
Proof. exact step_rank. Qed.
Print Assumptions C17_every_step_decreases_rank.

Theorem C17_schedules_bounded :
  forall tmos waits sched st,
    run (init tmos waits) sched = Some st ->
    length sched <= 16 * length tmos + (5 + length tmos) * length waits.
Proof. exact schedules_bounded. Qed.
Print Assumptions C17_schedules_bounded.

(* REFUTED (defect F5): "no further job is accepted after shutdown": there is a schedule
   on which a job is accepted (its worker started) after shutdown() has returned *)
Theorem C17_no_accept_after_shutdown_refuted :
  exists tmos waits sched st,
    run (init tmos waits) sched = Some st /\ accepted_after_return sched.
Proof. exact no_accept_after_shutdown_refuted. Qed.
Print Assumptions C17_no_accept_after_shutdown_refuted.

(* REFUTED (defect F6): "after shutdown no solver process keeps running": even without any
   late acceptance, a process is spawned after shutdown(wait=False) has returned and is
   running in the final state *)
Theorem C17_no_process_after_shutdown_refuted :
  exists tmos waits sched st k j,
    run (init tmos waits) sched = Some st /\ ~ accepted_after_return sched /\
    spawned_after_return sched /\ returned st k = true /\ running st j = true.
Proof. exact no_process_after_shutdown_refuted. Qed.
Print Assumptions C17_no_process_after_shutdown_refuted.

(* REFUTED (wait=True variant): the join snapshot is taken without the lock, so
   shutdown(wait=True) can return while a job whose flag test preceded the request is
   still being registered; its process runs after the return *)
Theorem C17_join_misses_accepted_job_refuted :
  exists sched st,
    run (init [false] [true]) sched = Some st /\ accepted_after_return sched /\
    returned st 0 = true /\ running st 0 = true.
Proof. exact join_misses_accepted_job_refuted. Qed.
Print Assumptions C17_join_misses_accepted_job_refuted.

(* REFUTED (new finding): "waiting always returns" for shutdown(wait=True): _join re-raises
   the exception of a timed-out / failed job, so shutdown() terminates with that exception,
   never returns normally afterwards, and has not waited for the remaining jobs -- here job 1,
   registered before the request, is still running *)
Theorem C17_shutdown_wait_returns_refuted :
  exists tmos sched st,
    run (init tmos [true]) sched = Some st /\ shutdown_raised 0 sched /\
    ~ accepted_after_return sched /\ raisedb st 0 = true /\ running st 1 = true /\
    forall ext st', run st ext = Some st' -> raisedb st' 0 = true.
Proof. exact shutdown_wait_raises_refuted. Qed.
Print Assumptions C17_shutdown_wait_returns_refuted.

(* non-vacuity: a complete run of a job with a time limit that times out and of a job that
   answers, next to a shutdown(wait=False) and a shutdown(wait=True): delivered exactly once,
   reported unknown / unsat, quiescent at the end *)
Example C17_nonvacuous :
  let sched := [LSubCheck 0; LSubAcquire 0; LSubAppend 0; LSubStart 0; LSubRelease 0;
                LSubCheck 1; LSubAcquire 1; LSubAppend 1; LSubStart 1; LSubRelease 1;
                LPopen 0 true; LPopen 1 true; LSdSet 1; LSdSnap 1; LExit 1; LCommRet 1 AUnsat;
                LFinally 1; LSetResult 1; LCommTimeout 0; LFinally 0;
                LSetResult 0; LSubWait 0; LSubWait 1; LSdRaise 1; LSdSet 0; LSdAcquire 0;
                LSdCancel 0 1; LSdCancel 0 0; LSdReturn 0] in
  exists st, run (init [true; false] [false; true]) sched = Some st /\
    deliveries 0 sched = 1 /\ timed_out 0 sched /\ quiescentb st = true /\
    map spc (jobs st) = [SGot VUnknown; SGot VUnsat] /\ map proc (jobs st) = [PDead; PDead].
Proof.
  cbv zeta. eexists. split; [vm_compute; reflexivity|].
  repeat split; try reflexivity. unfold timed_out; simpl; auto 30.
Qed.
