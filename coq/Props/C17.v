(* C17 -- Solver subprocess lifecycle under every schedule.
   Statements only; every proof is `exact <lemma from Proofs/ExecProofs.v>`.
   The model (Model/ExecModel.v) is the labelled transition system of
   halmos.processes.{PopenFuture,PopenExecutor} + the caller protocol of
   solve.solve_low_level; Gen/GenSolveLow.v (timeout handler result, first-line dispatch)
   is regenerated from /repo/src/halmos/solve.py on every run.
   All theorems quantify over every job configuration (any number of jobs, with or
   without time limit), any number of shutdown callers (wait=True / wait=False) and
   EVERY schedule (label list) the transition system admits. *)
From Coq Require Import List Arith Bool.
From HV Require Import Spec.ExecSpec Gen.GenSolveLow Gen.GenCancel Model.ExecModel Proofs.ExecProofs.
Import ListNotations.

(* a job's result or exception is delivered at most once, on every schedule *)
Theorem C17_at_most_once :
  forall cfgs waits sched st j,
    run (init cfgs waits) sched = Some st -> deliveries j sched <= 1.
Proof. exact at_most_once. Qed.
Print Assumptions C17_at_most_once.

(* same, on the state: set_result is never called twice on a future *)
Theorem C17_set_result_once :
  forall cfgs waits sched st j jb,
    run (init cfgs waits) sched = Some st -> nth_error (jobs st) j = Some jb -> sets jb <= 1.
Proof. exact sets_at_most_once. Qed.
Print Assumptions C17_set_result_once.

(* ... and exactly once in every quiescent state (no label enabled): each submit() call was
   either rejected (never delivered, no process) or its waiter holds the result that
   solve_low_level derives from the future, delivered exactly once, and no process of it
   runs; every shutdown() call has returned *)
Theorem C17_exactly_once_quiescent :
  forall cfgs waits sched st,
    run (init cfgs waits) sched = Some st -> (forall l, step st l = None) ->
    (forall j jb, nth_error (jobs st) j = Some jb ->
       (spc jb = SRejected /\ wpc jb = WNew /\ deliveries j sched = 0 /\ proc jb = PNone) \/
       (spc jb = SGot (low_level jb) /\ wpc jb = WDone /\ deliveries j sched = 1 /\ proc jb <> PRun)) /\
    (forall k s, nth_error (sds st) k = Some s -> dpc s = DDone).
Proof. exact quiescent_exactly_once. Qed.
Print Assumptions C17_exactly_once_quiescent.

(* deadlock-freedom: in every reachable state in which some submitter has neither been
   rejected nor obtained its result, or some shutdown() call has not ended, a label is enabled *)
Theorem C17_no_deadlock :
  forall cfgs waits sched st,
    run (init cfgs waits) sched = Some st ->
    (exists j jb, nth_error (jobs st) j = Some jb /\ spc jb <> SRejected /\ (forall v, spc jb <> SGot v)) \/
    (exists k s, nth_error (sds st) k = Some s /\ dpc s <> DDone) ->
    exists l st', step st l = Some st'.
Proof. exact no_deadlock_run. Qed.
Print Assumptions C17_no_deadlock.

(* waiting always returns: every run extends to a quiescent state (and every schedule is
   finite, C17_schedules_bounded, so every maximal schedule is such an extension); there every
   waiter has returned with exactly one delivery *)
Theorem C17_wait_returns :
  forall cfgs waits sched st,
    run (init cfgs waits) sched = Some st ->
    exists ext st',
      run (init cfgs waits) (sched ++ ext) = Some st' /\ (forall l, step st' l = None) /\
      (forall j jb, nth_error (jobs st') j = Some jb ->
         (spc jb = SRejected /\ deliveries j (sched ++ ext) = 0) \/
         (spc jb = SGot (low_level jb) /\ deliveries j (sched ++ ext) = 1)) /\
      (forall k s, nth_error (sds st') k = Some s -> dpc s = DDone).
Proof. exact wait_returns. Qed.
Print Assumptions C17_wait_returns.

(* a job that exceeded its time limit carries TimeoutExpired, and what its waiter
   (solve_low_level) reports is unknown -- never unsat *)
Theorem C17_timeout_unknown :
  forall cfgs waits sched st j jb,
    run (init cfgs waits) sched = Some st -> timed_out j sched ->
    nth_error (jobs st) j = Some jb ->
    exc jb = Some ETimeout /\
    forall v, spc jb = SGot v -> v = spec_timeout_verdict /\ v <> VUnsat.
Proof. exact timeout_unknown_spec. Qed.
Print Assumptions C17_timeout_unknown.

(* every step decreases a ranking function; hence every schedule is finite, with an
   explicit bound: no thread of the protocol can run forever *)
Theorem C17_every_step_decreases_rank :
  forall st l st', step st l = Some st' -> rank st' < rank st.
Proof. exact step_rank. Qed.
Print Assumptions C17_every_step_decreases_rank.

Theorem C17_schedules_bounded :
  forall cfgs waits sched st,
    run (init cfgs waits) sched = Some st ->
    length sched <= 19 * length cfgs + (6 + length cfgs) * length waits.
Proof. exact schedules_bounded. Qed.
Print Assumptions C17_schedules_bounded.

(* "no further job is accepted after shutdown" (was refuted: F5, repaired by 446a9a7 and
   2f54d38): on every schedule, no job is accepted (its worker started) after any shutdown()
   call, of either kind, has returned *)
Theorem C17_no_accept_after_shutdown :
  forall cfgs waits sched st,
    run (init cfgs waits) sched = Some st -> ~ accepted_after_return sched.
Proof. exact no_accept_after_shutdown. Qed.
Print Assumptions C17_no_accept_after_shutdown.

(* stronger: once a shutdown() call has taken the executor lock, no job is registered or
   accepted any more (so the snapshot that call takes under the lock is the final registry) *)
Theorem C17_no_accept_after_shutdown_lock :
  forall cfgs waits pre l post st k,
    run (init cfgs waits) (pre ++ l :: post) = Some st -> In (LSdAcquire k) pre ->
    forall j, l <> LSubAppend j /\ l <> LSubStart j.
Proof. exact no_accept_after_lock. Qed.
Print Assumptions C17_no_accept_after_shutdown_lock.

(* shutdown(wait=True) (was refuted: F15 -- _join re-raised a job's exception and abandoned the
   rest -- repaired by 0f4e35b; and the snapshot race, repaired by 2f54d38): when it has
   returned, NO solver process runs, and every job that was ever accepted has been delivered,
   exactly once -- whatever happened to the jobs (timeout, Popen failure, cancel) *)
Theorem C17_wait_shutdown_complete :
  forall cfgs waits sched st k,
    run (init cfgs waits) sched = Some st -> nth_error waits k = Some true -> returned st k = true ->
    forall j, running st j = false /\ (accepted j sched -> deliveries j sched = 1).
Proof. exact wait_shutdown_complete. Qed.
Print Assumptions C17_wait_shutdown_complete.

(* shutdown() never terminates with an exception (of a job) *)
Theorem C17_shutdown_never_raises :
  forall cfgs waits sched st k,
    run (init cfgs waits) sched = Some st -> ~ shutdown_raised k sched.
Proof. exact shutdown_never_raises. Qed.
Print Assumptions C17_shutdown_never_raises.

(* cancel(): a solver process that existed when a cancel task for its job ran is dead from then
   on (any number of shutdown callers, any order of their cancel tasks) *)
Theorem C17_cancel_kills_spawned :
  forall cfgs waits sched st j,
    run (init cfgs waits) sched = Some st -> cancelled_while_spawned j sched -> running st j = false.
Proof. exact cancel_kills. Qed.
Print Assumptions C17_cancel_kills_spawned.

(* "After a shutdown request no solver process keeps running" (was refuted: F6 -- cancel() was a
   no-op while the worker had not reached Popen yet -- repaired by 1eaaf0c: spawn lock + cancel
   request flag): when ANY shutdown() call, of either kind, has returned, NO solver process runs *)
Theorem C17_no_process_after_shutdown :
  forall cfgs waits sched st k,
    run (init cfgs waits) sched = Some st -> returned st k = true -> forall j, running st j = false.
Proof. exact no_process_after_shutdown. Qed.
Print Assumptions C17_no_process_after_shutdown.

(* ... and none is spawned later: once a cancel task has run for a job, no process is ever spawned
   for it (a job cancelled before its process existed ends with ShutdownError, delivered exactly
   once like every other job: C17_exactly_once_quiescent, C17_wait_returns) *)
Theorem C17_no_spawn_after_cancel :
  forall cfgs waits sched st j,
    run (init cfgs waits) sched = Some st -> ~ spawned_after_cancel j sched.
Proof. exact no_spawn_after_cancel. Qed.
Print Assumptions C17_no_spawn_after_cancel.

(* run(): the exception raised for a job cancelled before its spawn is caught and stored, so it
   is delivered through the worker's finally block *)
Theorem C17_refusal_exception_stored : catches gen_run_handlers gen_refusal_exn = true.
Proof. exact refusal_caught_true. Qed.
Print Assumptions C17_refusal_exception_stored.

(* cancel(): the kill escalation SIGTERM -> grace period -> SIGKILL.  The exception that the
   grace-period wait raises for a process that ignored SIGTERM (a fact of the library the wait
   is called on) is suppressed on the spot by the list regenerated from processes.py, so ... *)
Theorem C17_grace_wait_exception_suppressed :
  catches gen_cancel_suppressed (wait_timeout_exn gen_grace_receiver) = true.
Proof. exact grace_suppressed_true. Qed.
Print Assumptions C17_grace_wait_exception_suppressed.

(* ... cancel() never terminates with an exception (it cannot take the worker's finally block
   past set_result, nor leave a cancel task half done), for every job, stubborn or not, *)
Theorem C17_cancel_never_raises : forall jb, kill_raises jb = false.
Proof. exact kill_raises_false. Qed.
Print Assumptions C17_cancel_never_raises.

(* ... and a running process is dead after cancel() whether or not it ignores SIGTERM *)
Theorem C17_cancel_kills_also_stubborn : forall jb, proc jb = PRun -> proc (kill jb) = PDead.
Proof. exact kill_kills. Qed.
Print Assumptions C17_cancel_kills_also_stubborn.

(* run(): the exception communicate() raises at the time limit is caught and stored *)
Theorem C17_timeout_exception_stored : catches gen_run_handlers communicate_timeout_exn = true.
Proof. exact timeout_caught_true. Qed.
Print Assumptions C17_timeout_exception_stored.

(* non-vacuity: a complete run of a job with a time limit that times out (its process ignores
   SIGTERM), a job (ignoring SIGTERM too) that is killed by a shutdown(wait=False) issued while a
   shutdown(wait=True) is waiting, a job that is rejected under the lock, and a job that is
   cancelled before its worker has spawned the process: each accepted job delivered exactly once,
   reported unknown / error, quiescent, no process *)
Example C17_nonvacuous :
  let sched := [LSubCheck 0; LSubAcquire 0; LSubRecheck 0; LSubAppend 0; LSubStart 0; LSubRelease 0;
                LSubCheck 1; LSubAcquire 1; LSubRecheck 1; LSubAppend 1; LSubStart 1; LSubRelease 1;
                LSubCheck 3; LSubAcquire 3; LSubRecheck 3; LSubAppend 3; LSubStart 3; LSubRelease 3;
                LSpawnEnter 0; LPopen 0 true; LSpawnEnter 1; LPopen 1 true;
                LSubCheck 2; LSdSet 1; LSdAcquire 1; LSdSnap 1; LSdRelease 1;
                LSubAcquire 2; LSubRecheck 2; LSubUnlock 2;
                LCommTimeout 0; LFinally 0; LSetResult 0; LSdJoin 1;
                LSdSet 0; LSdAcquire 0; LSdCancel 0 1; LSdCancel 0 3; LSdCancel 0 0; LSdReturn 0;
                LCommExc 1; LFinally 1; LSetResult 1; LSdJoin 1;
                LSpawnEnter 3; LFinally 3; LSetResult 3; LSdJoin 1; LSdReturn 1;
                LSubWait 0; LSubWait 1; LSubWait 3] in
  exists st, run (init [(true, true); (false, true); (false, false); (false, false)] [false; true]) sched = Some st /\
    deliveries 0 sched = 1 /\ deliveries 3 sched = 1 /\ timed_out 0 sched /\ quiescentb st = true /\
    cancelled_while_spawned 1 sched /\ spawned_before_acquire 0 1 sched /\
    returned st 0 = true /\ returned st 1 = true /\
    map spc (jobs st) = [SGot VUnknown; SGot VRaise; SRejected; SGot VRaise] /\
    map proc (jobs st) = [PDead; PDead; PNone; PNone].
Proof.
  cbv zeta. eexists. split; [vm_compute; reflexivity|].
  split; [reflexivity|]. split; [reflexivity|]. split; [unfold timed_out; simpl; auto 60|]. split; [reflexivity|].
  split; [match goal with |- cancelled_while_spawned _ ?s => exists (firstn 36 s), (skipn 37 s), 0 end;
          split; [reflexivity|simpl; auto 60]|].
  split; [match goal with |- spawned_before_acquire _ _ ?s => exists (firstn 35 s), (skipn 36 s) end;
          split; [reflexivity|simpl; auto 60]|].
  repeat split; reflexivity.
Qed.
