(* C07 -- statements only *)
From Coq Require Import List Arith Bool.
From HV Require Import Spec.ByteVecSpec Model.ByteVecModel Proofs.ByteVecProofs.
Import ListNotations.

Theorem C07_empty : forall B : Type, flat (@empty B) = [].
Proof. exact flat_empty. Qed.
Print Assumptions C07_empty.
