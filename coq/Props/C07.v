(* C07 — Byte sequences (halmos.bytevec.ByteVec: memory, calldata, returndata, code)
   behave as a flat zero-extended byte array.
   Statements only; every proof is `exact <lemma from Proofs/ByteVec*Proofs.v>`.
   B is the byte type (any: concrete bytes, symbolic bytes, their values under any
   valuation), zero its zero byte.  Model: Model/ByteVecModel.v (bytevec.py branch by
   branch) and Model/ByteVecHeapModel.v (object store); spec: Spec/ByteVecSpec.v. *)
From Coq Require Import List Arith Bool.
From HV Require Import Spec.ByteVecSpec Spec.MemSpec Model.ByteVecModel Model.ByteVecHeapModel
  Model.MemOpsModel Proofs.ByteVecProofs Proofs.ByteVecSugarProofs Proofs.ByteVecHeapProofs
  Proofs.MemOpsProofs Model.ChunkViewModel Gen.GenChunkView Proofs.ChunkViewProofs.
From Coq Require Import ZArith.
Import ListNotations.

(* ---- the main theorem: EVERY sequence of operations (append, set_byte, set_slice,
   set_word with bytes / chunk windows / ByteVec values incl. nested ones, overlapping
   copies within the sequence, appends of own slices), of any length, leaves a
   well-formed ByteVec (keys contiguous from 0, no empty chunk, lengths add up, at every
   nesting depth) whose content is what the same operations give on the flat array *)
Theorem C07_history :
  forall (B : Type) (zero : B) (ops : list (op B)),
    Forall op_ok ops ->
    wf (run_ops zero ops) /\
    flat (run_ops zero ops) = fa_run B zero (map abs_op ops).
Proof. exact history_correct. Qed.
Print Assumptions C07_history.

(* one step from ANY well-formed state (not only states reachable from empty) *)
Theorem C07_step :
  forall (B : Type) (zero : B) (v : bvec B) (o : op B),
    wf v -> op_ok o ->
    wf (apply_op zero v o) /\
    flat (apply_op zero v o) = fa_apply B zero (flat v) (abs_op o).
Proof. exact apply_op_correct. Qed.
Print Assumptions C07_step.

(* ---- each operation refines the flat-array operation ---- *)

Theorem C07_append :
  forall (B : Type) (v : bvec B) (c : chunk B),
    wf v -> wfc c ->
    wf (append v c) /\ flat (append v c) = flat v ++ cflat c /\
    blen (append v c) = blen v + clen c.
Proof. exact append_correct. Qed.
Print Assumptions C07_append.

Theorem C07_set_byte :
  forall (B : Type) (zero : B) (v : bvec B) (off : nat) (sym : bool) (x : B),
    wf v ->
    exists v' : bvec B,
      set_byte B zero v off sym x = Some v' /\
      wf v' /\ flat v' = fa_set_byte B zero (flat v) off x.
Proof. exact set_byte_correct. Qed.
Print Assumptions C07_set_byte.

(* set_slice: backfill, aligned fast path (the value object stored as ONE chunk, also
   when it is a ByteVec) and general path, for every value kind; it raises exactly when
   the flat write is rejected *)
Theorem C07_set_slice :
  forall (B : Type) (zero : B) (v : bvec B) (start stop : nat) (val : chunk B),
    wf v -> wfc val ->
    match fa_set_slice B zero (flat v) start stop (cflat val) with
    | Some l' =>
        exists v' : bvec B,
          set_slice B zero v start stop val = Some v' /\ wf v' /\ flat v' = l'
    | None => set_slice B zero v start stop val = None
    end.
Proof. exact set_slice_correct. Qed.
Print Assumptions C07_set_slice.

Theorem C07_slice :
  forall (B : Type) (zero : B) (v : bvec B) (a b : nat),
    wf v ->
    wf (bslice B zero v a b) /\
    flat (bslice B zero v a b) = fa_slice B zero (flat v) a b /\
    blen (bslice B zero v a b) = b - a.
Proof. exact bslice_correct. Qed.
Print Assumptions C07_slice.

Theorem C07_get_byte :
  forall (B : Type) (zero : B) (v : bvec B) (off : nat),
    wf v -> get_byte B zero v off = fa_get B zero (flat v) off.
Proof. exact get_byte_correct. Qed.
Print Assumptions C07_get_byte.

(* unwrap (with defrag) and get_word return the flat content *)
Theorem C07_unwrap :
  forall (B : Type) (v : bvec B), wf v -> snd (unwrap v) = flat v.
Proof. exact unwrap_correct. Qed.
Print Assumptions C07_unwrap.

(* unwrap returns python `bytes` (first component true) exactly when every leaf chunk,
   at every nesting depth, is a ConcreteChunk *)
Theorem C07_unwrap_kind :
  forall (B : Type) (v : bvec B), wf v ->
    fst (unwrap v) = forallb leaf_conc (leaves (as_chunk None v)).
Proof. exact unwrap_kind. Qed.
Print Assumptions C07_unwrap_kind.

Theorem C07_get_word :
  forall (B : Type) (zero : B) (v : bvec B) (off : nat),
    wf v -> snd (get_word B zero v off) = fa_word B zero (flat v) off.
Proof. exact get_word_correct. Qed.
Print Assumptions C07_get_word.

(* ---- observations.  EVERY history in which writes and observations (len, get_byte,
   slice, get_word, unwrap, v[start:stop]) are interleaved in any way: each observation
   returns what the flat array shows at that moment -- in particular an observation
   repeated after a write shows the write, whatever was observed before it (no derived
   view of the sequence may survive a write) ---- *)
Theorem C07_trace :
  forall (B : Type) (zero : B) (es : list (ev B)),
    Forall ev_ok es ->
    trace B zero empty es = fa_trace B zero [] (map abs_ev es).
Proof. exact trace_from_empty. Qed.
Print Assumptions C07_trace.

(* the same from ANY well-formed state *)
Theorem C07_trace_step :
  forall (B : Type) (zero : B) (es : list (ev B)) (v : bvec B),
    wf v -> Forall ev_ok es ->
    trace B zero v es = fa_trace B zero (flat v) (map abs_ev es).
Proof. exact trace_correct. Qed.
Print Assumptions C07_trace_step.

Theorem C07_observe :
  forall (B : Type) (zero : B) (v : bvec B) (q : obs),
    wf v -> observe B zero v q = fa_observe B zero (flat v) (abs_obs q).
Proof. exact observe_correct. Qed.
Print Assumptions C07_observe.

(* a byte written, the whole read, the SAME byte overwritten (its chunk is exactly one byte
   long), the whole read again, twice, then the other reads *)
Example C07_trace_nonvacuous :
  trace nat 0 empty
    [ EOp (OSetByte 0 false 17); EOp (OSetSlice 1 4 (wrap false [97; 98; 99])); EObs OUnwrap;
      EOp (OSetByte 0 false 34); EObs OUnwrap; EObs OUnwrap; EObs (OGet 0); EObs OLen;
      EObs (OItem None (Some 2)); EObs (OWord 2) ] =
    [ FRBytes [17; 97; 98; 99]; FRBytes [34; 97; 98; 99]; FRBytes [34; 97; 98; 99]; FRBytes [34]; FRLen 4;
      FRBytes [34; 97];
      FRBytes [98; 99; 0; 0; 0; 0; 0; 0; 0; 0; 0; 0; 0; 0; 0; 0; 0; 0; 0; 0; 0; 0; 0; 0; 0; 0; 0; 0; 0; 0; 0; 0] ].
Proof. exact trace_example. Qed.

(* ---- the __setitem__ sugar  v[start:stop] = value  (start = key.start or 0,
   stop = key.stop if key.stop is not None else self.length; the two bound expressions
   are regenerated from bytevec.py into Gen/GenByteVecSugar.v): it is the flat slice
   assignment for EVERY pair of optional bounds, an explicit stop of 0 included (formerly
   finding C07-F1, `key.stop or self.length`, repaired by d2d37fe) ---- *)
Theorem C07_setitem :
  forall (B : Type) (zero : B) (v : bvec B) (start stop : option nat) (val : chunk B),
    wf v -> wfc val ->
    match fa_setitem B zero (flat v) start stop (cflat val) with
    | Some l' =>
        exists v' : bvec B,
          setitem_slice B zero v start stop val = Some v' /\ wf v' /\ flat v' = l'
    | None => setitem_slice B zero v start stop val = None
    end.
Proof. exact setitem_correct. Qed.
Print Assumptions C07_setitem.

(* on the former counterexample: v[2:0] = [8; 9] on [1; 2; 3; 4] is rejected like the flat
   write, v[0:0] = [] is the no-op, and an omitted stop still means "to the end" *)
Example C07_setitem_nonvacuous :
  let v : bvec nat := run_ops 0 [OAppend (wrap false [1; 2; 3; 4])] in
  wf v /\
  fa_setitem nat 0 (flat v) (Some 2) (Some 0) [8; 9] = None /\
  setitem_slice nat 0 v (Some 2) (Some 0) (wrap false [8; 9]) = None /\
  fa_setitem nat 0 (flat v) (Some 0) (Some 0) [] = Some [1; 2; 3; 4] /\
  setitem_slice nat 0 v (Some 0) (Some 0) (wrap false []) = Some v /\
  (exists v', setitem_slice nat 0 v (Some 1) None (wrap false [7; 8; 9]) = Some v' /\
              flat v' = [1; 7; 8; 9]) /\
  flat (getitem_slice nat 0 v (Some 1) (Some 0)) = [] /\
  flat (getitem_slice nat 0 v None (Some 6)) = [1; 2; 3; 4; 0; 0].
Proof. exact setitem_stop0_example. Qed.

(* the read sugar  v[start:stop]  is the flat slice read with optional bounds *)
Theorem C07_getitem :
  forall (B : Type) (zero : B) (v : bvec B) (start stop : option nat),
    wf v ->
    wf (getitem_slice B zero v start stop) /\
    flat (getitem_slice B zero v start stop) = fa_getitem B zero (flat v) start stop.
Proof. exact getitem_correct. Qed.
Print Assumptions C07_getitem.

(* ---- the flat array of the specification reads as zero beyond its end and its length
   is the highest offset written (pointwise reading of Spec/ByteVecSpec.v) ---- *)

Theorem C07_spec_slice :
  forall (B : Type) (zero : B) (l : list B) (a b i : nat),
    length (fa_slice B zero l a b) = b - a /\
    (i < b - a -> nth i (fa_slice B zero l a b) zero = nth (a + i) l zero).
Proof. exact spec_slice_pointwise. Qed.
Print Assumptions C07_spec_slice.

Theorem C07_spec_set_slice :
  forall (B : Type) (zero : B) (l : list B) (a b : nat) (data l' : list B) (i : nat),
    a < b -> fa_set_slice B zero l a b data = Some l' ->
    length l' = Nat.max (length l) b /\
    nth i l' zero = (if (a <=? i) && (i <? b) then nth (i - a) data zero else nth i l zero).
Proof. exact spec_set_slice_pointwise. Qed.
Print Assumptions C07_spec_set_slice.

Theorem C07_spec_set_byte :
  forall (B : Type) (zero : B) (l : list B) (off : nat) (x : B) (i : nat),
    length (fa_set_byte B zero l off x) = Nat.max (length l) (off + 1) /\
    nth i (fa_set_byte B zero l off x) zero = (if i =? off then x else nth i l zero).
Proof. exact spec_set_byte_pointwise. Qed.
Print Assumptions C07_spec_set_byte.

(* ---- how sevm.py drives the byte sequences: the memory instructions and the memory side
   of message calls (Model/MemOpsModel.v, whose offset/size wiring is regenerated from
   sevm.py / contract.py into Gen/GenMemWire.v, Gen/GenCodeSlice.v) against the EVM
   semantics on flat arrays (Spec/MemSpec.v) ---- *)

(* EVERY sequence of MSTORE / MSTORE8 / MLOAD+MSTORE / CALLDATACOPY / CODECOPY /
   EXTCODECOPY (account with or without code) / RETURNDATACOPY / MCOPY, message calls
   (arguments read from memory, a callee running its own sequence on a fresh memory,
   RETURN data, copy of min(out size, returned) bytes into the caller's memory, the
   returndata buffer) and creations (init code read from memory, run with an empty
   calldata; the creator's memory untouched, returndata empty unless the init code
   reverts), from any well-formed frame (a creation frame included): the memory and returndata sequences stay
   well-formed and denote exactly the flat EVM memory / returndata; the frame halts exactly
   when the EVM halts (RETURNDATACOPY beyond the buffer, also for size 0); no Python
   exception (set_slice's ValueError, an assert) escapes *)
Theorem C07_memops :
  forall (B : Type) (zero : B) (e : menv B) (ops : list (mop B)) (st : mframe B),
    wf_env e -> wf_frame st -> Forall mop_ok ops ->
    match f_run B zero (abs_env e) (abs_frame st) (map abs_mop ops) with
    | Some fst =>
        exists st' : mframe B,
          m_run zero e st ops = ROk st' /\ wf_frame st' /\ abs_frame st' = fst
    | None => m_run zero e st ops = RHalt
    end.
Proof. exact m_run_correct. Qed.
Print Assumptions C07_memops.

(* the code a creation deploys is what its init code (mem[loc, loc + size), run on an empty
   memory with an EMPTY calldata) returns; nothing is deployed exactly when it halts *)
Theorem C07_created_code :
  forall (B : Type) (zero : B) (mem : bvec B) (loc size : nat) (body : list (mbop B)) (roff rsize : nat),
    wf mem -> Forall mbop_ok body ->
    match init_returns B zero (flat mem) loc size (map abs_mbop body) roff rsize with
    | Some c =>
        exists v : bvec B,
          m_created zero mem loc size body roff rsize = ROk (Some v) /\ wf v /\ flat v = c
    | None => m_created zero mem loc size body roff rsize = ROk None
    end.
Proof. exact created_correct. Qed.
Print Assumptions C07_created_code.

(* the (start, size) wrappers over ByteVec.slice(start, stop) / set_slice(start, stop, _) *)
Theorem C07_mslice :
  forall (B : Type) (zero : B) (mem : bvec B) (loc size : nat),
    wf mem ->
    wf (mslice zero mem loc size) /\
    flat (mslice zero mem loc size) = read_padded B zero (flat mem) loc size /\
    blen (mslice zero mem loc size) = size.
Proof. exact mslice_correct. Qed.
Print Assumptions C07_mslice.

Theorem C07_set_mslice :
  forall (B : Type) (zero : B) (mem : bvec B) (loc : nat) (data : bvec B),
    wf mem -> wf data ->
    exists m' : bvec B,
      set_mslice zero mem loc data = Some m' /\ wf m' /\
      flat m' = mem_write B zero (flat mem) loc (flat data).
Proof. exact set_mslice_correct. Qed.
Print Assumptions C07_set_mslice.

(* Contract.slice(start, size), with its fast path over the concrete prefix *)
Theorem C07_contract_slice :
  forall (B : Type) (zero : B) (code : bvec B) (start size : nat),
    wf code ->
    wf (contract_slice zero code start size) /\
    flat (contract_slice zero code start size) = read_padded B zero (flat code) start size.
Proof. exact contract_slice_correct. Qed.
Print Assumptions C07_contract_slice.

(* copy_returndata_to_memory: the first min(ret_size, len) bytes, by slice or -- when all of
   it is wanted -- by handing over the returndata object itself *)
Theorem C07_copy_returndata :
  forall (B : Type) (zero : B) (rd : bvec B) (ret_loc ret_size : nat) (mem : bvec B),
    wf rd -> wf mem ->
    exists m' : bvec B,
      copy_returndata_to_memory zero rd ret_loc ret_size mem = Some m' /\ wf m' /\
      flat m' = mem_write B zero (flat mem) ret_loc
                  (firstn (Nat.min ret_size (length (flat rd))) (flat rd)).
Proof. exact copy_returndata_correct. Qed.
Print Assumptions C07_copy_returndata.

(* MSIZE: the length (highest offset written) rounded up to a multiple of 32 *)
Theorem C07_msize :
  forall (B : Type) (mem : bvec B), wf mem -> msize mem = round32 (length (flat mem)).
Proof. exact msize_correct. Qed.
Print Assumptions C07_msize.

(* pointwise reading of the copy specification: a copy of size > 0 bytes grows the array
   to loc + size if needed, [loc, loc + size) holds src from off (zero beyond its end),
   every other byte is unchanged; a copy of 0 bytes changes nothing (no growth) *)
Theorem C07_spec_mem_copy :
  forall (B : Type) (zero : B) (mem : list B) (loc : nat) (src : list B) (off size i : nat),
    (0 < size ->
     length (mem_copy B zero mem loc src off size) = Nat.max (length mem) (loc + size) /\
     nth i (mem_copy B zero mem loc src off size) zero =
       (if (loc <=? i) && (i <? loc + size) then nth (off + (i - loc)) src zero else nth i mem zero)) /\
    mem_copy B zero mem loc src off 0 = mem.
Proof. exact spec_mem_copy. Qed.
Print Assumptions C07_spec_mem_copy.

Theorem C07_spec_round32 :
  forall n : nat, n <= round32 n /\ round32 n < n + 32 /\ round32 n mod 32 = 0.
Proof. exact round32_spec. Qed.
Print Assumptions C07_spec_round32.

(* a frame whose code has a concrete prefix (fast path of Contract.slice) and a symbolic
   tail, a call whose callee copies its calldata and code and returns a window of its
   memory, RETURNDATACOPY, an overlapping MCOPY, EXTCODECOPY of an account without code,
   a size-0 copy, a word moved with MLOAD/MSTORE, a creation whose init code (6 bytes of
   the memory) copies its empty calldata and its own code and reverts with 7 bytes;
   RETURNDATACOPY beyond the buffer halts *)
Example C07_memops_nonvacuous :
  wf_env ex_env /\ Forall mop_ok ex_ops /\
  (exists st, m_run 0 ex_env (MF empty empty) ex_ops = ROk st /\
     flat (m_mem st) =
       [0; 0; 2; 2; 3; 4; 51; 52; 0; 0; 12; 0; 0; 0; 15; 60; 61; 0; 0; 0; 51; 52; 23; 24; 0; 0; 0; 0; 0; 0;
        0; 0; 99; 0; 0; 0; 0; 0; 0; 0;
        51; 52; 23; 24; 0; 0; 0; 0; 0; 0; 0; 0; 99; 0; 0; 0; 0; 0; 0; 0; 0; 0; 0; 0; 0; 0; 0; 0; 0; 0; 0; 0] /\
     flat (m_rd st) = [0; 0; 0; 2; 3; 4; 51]) /\
  m_run 0 ex_env (MF empty empty) [MB (MRetCopy 0 1 0)] = RHalt.
Proof. exact memops_example. Qed.

(* ---- copies (object-store layer) ---- *)

(* frame: any sequence of store steps (new, copy, slice, mutators with values that are
   bytes, slices of any object or whole objects) leaves what X denotes unchanged, PROVIDED
   no mutated object is referenced -- directly or through other objects -- as a nested
   chunk from X *)
Theorem C07_isolation :
  forall (B : Type) (zero : B) (fuel : nat) (h1 : heap B) (ops : list (hstep B))
         (h' : heap B) (X t : chunk B),
    h_run B zero fuel h1 ops = Some h' ->
    (forall (s : hstep B) (r : nat), In s ops -> receiver s = Some r -> ~ creach B h1 X r) ->
    refresh B fuel h1 X = Some t -> refresh B fuel h' X = Some t.
Proof. exact isolation. Qed.
Print Assumptions C07_isolation.

(* c = v.copy() denotes what v denotes ... *)
Theorem C07_copy_same :
  forall (B : Type) (zero : B) (fuel : nat) (h : heap B) (v : nat) (o : bvec B),
    nth_error h v = Some o ->
    h_step B zero fuel h (HCopy v) = Some (h ++ [o], false) /\
    h_load B fuel (h ++ [o]) (length h) = h_load B fuel (h ++ [o]) v.
Proof. exact copy_same. Qed.
Print Assumptions C07_copy_same.

(* ... and later writes to the original v (or to anything else but the copy and the
   objects nested in it at copy time) do not change the copy *)
Theorem C07_copy_isolation :
  forall (B : Type) (zero : B) (fuel : nat) (h : heap B) (v : nat) (o : bvec B)
         (ops : list (hstep B)) (h' : heap B) (l : list B),
    nth_error h v = Some o ->
    h_run B zero fuel (h ++ [o]) ops = Some h' ->
    (forall (s : hstep B) (r : nat), In s ops -> receiver s = Some r ->
        r <> length h /\ ~ creach B (h ++ [o]) (Nest None (chunks o) (blen o)) r) ->
    h_flat B fuel (h ++ [o]) (length h) = Some l ->
    h_flat B fuel h' (length h) = Some l.
Proof. exact copy_isolation. Qed.
Print Assumptions C07_copy_isolation.

(* vice versa: writes to the copy do not change the original (instance of the frame
   theorem with X = the original) *)
Theorem C07_original_isolation :
  forall (B : Type) (zero : B) (fuel : nat) (h1 : heap B) (ops : list (hstep B))
         (h' : heap B) (v : nat) (l : list B),
    h_run B zero fuel h1 ops = Some h' ->
    (forall (s : hstep B) (r : nat), In s ops -> receiver s = Some r -> ~ creach B h1 (oref v) r) ->
    h_flat B fuel h1 v = Some l -> h_flat B fuel h' v = Some l.
Proof. exact isolation_flat. Qed.
Print Assumptions C07_original_isolation.

(* the proviso is necessary: a store built by public operations (aligned
   set_slice(0, 2, w) with w a ByteVec, then copy) in which ONE set_byte on w -- neither
   the copy (object 2) nor the original (object 0) -- changes what both denote *)
Theorem C07_alias_refuted :
  exists h1 h' : heap nat,
    h_run nat 0 8 []
      [ HNew; HNew;
        HMut 0 (HAppend (HVLeaf (wrap false [1; 2])));
        HMut 1 (HAppend (HVLeaf (wrap false [3; 4])));
        HMut 0 (HSetSlice 0 2 (HVWhole 1));
        HCopy 0 ] = Some h1 /\
    h_run nat 0 8 h1 [HMut 1 (HSetByte 0 false 9)] = Some h' /\
    receiver (HMut 1 (HSetByte 0 false 9)) = Some 1 /\ 1 <> 2 /\ 1 <> 0 /\
    creach nat h1 (oref 2) 1 /\
    h_flat nat 8 h1 2 = Some [3; 4] /\ h_flat nat 8 h' 2 = Some [9; 4] /\
    h_flat nat 8 h1 0 = Some [3; 4] /\ h_flat nat 8 h' 0 = Some [9; 4].
Proof. exact alias_witness. Qed.
Print Assumptions C07_alias_refuted.

(* ---- non-vacuity ---- *)

(* a history with a chunk split, an aligned overwrite by a nested two-chunk ByteVec, a
   write into the nested chunk, an overlapping self copy and a write past the end *)
Example C07_history_nonvacuous :
  let w : chunk nat := Nest None [(0, Leaf false [7] 0 1); (1, Leaf true [50; 51; 52] 1 2)] 3 in
  let ops := [ OAppend (wrap false [1; 2; 3; 4; 5; 6]);
               OSetByte 1 false 9; OSetByte 5 false 8;
               OSetSlice 2 5 w;
               OSetByte 3 false 0;
               OCopyWithin 1 0 4;
               OSetSlice 8 10 (wrap true [60; 61]) ] in
  Forall op_ok ops /\
  flat (run_ops 0 ops) = [1; 1; 9; 7; 0; 8; 0; 0; 60; 61] /\
  map fst (chunks (run_ops 0 ops)) = [0; 1; 2; 3; 4; 5; 6; 8].
Proof.
  cbv zeta. split; [|split; vm_compute; reflexivity].
  repeat constructor.
Qed.

(* the isolation proviso is satisfiable: same store as in C07_alias_refuted, but the
   later write goes to the original (object 0): the copy keeps its content *)
Example C07_isolation_nonvacuous :
  exists h1 h' : heap nat,
    h_run nat 0 8 []
      [ HNew; HNew;
        HMut 0 (HAppend (HVLeaf (wrap false [1; 2])));
        HMut 1 (HAppend (HVLeaf (wrap false [3; 4])));
        HMut 0 (HSetSlice 0 2 (HVWhole 1));
        HCopy 0 ] = Some h1 /\
    h_run nat 0 8 h1 [HMut 0 (HSetByte 1 false 9)] = Some h' /\
    ~ creach nat h1 (oref 2) 0 /\
    h_flat nat 8 h' 2 = Some [3; 4] /\ h_flat nat 8 h' 0 = Some [3; 9].
Proof. exact isolation_example. Qed.

(* ---- chunk views: a Chunk is a (data, start, length) window of a backing value of ANY size.
   conc_* / symb_* / chunk_getitem are REGENERATED from ConcreteChunk / SymbolicChunk / Chunk in
   bytevec.py on every run (Gen/GenChunkView.v, every branch translated): whatever fast path the
   code takes, depending on the size of the data, of the chunk, of the slice or on the offsets,
   it has to denote the plain window.  vbytes v = the bytes of the window (spec side). ---- *)
Theorem C07_chunk_slice :
  forall (B : Type) (sym : bool) (v : view B) (a b : Z),
    vwf v -> (0 <= a)%Z -> (a <= b)%Z -> (b <= vlen v)%Z ->
    exists w, (if sym then symb_slice B else conc_slice B) v a b = Some w /\
              vwf w /\ vlen w = (b - a)%Z /\ vbytes w = sub (vbytes v) a (b - a).
Proof. intros B sym. exact (leaf_slice_ok B sym). Qed.
Print Assumptions C07_chunk_slice.

(* a view of a view is the view at the sum of the offsets -- for all sizes *)
Theorem C07_chunk_slice_slice :
  forall (B : Type) (sym : bool) (v w1 w2 : view B) (a b x y : Z),
    let f := if sym then symb_slice B else conc_slice B in
    vwf v -> (0 <= a)%Z -> (a <= b)%Z -> (b <= vlen v)%Z ->
    (0 <= x)%Z -> (x <= y)%Z -> (y <= b - a)%Z ->
    f v a b = Some w1 -> f w1 x y = Some w2 ->
    exists w3, f v (a + x)%Z (a + y)%Z = Some w3 /\ vlen w2 = vlen w3 /\ vbytes w2 = vbytes w3 /\
               vbytes w2 = sub (vbytes v) (a + x) (y - x).
Proof.
  intros B sym v w1 w2 a b x y f.
  exact (slice_slice B f (leaf_slice_ok B sym) v a b x y w1 w2).
Qed.
Print Assumptions C07_chunk_slice_slice.

(* any stack of windows c[a1:b1][a2:b2]...[an:bn] *)
Theorem C07_chunk_nesting :
  forall (B : Type) (sym : bool) (ws : list (Z * Z)) (v : view B),
    vwf v -> nest_ok (vlen v) ws ->
    exists w, nest_slice (if sym then symb_slice B else conc_slice B) v ws = Some w /\ vwf w /\
              vlen w = nest_len (vlen v) ws /\
              vbytes w = sub (vbytes v) (nest_off ws) (nest_len (vlen v) ws) /\
              (0 <= nest_off ws)%Z /\ (nest_off ws + nest_len (vlen v) ws <= vlen v)%Z.
Proof. intros B sym. exact (nest_correct B _ (leaf_slice_ok B sym)). Qed.
Print Assumptions C07_chunk_nesting.

Theorem C07_chunk_get_byte :
  forall (B : Type) (sym : bool) (v : view B) (k : Z),
    vwf v ->
    (if sym then symb_get_byte B else conc_get_byte B) v k =
    if ((0 <=? k) && (k <? vlen v))%Z then Some (sub (vbytes v) k 1) else None.
Proof. intros B sym. exact (leaf_get_byte_ok B sym). Qed.
Print Assumptions C07_chunk_get_byte.

(* get_byte through any nesting reads the byte at the sum of the offsets *)
Theorem C07_chunk_nest_get_byte :
  forall (B : Type) (sym : bool) (ws : list (Z * Z)) (v w : view B) (k : Z),
    vwf v -> nest_ok (vlen v) ws ->
    nest_slice (if sym then symb_slice B else conc_slice B) v ws = Some w ->
    (0 <= k < vlen w)%Z ->
    (if sym then symb_get_byte B else conc_get_byte B) w k =
    (if sym then symb_get_byte B else conc_get_byte B) v (nest_off ws + k)%Z.
Proof.
  intros B sym.
  exact (nest_get_byte B _ _ (leaf_slice_ok B sym) (leaf_get_byte_ok B sym)).
Qed.
Print Assumptions C07_chunk_nest_get_byte.

Theorem C07_chunk_unwrap :
  forall (B : Type) (sym : bool) (v : view B),
    vwf v -> (if sym then symb_unwrap B else conc_unwrap B) v = Some (vbytes v).
Proof. intros B sym. exact (leaf_unwrap_ok B sym). Qed.
Print Assumptions C07_chunk_unwrap.

(* chunk[ks:ke] (the only way ByteVec slices a chunk): omitted start = 0, omitted stop = len,
   out-of-range bounds raise IndexError, otherwise the window *)
Theorem C07_chunk_getitem :
  forall (B : Type) (sym : bool) (v : view B) (ks ke : option Z),
    vwf v ->
    let a := match ks with Some x => x | None => 0%Z end in
    let b := match ke with Some x => x | None => vlen v end in
    ((0 <= a <= vlen v)%Z /\ (0 <= b <= vlen v)%Z /\ (a <= b)%Z ->
       exists w, chunk_getitem B (if sym then symb_slice B else conc_slice B) v ks ke = Some w /\
                 vwf w /\ vlen w = (b - a)%Z /\ vbytes w = sub (vbytes v) a (b - a)) /\
    (~ ((0 <= a <= vlen v)%Z /\ (0 <= b <= vlen v)%Z) ->
       chunk_getitem B (if sym then symb_slice B else conc_slice B) v ks ke = None).
Proof. intros B sym. exact (getitem_ok B _ (leaf_slice_ok B sym)). Qed.
Print Assumptions C07_chunk_getitem.

(* the Leaf branches of the hand-written ByteVec model ARE the regenerated chunk methods *)
Theorem C07_model_leaf_slice :
  forall (B : Type) (zero : B) (sym : bool) (d : list B) (s l a b : nat),
    s + l <= length d -> a <= b -> b <= l ->
    exists w, (if sym then symb_slice B else conc_slice B)
                (MkView d (Z.of_nat s) (Z.of_nat l)) (Z.of_nat a) (Z.of_nat b) = Some w /\
              vwf w /\
              Z.of_nat (clen (csub B zero (Leaf sym d s l) a b)) = vlen w /\
              cflat (csub B zero (Leaf sym d s l) a b) = vbytes w /\
              cslice B zero (Leaf sym d s l) a b = [csub B zero (Leaf sym d s l) a b].
Proof. intros B zero sym. exact (model_leaf_slice B zero sym). Qed.
Print Assumptions C07_model_leaf_slice.

Theorem C07_model_leaf_get_byte :
  forall (B : Type) (zero : B) (sym : bool) (d : list B) (s l off : nat),
    s + l <= length d -> off < l ->
    (if sym then symb_get_byte B else conc_get_byte B)
      (MkView d (Z.of_nat s) (Z.of_nat l)) (Z.of_nat off) = Some [cget B zero (Leaf sym d s l) off].
Proof. intros B zero sym. exact (model_leaf_get_byte B zero sym). Qed.
Print Assumptions C07_model_leaf_get_byte.

Theorem C07_model_leaf_unwrap :
  forall (B : Type) (zero : B) (sym : bool) (d : list B) (s l : nat),
    s + l <= length d ->
    (if sym then symb_unwrap B else conc_unwrap B) (MkView d (Z.of_nat s) (Z.of_nat l)) =
    Some (snd (cunwrap (Leaf sym d s l))).
Proof. intros B zero sym. exact (model_leaf_unwrap B zero sym). Qed.
Print Assumptions C07_model_leaf_unwrap.

(* a 3000-byte backing value, a view of a view of it, a word read through it *)
Example C07_chunk_nonvacuous :
  let d := List.map Z.of_nat (seq 0 3000) in
  exists w, nest_slice (symb_slice Z) (MkView d 0 3000) [(100, 2900); (1000, 1032)]%Z = Some w /\
            vbytes w = List.map Z.of_nat (seq 1100 32).
Proof. vm_compute. eexists. split; reflexivity. Qed.
