(* C01 — Every reported execution path is a real EVM behaviour.
   Statement for the mini-SEVM model (Model/SymExec.v: the exploration skeleton of SEVM.run
   over the call-free instruction subset, branching through the jumpi decision function
   REGENERATED from sevm.py) against the reference interpreter Spec/Evm.v.
   Statements only; proofs are in Proofs/SymExecSound.v. *)
From Coq Require Import ZArith List Bool.
From HV Require Import Base.Word Spec.Evm Gen.GenJumpi Model.SymExec Proofs.SymExecLemmas Proofs.SymExecSound.
Import ListNotations.
Open Scope Z_scope.

(* For every program (code, symbolic calldata layout, static flag ...: [se]), memory limit,
   loop bound, fuel, and ANY oracle (no assumption: a wrongly kept branch only adds
   constraints): every leaf reported by the exploration, for every valuation rho of the
   symbolic inputs (caller, origin, value, calldata words, initial balances) satisfying the
   leaf's path constraints, describes the result of the reference interpreter started from
   any concrete state related to the symbolic start state: same end kind, same return /
   revert data, same storage and transient storage of the executing account, same balances.
   Stuck / out-of-fuel leaves make no claim.  A JUMPI to an invalid destination is covered
   (repaired by fix 104420e; see C01_badjump_repaired). *)
Theorem C01_sound :
  forall lim se rho oracle loop,
    Forall (fun b => 0 <= b < 256) (se_code se) ->
    forall fuel sg s,
    R se rho sg s ->
    forall l, In l (fst (sexec lim se oracle loop fuel sg)) ->
    Forall (fun c => (eval rho (fst c) =? 0) = negb (snd c)) (l_path l) ->
    exists n, outcome_matches se rho (l_kind l) (exec lim n (inst_env se rho) s).
Proof. exact sexec_sound. Qed.
Print Assumptions C01_sound.

(* one symbolic step is simulated by one concrete step (instruction by instruction) *)
Theorem C01_step :
  forall lim se rho run_sub,
    Forall (fun b => 0 <= b < 256) (se_code se) ->
    forall sg s,
    R se rho sg s ->
    sim_result lim se rho sg (sstep lim se sg) s (step lim run_sub (inst_env se rho) s).
Proof. exact sim_step. Qed.
Print Assumptions C01_step.

(* the start state is related to every concrete start state with empty storage of [this]
   and the balances rho assigns *)
Theorem C01_init :
  forall se rho w ctr,
    (forall k, sload_of (w_storage w) (se_this se) k = 0) ->
    (forall k, sload_of (w_transient w) (se_this se) k = 0) ->
    (forall a, get_balance w a = eval rho (sbal se a)) ->
    R se rho init_sstate (init_state w ctr).
Proof. exact R_init. Qed.
Print Assumptions C01_init.

(* a followed side of a symbolic JUMPI was never proved infeasible (regenerated decision) *)
Theorem C01_follow_only_potential :
  forall ct cf vt vf loop,
    (d_follow_true (jumpi_decide ct cf vt vf loop) = true -> ct <> R_UNSAT) /\
    (d_follow_false (jumpi_decide ct cf vt vf loop) = true -> cf <> R_UNSAT).
Proof.
  intros. split; [apply Proofs.JumpiProofs.follow_true_potential | apply Proofs.JumpiProofs.follow_false_potential].
Qed.
Print Assumptions C01_follow_only_potential.

(* ---- the former finding F21 (repaired in /repo by 104420e), kept as a regression example ----
   code: PUSH1 4; CALLDATALOAD; PUSH1 0x77; JUMPI; STOP   with arg0 symbolic.
   Before the repair halmos reported ONE leaf, with an empty path condition, ending in an
   invalid-jump halt, although for arg0 = 0 the EVM falls through and stops successfully.  Now
   the halt is reported under cond <> 0 and the fall-through under cond = 0 (and C01_sound
   covers both leaves). *)
Definition badjump_code : list Z := [96; 4; 53; 96; 119; 87; 0].
Definition badjump_se : senv :=
  mkSEnv 1 badjump_code (TVar VCaller) (TVar VOrigin) (TVar VValue)
         (map (fun j => (Nat.modulo j 32, TVar (VArg (Nat.div j 32)))) (seq 0 64)) false 1
         (mkBlock 0 31337 0 0 0 1 1 []) [].
Definition always_unknown (p : list cond) (c : term) (b : bool) : Z := R_UNKNOWN.

Example C01_badjump_repaired :
  map (fun l => (map snd (l_path l), match l_kind l with LHalt k => k | LOk _ _ _ => -1 | _ => -2 end))
      (fst (sexec 1048576 badjump_se always_unknown 2 10 init_sstate))
  = [([true], H_BADJUMP); ([false], -1)] /\
  exists w, exec 1048576 10 (inst_env badjump_se (fun _ => 0)) (init_state (mkWorld [] [] [] []) 0) = ROk w 0 [] [].
Proof.
  split; [vm_compute; reflexivity|]. eexists. vm_compute. reflexivity.
Qed.

(* ---- non-vacuity: a branching program, two leaves, both described correctly ----
   code: PUSH1 4; CALLDATALOAD; PUSH1 8; JUMPI; PUSH1 7; STOP ... JUMPDEST at 8: PUSH1 1; PUSH0; SSTORE; STOP *)
Definition demo_code : list Z := [96; 4; 53; 96; 9; 87; 96; 7; 0; 91; 96; 1; 95; 85; 0].
Definition demo_se : senv :=
  mkSEnv 1 demo_code (TVar VCaller) (TVar VOrigin) (TVar VValue)
         (map (fun j => (Nat.modulo j 32, TVar (VArg (Nat.div j 32)))) (seq 0 64)) false 1
         (mkBlock 0 31337 0 0 0 1 1 []) [].
Example C01_nonvacuous :
  length (fst (sexec 1048576 demo_se always_unknown 2 20 init_sstate)) = 2%nat /\
  snd (sexec 1048576 demo_se always_unknown 2 20 init_sstate) = false /\
  R demo_se (fun v => match v with VBal _ => 0 | _ => 5 end) init_sstate (init_state (mkWorld [] [] [] []) 0).
Proof.
  split; [vm_compute; reflexivity|]. split; [vm_compute; reflexivity|].
  apply R_init; intros; reflexivity.
Qed.

(* ---------------------------------------------------------------- nested calls and creations
   The same statement for the mini-SEVM extended with CALL / CALLCODE / DELEGATECALL /
   STATICCALL / CREATE over a symbolic world (Model/SymCalls.v): every leaf -- at any call
   depth, after any number of sub-frames that returned, reverted or halted, with value
   transfers and insufficient-balance branches -- whose path constraints a valuation satisfies
   describes the result of the reference interpreter: end kind, return data, CREATE counter,
   and a final world (code, storage and transient storage of EVERY account, all balances)
   that agrees with the symbolic one.  Any oracle; unbounded fuel, depth and program size.
   (The model has F11 / F20 repaired: see the known findings.) *)
From HV Require Import Model.SymCalls Proofs.SymCallsSound.

Theorem C01_sound_calls :
  forall lim special oracle loop rho fuel fr w ctr sg s,
    R2 rho fr w ctr sg s ->
    forall l, In l (fst (sexec2 lim special oracle loop fuel fr w ctr sg)) ->
    sat rho (l2_path l) ->
    exists n, outcome2 rho (l2_kind l) (exec lim n (inst_frame rho fr) s).
Proof. exact sexec2_sound. Qed.
Print Assumptions C01_sound_calls.

(* fuel monotonicity of the reference interpreter (used to compose sub-frame and
   continuation): a finished execution is not changed by more fuel *)
Theorem C01_exec_mono :
  forall lim n e s r, exec lim n e s = r -> r <> RFuel -> forall m, (n <= m)%nat -> exec lim m e s = r.
Proof. exact Proofs.EvmMono.exec_mono. Qed.
Print Assumptions C01_exec_mono.

(* ------------------------------------------------------------------------------------------
   The other branch points (Model/BranchPoints.v over Gen/GenBranch.v): the condition attached to
   an explored alternative pins down the behaviour it describes. *)
From HV Require Import Gen.GenBranch Gen.GenAssertBranch Model.BranchPoints Proofs.BranchProofs.

(* address aliases: under a valuation satisfying an alternative's condition the symbolic address
   IS the alias it names (an existing account), or is none of the existing accounts *)
Theorem C01_alias_sound :
  forall (V : Type) (chk : cnd V -> Z) (accts : list Z) (test : Z) (tgt : V -> Z) o c (v : V),
    In (o, c) (alias_alternatives V chk accts test tgt) -> c v = true ->
    match o with
    | Some a => tgt v = a /\ In a accts
    | None => ~ In (tgt v) accts
    end.
Proof. exact alias_sound. Qed.
Print Assumptions C01_alias_sound.

(* insufficient funds: the failing alternative only describes valuations with balance < value, the
   succeeding one only valuations with value <= balance -- never both outcomes for one input *)
Theorem C01_funds_sound :
  forall (V : Type) (chk : cnd V -> Z) (bal val : V -> Z) fails c (v : V),
    In (fails, c) (funds_alternatives V chk bal val) -> c v = true ->
    if fails then bal v < val v else val v <= bal v.
Proof. exact funds_sound. Qed.
Print Assumptions C01_funds_sound.

(* symbolic JUMP: a branch's condition pins the destination to the valid one it jumps to, and the
   whole state halts with an invalid destination only if no valuation of the path has a valid one *)
Theorem C01_symjump_sound :
  forall (V : Type) (chk : cnd V -> Z) (valid : list Z) (dst : V -> Z) l t c (v : V),
    jump_alternatives V chk valid dst = Some l -> In (t, c) l -> c v = true -> dst v = t /\ In t valid.
Proof. exact jump_sound. Qed.
Print Assumptions C01_symjump_sound.

Theorem C01_symjump_halt_sound :
  forall (V : Type) (chk : cnd V -> Z) (path : V -> Prop) (valid : list Z) (dst : V -> Z) (v : V),
    (forall c, chk c = 0 -> forall v', path v' -> c v' = false) ->
    jump_alternatives V chk valid dst = None -> path v -> ~ In (dst v) valid.
Proof. exact jump_halt_sound. Qed.
Print Assumptions C01_symjump_halt_sound.

(* the halting branch of a symbolic JUMP (the inputs whose destination is none of the valid ones) only describes inputs
   on which the EVM halts with an invalid jump destination *)
Theorem C01_symjump_invalid_sound :
  forall (V : Type) (chk : cnd V -> Z) (valid : list Z) (dst : V -> Z) c (v : V),
    jump_invalid_alternative V chk valid dst = Some c -> c v = true -> ~ In (dst v) valid.
Proof. exact jump_invalid_sound. Qed.
Print Assumptions C01_symjump_invalid_sound.

(* vm.assert*: a state that ends as a failed assertion only describes inputs on which the asserted
   relation is indeed false *)
Theorem C01_assert_failure_sound :
  forall (V : Type) (chk : cnd V -> Z) (path : V -> Prop) (c k : cnd V) (v : V),
    (forall c', chk c' = 0 -> forall v', path v' -> c' v' = false) ->
    path v -> In (true, k) (assert_alternatives V chk c) -> k v = true -> c v = false.
Proof. exact assert_failure_sound. Qed.
Print Assumptions C01_assert_failure_sound.

(* ------------------------------------------------------------------------------------------
   The instruction dispatch of SEVM.run (Gen/GenDispatch.v, regenerated from the source: which word
   method, applied to which stack operands in which order) agrees with the reference interpreter's
   decoding and semantics for every arithmetic, comparison and bitwise opcode and all operand values
   (the meaning of the methods is Spec/DispatchSpec.v; that the methods compute it is C06). *)
From HV Require Import Spec.DispatchSpec Gen.GenDispatch Proofs.DispatchProofs.

Theorem C01_dispatch_correct : forall opc, 0 <= opc < 256 ->
  match decode_op opc with
  | IBin b => exists e, dispatch opc = Some e /\
                forall x y, (let '(m, r, args) := e in meth_sem m (nth r [x; y] 0) (map (fun n => nth n [x; y] 0) args)) = bop_sem b x y
  | IUn u => exists e, dispatch opc = Some e /\
                forall x, (let '(m, r, args) := e in meth_sem m (nth r [x] 0) (map (fun n => nth n [x] 0) args)) = uop_sem u x
  | ITern t => exists e, dispatch opc = Some e /\
                forall x y z, (let '(m, r, args) := e in meth_sem m (nth r [x; y; z] 0) (map (fun n => nth n [x; y; z] 0) args)) = top_sem t x y z
  | _ => dispatch opc = None
  end.
Proof. exact dispatch_correct. Qed.
Print Assumptions C01_dispatch_correct.

(* ------------------------------------------------------------------------------------------
   CREATE2.  The reference interpreter has the EVM's CREATE2 (Spec/Evm.v: do_create2, create2_address,
   the renaming c2name of the new account being the identity unless the tie supplies names); the
   mini-SEVM model leaves CREATE2 outside its subset (a stuck leaf: C01_sound_calls makes no claim).
   What IS under a theorem: the address layout regenerated from SEVM.create (Gen/GenCreate2.v, by
   translate/t_create2.py: which byte strings are hashed, in which order, how many bits are kept,
   the order in which the operands are popped, that the executed init code is the memory slice
   itself, that the CREATE counter is not consumed) is the EIP-1014 address of the reference, for
   every sender, salt and init code.  Everything else about CREATE2 is covered by the L2 tie. *)
From HV Require Import Model.Create2Defs Gen.GenCreate2 Model.Create2Model Proofs.Create2Proofs.

(* Model/Create2Model.v: c2_model_preimage = the concatenation of the byte strings of the regenerated field
   list c2_fields (0xff | sender, 20 bytes | salt, 32 bytes | keccak256(init code), 32 bytes);
   c2_model_address = keccak256 of it modulo 2 ^ c2_address_bits.
   Spec/Evm.v: create2_preimage sender salt init = 255 :: be_bytes 20 sender ++ be_bytes 32 salt ++
   be_bytes 32 (keccak_bytes init); create2_address = keccak_bytes of it mod 2 ^ 160. *)
Theorem C01_create2_address_tied :
  forall sender salt init,
    c2_model_preimage sender salt init = create2_preimage sender salt init /\
    c2_model_address sender salt init = create2_address sender salt init.
Proof.
  intros sender salt init.
  split; [exact (c2_model_preimage_eq sender salt init) | exact (c2_model_address_eq sender salt init)].
Qed.
Print Assumptions C01_create2_address_tied.

Theorem C01_create2_conventions_tied :
  c2_pops = [P_VALUE; P_OFFSET; P_SIZE; P_SALT] /\ c2_consumes_create_counter = false /\
  c2_executes_memory_slice = true /\ c2_named_by_registration_number = true.
Proof. repeat split; reflexivity. Qed.
Print Assumptions C01_create2_conventions_tied.

(* the renaming is the identity when no name is supplied: the reference is then the EVM itself *)
Theorem C01_create2_unnamed_is_evm : forall b a, b_c2names b = [] -> c2name b a = a.
Proof. exact c2name_nil. Qed.
Print Assumptions C01_create2_unnamed_is_evm.

(* the reference's address function on test vectors of EIP-1014, and the reference interpreter on
   PUSH0 PUSH0 PUSH0 PUSH0 CREATE2 (account at the EIP-1014 address, CREATE counter untouched; repeated:
   collision, 0 pushed) *)
Example C01_create2_nonvacuous :
  create2_address 0 0 [0] = 440176130766443707569614712219969213191074266936 /\
  create2_address 3735928559 3405691582 [222; 173; 190; 239] = 553503646706470834874935460337046322302823598791 /\
  match exec 1048576 20 (c2_demo_env [] [95; 95; 95; 95; 245; 0]) (init_state c2_empty_world 0) with
  | ROk w ctr _ _ => has_account w C2_ADDR_EMPTY && (ctr =? 0)
  | _ => false
  end = true /\
  match exec 1048576 40 (c2_demo_env [] [95; 95; 95; 95; 245; 95; 95; 95; 95; 245; 95; 82; 96; 32; 95; 243])
             (init_state c2_empty_world 0) with
  | ROk w _ ret _ => has_account w C2_ADDR_EMPTY && forallb (Z.eqb 0) ret && (length ret =? 32)%nat
  | _ => false
  end = true.
Proof.
  split; [exact (proj1 eip1014_vectors)|].
  split; [exact (proj1 (proj2 (proj2 (proj2 (proj2 eip1014_vectors)))))|].
  split; [exact create2_run_is_the_evm | exact create2_run_collision].
Qed.
