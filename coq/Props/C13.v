(* C13 — Assume and assert cheatcodes have exactly their stated meaning.
   Statements only; every proof is `exact <lemma from Proofs/AssertProofs.v or AssertCondProofs.v>`.
   Gen/GenAssertSelectors.v (selector -> signature literal) is regenerated from
   /repo/src/halmos/assertions.py, Gen/GenAssumeSelector.v (vm.assume selector, the key of
   the path-appending branch of hevm_cheat_code.handle, the cheatcode address) from
   /repo/src/halmos/cheatcodes.py, on every run. *)
From Coq Require Import ZArith NArith List Bool String.
From HV Require Import Base.Word Base.Keccak Spec.AssertSpec Model.AssertModel Proofs.AssertProofs
  Proofs.AssertCondProofs Gen.GenAssertSelectors Gen.GenAssumeSelector.
Import ListNotations.
Open Scope list_scope.
Open Scope Z_scope.

(* ------------------------------------------------------------------ selector binding *)
(* every selector is the first four bytes of Keccak-256 of its signature (Keccak evaluated in
   Coq); the signature is a forge-std overload; the handler parameters halmos derives from it
   (operator incl. U/S signedness prefix, extractor class = operand type class, is_array,
   has message) are the ones the signature denotes *)
Theorem C13_selectors :
  forall sel sig, In (sel, sig) assert_table ->
    sel = selector_of_sig sig /\
    exists d, descr_of_sig sig = Some d /\ In d all_descrs /\ render d = sig /\
              mk_assert_handler sig = Some (expected_handler d).
Proof. exact selectors_bound. Qed.
Print Assumptions C13_selectors.

(* no forge-std assertion overload of the specification is left unbound *)
Theorem C13_selectors_complete :
  forall d, In d all_descrs -> In (selector_of_sig (render d), render d) assert_table.
Proof. exact all_descrs_bound. Qed.
Print Assumptions C13_selectors_complete.

(* no selector is bound twice (vm.assume included) *)
Theorem C13_selectors_nodup : NoDup (map fst (assume_entry :: assert_table)).
Proof. exact selectors_nodup. Qed.
Print Assumptions C13_selectors_nodup.

(* vm.assume: the constant is the selector of assume(bool), and it is the constant that keys
   the path-appending branch of handle *)
Theorem C13_assume_selector :
  fst assume_entry = selector_of_sig (snd assume_entry) /\ snd assume_entry = "assume(bool)"%string
  /\ assume_branch_key = fst assume_entry.
Proof. exact assume_entry_ok. Qed.
Print Assumptions C13_assume_selector.

Theorem C13_hevm_address :
  hevm_address = N.modulo (keccak256_num (bytes_of_string "hevm cheat code")) (2 ^ 160).
Proof. exact hevm_address_ok. Qed.
Print Assumptions C13_hevm_address.

(* ------------------------------------------------------------------ branching *)
(* failures are reported for exactly the inputs of the prior path on which the condition is
   false -- for every answer pattern of a solver oracle that is sound when it says unsat, and
   for every frame stack (any call depth): the yielded state's own context carries the
   FailCheatcode, so is_global_fail_set holds wherever the cheatcode call was made *)
Theorem C13_fail_exact :
  forall (Input : Type) (check : path Input -> cond Input -> sat_result),
    (forall p c, check p c = Unsat -> forall i, sat_path Input p i = true -> c i = false) ->
    forall (e : exec Input) (c : cond Input) (i : Input),
      existsb (fun o => reported_failure Input o i) (assert_step Input check e c) = true
      <-> (sat_path Input (ex_path Input e) i = true /\ c i = false).
Proof. exact assert_fail_exact. Qed.
Print Assumptions C13_fail_exact.

(* an assert drops no passing input, and what continues is the unchanged caller state *)
Theorem C13_assert_continue :
  forall (Input : Type) (check : path Input -> cond Input -> sat_result),
    (forall p c, check p c = Unsat -> forall i, sat_path Input p i = true -> c i = false) ->
    forall (e : exec Input) (c : cond Input),
      (forall i, sat_path Input (ex_path Input e) i = true -> c i = true ->
         existsb (fun o => continues_with Input o i) (assert_step Input check e c) = true)
      /\ (forall o e', In o (assert_step Input check e c) -> o = Continues Input e' -> e' = e).
Proof. exact assert_continue_both. Qed.
Print Assumptions C13_assert_continue.

(* the continuing path is not strengthened by the asserted condition: an input violating it also
   continues (and is reported on the failing branch too, so nothing is hidden) -- an
   over-approximation of Foundry, where execution stops at the first failed assertion *)
Theorem C13_continue_overapprox :
  exists (check : path bool -> cond bool -> sat_result) (e : exec bool) (c : cond bool) (i : bool),
    (forall p c', check p c' = Unsat -> forall j, sat_path bool p j = true -> c' j = false) /\
    c i = false /\
    existsb (fun o => continues_with bool o i) (assert_step bool check e c) = true /\
    existsb (fun o => reported_failure bool o i) (assert_step bool check e c) = true.
Proof. exact continue_overapprox. Qed.
Print Assumptions C13_continue_overapprox.

(* vm.assume(c): the continued path admits exactly prior /\ c, reports no failure, and leaves
   the frames alone *)
Theorem C13_assume :
  forall (Input : Type) (lit_false : cond Input -> bool),
    (forall c, lit_false c = true -> forall i, c i = false) ->
    forall (e : exec Input) (c : cond Input) (i : Input),
      (existsb (fun o => continues_with Input o i) (assume_step Input lit_false e c) = true
         <-> (sat_path Input (ex_path Input e) i = true /\ c i = true))
      /\ existsb (fun o => reported_failure Input o i) (assume_step Input lit_false e c) = false
      /\ (forall o e', In o (assume_step Input lit_false e c) -> o = Continues Input e' ->
            ex_frames Input e' = ex_frames Input e).
Proof. exact assume_all. Qed.
Print Assumptions C13_assume.

(* the failure flag: set iff some context of the call tree ended with FailCheatcode, at any depth *)
Theorem C13_global_fail : forall c, is_global_fail_set c = true <-> has_fail c.
Proof. exact gfs_iff. Qed.
Print Assumptions C13_global_fail.

(* ------------------------------------------------------------------ the condition *)
(* For every forge-std overload d, every calldata cd that is a valid ABI encoding for d (strict
   decoding, any layout of the dynamic parts), the handler halmos derives from d's signature
   returns the condition whose value is exactly the stated relation r on the decoded operands
   (unsigned order for uint256, two's-complement order for int256, value equality for word
   types, length-and-content equality for bytes/string, length and element-wise equality for
   T[]) -- together with the decoded message; EXCEPT that a message which is not valid UTF-8
   makes it raise UnicodeDecodeError instead (see C13_cond_total_refuted). *)
Theorem C13_cond :
  forall d cd r,
    In d all_descrs -> bytes_ok cd -> spec_assert d cd = Some r ->
    exists h, mk_assert_handler (render d) = Some h /\
      run_handler h cd =
        match spec_msg d cd with
        | None => RCond r None
        | Some m => if utf8_valid m then RCond r (Some m) else RUnicodeError
        end.
Proof. exact cond_theorem. Qed.
Print Assumptions C13_cond.

(* the full-strength statement ("a condition equal to the relation for EVERY valid encoding")
   is false of halmos: assertTrue(false, "\xff") is a valid encoding whose relation is false,
   and the handler raises UnicodeDecodeError (which SEVM.run does not catch) *)
Theorem C13_cond_total_refuted :
  exists d cd r, In d all_descrs /\ bytes_ok cd /\ spec_assert d cd = Some r /\ r = false /\
    forall h, mk_assert_handler (render d) = Some h -> run_handler h cd = RUnicodeError.
Proof. exact msg_refuted. Qed.
Print Assumptions C13_cond_total_refuted.

(* bytes[] / string[] overloads: bound, but the handler raises NotImplementedError on every
   calldata (stated, not a relation) *)
Theorem C13_bytes_array_not_implemented :
  forall d cd, In d all_descrs -> is_dyn (d_ty d) = true -> d_arr d = true ->
    exists h, mk_assert_handler (render d) = Some h /\ run_handler h cd = RNotImplemented.
Proof. exact bytes_array_not_implemented. Qed.
Print Assumptions C13_bytes_array_not_implemented.

(* vm.assume(b): the condition appended to the path is the decoded bool *)
Theorem C13_assume_cond : forall cd b, spec_assume cd = Some b -> assume_cond cd = b.
Proof. exact assume_cond_spec. Qed.
Print Assumptions C13_assume_cond.

(* ------------------------------------------------------------------ non-vacuity *)
(* assertLt(int256,int256)(-1, 1): holds signed, would fail unsigned; the uint256 overload on
   the same words fails; both handlers agree with the relation *)
Example C13_cond_nonvacuous :
  let words := repeat 255 32 ++ repeat 0 31 ++ [1] in
  let cd_int := [62; 145; 64; 128] ++ words in
  let cd_uint := [177; 47; 192; 5] ++ words in
  spec_assert (mkDescr OLt TInt false false) cd_int = Some true /\
  spec_assert (mkDescr OLt TUint false false) cd_uint = Some false /\
  option_map (fun h => run_handler h cd_int) (mk_assert_handler "assertLt(int256,int256)") = Some (RCond true None) /\
  option_map (fun h => run_handler h cd_uint) (mk_assert_handler "assertLt(uint256,uint256)") = Some (RCond false None).
Proof. vm_compute. auto. Qed.

(* assertEq(bytes,bytes)("\x01", "\x01\x00"): same big-endian prefix, different length *)
Example C13_cond_bytes_nonvacuous :
  let w x := repeat 0 31 ++ [x] in
  let cd := [151; 98; 70; 49] ++ w 64 ++ w 128 ++ w 1 ++ [1] ++ repeat 0 31 ++ w 2 ++ [1; 0] ++ repeat 0 30 in
  spec_assert (mkDescr OEq TBytes false false) cd = Some false /\
  option_map (fun h => run_handler h cd) (mk_assert_handler "assertEq(bytes,bytes)") = Some (RCond false None).
Proof. vm_compute. auto. Qed.

(* branching: an oracle that always answers unknown (sound), call made three frames deep *)
Example C13_fail_exact_nonvacuous :
  let check : path bool -> cond bool -> sat_result := fun _ _ => Unknown in
  let e := mkExec bool [fun _ => true] [Ctx ENone []; Ctx ENone []; Ctx ENone []] in
  let c : cond bool := fun i => i in
  (forall p c', check p c' = Unsat -> forall i, sat_path bool p i = true -> c' i = false) /\
  existsb (fun o => reported_failure bool o false) (assert_step bool check e c) = true /\
  existsb (fun o => reported_failure bool o true) (assert_step bool check e c) = false /\
  existsb (fun o => continues_with bool o true) (assert_step bool check e c) = true /\
  List.length (assert_step bool check e c) = 2%nat.
Proof. cbv zeta. split; [discriminate|]. vm_compute. auto. Qed.
