(* C13 — Assume and assert cheatcodes have exactly their stated meaning.
   Statements only; every proof is `exact <lemma from Proofs/AssertProofs.v>`.
   Gen/GenAssertSelectors.v (selector -> signature literal) is regenerated from
   /repo/src/halmos/assertions.py, Gen/GenAssumeSelector.v (vm.assume selector, the key of
   the path-appending branch of hevm_cheat_code.handle, the cheatcode address) from
   /repo/src/halmos/cheatcodes.py, on every run. *)
From Coq Require Import ZArith NArith List Bool String.
From HV Require Import Base.Word Base.Keccak Spec.AssertSpec Model.AssertModel Proofs.AssertProofs
  Gen.GenAssertSelectors Gen.GenAssumeSelector.
Import ListNotations.
Open Scope list_scope.
Open Scope Z_scope.

(* ------------------------------------------------------------------ selector binding *)
(* every selector is the first four bytes of Keccak-256 of its signature (Keccak evaluated in
   Coq); the signature is a forge-std overload; the handler parameters halmos derives from it
   (operator incl. U/S signedness prefix, extractor class = operand type class, is_array,
   has message) are the ones the signature denotes *)
Theorem C13_selectors :
  forall sel sig, In (sel, sig) assert_table ->
    sel = selector_of_sig sig /\
    exists d, descr_of_sig sig = Some d /\ In d all_descrs /\ render d = sig /\
              mk_assert_handler sig = Some (expected_handler d).
Proof. exact selectors_bound. Qed.
Print Assumptions C13_selectors.

(* no forge-std assertion overload of the specification is left unbound *)
Theorem C13_selectors_complete :
  forall d, In d all_descrs -> In (selector_of_sig (render d), render d) assert_table.
Proof. exact all_descrs_bound. Qed.
Print Assumptions C13_selectors_complete.

(* no selector is bound twice (vm.assume included) *)
Theorem C13_selectors_nodup : NoDup (map fst (assume_entry :: assert_table)).
Proof. exact selectors_nodup. Qed.
Print Assumptions C13_selectors_nodup.

(* vm.assume: the constant is the selector of assume(bool), and it is the constant that keys
   the path-appending branch of handle *)
Theorem C13_assume_selector :
  fst assume_entry = selector_of_sig (snd assume_entry) /\ snd assume_entry = "assume(bool)"%string
  /\ assume_branch_key = fst assume_entry.
Proof. exact assume_entry_ok. Qed.
Print Assumptions C13_assume_selector.

Theorem C13_hevm_address :
  hevm_address = N.modulo (keccak256_num (bytes_of_string "hevm cheat code")) (2 ^ 160).
Proof. exact hevm_address_ok. Qed.
Print Assumptions C13_hevm_address.

(* ------------------------------------------------------------------ branching *)
(* failures are reported for exactly the inputs of the prior path on which the condition is
   false -- for every answer pattern of a solver oracle that is sound when it says unsat, and
   for every frame stack (any call depth): the yielded state's own context carries the
   FailCheatcode, so is_global_fail_set holds wherever the cheatcode call was made *)
Theorem C13_fail_exact :
  forall (Input : Type) (check : path Input -> cond Input -> sat_result),
    (forall p c, check p c = Unsat -> forall i, sat_path Input p i = true -> c i = false) ->
    forall (e : exec Input) (c : cond Input) (i : Input),
      existsb (fun o => reported_failure Input o i) (assert_step Input check e c) = true
      <-> (sat_path Input (ex_path Input e) i = true /\ c i = false).
Proof. exact assert_fail_exact. Qed.
Print Assumptions C13_fail_exact.

(* an assert drops no passing input, and what continues is the unchanged caller state *)
Theorem C13_assert_continue :
  forall (Input : Type) (check : path Input -> cond Input -> sat_result),
    (forall p c, check p c = Unsat -> forall i, sat_path Input p i = true -> c i = false) ->
    forall (e : exec Input) (c : cond Input),
      (forall i, sat_path Input (ex_path Input e) i = true -> c i = true ->
         existsb (fun o => continues_with Input o i) (assert_step Input check e c) = true)
      /\ (forall o e', In o (assert_step Input check e c) -> o = Continues Input e' -> e' = e).
Proof. exact assert_continue_both. Qed.
Print Assumptions C13_assert_continue.

(* vm.assume(c): the continued path admits exactly prior /\ c, reports no failure, and leaves
   the frames alone *)
Theorem C13_assume :
  forall (Input : Type) (lit_false : cond Input -> bool),
    (forall c, lit_false c = true -> forall i, c i = false) ->
    forall (e : exec Input) (c : cond Input) (i : Input),
      (existsb (fun o => continues_with Input o i) (assume_step Input lit_false e c) = true
         <-> (sat_path Input (ex_path Input e) i = true /\ c i = true))
      /\ existsb (fun o => reported_failure Input o i) (assume_step Input lit_false e c) = false
      /\ (forall o e', In o (assume_step Input lit_false e c) -> o = Continues Input e' ->
            ex_frames Input e' = ex_frames Input e).
Proof. exact assume_all. Qed.
Print Assumptions C13_assume.

(* the failure flag: set iff some context of the call tree ended with FailCheatcode, at any depth *)
Theorem C13_global_fail : forall c, is_global_fail_set c = true <-> has_fail c.
Proof. exact gfs_iff. Qed.
Print Assumptions C13_global_fail.
