(* C13 — Assume and assert cheatcodes have exactly their stated meaning.
   Statements only; every proof is `exact <lemma from Proofs/AssertProofs.v or AssertCondProofs.v>`.
   Gen/GenAssertSelectors.v (selector -> signature literal) is regenerated from
   /repo/src/halmos/assertions.py, Gen/GenAssumeSelector.v (vm.assume selector, the key of
   the path-appending branch of hevm_cheat_code.handle, the cheatcode address) from
   /repo/src/halmos/cheatcodes.py, Gen/GenAssertArms.v (the arms of vm_assert_binary /
   vm_assert_unary: extractor, offsets, message position, raised class) from assertions.py,
   Gen/GenExcHierarchy.v (class hierarchy) from exceptions.py and Gen/GenRunExcepts.v (the except
   clauses of SEVM.run, the delayed re-raise, is_stuck) from sevm.py, on every run. *)
From Coq Require Import ZArith NArith List Bool String.
From HV Require Import Base.Word Base.Keccak Spec.AssertSpec Model.AssertModel Proofs.AssertProofs
  Proofs.AssertCondProofs Proofs.AssertRunProofs Gen.GenAssertSelectors Gen.GenAssumeSelector
  Gen.GenAssertArms Gen.GenExcHierarchy Gen.GenRunExcepts Gen.GenJumpi.
Import ListNotations.
Open Scope list_scope.
Open Scope Z_scope.

(* ------------------------------------------------------------------ selector binding *)
(* every selector is the first four bytes of Keccak-256 of its signature (Keccak evaluated in
   Coq); the signature is a forge-std overload; the handler parameters halmos derives from it
   (operator incl. U/S signedness prefix, extractor class = operand type class, is_array,
   has message) are the ones the signature denotes *)
Theorem C13_selectors :
  forall sel sig, In (sel, sig) assert_table ->
    sel = selector_of_sig sig /\
    exists d, descr_of_sig sig = Some d /\ In d all_descrs /\ render d = sig /\
              mk_assert_handler sig = Some (expected_handler d).
Proof. exact selectors_bound. Qed.
Print Assumptions C13_selectors.

(* no forge-std assertion overload of the specification is left unbound *)
Theorem C13_selectors_complete :
  forall d, In d all_descrs -> In (selector_of_sig (render d), render d) assert_table.
Proof. exact all_descrs_bound. Qed.
Print Assumptions C13_selectors_complete.

(* no selector is bound twice (vm.assume included) *)
Theorem C13_selectors_nodup : NoDup (map fst (assume_entry :: assert_table)).
Proof. exact selectors_nodup. Qed.
Print Assumptions C13_selectors_nodup.

(* vm.assume: the constant is the selector of assume(bool), and it is the constant that keys
   the path-appending branch of handle *)
Theorem C13_assume_selector :
  fst assume_entry = selector_of_sig (snd assume_entry) /\ snd assume_entry = "assume(bool)"%string
  /\ assume_branch_key = fst assume_entry.
Proof. exact assume_entry_ok. Qed.
Print Assumptions C13_assume_selector.

Theorem C13_hevm_address :
  hevm_address = N.modulo (keccak256_num (bytes_of_string "hevm cheat code")) (2 ^ 160).
Proof. exact hevm_address_ok. Qed.
Print Assumptions C13_hevm_address.

(* ------------------------------------------------------------------ branching *)
(* failures are reported for exactly the inputs of the prior path on which the condition is
   false -- for every answer pattern of a solver oracle that is sound when it says unsat, and
   for every frame stack (any call depth): the yielded state's own context carries the
   FailCheatcode, so is_global_fail_set holds wherever the cheatcode call was made *)
Theorem C13_fail_exact :
  forall (Input : Type) (check : path Input -> cond Input -> sat_result),
    (forall p c, check p c = Unsat -> forall i, sat_path Input p i = true -> c i = false) ->
    forall (e : exec Input) (c : cond Input) (i : Input),
      existsb (fun o => reported_failure Input o i) (assert_step Input check e c) = true
      <-> (sat_path Input (ex_path Input e) i = true /\ c i = false).
Proof. exact assert_fail_exact. Qed.
Print Assumptions C13_fail_exact.

(* an assert drops no passing input, and what continues is the unchanged caller state *)
Theorem C13_assert_continue :
  forall (Input : Type) (check : path Input -> cond Input -> sat_result),
    (forall p c, check p c = Unsat -> forall i, sat_path Input p i = true -> c i = false) ->
    forall (e : exec Input) (c : cond Input),
      (forall i, sat_path Input (ex_path Input e) i = true -> c i = true ->
         existsb (fun o => continues_with Input o i) (assert_step Input check e c) = true)
      /\ (forall o e', In o (assert_step Input check e c) -> o = Continues Input e' -> e' = e).
Proof. exact assert_continue_both. Qed.
Print Assumptions C13_assert_continue.

(* the continuing path is not strengthened by the asserted condition: an input violating it also
   continues (and is reported on the failing branch too, so nothing is hidden) -- an
   over-approximation of Foundry, where execution stops at the first failed assertion *)
Theorem C13_continue_overapprox :
  exists (check : path bool -> cond bool -> sat_result) (e : exec bool) (c : cond bool) (i : bool),
    (forall p c', check p c' = Unsat -> forall j, sat_path bool p j = true -> c' j = false) /\
    c i = false /\
    existsb (fun o => continues_with bool o i) (assert_step bool check e c) = true /\
    existsb (fun o => reported_failure bool o i) (assert_step bool check e c) = true.
Proof. exact continue_overapprox. Qed.
Print Assumptions C13_continue_overapprox.

(* vm.assume(c): the continued path admits exactly prior /\ c, reports no failure, and leaves
   the frames alone *)
Theorem C13_assume :
  forall (Input : Type) (lit_false : cond Input -> bool),
    (forall c, lit_false c = true -> forall i, c i = false) ->
    forall (e : exec Input) (c : cond Input) (i : Input),
      (existsb (fun o => continues_with Input o i) (assume_step Input lit_false e c) = true
         <-> (sat_path Input (ex_path Input e) i = true /\ c i = true))
      /\ existsb (fun o => reported_failure Input o i) (assume_step Input lit_false e c) = false
      /\ (forall o e', In o (assume_step Input lit_false e c) -> o = Continues Input e' ->
            ex_frames Input e' = ex_frames Input e).
Proof. exact assume_all. Qed.
Print Assumptions C13_assume.

(* the failure flag: set iff some context of the call tree ended with FailCheatcode, at any depth *)
Theorem C13_global_fail : forall c, is_global_fail_set c = true <-> has_fail c.
Proof. exact gfs_iff. Qed.
Print Assumptions C13_global_fail.

(* ------------------------------------------------------------------ sequences of calls *)
(* A frame (at any call depth: any frame stack without a failure flag) that runs any sequence
   of steps -- vm.assert* returning a condition, vm.assume, a call whose handler raises a class
   SEVM.run turns into a stuck path, or a two-way branch (SEVM.jumpi, decision part regenerated)
   on any condition, whose sides rejoin and run the rest -- and then returns.  The branch steps
   make the run a tree: a later assertion is reached by several sibling paths under different
   constraints, each consulting the oracle with ITS path.  For EVERY such sequence, every oracle
   that is sound when it answers unsat (for the path it is asked about: what one path learnt is
   no answer for a sibling -- see C13_seq_unsound_oracle_misses), and every input i, measured against
   Foundry's run of the same sequence on i alone (stop at the first false assertion: FAIL; at the
   first false assumption: REJECTED; at an unsupported call: no verdict):
   no exception escapes, and
     - a failure is reported for i  iff  i is in the prior path and Foundry fails;
     - i reaches the normal end only if Foundry passes or fails (never a rejected input), and
       always when Foundry passes;
     - i is on a stuck path only if Foundry meets the unsupported call or fails, and always when
       Foundry meets the unsupported call (so such an input is never counted as passing). *)
Theorem C13_seq_exact :
  forall (Input : Type) (check : path Input -> cond Input -> sat_result) (lit_false : cond Input -> bool)
         (loop : Z),
    (forall p c, check p c = Unsat -> forall i, sat_path Input p i = true -> c i = false) ->
    (forall c, lit_false c = true -> forall i, c i = false) ->
    0 < loop ->
    forall (p : list (cheat Input)) (e : exec Input),
      Forall (fun k => match k with KRaise _ cls => catch_action cls = Some AStuck | _ => True end) p ->
      (forall c, In c (ex_frames Input e) -> is_global_fail_set c = false) ->
      exists outs, run_prog Input check lit_false loop e p = Some outs /\
        forall i,
          let v := foundry_run Input i (map (pstep_of Input) p) in
          let pr := sat_path Input (ex_path Input e) i in
          let failure := existsb (fun o => reported_failure Input o i) outs in
          let passes := existsb (fun o => continues_with Input o i) outs in
          let stuck := existsb (fun o => reported_stuck Input o i) outs in
          (failure = true <-> pr = true /\ v = VFail)
          /\ (passes = true -> pr = true /\ (v = VPass \/ v = VFail))
          /\ (stuck = true -> pr = true /\ (v = VUnsupported \/ v = VFail))
          /\ (pr = true -> v = VPass -> passes = true)
          /\ (pr = true -> v = VUnsupported -> stuck = true).
Proof. exact seq_exact. Qed.
Print Assumptions C13_seq_exact.

(* ... which is false as soon as one handler raises a class that no clause of SEVM.run catches:
   a non-UTF-8 message makes the handler raise UnicodeDecodeError (C13_cond_total_refuted), no
   clause catches it, and the failure of an EARLIER assertion is lost with it (known finding
   C13-unicode-message) *)
Theorem C13_seq_escape_refuted :
  hres_raises RUnicodeError = Some "UnicodeDecodeError"%string /\
  catch_action "UnicodeDecodeError" = None /\
  exists (check : path bool -> cond bool -> sat_result) (lit_false : cond bool -> bool)
         (e : exec bool) (p : list (cheat bool)) (i : bool),
    (forall q c, check q c = Unsat -> forall j, sat_path bool q j = true -> c j = false) /\
    (forall c, lit_false c = true -> forall j, c j = false) /\
    sat_path bool (ex_path bool e) i = true /\
    foundry_run bool i (map (pstep_of bool) p) = VFail /\
    run_prog bool check lit_false 2 e p = None.
Proof. exact seq_escape_refuted. Qed.
Print Assumptions C13_seq_escape_refuted.

(* ... and the soundness hypothesis on the oracle cannot be dropped: an oracle that answers
   unsat for a query that is satisfiable on the path it is asked about (e.g. an answer remembered
   from a sibling path with other constraints) makes the assert branch fork no failing state, and
   the failure is missed.  The check therefore tests every recorded unsat answer of the real
   ex.check against the sampled inputs of the path it was given for. *)
Theorem C13_seq_unsound_oracle_misses :
  exists (check : path bool -> cond bool -> sat_result) (e : exec bool) (p : list (cheat bool)) (i : bool) outs,
    sat_path bool (ex_path bool e) i = true /\
    foundry_run bool i (map (pstep_of bool) p) = VFail /\
    run_prog bool check (fun _ => false) 2 e p = Some outs /\
    existsb (fun o => reported_failure bool o i) outs = false.
Proof. exact seq_unsound_oracle_misses. Qed.
Print Assumptions C13_seq_unsound_oracle_misses.

(* ------------------------------------------------------------------ the condition *)
(* For every forge-std overload d, every calldata cd that is a valid ABI encoding for d (strict
   decoding, any layout of the dynamic parts), the handler halmos derives from d's signature
   returns the condition whose value is exactly the stated relation r on the decoded operands
   (unsigned order for uint256, two's-complement order for int256, value equality for word
   types, length-and-content equality for bytes/string, length and element-wise equality for
   T[]) -- together with the decoded message; EXCEPT that a message which is not valid UTF-8
   makes it raise UnicodeDecodeError instead (see C13_cond_total_refuted).  (bytes[] / string[]
   have no decoding in the specification: spec_assert is None, see C13_bytes_array_path_stuck.) *)
Theorem C13_cond :
  forall d cd r,
    In d all_descrs -> bytes_ok cd -> spec_assert d cd = Some r ->
    exists h, mk_assert_handler (render d) = Some h /\
      run_handler h cd =
        match spec_msg d cd with
        | None => RCond r None
        | Some m => if utf8_valid m then RCond r (Some m) else RUnicodeError
        end.
Proof. exact cond_theorem. Qed.
Print Assumptions C13_cond.

(* the full-strength statement ("a condition equal to the relation for EVERY valid encoding")
   is false of halmos: assertTrue(false, "\xff") is a valid encoding whose relation is false,
   and the handler raises UnicodeDecodeError (which SEVM.run does not catch) *)
Theorem C13_cond_total_refuted :
  exists d cd r, In d all_descrs /\ bytes_ok cd /\ spec_assert d cd = Some r /\ r = false /\
    forall h, mk_assert_handler (render d) = Some h -> run_handler h cd = RUnicodeError.
Proof. exact msg_refuted. Qed.
Print Assumptions C13_cond_total_refuted.

(* bytes[] / string[] overloads: bound; element-wise comparison is not implemented, and the
   handler says so in the one way that loses nothing: on every calldata it raises a class that
   SEVM.run catches with `ex.halt(data=None, error=err); finalize(ex)` -- the current path ends
   stuck (no pass is claimed for its inputs, see C13_seq_exact) and every other path of the test
   is still explored *)
Theorem C13_bytes_array_path_stuck :
  forall d cd, In d all_descrs -> is_dyn (d_ty d) = true -> d_arr d = true ->
    exists h cls, mk_assert_handler (render d) = Some h /\ run_handler h cd = RRaise cls /\
                  catch_action cls = Some AStuck.
Proof. exact bytes_array_path_stuck. Qed.
Print Assumptions C13_bytes_array_path_stuck.

(* on ANY calldata (valid encoding or not) a handler of the table either returns a condition or
   raises one of two classes: the one of the unsupported overloads (a stuck path, above) or
   UnicodeDecodeError (the known finding); in particular mk_cond's ValueError -- which no clause
   of SEVM.run would catch -- is unreachable from the table *)
Theorem C13_handler_raises_only :
  forall d cd h, In d all_descrs -> mk_assert_handler (render d) = Some h ->
    hres_raises (run_handler h cd) = None
    \/ hres_raises (run_handler h cd) = Some unsupported_class
    \/ hres_raises (run_handler h cd) = Some "UnicodeDecodeError"%string.
Proof. exact handler_raises_only. Qed.
Print Assumptions C13_handler_raises_only.

(* the handlers in the source are built from the extractors, offsets, message positions and
   raised class the model uses *)
Theorem C13_source_arms :
  binary_arms =
    [ ((false, false), GExtract "extract_bytes" [4; 32] [36; 32] 2);
      ((false, true), GExtract "extract_bytes_argument" [0] [1] 2);
      ((true, false), GExtract "extract_bytes32_array_argument" [0] [1] 2);
      ((true, true), GRaise unsupported_class) ]
  /\ bytes_types = ["bytes"; "string"]%string /\ unary_word_offset = 4 /\ unary_msg_idx = 1.
Proof. exact arms_as_modelled. Qed.
Print Assumptions C13_source_arms.

(* SEVM.run's except clauses, as the branching model assumes them: the delayed FailCheatcode of
   the assert branch is re-raised and yields the state without finalize(); vm.assume(false)
   (InfeasiblePath) drops the state; a context halted by the HalmosException clause is what
   is_stuck recognises; every clause has a shape the model understands *)
Theorem C13_run_excepts :
  is_subclass "FailCheatcode" delayed_raise_class = true /\ catch_action "FailCheatcode" = Some AFailYield
  /\ catch_action "InfeasiblePath" = Some ADrop
  /\ catch_action stuck_error_class = Some AStuck
  /\ forallb (fun cl => match action_of cl with AOther => false | _ => true end) run_excepts = true.
Proof. exact run_excepts_all. Qed.
Print Assumptions C13_run_excepts.

(* vm.assume(b): the condition appended to the path is the decoded bool *)
Theorem C13_assume_cond : forall cd b, spec_assume cd = Some b -> assume_cond cd = b.
Proof. exact assume_cond_spec. Qed.
Print Assumptions C13_assume_cond.

(* ------------------------------------------------------------------ non-vacuity *)
(* assertLt(int256,int256)(-1, 1): holds signed, would fail unsigned; the uint256 overload on
   the same words fails; both handlers agree with the relation *)
Example C13_cond_nonvacuous :
  let words := repeat 255 32 ++ repeat 0 31 ++ [1] in
  let cd_int := [62; 145; 64; 128] ++ words in
  let cd_uint := [177; 47; 192; 5] ++ words in
  spec_assert (mkDescr OLt TInt false false) cd_int = Some true /\
  spec_assert (mkDescr OLt TUint false false) cd_uint = Some false /\
  option_map (fun h => run_handler h cd_int) (mk_assert_handler "assertLt(int256,int256)") = Some (RCond true None) /\
  option_map (fun h => run_handler h cd_uint) (mk_assert_handler "assertLt(uint256,uint256)") = Some (RCond false None).
Proof. vm_compute. auto. Qed.

(* assertEq(bytes,bytes)("\x01", "\x01\x00"): same big-endian prefix, different length *)
Example C13_cond_bytes_nonvacuous :
  let w x := repeat 0 31 ++ [x] in
  let cd := [151; 98; 70; 49] ++ w 64 ++ w 128 ++ w 1 ++ [1] ++ repeat 0 31 ++ w 2 ++ [1; 0] ++ repeat 0 30 in
  spec_assert (mkDescr OEq TBytes false false) cd = Some false /\
  option_map (fun h => run_handler h cd) (mk_assert_handler "assertEq(bytes,bytes)") = Some (RCond false None).
Proof. vm_compute. auto. Qed.

(* branching: an oracle that always answers unknown (sound), call made three frames deep *)
Example C13_fail_exact_nonvacuous :
  let check : path bool -> cond bool -> sat_result := fun _ _ => Unknown in
  let e := mkExec bool [fun _ => true] [Ctx ENone []; Ctx ENone []; Ctx ENone []] in
  let c : cond bool := fun i => i in
  (forall p c', check p c' = Unsat -> forall i, sat_path bool p i = true -> c' i = false) /\
  existsb (fun o => reported_failure bool o false) (assert_step bool check e c) = true /\
  existsb (fun o => reported_failure bool o true) (assert_step bool check e c) = false /\
  existsb (fun o => continues_with bool o true) (assert_step bool check e c) = true /\
  List.length (assert_step bool check e c) = 2%nat.
Proof. cbv zeta. split; [discriminate|]. vm_compute. auto. Qed.

(* sequences: assume(x), assertTrue(y), assertEq(bytes[],bytes[]) two frames deep, oracle always
   unknown: the failing branch, and the stuck path yielded from the caller's frame *)
Example C13_seq_nonvacuous :
  let check : path (bool * bool) -> cond (bool * bool) -> sat_result := fun _ _ => Unknown in
  let e := mkExec (bool * bool) [] [Ctx ENone []; Ctx ENone []] in
  let p := [KAssume (bool * bool) fst; KAssert (bool * bool) snd; KRaise (bool * bool) unsupported_class] in
  exists outs, run_prog (bool * bool) check (fun _ => false) 2 e p = Some outs /\
    List.length outs = 2%nat /\
    map (fun i => existsb (fun o => reported_failure (bool * bool) o i) outs) [(true, false); (true, true); (false, false)]
      = [true; false; false] /\
    map (fun i => existsb (fun o => reported_stuck (bool * bool) o i) outs) [(true, false); (true, true); (false, false)]
      = [true; true; false] /\
    map (fun i => foundry_run (bool * bool) i (map (pstep_of (bool * bool)) p)) [(true, false); (true, true); (false, false)]
      = [VFail; VUnsupported; VRejected].
Proof. eexists. vm_compute. repeat split; reflexivity. Qed.

(* a branch on the asserted operand before the assertion: two sibling paths reach the same
   assertion; the oracle refutes `not cond` on one of them only, and the other still forks its
   failing state *)
Example C13_seq_branch_nonvacuous :
  (* inputs 0..3; branch on (i < 2), then assert (i < 3) *)
  let lt (n : Z) : cond Z := fun i => i <? n in
  let check : path Z -> cond Z -> sat_result := fun p c =>
    if forallb (fun i => negb (sat_path Z p i && c i)) [0; 1; 2; 3] then Unsat else Sat in
  let e := mkExec Z [] [Ctx ENone []] in
  let p := [KBranch Z (lt 2); KAssert Z (lt 3)] in
  exists outs, run_prog Z check (fun _ => false) 2 e p = Some outs /\
    List.length outs = 3%nat /\
    map (fun i => existsb (fun o => reported_failure Z o i) outs) [0; 1; 2; 3] = [false; false; false; true] /\
    map (fun i => existsb (fun o => continues_with Z o i) outs) [0; 1; 2; 3] = [true; true; true; true].
Proof. eexists. vm_compute. repeat split; reflexivity. Qed.
