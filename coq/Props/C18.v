(* C18 — Configuration resolves by precedence and round-trips.
   Statements only; every proof is `exact <lemma from Proofs/ConfigProofs.v>`.
   Gen/GenConfig.v (ConfigSource values, the guard of value_with_source, the decision of
   resolved_solver_command, codec literals), Gen/GenConfigTime.v (parse_time unit table) and
   Gen/GenConfigMain.v (sources used by with_devdoc / with_natspec / load_config, loop binding
   facts of run_tests / _main) are regenerated from /repo/src/halmos on every run. *)
From Coq Require Import ZArith List Bool QArith Lia.
From HV Require Import Gen.GenConfig Gen.GenConfigTime Gen.GenConfigMain Spec.ConfigSpec Model.ConfigModel Proofs.ConfigProofs.
Import ListNotations.
Open Scope Z_scope.

(* Precedence, stacks of ANY height, any sources (> void), any subsets of options per layer:
   the (value, source) returned by Config.value_with_source is that of the layer maximal in
   (source, recency) among the layers that set the option; None iff no layer sets it. *)
Theorem C18_lookup :
  forall st o, (forall l, In l st -> SRC_void < fst l) -> effective st o (vws_result o st).
Proof. exact lookup_correct. Qed.
Print Assumptions C18_lookup.

(* ... and that specification determines the result uniquely *)
Theorem C18_lookup_unique :
  forall st o r r', effective st o r -> effective st o r' -> r = r'.
Proof. exact effective_unique. Qed.
Print Assumptions C18_lookup_unique.

(* --solver-command is used iff it is set to a non-empty command by its winning layer and no
   layer setting --solver wins with a strictly higher source *)
Theorem C18_solver_cmd :
  forall st, (forall l, In l st -> SRC_void < fst l) -> forall c,
    resolved_solver_command st = UseCommand c <->
    (c <> 0 /\ exists i s, wins st OPT_solver_command i c s /\
                           forall j v s', wins st OPT_solver j v s' -> s' <= s).
Proof. exact solver_cmd_correct. Qed.
Print Assumptions C18_solver_cmd.

(* Scoping: whatever the other contracts (cs1, cs2) and the sibling functions (fs1, fs2) and
   their annotations are, function f of contract A runs with
   with_devdoc (with_natspec args natspec(A)) devdoc(A.f). *)
Theorem C18_scope :
  forall args cs1 cs2 A nsA fs1 fs2 f ddf,
  exists res,
    nth_error (main_loop args (cs1 ++ (A, nsA, fs1 ++ (f, ddf) :: fs2) :: cs2)) (length cs1) = Some (A, res) /\
    nth_error res (length fs1) = Some (f, with_devdoc (with_natspec args nsA) ddf).
Proof. exact scope_correct. Qed.
Print Assumptions C18_scope.

(* The documented chain for the stacks the runner builds:
   command line > function annotation > contract annotation > config file > default *)
Theorem C18_chain :
  forall deflt file cli ns dd o,
    getattr o (with_devdoc (with_natspec (load_config deflt file cli) ns) dd) =
    first_some [assoc o cli; opt_assoc o dd; opt_assoc o ns; opt_assoc o file; assoc o deflt].
Proof. exact chain_correct. Qed.
Print Assumptions C18_chain.

(* ParseTimeout: the round trip does NOT hold for every non-negative timeout: the faithful
   model of ParseTimeout.unparse truncates (3/2 s -> "1s"). *)
Theorem C18_timeout_roundtrip_refuted :
  exists v : Q, (0 <= v)%Q /\ ~ faithful_rendering timeout_parse (timeout_unparse v) v.
Proof. exact timeout_roundtrip_refuted. Qed.
Print Assumptions C18_timeout_roundtrip_refuted.

(* ... also below one second (1/2 ms -> "0ms") *)
Theorem C18_timeout_roundtrip_submilli_refuted :
  exists v : Q, (0 <= v)%Q /\ (v < 1)%Q /\ ~ faithful_rendering timeout_parse (timeout_unparse v) v.
Proof. exact timeout_roundtrip_refuted_submilli. Qed.
Print Assumptions C18_timeout_roundtrip_submilli_refuted.

Example C18_nonvacuous :
  let st := [(4, [(7, 40)]); (2, [(7, 21); (8, 5)]); (5, []); (2, [(7, 20)]); (1, [(7, 2); (8, 1); (9, 0)])] in
  vws_result 7 st = Some (40, 4) /\ vws_result 8 st = Some (5, 2) /\ vws_result 9 st = Some (0, 1) /\
  vws_result 10 st = None /\ wins st 8 1 5 2 /\
  timeout_unparse (3 # 2) = [49; 115].
Proof.
  cbv zeta. repeat split; try reflexivity.
  eexists. split; [reflexivity|]. split; [reflexivity|]. split; [reflexivity|].
  intros j l' Hj Hs.
  do 5 (destruct j as [|j]; [inversion Hj; subst; cbn; try lia; exfalso; apply Hs; reflexivity|]).
  destruct j; discriminate.
Qed.
