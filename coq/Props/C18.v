(* C18 — Configuration resolves by precedence and round-trips.
   Statements only; every proof is `exact <lemma from Proofs/ConfigProofs.v or Proofs/ConfigCodecProofs.v>`.
   Gen/GenConfig.v (ConfigSource values, the guard of value_with_source, the decision of
   resolved_solver_command, codec literals incl. those of the repaired ParseTimeout.unparse and
   ParseErrorCodes.unparse), Gen/GenConfigTime.v (parse_time unit table) and
   Gen/GenConfigMain.v (sources used by with_devdoc / with_natspec / load_config, loop binding
   facts of run_tests / _main) and Gen/GenConfigNatspec.v (literals of build.parse_natspec /
   parse_devdoc) are regenerated from /repo/src/halmos on every run. *)
From Coq Require Import ZArith List Bool QArith Lia.
From HV Require Import Gen.GenConfig Gen.GenConfigTime Gen.GenConfigMain Gen.GenConfigNatspec Spec.ConfigSpec Model.ConfigFloatModel Model.ConfigModel
  Proofs.ConfigProofs Proofs.ConfigFloatProofs Proofs.ConfigCodecProofs Proofs.ConfigTimeoutProofs Proofs.ConfigArrlenProofs Proofs.ConfigNatspecProofs.
Import ListNotations.
Open Scope Z_scope.

(* Precedence, stacks of ANY height, any sources (> void), any subsets of options per layer:
   the (value, source) returned by Config.value_with_source is that of the layer maximal in
   (source, recency) among the layers that set the option; None iff no layer sets it. *)
Theorem C18_lookup :
  forall st o, (forall l, In l st -> SRC_void < fst l) -> effective st o (vws_result o st).
Proof. exact lookup_correct. Qed.
Print Assumptions C18_lookup.

(* ... and that specification determines the result uniquely *)
Theorem C18_lookup_unique :
  forall st o r r', effective st o r -> effective st o r' -> r = r'.
Proof. exact effective_unique. Qed.
Print Assumptions C18_lookup_unique.

(* --solver-command is used iff it is set to a non-empty command by its winning layer and no
   layer setting --solver wins with a strictly higher source *)
Theorem C18_solver_cmd :
  forall st, (forall l, In l st -> SRC_void < fst l) -> forall c,
    resolved_solver_command st = UseCommand c <->
    (c <> 0 /\ exists i s, wins st OPT_solver_command i c s /\
                           forall j v s', wins st OPT_solver j v s' -> s' <= s).
Proof. exact solver_cmd_correct. Qed.
Print Assumptions C18_solver_cmd.

(* Scoping: whatever the other contracts (cs1, cs2) and the sibling functions (fs1, fs2) and
   their annotations are, function f of contract A runs with
   with_devdoc (with_natspec args natspec(A)) devdoc(A.f). *)
Theorem C18_scope :
  forall args cs1 cs2 A nsA fs1 fs2 f ddf,
  exists res,
    nth_error (main_loop args (cs1 ++ (A, nsA, fs1 ++ (f, ddf) :: fs2) :: cs2)) (length cs1) = Some (A, res) /\
    nth_error res (length fs1) = Some (f, with_devdoc (with_natspec args nsA) ddf).
Proof. exact scope_correct. Qed.
Print Assumptions C18_scope.

(* Scoping inside one NatSpec text (build.parse_natspec): with any leading text without '@', any
   list of tags ('@' + a non-empty run of non-white-space) each followed by its text (starting
   with white space, without '@') and an optional last tag without text, the annotation is the
   stripped concatenation of the texts of exactly the @custom:halmos tags, in order: the text of
   every other tag is ignored, wherever it stands. *)
Theorem C18_natspec_scope :
  forall t0 items last,
    Forall (fun c => (c =? 64) = false) t0 ->
    Forall (fun tb => (exists d r, fst tb = 64 :: d :: r /\ Forall (fun c => is_ws c = false) (d :: r)) /\
                      (Forall (fun c => (c =? 64) = false) (snd tb) /\ exists w r, snd tb = w :: r /\ is_ws w = true)) items ->
    (forall t, last = Some t -> exists d r, t = 64 :: d :: r /\ Forall (fun c => is_ws c = false) (d :: r)) ->
    parse_natspec (t0 ++ concat (map (fun tb => fst tb ++ snd tb) items) ++ match last with Some t => t | None => [] end)
    = strip (concat (map snd (filter (fun tb => list_eqb (fst tb) natspec_halmos_tag) items))).
Proof. exact natspec_scope. Qed.
Print Assumptions C18_natspec_scope.

(* the literals of parse_natspec are the ones the splitter of Model/ConfigModel.v reads *)
Theorem C18_natspec_literals_pinned :
  natspec_split_re = [40; 64; 92; 83; 43; 41] /\ natspec_match_re = [94; 64; 92; 83] /\
  natspec_text_key = [116; 101; 120; 116] /\
  natspec_halmos_tag = [64; 99; 117; 115; 116; 111; 109; 58; 104; 97; 108; 109; 111; 115].
Proof. exact natspec_literals_pinned. Qed.
Print Assumptions C18_natspec_literals_pinned.

(* The documented chain for the stacks the runner builds:
   command line > function annotation > contract annotation > config file > default *)
Theorem C18_chain :
  forall deflt file cli ns dd o,
    getattr o (with_devdoc (with_natspec (load_config deflt file cli) ns) dd) =
    first_some [assoc o cli; opt_assoc o dd; opt_assoc o ns; opt_assoc o file; assoc o deflt].
Proof. exact chain_correct. Qed.
Print Assumptions C18_chain.

(* ParseTimeout over binary64 floats ([FFin neg k] = (-1)^neg * k / 2^1074, round to nearest even;
   Model/ConfigFloatModel.v).  unparse returns a string for EVERY float (finite of either sign and
   any magnitude, subnormal, infinite, nan), and parsing that string gives back a float that
   denotes the same number (or the same infinity, or nan again): whole seconds, whole milliseconds
   (checked by the code in floating point: abs(ms) != inf, ms == int(ms), ms / 1000 == value), and
   the exact rendering by repr for everything else. *)
Theorem C18_timeout_unparse_total : forall v, timeout_unparse v <> None.
Proof. exact timeout_unparse_total. Qed.
Print Assumptions C18_timeout_unparse_total.

Theorem C18_timeout_roundtrip :
  forall v, valid_f64 v ->
    exists s, timeout_unparse v = Some s /\
              faithful_rendering (fun s => option_map f_denote (timeout_parse s)) s (f_denote v).
Proof. exact timeout_roundtrip_total. Qed.
Print Assumptions C18_timeout_roundtrip.

(* every value parse returns is a float of the model (at most 53 significant bits, below 2^1024),
   so the round trip holds starting from any string parse accepts *)
Theorem C18_timeout_parse_valid : forall s v, timeout_parse s = Some v -> valid_f64 v.
Proof. exact timeout_parse_valid. Qed.
Print Assumptions C18_timeout_parse_valid.

Theorem C18_timeout_parse_unparse_parse :
  forall s v, timeout_parse s = Some v ->
    exists u, timeout_unparse v = Some u /\
              faithful_rendering (fun s => option_map f_denote (timeout_parse s)) u (f_denote v).
Proof. exact timeout_parse_unparse_total. Qed.
Print Assumptions C18_timeout_parse_unparse_parse.

(* a NUMBER in halmos.toml (parse_time's int | float arm: str(arg) + "ms") is that many
   milliseconds, rounded once; for an integer it is what the same digits mean as a string *)
Theorem C18_timeout_toml_number :
  (forall i, timeout_parse_int i = f_div (f_of_Z i) (f_of_Z 1000)) /\
  (forall x, valid_f64 x -> timeout_parse_float x = f_div x (f_of_Z 1000)) /\
  (forall i, timeout_parse (str_of_Z i) = timeout_parse_int i).
Proof.
  split; [exact timeout_parse_int_value|]. split; [exact timeout_parse_float_value|exact timeout_parse_int_as_string].
Qed.
Print Assumptions C18_timeout_toml_number.

(* the float library model: float(repr(v)) = v for every float (finite or not), float(str(i)) is
   the float nearest to i *)
Theorem C18_float_repr_roundtrip : forall v, valid_f64 v -> py_float (float_repr v) = Some v.
Proof. exact float_repr_roundtrip. Qed.
Print Assumptions C18_float_repr_roundtrip.

Theorem C18_float_of_int_literal : forall i, py_float (str_of_Z i) = Some (f_of_Z i).
Proof. exact py_float_str_of_Z. Qed.
Print Assumptions C18_float_of_int_literal.

(* rounding: a ratio whose value is a representable magnitude is not changed; every result has
   at most 53 significant bits *)
Theorem C18_round_exact :
  forall n d k, 0 < d -> n * F_UNIT = k * d -> representable k -> round_mag n d = k.
Proof. exact round_mag_exact. Qed.
Print Assumptions C18_round_exact.

Theorem C18_round_representable : forall n d, 0 <= n -> 0 < d -> representable (round_mag n d).
Proof. exact round_mag_representable. Qed.
Print Assumptions C18_round_representable.

(* ... and is a nearest one: no representable magnitude k is closer to n / d (distances in units
   of 1 / (d * 2^1074)), a tie going to the even multiple of the quantum *)
Theorem C18_round_nearest :
  forall n d k, 0 <= n -> 0 < d -> representable k ->
    Z.abs (round_mag n d * d - n * F_UNIT) <= Z.abs (k * d - n * F_UNIT).
Proof. exact round_mag_nearest. Qed.
Print Assumptions C18_round_nearest.

Theorem C18_round_tie_even :
  forall n d, 0 <= n -> 0 < d ->
    let P := 2 ^ f_shift (n * F_UNIT / d) in
    let q := n * F_UNIT / d / P in
    2 * (n * F_UNIT - d * P * q) = d * P ->
    round_mag n d = (if Z.even q then q else q + 1) * P.
Proof. exact round_mag_tie_even. Qed.
Print Assumptions C18_round_tie_even.

(* int(str(n)) = n for every integer (the item codec underneath the CSV options) *)
Theorem C18_int_literal : forall n, py_int10 (str_of_Z n) = Some n.
Proof. exact py_int10_str. Qed.
Print Assumptions C18_int_literal.

(* ParseCSVInt (--default-array-lengths, --default-bytes-lengths): every non-empty list of
   integers (any length, any sign, any magnitude) survives unparse/parse *)
Theorem C18_csvint_roundtrip : forall l, l <> [] -> csvint_parse (csvint_unparse l) = Some l.
Proof. exact csvint_roundtrip. Qed.
Print Assumptions C18_csvint_roundtrip.

(* malformed => rejected: no item at all, or any item that is not an integer literal *)
Theorem C18_csvint_rejects :
  forall s,
    (parse_csv csv_sep s = [] \/ exists x, In x (parse_csv csv_sep s) /\ py_int10 x = None) ->
    csvint_parse s = None.
Proof. exact csvint_rejects. Qed.
Print Assumptions C18_csvint_rejects.

(* accepted => the value is exactly the list of the items' values (nothing is defaulted) *)
Theorem C18_csvint_accepts_only :
  forall s l, csvint_parse s = Some l ->
    l <> [] /\ Forall2 (fun x v => py_int10 x = Some v) (parse_csv csv_sep s) l.
Proof. exact csvint_accepts_only. Qed.
Print Assumptions C18_csvint_accepts_only.

(* ParseErrorCodes: every set of codes of either sign (the empty set = "*") survives *)
Theorem C18_errcodes_roundtrip : forall l, errcodes_parse (errcodes_unparse l) = Some l.
Proof. exact errcodes_roundtrip. Qed.
Print Assumptions C18_errcodes_roundtrip.

Theorem C18_errcodes_rejects :
  forall s,
    list_eqb (strip s) errcodes_any = false ->
    (parse_csv csv_sep (strip s) = [] \/
     exists x, In x (parse_csv csv_sep (strip s)) /\ py_int errcodes_int_base x = None) ->
    errcodes_parse s = None.
Proof. exact errcodes_rejects. Qed.
Print Assumptions C18_errcodes_rejects.

(* ParseCSVTraceEvent: every list of events (empty included, repetitions included) survives;
   an unknown event name is rejected *)
Theorem C18_trace_roundtrip :
  forall l, Forall (fun i => 0 <= i < Z.of_nat (length trace_event_names)) l ->
    trace_parse (trace_unparse l) = Some l.
Proof. exact trace_roundtrip. Qed.
Print Assumptions C18_trace_roundtrip.

Theorem C18_trace_rejects :
  forall s x, In x (parse_csv csv_sep s) -> index_of trace_event_names x 0 = None -> trace_parse s = None.
Proof. exact trace_rejects_bad_item. Qed.
Print Assumptions C18_trace_rejects.

(* ParseArrayLengths: every dictionary with pairwise distinct, non-empty names free of white space
   and of the characters = , { } and with non-empty lists of non-negative sizes (any number of
   entries, any sizes) survives unparse/parse *)
Theorem C18_arrlen_roundtrip :
  forall d,
    Forall (fun kv => (fst kv <> [] /\ Forall (fun c => is_special c = false /\ is_ws c = false) (fst kv)) /\
                      (snd kv <> [] /\ Forall (fun v => 0 <= v) (snd kv))) d ->
    NoDup (map fst d) ->
    arrlen_parse (arrlen_unparse d) = AOk d.
Proof. exact arrlen_roundtrip. Qed.
Print Assumptions C18_arrlen_roundtrip.

(* ... and every dictionary parse returns is of that kind: whatever string is accepted, the value
   it yields survives unparse/parse *)
Theorem C18_arrlen_parse_unparse_parse :
  forall s d, arrlen_parse s = AOk d -> arrlen_parse (arrlen_unparse d) = AOk d.
Proof. exact arrlen_parse_unparse_parse. Qed.
Print Assumptions C18_arrlen_parse_unparse_parse.

(* ... the two regexes and the rendering literals are the ones the hand-written recogniser of
   Model/ConfigModel.v was written for (finite table; the recogniser itself is tied to the code
   by the correspondence run) *)
Theorem C18_arrlen_literals_pinned :
  arrlen_check_re = [94; 40; 91; 94; 61; 44; 92; 123; 92; 125; 93; 43; 61; 40; 92; 123; 91; 92; 100; 44; 93; 43; 92; 125; 124; 92; 100; 43; 41; 40; 44; 124; 36; 41; 41; 42; 36]
  /\ arrlen_find_re = [40; 91; 94; 61; 44; 92; 123; 92; 125; 93; 43; 41; 61; 40; 63; 58; 92; 123; 40; 91; 92; 100; 44; 93; 43; 41; 92; 125; 124; 40; 92; 100; 43; 41; 41]
  /\ arrlen_ws_join = [] /\ arrlen_join = [44] /\ arrlen_item_open = [61; 123] /\ arrlen_item_close = [125]
  /\ arrlen_sizes_join = [44].
Proof. exact arrlen_regexes_pinned. Qed.
Print Assumptions C18_arrlen_literals_pinned.

Example C18_nonvacuous :
  let st := [(4, [(7, 40)]); (2, [(7, 21); (8, 5)]); (5, []); (2, [(7, 20)]); (1, [(7, 2); (8, 1); (9, 0)])] in
  vws_result 7 st = Some (40, 4) /\ vws_result 8 st = Some (5, 2) /\ vws_result 9 st = Some (0, 1) /\
  vws_result 10 st = None /\ wins st 8 1 5 2 /\
  csvint_parse [32; 49; 44; 44; 45; 50; 95; 48; 32] = Some [1; -20] /\ csvint_parse [49; 44; 120] = None /\
  errcodes_unparse [1; -17] = [48; 120; 48; 49; 44; 45; 48; 120; 49; 49] /\
  arrlen_parse [97; 61; 123; 49; 44; 50; 125; 44; 98; 61; 51] = AOk [([97], [1; 2]); ([98], [3])] /\
  arrlen_parse [97; 61; 123; 125] = AReject.
Proof.
  cbv zeta. repeat split; try reflexivity.
  eexists. split; [reflexivity|]. split; [reflexivity|]. split; [reflexivity|].
  intros j l' Hj Hs.
  do 5 (destruct j as [|j]; [inversion Hj; subst; cbn; try lia; exfalso; apply Hs; reflexivity|]).
  destruct j; discriminate.
Qed.

(* 1.5 s is "1500ms" and back; "1.1" (ms) is 0.0011 s, rendered exactly as "0.0011s" and read back *)
Example C18_timeout_nonvacuous :
  let v := FFin false (3 * 2 ^ 1073) in
  valid_f64 v /\ timeout_unparse v = Some [49; 53; 48; 48; 109; 115] /\
  timeout_parse [49; 53; 48; 48; 109; 115] = Some v /\
  exists w, timeout_parse [49; 46; 49] = Some w /\ valid_f64 w /\
            timeout_unparse w = Some [48; 46; 48; 48; 49; 49; 115] /\
            timeout_parse [48; 46; 48; 48; 49; 49; 115] = Some w.
Proof.
  cbv zeta. split; [split; [split; [vm_compute; discriminate|vm_compute; reflexivity]|vm_compute; reflexivity]|].
  split; [vm_compute; reflexivity|]. split; [vm_compute; reflexivity|].
  eexists. split; [vm_compute; reflexivity|].
  split; [split; [split; [vm_compute; discriminate|vm_compute; reflexivity]|vm_compute; reflexivity]|].
  split; vm_compute; reflexivity.
Qed.
