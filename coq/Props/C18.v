(* C18 — Configuration resolves by precedence and round-trips.
   Statements only; every proof is `exact <lemma from Proofs/ConfigProofs.v or Proofs/ConfigCodecProofs.v>`.
   Gen/GenConfig.v (ConfigSource values, the guard of value_with_source, the decision of
   resolved_solver_command, codec literals), Gen/GenConfigTime.v (parse_time unit table) and
   Gen/GenConfigMain.v (sources used by with_devdoc / with_natspec / load_config, loop binding
   facts of run_tests / _main) are regenerated from /repo/src/halmos on every run. *)
From Coq Require Import ZArith List Bool QArith Lia.
From HV Require Import Gen.GenConfig Gen.GenConfigTime Gen.GenConfigMain Spec.ConfigSpec Model.ConfigModel Proofs.ConfigProofs Proofs.ConfigCodecProofs.
Import ListNotations.
Open Scope Z_scope.

(* Precedence, stacks of ANY height, any sources (> void), any subsets of options per layer:
   the (value, source) returned by Config.value_with_source is that of the layer maximal in
   (source, recency) among the layers that set the option; None iff no layer sets it. *)
Theorem C18_lookup :
  forall st o, (forall l, In l st -> SRC_void < fst l) -> effective st o (vws_result o st).
Proof. exact lookup_correct. Qed.
Print Assumptions C18_lookup.

(* ... and that specification determines the result uniquely *)
Theorem C18_lookup_unique :
  forall st o r r', effective st o r -> effective st o r' -> r = r'.
Proof. exact effective_unique. Qed.
Print Assumptions C18_lookup_unique.

(* --solver-command is used iff it is set to a non-empty command by its winning layer and no
   layer setting --solver wins with a strictly higher source *)
Theorem C18_solver_cmd :
  forall st, (forall l, In l st -> SRC_void < fst l) -> forall c,
    resolved_solver_command st = UseCommand c <->
    (c <> 0 /\ exists i s, wins st OPT_solver_command i c s /\
                           forall j v s', wins st OPT_solver j v s' -> s' <= s).
Proof. exact solver_cmd_correct. Qed.
Print Assumptions C18_solver_cmd.

(* Scoping: whatever the other contracts (cs1, cs2) and the sibling functions (fs1, fs2) and
   their annotations are, function f of contract A runs with
   with_devdoc (with_natspec args natspec(A)) devdoc(A.f). *)
Theorem C18_scope :
  forall args cs1 cs2 A nsA fs1 fs2 f ddf,
  exists res,
    nth_error (main_loop args (cs1 ++ (A, nsA, fs1 ++ (f, ddf) :: fs2) :: cs2)) (length cs1) = Some (A, res) /\
    nth_error res (length fs1) = Some (f, with_devdoc (with_natspec args nsA) ddf).
Proof. exact scope_correct. Qed.
Print Assumptions C18_scope.

(* The documented chain for the stacks the runner builds:
   command line > function annotation > contract annotation > config file > default *)
Theorem C18_chain :
  forall deflt file cli ns dd o,
    getattr o (with_devdoc (with_natspec (load_config deflt file cli) ns) dd) =
    first_some [assoc o cli; opt_assoc o dd; opt_assoc o ns; opt_assoc o file; assoc o deflt].
Proof. exact chain_correct. Qed.
Print Assumptions C18_chain.

(* ParseTimeout: the round trip does NOT hold for every non-negative timeout: the faithful
   model of ParseTimeout.unparse truncates (3/2 s -> "1s"). *)
Theorem C18_timeout_roundtrip_refuted :
  exists v : Q, (0 <= v)%Q /\ ~ faithful_rendering timeout_parse (timeout_unparse v) v.
Proof. exact timeout_roundtrip_refuted. Qed.
Print Assumptions C18_timeout_roundtrip_refuted.

(* ... also below one second (1/2 ms -> "0ms") *)
Theorem C18_timeout_roundtrip_submilli_refuted :
  exists v : Q, (0 <= v)%Q /\ (v < 1)%Q /\ ~ faithful_rendering timeout_parse (timeout_unparse v) v.
Proof. exact timeout_roundtrip_refuted_submilli. Qed.
Print Assumptions C18_timeout_roundtrip_submilli_refuted.

(* ... what does hold (and is all that holds) of ParseTimeout: whole milliseconds below one
   second and whole seconds from one second up survive.  _partial: fractional values do not
   (see the two _refuted theorems); Python floats are modelled as exact rationals. *)
Theorem C18_timeout_roundtrip_partial :
  forall n,
    (0 <= n < 1000 -> faithful_rendering timeout_parse (timeout_unparse (n # 1000)) (n # 1000)) /\
    (1 <= n -> faithful_rendering timeout_parse (timeout_unparse (inject_Z n)) (inject_Z n)).
Proof. exact timeout_roundtrip_partial. Qed.
Print Assumptions C18_timeout_roundtrip_partial.

(* int(str(n)) = n for every integer (the item codec underneath the CSV options) *)
Theorem C18_int_literal : forall n, py_int10 (str_of_Z n) = Some n.
Proof. exact py_int10_str. Qed.
Print Assumptions C18_int_literal.

(* ParseCSVInt (--default-array-lengths, --default-bytes-lengths): every non-empty list of
   integers (any length, any sign, any magnitude) survives unparse/parse *)
Theorem C18_csvint_roundtrip : forall l, l <> [] -> csvint_parse (csvint_unparse l) = Some l.
Proof. exact csvint_roundtrip. Qed.
Print Assumptions C18_csvint_roundtrip.

(* malformed => rejected: no item at all, or any item that is not an integer literal *)
Theorem C18_csvint_rejects :
  forall s,
    (parse_csv csv_sep s = [] \/ exists x, In x (parse_csv csv_sep s) /\ py_int10 x = None) ->
    csvint_parse s = None.
Proof. exact csvint_rejects. Qed.
Print Assumptions C18_csvint_rejects.

(* accepted => the value is exactly the list of the items' values (nothing is defaulted) *)
Theorem C18_csvint_accepts_only :
  forall s l, csvint_parse s = Some l ->
    l <> [] /\ Forall2 (fun x v => py_int10 x = Some v) (parse_csv csv_sep s) l.
Proof. exact csvint_accepts_only. Qed.
Print Assumptions C18_csvint_accepts_only.

(* ParseErrorCodes: every set of non-negative codes (the empty set = "*") survives.
   _partial: negative codes, which parse accepts, do not (next theorem). *)
Theorem C18_errcodes_roundtrip_partial :
  forall l, Forall (fun v => 0 <= v) l -> errcodes_parse (errcodes_unparse l) = Some l.
Proof. exact errcodes_roundtrip. Qed.
Print Assumptions C18_errcodes_roundtrip_partial.

Theorem C18_errcodes_roundtrip_negative_refuted :
  exists s l, errcodes_parse s = Some l /\ errcodes_parse (errcodes_unparse l) = None.
Proof. exact errcodes_roundtrip_negative_refuted. Qed.
Print Assumptions C18_errcodes_roundtrip_negative_refuted.

Theorem C18_errcodes_rejects :
  forall s,
    list_eqb (strip s) errcodes_any = false ->
    (parse_csv csv_sep (strip s) = [] \/
     exists x, In x (parse_csv csv_sep (strip s)) /\ py_int errcodes_int_base x = None) ->
    errcodes_parse s = None.
Proof. exact errcodes_rejects. Qed.
Print Assumptions C18_errcodes_rejects.

(* ParseCSVTraceEvent: every list of events (empty included, repetitions included) survives;
   an unknown event name is rejected *)
Theorem C18_trace_roundtrip :
  forall l, Forall (fun i => 0 <= i < Z.of_nat (length trace_event_names)) l ->
    trace_parse (trace_unparse l) = Some l.
Proof. exact trace_roundtrip. Qed.
Print Assumptions C18_trace_roundtrip.

Theorem C18_trace_rejects :
  forall s x, In x (parse_csv csv_sep s) -> index_of trace_event_names x 0 = None -> trace_parse s = None.
Proof. exact trace_rejects_bad_item. Qed.
Print Assumptions C18_trace_rejects.

(* ParseArrayLengths: the two regexes and the rendering literals are the ones the hand-written
   recogniser of Model/ConfigModel.v was written for (finite table; the recogniser itself is
   tied to the code by the correspondence run, there is no Coq round-trip theorem for it) *)
Theorem C18_arrlen_literals_pinned :
  arrlen_check_re = [94; 40; 91; 94; 61; 44; 92; 123; 92; 125; 93; 43; 61; 40; 92; 123; 91; 92; 100; 44; 93; 43; 92; 125; 124; 92; 100; 43; 41; 40; 44; 124; 36; 41; 41; 42; 36]
  /\ arrlen_find_re = [40; 91; 94; 61; 44; 92; 123; 92; 125; 93; 43; 41; 61; 40; 63; 58; 92; 123; 40; 91; 92; 100; 44; 93; 43; 41; 92; 125; 124; 40; 92; 100; 43; 41; 41]
  /\ arrlen_ws_join = [] /\ arrlen_join = [44] /\ arrlen_item_open = [61; 123] /\ arrlen_item_close = [125]
  /\ arrlen_sizes_join = [44].
Proof. exact arrlen_regexes_pinned. Qed.
Print Assumptions C18_arrlen_literals_pinned.

Example C18_nonvacuous :
  let st := [(4, [(7, 40)]); (2, [(7, 21); (8, 5)]); (5, []); (2, [(7, 20)]); (1, [(7, 2); (8, 1); (9, 0)])] in
  vws_result 7 st = Some (40, 4) /\ vws_result 8 st = Some (5, 2) /\ vws_result 9 st = Some (0, 1) /\
  vws_result 10 st = None /\ wins st 8 1 5 2 /\
  timeout_unparse (3 # 2) = [49; 115] /\
  csvint_parse [32; 49; 44; 44; 45; 50; 95; 48; 32] = Some [1; -20] /\ csvint_parse [49; 44; 120] = None /\
  errcodes_unparse [1; 17] = [48; 120; 48; 49; 44; 48; 120; 49; 49] /\
  arrlen_parse [97; 61; 123; 49; 44; 50; 125; 44; 98; 61; 51] = AOk [([97], [1; 2]); ([98], [3])] /\
  arrlen_parse [97; 61; 123; 125] = AReject.
Proof.
  cbv zeta. repeat split; try reflexivity.
  eexists. split; [reflexivity|]. split; [reflexivity|]. split; [reflexivity|].
  intros j l' Hj Hs.
  do 5 (destruct j as [|j]; [inversion Hj; subst; cbn; try lia; exfalso; apply Hs; reflexivity|]).
  destruct j; discriminate.
Qed.
