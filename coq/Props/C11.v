(* C11 — The solver query equals the path's constraints; refinement is exact.
   Statements only; every proof is `exact <lemma from Proofs/SmtTextProofs.v>`.
   Gen/GenRefine.v (the rules of solve.refine, the f-strings of solve.dump) is regenerated
   from /repo/src/halmos/solve.py on every run. *)
From Coq Require Import ZArith List String Bool.
From HV Require Import Base.Word Base.SmtBV Model.SexpDefs Gen.GenRefine
  Spec.SmtQuerySpec Model.SmtTextModel Proofs.SmtTextProofs
  Model.PathCopyDefs Gen.GenPathCopy Model.PathHeapModel Proofs.PathHeapGen
  Model.DumpFsDefs Gen.GenDumpFs Spec.DumpFsSpec Model.DumpFsModel Proofs.DumpFsProofs.
Import ListNotations.
Open Scope Z_scope.

(* refinement replaces each abstraction by the exact EVM operation: for every rule of
   solve.refine, every op of its alternation, every width (any digit string ns denoting
   N > 0) and all N-bit operands, the regenerated replacement is a well-sorted define-fun
   whose value is the exact operation (bvmul; 0 for a zero divisor, else the quotient /
   remainder; signed ones by Z.quot / Z.rem on the two's-complement readings) *)
Theorem C11_refine_exact :
  forall r op ns N x y,
    In r refine_rules -> In op (rule_ops r) -> parse_dec ns = Some N -> 0 < N ->
    0 <= x < 2 ^ N -> 0 <= y < 2 ^ N ->
    exists f, exact_op op = Some f /\
      eval_define (inst op ns (rule_repl r)) [VBV N x; VBV N y] = Some (VBV N (f N x y)).
Proof. exact refine_exact. Qed.
Print Assumptions C11_refine_exact.

(* ... and at width 256 these are Base/Word's MUL, DIV, MOD, SDIV, SMOD *)
Theorem C11_exact_256 :
  forall x y,
    exact_mul 256 x y = evm_mul x y /\ exact_div 256 x y = evm_div x y /\
    exact_mod 256 x y = evm_mod x y /\ exact_sdiv 256 x y = evm_sdiv x y /\
    exact_smod 256 x y = evm_smod x y.
Proof. exact exact_256. Qed.
Print Assumptions C11_exact_256.

(* the SMT-LIB case-split definitions of bvsdiv / bvsrem, guarded against a zero divisor,
   are truncated division / remainder on the signed readings, for every width *)
Theorem C11_signed_semantics :
  forall N x y, 0 < N -> 0 <= x < 2 ^ N -> 0 <= y < 2 ^ N ->
    (if y =? 0 then 0 else bvsdiv N x y) = exact_sdiv N x y /\
    (if y =? 0 then 0 else bvsrem N x y) = exact_smod N x y.
Proof. exact signed_semantics. Qed.
Print Assumptions C11_signed_semantics.

(* no silent non-application: every declaration that fits a rule IS rewritten to the
   instantiated replacement (both re.sub passes composed) ... *)
Theorem C11_refine_applies :
  forall r op ns,
    In r refine_rules -> In op (rule_ops r) -> is_digits ns = true ->
    refine_cmd (inst op ns (rule_decl r)) = inst op ns (rule_repl r).
Proof. exact refine_applies. Qed.
Print Assumptions C11_refine_applies.

(* ... the definition keeps the name and the sorts of the declaration it replaces ... *)
Theorem C11_refine_signature :
  forall r op ns,
    In r refine_rules -> In op (rule_ops r) ->
    signature (inst op ns (rule_repl r)) = signature (inst op ns (rule_decl r)) /\
    signature (inst op ns (rule_decl r)) <> None.
Proof. exact refine_signature. Qed.
Print Assumptions C11_refine_signature.

(* ... and every abstraction that has an exact meaning is covered by some rule *)
Theorem C11_refine_covers :
  forall op, In op refinable_ops -> exists r, In r refine_rules /\ In op (rule_ops r).
Proof. exact refine_covers. Qed.
Print Assumptions C11_refine_covers.

(* refinement changes only the arithmetic abstractions: a command that changes is an
   instance of a rule's declaration pattern, i.e. (declare-fun f_evm_... ) *)
Theorem C11_refine_only :
  forall c, refine_cmd c <> c ->
    (exists r op ns, In r refine_rules /\ In op (rule_ops r) /\ is_digits ns = true /\
                     c = inst op ns (rule_decl r)) /\
    (exists name args ret, c = SList [Atom "declare-fun"; Atom name; args; ret] /\
                           strip_prefix "f_evm_" name <> None).
Proof. exact refine_only. Qed.
Print Assumptions C11_refine_only.

(* the same on the text of a line (the regex demands the exact one-line spelling) *)
Theorem C11_refine_only_text :
  forall s, refine_line s <> s ->
    exists r op ns, In r refine_rules /\ In op (rule_ops r) /\ is_digits ns = true /\
                    s = render (inst op ns (rule_decl r)).
Proof. exact refine_line_changed. Qed.
Print Assumptions C11_refine_only_text.

(* no assertion is touched, the assertion ids are kept *)
Theorem C11_refine_keeps_asserts :
  (forall body, refine_cmd (SList (Atom "assert" :: body)) = SList (Atom "assert" :: body)) /\
  (forall q, snd (refine_query q) = snd q).
Proof. exact refine_keeps_asserts. Qed.
Print Assumptions C11_refine_keeps_asserts.

(* f_evm_exp stays uninterpreted, whatever the width *)
Theorem C11_exp_uninterpreted :
  forall r ns, In r refine_rules ->
    refine_cmd (inst "exp" ns (rule_decl r)) = inst "exp" ns (rule_decl r).
Proof. exact refine_exp_unchanged. Qed.
Print Assumptions C11_exp_uninterpreted.

(* the named-assertion encoding is equisatisfiable with the plain one, for any number of
   constraints: tracking literals exist that make every implication and every named literal
   true iff every constraint is true *)
Theorem C11_named_equisat :
  forall cs : list Prop,
    (exists ids : list bool,
        Forall2 (fun (id : bool) (c : Prop) => id = true -> c) ids cs /\
        Forall (fun id => id = true) ids)
    <-> Forall (fun c : Prop => c) cs.
Proof. exact named_equisat_prop. Qed.
Print Assumptions C11_named_equisat.

(* the file written by solve.dump is: header commands, the query text, the named
   assertions (one per id, --cache-solver only), trailer commands -- nothing else *)
Theorem C11_dump_text :
  forall smtlib ids,
    dump_text false smtlib ids =
      (unlines (map render dump_plain_pre_sx) ++ smtlib ++ nl ++
       unlines (map render dump_plain_post_sx))%string /\
    dump_text true smtlib ids =
      (unlines (map render dump_cached_pre_sx) ++ smtlib ++ nl ++
       unlines (map render (dump_named_cmds ids)) ++
       unlines (map render dump_cached_post_sx))%string.
Proof. exact dump_text_both. Qed.
Print Assumptions C11_dump_text.

(* none dropped, altered or added: for every life of a path (append, branch+activate,
   slice, continuation in a new Path through extend_path -- so also paths that extend a
   sliced setUp / invariant state), the formulas asserted by Path.to_smt2 are, in order,
   the first occurrences of the simplified non-trivial constraints handed to the path, and
   the ids are theirs -- with and without --cache-solver *)
Theorem C11_all_conditions :
  forall (cond : Type) (cond_eqb : cond -> cond -> bool) (simp : cond -> cond)
         (is_true : cond -> bool) (vars : cond -> list Z) (cid : cond -> Z)
         ops s0 p cs,
    run cond cond_eqb simp is_true vars (empty_path cond s0) ops = Some p ->
    map (fun a => match a with QPlain c => c | QTracked _ c => c end) (fst (to_smt2 cond cid p cs))
      = add_all cond cond_eqb simp is_true [] (accumulated cond ops)
    /\ snd (to_smt2 cond cid p cs)
      = map cid (add_all cond cond_eqb simp is_true [] (accumulated cond ops)).
Proof. exact all_conditions. Qed.
Print Assumptions C11_all_conditions.

(* the solver query equals the path's constraints: given that z3.simplify preserves
   meaning, that is_true only holds of valid formulas and that equal dict keys are
   equivalent formulas, an assignment (extended with some values for the tracking literals)
   satisfies the dumped query iff it satisfies every constraint accumulated on the path *)
Theorem C11_query_equals_constraints :
  forall (cond : Type) (cond_eqb : cond -> cond -> bool) (simp : cond -> cond)
         (is_true : cond -> bool) (vars : cond -> list Z) (cid : cond -> Z)
         (env : Type) (sem : env -> cond -> Prop),
    (forall e c, sem e (simp c) <-> sem e c) ->
    (forall c, is_true c = true -> forall e, sem e c) ->
    (forall c d, cond_eqb c d = true -> forall e, sem e c <-> sem e d) ->
    forall ops s0 p cs e,
      run cond cond_eqb simp is_true vars (empty_path cond s0) ops = Some p ->
      ((exists b, Forall (holds sem e b) (dump_asserts cs (to_smt2 cond cid p cs)))
       <-> path_constraints_hold sem e (accumulated cond ops)).
Proof. exact query_equals_constraints. Qed.
Print Assumptions C11_query_equals_constraints.

(* slicing affects the solver, never `conditions` *)
Theorem C11_slicing_keeps_conditions :
  forall (cond : Type) (vars : cond -> list Z) (p q parent : path cond) vs,
    (slice cond vars p vs = Some q -> conditions q = conditions p) /\
    conditions (extend_path cond p parent) = conditions parent.
Proof. exact slicing_keeps_conditions. Qed.
Print Assumptions C11_slicing_keeps_conditions.

(* ---- several Path objects alive at once (the setUp state and every test started on it; a
   frontier state and every target function / invariant started on it; both sides of every
   JUMPI): Path.branch / Path.extend_path give the new object its own containers.  The copy
   modes are regenerated from sevm.py on every run *)
Theorem C11_path_objects_separate : separate gen_modes = true.
Proof. exact gen_modes_separate. Qed.
Print Assumptions C11_path_objects_separate.

(* no interference: for every program over Path objects -- appends, forks, activations,
   slices, extensions, on any object, in any order, any number of objects forked off /
   extended from the same parent -- the object-level semantics (containers mutated in
   place through references) leaves every object in the state that the value-level
   semantics gives it (conditions, pending, related, var_to_conds, sliced) *)
Theorem C11_paths_do_not_interfere :
  forall (cond : Type) (cond_eqb : cond -> cond -> bool) (simp : cond -> cond)
         (is_true : cond -> bool) (vars : cond -> list Z) ops s0 h,
    h_run cond cond_eqb simp is_true vars gen_modes (h_init cond s0) ops = Some h ->
    exists ps, v_run cond cond_eqb simp is_true vars [empty_path cond s0] ops = Some ps /\
      List.length ps = List.length (o_paths h) /\
      forall i hp p, nth_error (o_paths h) i = Some hp -> nth_error ps i = Some p ->
        same_path cond (h_view cond h hp) p.
Proof. exact paths_do_not_interfere_gen. Qed.
Print Assumptions C11_paths_do_not_interfere.

(* the query of EVERY Path object asserts exactly the constraints accumulated on that
   object's own lineage (what its ancestors received before it was forked off / extended
   from them, then what it received itself): nothing that another path received later, or
   that a sibling started from the same state received, is in it -- syntactically ... *)
Theorem C11_every_path_query :
  forall (cond : Type) (cond_eqb : cond -> cond -> bool) (simp : cond -> cond)
         (is_true : cond -> bool) (vars : cond -> list Z) (cid : cond -> Z) ops s0 h i cs q,
    h_run cond cond_eqb simp is_true vars gen_modes (h_init cond s0) ops = Some h ->
    h_to_smt2 cond cid h i cs = Some q ->
    map (fun a => match a with QPlain c => c | QTracked _ c => c end) (fst q)
      = add_all cond cond_eqb simp is_true [] (accumulated cond (nth i (lineages cond ops) []))
    /\ snd q = map cid (add_all cond cond_eqb simp is_true [] (accumulated cond (nth i (lineages cond ops) []))).
Proof. exact every_path_query_gen. Qed.
Print Assumptions C11_every_path_query.

(* ... and semantically (same hypotheses on z3 as C11_query_equals_constraints) *)
Theorem C11_every_path_query_equals_constraints :
  forall (cond : Type) (cond_eqb : cond -> cond -> bool) (simp : cond -> cond)
         (is_true : cond -> bool) (vars : cond -> list Z) (cid : cond -> Z)
         (env : Type) (sem : env -> cond -> Prop),
    (forall e c, sem e (simp c) <-> sem e c) ->
    (forall c, is_true c = true -> forall e, sem e c) ->
    (forall c d, cond_eqb c d = true -> forall e, sem e c <-> sem e d) ->
    forall ops s0 h i cs q e,
    h_run cond cond_eqb simp is_true vars gen_modes (h_init cond s0) ops = Some h ->
    h_to_smt2 cond cid h i cs = Some q ->
    ((exists b, Forall (holds sem e b) (dump_asserts cs q))
     <-> path_constraints_hold sem e (accumulated cond (nth i (lineages cond ops) []))).
Proof. exact every_path_query_sem_gen. Qed.
Print Assumptions C11_every_path_query_equals_constraints.

(* a fork condition is a constraint of the forked path from the moment of the fork, but it is
   in `pending` -- not in `conditions`, hence not in the query -- until Path.activate: the
   constraints handed to a path are exactly those its query asserts (C11_all_conditions)
   plus those still pending.  The query of a path is complete iff nothing is pending: a
   path must be activated before it is serialised (SEVM.run activates every state it takes
   from the worklist, also one that is only taken out to be yielded) *)
Theorem C11_pending_is_what_the_query_lacks :
  forall (cond : Type) (cond_eqb : cond -> cond -> bool) (simp : cond -> cond)
         (is_true : cond -> bool) (vars : cond -> list Z) ops s0 p,
    run cond cond_eqb simp is_true vars (empty_path cond s0) ops = Some p ->
    extends_active_from cond [] ops = true ->
    forall c, In c (handed cond ops) <-> In c (accumulated cond ops) \/ In c (pending p).
Proof. exact handed_accumulated_pending. Qed.
Print Assumptions C11_pending_is_what_the_query_lacks.

(* ---- conditions vs solver.  The z3 solver of a path (used to prune infeasible branches,
   never to build the query) holds nothing but what the solvers handed to Path(...) already
   held and conditions of the path ... *)
Theorem C11_solver_subset_of_conditions :
  forall (cond : Type) (cond_eqb : cond -> cond -> bool) (simp : cond -> cond)
         (is_true : cond -> bool) (vars : cond -> list Z) ops s0 p,
    run cond cond_eqb simp is_true vars (empty_path cond s0) ops = Some p ->
    forall c, In c (solver p) -> In c (bases cond s0 ops) \/ In c (map fst (conditions p)).
Proof. exact solver_subset_of_conditions. Qed.
Print Assumptions C11_solver_subset_of_conditions.

(* ... all of them, in order, when no state on the way was sliced (regular tests): there
   Path.solver mirrors Path.conditions; only extensions of sliced states hold less *)
Theorem C11_solver_holds_all_when_unsliced :
  forall (cond : Type) (cond_eqb : cond -> cond -> bool) (simp : cond -> cond)
         (is_true : cond -> bool) (vars : cond -> list Z) ops s0 p,
    run cond cond_eqb simp is_true vars (empty_path cond s0) ops = Some p ->
    no_slice cond ops = true ->
    solver p = (last_base cond s0 ops ++ map fst (conditions p))%list.
Proof. exact solver_holds_all_when_unsliced. Qed.
Print Assumptions C11_solver_holds_all_when_unsliced.

(* the solver OBJECTS (shared by a path and its forks, with push / pop scopes): under the
   exploration discipline of SEVM.run -- appends and forks come from the path running on the
   solver, a waiting fork is activated when it is the most recent one (LIFO worklist) -- the
   assertions held by every solver object are exactly the pure model's solver view of the
   path running on it.  (`sched_run` = None for programs outside the discipline.) *)
Theorem C11_solver_mirrors_running_path :
  forall (cond : Type) (cond_eqb : cond -> cond -> bool) (simp : cond -> cond)
         (is_true : cond -> bool) (vars : cond -> list Z) ops s0 h sc,
    h_run cond cond_eqb simp is_true vars gen_modes (h_init cond s0) ops = Some h ->
    sched_run cond sched_init ops = Some sc ->
    exists ps, v_run cond cond_eqb simp is_true vars [empty_path cond s0] ops = Some ps /\
      forall s i, nth_error (sc_current sc) s = Some i ->
        exists hp p, nth_error (o_paths h) i = Some hp /\ nth_error ps i = Some p /\ hp_solver hp = s /\
                     s_assertions cond (nth s (o_solvers h) []) = solver p.
Proof. exact solver_mirrors_running_path_gen. Qed.
Print Assumptions C11_solver_mirrors_running_path.

(* non-vacuity of the object level: two transactions started from the same (sliced) state;
   what the first one appends is not in the query of the second one -- and it WOULD be
   there if extend_path handed over `conditions` without copying it (the model tells the
   modes apart, `separate` is not a decoration) *)
Example C11_objects_nonvacuous :
  let vars := fun c : Z => [c] in
  let prog := [HAppend 0 1 false; HSlice 0 [1]; HExtend 0 []; HAppend 1 2 false; HBranch 1 3;
               HAppend 1 4 false; HExtend 0 []; HActivate 2; HAppend 3 5 false] in
  let ids := fun m => match h_run Z Z.eqb (fun c => c) (fun c => c =? 0) vars m (h_init Z []) prog with
                      | Some h => map (fun i => option_map snd (h_to_smt2 Z (fun c => 100 + c) h i true)) [0; 1; 2; 3]%nat
                      | None => []
                      end in
  ids gen_modes = [Some [101]; Some [101; 102; 104]; Some [101; 102; 103]; Some [101; 105]] /\
  map (accumulated Z) (lineages Z prog) = [[1]; [1; 2; 4]; [1; 2; 3]; [1; 5]] /\
  ids (mkModes MShallow MShallow MDeep MAlias MShallow MDeep)
    = [Some [101; 102; 104; 105]; Some [101; 102; 104; 105]; Some [101; 102; 103]; Some [101; 102; 104; 105]] /\
  separate (mkModes MShallow MShallow MDeep MAlias MShallow MDeep) = false /\
  (* the program follows the exploration discipline; the three solver objects hold: *)
  option_map sc_current (sched_run Z sched_init prog) = Some [0; 2; 3]%nat /\
  match h_run Z Z.eqb (fun c => c) (fun c => c =? 0) vars gen_modes (h_init Z []) prog with
  | Some h => map (s_assertions Z) (o_solvers h) = [[1]; [1; 2; 3]; [1; 5]]
  | None => False
  end.
Proof. vm_compute. repeat split; reflexivity. Qed.

(* non-vacuity: the rules really rewrite the 264-bit remainder abstraction, the result
   evaluates 7 mod 0 to 0 and 0x..ff sdiv 2 to 0 (-1 / 2), an exp declaration survives;
   a path that extends a sliced parent keeps both conditions while its solver holds one *)
Example C11_nonvacuous :
  let d := inst "bvurem" "264" rule1_decl in
  render d = "(declare-fun f_evm_bvurem_264 ((_ BitVec 264) (_ BitVec 264)) (_ BitVec 264))"%string /\
  refine_line (render d) =
    "(define-fun f_evm_bvurem_264 ((x (_ BitVec 264)) (y (_ BitVec 264))) (_ BitVec 264) (ite (= y (_ bv0 264)) (_ bv0 264) (bvurem x y)))"%string /\
  eval_define (refine_cmd d) [VBV 264 7; VBV 264 0] = Some (VBV 264 0) /\
  eval_define (refine_cmd (inst "bvsdiv" "8" rule1_decl)) [VBV 8 255; VBV 8 2] = Some (VBV 8 0) /\
  refine_line "(declare-fun f_evm_exp_256 ((_ BitVec 256) (_ BitVec 256)) (_ BitVec 256))"
    = "(declare-fun f_evm_exp_256 ((_ BitVec 256) (_ BitVec 256)) (_ BitVec 256))"%string /\
  (let vars := fun c : Z => [c] in
   match run Z Z.eqb (fun c => c) (fun c => c =? 0) vars (empty_path Z [])
             [OAppend 1 false; OAppend 0 false; OBranch 2; OAppend 1 true; OSlice [2]; OExtend []] with
   | Some p => map fst (conditions p) = [1; 2] /\ solver p = [2] /\
               snd (to_smt2 Z (fun c => 100 + c) p true) = [101; 102]
   | None => False
   end).
Proof. vm_compute. repeat split; reflexivity. Qed.

(* ---- which bytes the solver process reads.  The query reaches the solver through a FILE:
   <dump dir>/<path id>[.refined].smt2.  With --dump-smt-directory DIR the dump dir of a function
   is DIR/<function name> and path ids restart at 0 in every FunctionContext, so the same file
   name is used again by the same-named test of another contract, by the assertion probes of
   every invariant depth, by the setUp paths of every contract and by the next run.
   Gen/GenDumpFs.v (solve.dump, solve.solve_low_level, the two solve_low_level calls of
   solve.solve_end_to_end, the literals of PathContext.dump_file) is regenerated from solve.py
   on every run and interpreted by Model/DumpFsModel.v over a file system.

   For EVERY initial content of the file system (stale files of earlier paths / functions /
   runs under any name), every solver, every refine function and every sequence of
   solve_end_to_end calls (any directories and path ids - colliding or not -, with and without
   --cache-solver, already refined or not, any decision to solve again), the solver processes
   started are exactly those the specification demands (the path's own query; its refinement
   when the answer to the path's own query asks for it), each on the file of its context, and
   each READS THE TEXT OF THE QUERY IT IS STARTED FOR *)
Theorem C11_solver_reads_query_of_the_path_being_solved :
  forall (slv : solver_t) (rf : string -> string) (fs0 : fsys) (jobs : list job),
  exists fs1,
    run_jobs slv rf (fs0, []) jobs =
      (fs1,
       map (fun c => mkEv c (full_name c) (reads_of pctx query_text c))
           (flat_map (fun j => solves_of pctx query_text (refine_ctx rf) slv (j_ctx j) (j_core j) (j_again j)) jobs)).
Proof. exact solver_reads_path_query. Qed.
Print Assumptions C11_solver_reads_query_of_the_path_being_solved.

(* one solve_low_level, from any file system and any history: the process reads the current
   query, and the *.smt2 file left behind is the current query (not more, not a stale one) *)
Theorem C11_low_level_reads_and_leaves_query :
  forall (slv : solver_t) (c : pctx) (fs : fsys) (tr : list event),
  exists fs1,
    run_low slv c fs tr =
      (match slv (Some (query_text c)) with Some a => Some (Some a) | None => Some None end,
       fs1, (tr ++ [mkEv c (full_name c) (Some (query_text c))])%list) /\
    fs_get fs1 (full_name c) = Some (query_text c).
Proof. exact low_level_reads_and_leaves_query. Qed.
Print Assumptions C11_low_level_reads_and_leaves_query.

(* the model distinguishes the protocols the theorem excludes: on a file system that already
   holds d/check_x/0.smt2, a solve_low_level that dumps only when the file is missing makes the
   solver read the stale file, and a dump that appends makes it read stale text + query *)
Example C11_guarded_or_appending_dump_refuted :
  let c := mkCtx "d/check_x" 0 false false "(assert b)" [] in
  let stale := [(full_name c, "(assert a)"%string)] in
  let slv : solver_t := fun _ => Some ("sat"%string, ""%string) in
  full_name c = "d/check_x/0.smt2"%string /\
  reads_of_run (run_low_with slv c trunc_dump plain_low stale []) = [Some (query_text c)] /\
  reads_of_run (run_low_with slv c trunc_dump guarded_low stale []) = [Some "(assert a)"%string] /\
  reads_of_run (run_low_with slv c append_dump plain_low stale []) = [Some ("(assert a)" ++ query_text c)%string].
Proof. exact guarded_or_appending_refuted. Qed.

(* non-vacuity: the same-named test of two contracts (same directory, path id 0) after a run
   that left 0.smt2 and 0.refined.smt2 behind; the first answers ask for refinement: four
   processes, each reads its own query, the refined ones on 0.refined.smt2; a call answered
   by a known unsat core starts none *)
Example C11_dump_protocol_nonvacuous :
  let a := mkCtx "d/check_x" 0 false false "(declare-fun f_evm_bvudiv_256 ((_ BitVec 256) (_ BitVec 256)) (_ BitVec 256))" [] in
  let b := mkCtx "d/check_x" 0 false true "(assert b)" ["7"%string] in
  let rf := fun s : string => ("R" ++ s)%string in
  let slv : solver_t := fun _ => Some ("sat"%string, ""%string) in
  let jobs := [mkJob a false (fun _ => true); mkJob b false (fun _ => true); mkJob b true (fun _ => true)] in
  let stale := [("d/check_x/0.smt2", "(old)"); ("d/check_x/0.refined.smt2", "(old refined)")]%string in
  map (fun e => (ev_file e, ev_read e)) (snd (run_jobs slv rf (stale, []) jobs)) =
    [("d/check_x/0.smt2"%string, Some (query_text a));
     (full_name (refine_ctx rf a), Some (query_text (refine_ctx rf a)));
     ("d/check_x/0.smt2"%string, Some (query_text b));
     (full_name (refine_ctx rf b), Some (query_text (refine_ctx rf b)))] /\
  full_name (refine_ctx rf a) = full_name (refine_ctx rf b) /\
  query_text a <> query_text b /\ query_text (refine_ctx rf a) <> query_text (refine_ctx rf b).
Proof. vm_compute. repeat split; try reflexivity; discriminate. Qed.
