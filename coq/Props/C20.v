(* C20 -- Tests are isolated from each other and results are deterministic.
   Statements only; every proof is `exact <lemma from Proofs/IsolationProofs.v>`.
   Gen/GenCopies.v (the copy-vs-share tables of SEVM.create_branch, SEVM.run_message,
   Path.branch, Path.extend_path, KeccakRegistry.copy, State.__deepcopy__) is regenerated
   from /repo/src/halmos/sevm.py on every run. *)
From Coq Require Import String ZArith List Bool Lia.
From HV Require Import Gen.GenCopies Gen.GenCallbackCopies Gen.GenFrontierFlow Spec.IsolationSpec Model.IsolationModel Proofs.IsolationProofs.
From HV Require Import Gen.GenSolverLife Spec.SolverLifeSpec Model.SolverLifeModel Proofs.SolverLifeProofs.
Import ListNotations.
Open Scope Z_scope.

(* ---------------------------------------------------------------- order / subsets / repetition *)

(* For every transition system, every setUp state, every prefix of other tests in which the
   invariant tests ran to completion (regular tests may even have been interrupted), a test
   that runs to completion yields exactly the result it has alone (Spec.spec_paths: no caches,
   no generators): the frontier / visited caches are pure. *)
Theorem C20_order :
  forall (sys : system) (s0 : Z) (pre : list test) (t : test),
    Forall (fun u => t_budget u = None \/ t_depth u = O) pre ->
    t_budget t = None ->
    nth (length pre) (run_contract sys s0 (pre ++ [t])) [] = spec_paths sys (t_body t) s0 (t_depth t).
Proof. exact order_independent. Qed.
Print Assumptions C20_order.

(* hence any list (any order, any subset, with repetitions) of completed tests *)
Theorem C20_order_all :
  forall (sys : system) (s0 : Z) (ts : list test),
    Forall (fun t => t_budget t = None) ts ->
    run_contract sys s0 ts = map (fun t => spec_paths sys (t_body t) s0 (t_depth t)) ts.
Proof. exact all_complete. Qed.
Print Assumptions C20_order_all.

Theorem C20_repeat :
  forall (sys : system) (s0 : Z) (t : test) (n : nat),
    t_budget t = None ->
    run_contract sys s0 (repeat t n) = repeat (spec_paths sys (t_body t) s0 (t_depth t)) n.
Proof. exact repeat_same. Qed.
Print Assumptions C20_repeat.

(* The proviso cannot be dropped (F10): when the consumer loop of an invariant test breaks
   (--width, --early-exit) the partially computed frontier stays in the contract-level cache;
   the next invariant test, although it runs to completion, misses a state and PASSes (0) where
   alone it FAILs (1). *)
Theorem C20_order_refuted :
  exists (sys : system) (s0 : Z) (t1 t2 : test),
    t_budget t2 = None /\
    verdict_of (nth 1 (run_contract sys s0 [t1; t2]) []) = 0 /\
    verdict_of (spec_paths sys (t_body t2) s0 (t_depth t2)) = 1.
Proof. exact f10_refuted. Qed.
Print Assumptions C20_order_refuted.

(* ---------------------------------------------------------------- per-test configuration *)

(* Every test runs under its own configuration (the contract's, overridden by the test's
   `@custom:halmos` annotation): its body and its --invariant-depth are its own.  The frontier
   cache is shared and keyed by the depth alone, so the configuration that explores the target
   transactions (cstep e: what one transaction reaches under loop bound / array lengths / ... e)
   must not be the running test's.  frontier_cfg is what the code does
   (Gen/GenFrontierFlow.v: provenance of the `args` reaching run_target_function through
   run_message -> get_frontier -> _compute_frontier -> run_target_contract, regenerated from
   __main__.py on every run).  For all configuration-indexed transition systems, all contract
   configurations and all prefixes of tests with arbitrary configurations: a completed test yields
   what it yields when it is the only test of the run. *)
Theorem C20_order_config :
  forall (cstep : Z -> Z -> list Z) (sd : Z -> Z) (cc s0 : Z) (pre : list ctest) (t : ctest),
    Forall (fun u => t_budget (ct_test u) = None \/ t_depth (ct_test u) = O) pre ->
    t_budget (ct_test t) = None ->
    nth (length pre) (run_contract_c frontier_cfg cstep sd cc s0 (pre ++ [t])) []
    = hd [] (run_contract_c frontier_cfg cstep sd cc s0 [t]).
Proof. exact order_config. Qed.
Print Assumptions C20_order_config.

(* ... and that is the specification's result over the transactions explored under the CONTRACT's
   configuration: the annotation of a test governs its own body and depth only *)
Theorem C20_alone_config :
  forall (cstep : Z -> Z -> list Z) (sd : Z -> Z) (cc s0 : Z) (t : ctest),
    t_budget (ct_test t) = None ->
    hd [] (run_contract_c frontier_cfg cstep sd cc s0 [t])
    = spec_paths (mkSystem (cstep cc) sd) (t_body (ct_test t)) s0 (t_depth (ct_test t)).
Proof. exact alone_config. Qed.
Print Assumptions C20_alone_config.

(* the general form: ANY rule fc for the exploring configuration that ignores the running test
   gives schedule independence *)
Theorem C20_order_config_general :
  forall (fc : Z -> Z -> Z) (cstep : Z -> Z -> list Z) (sd : Z -> Z) (cc : Z),
    (forall a b, fc cc a = fc cc b) ->
    forall (s0 : Z) (pre : list ctest) (t : ctest),
      Forall (fun u => t_budget (ct_test u) = None \/ t_depth (ct_test u) = O) pre ->
      t_budget (ct_test t) = None ->
      nth (length pre) (run_contract_c fc cstep sd cc s0 (pre ++ [t])) []
      = hd [] (run_contract_c fc cstep sd cc s0 [t]).
Proof. exact schedule_independent_c. Qed.
Print Assumptions C20_order_config_general.

(* the condition is necessary: with the running test's configuration exploring the shared
   frontier (pick_cfg SrcTest), a completed un-annotated test FAILs (1) after an annotated one and
   PASSes (0) alone *)
Theorem C20_test_config_in_shared_frontier_refuted :
  exists (cstep : Z -> Z -> list Z) (sd : Z -> Z) (cc s0 : Z) (t1 t2 : ctest),
    t_budget (ct_test t1) = None /\ t_budget (ct_test t2) = None /\
    verdict_of (nth 1 (run_contract_c (pick_cfg SrcTest) cstep sd cc s0 [t1; t2]) []) = 1 /\
    verdict_of (hd [] (run_contract_c (pick_cfg SrcTest) cstep sd cc s0 [t2])) = 0.
Proof. exact test_cfg_in_shared_frontier_refutes_isolation. Qed.
Print Assumptions C20_test_config_in_shared_frontier_refuted.

(* nothing derived from the running test's FunctionContext reaches get_frontier /
   _compute_frontier / run_target_contract / run_target_function, and the cache is read and
   written under the depth alone; run_contract puts the post-setUp state into frontier_states[0]
   and does not register it as visited (regenerated data-flow facts) *)
Theorem C20_frontier_inputs_contract_level :
  explore_cfg_src = SrcContract /\ frontier_test_inputs = [] /\ cache_key_depth_only = true /\
  setup_state_visited = false /\ test_cfg_base_src = SrcContract.
Proof. exact frontier_flow_facts. Qed.
Print Assumptions C20_frontier_inputs_contract_level.

(* Function-level annotations.  A test is given by its annotation (a config transformer, with_devdoc),
   and by its depth and body as functions of the config it ends up with; run_tests resolves it against
   a base config and next_base (regenerated from run_tests) says which base the NEXT test starts from.
   For every prefix of tests with arbitrary annotations, a completed test yields what it yields as the
   only test of the run: annotations do not outlive their test. *)
Theorem C20_order_annotations :
  forall (cstep : Z -> Z -> list Z) (sd : Z -> Z) (cc s0 : Z) (pre : list atest) (t : atest),
    Forall (fun u => a_budget u = None \/ a_depth u (a_ann u cc) = O) pre ->
    a_budget t = None ->
    nth (length pre) (run_contract_a next_base frontier_cfg cstep sd cc s0 (pre ++ [t])) []
    = hd [] (run_contract_a next_base frontier_cfg cstep sd cc s0 [t]).
Proof. exact order_annotated. Qed.
Print Assumptions C20_order_annotations.

(* ... namely the specification's result for the test's own annotation applied to the CONTRACT's config *)
Theorem C20_alone_annotations :
  forall (cstep : Z -> Z -> list Z) (sd : Z -> Z) (cc s0 : Z) (t : atest),
    a_budget t = None ->
    hd [] (run_contract_a next_base frontier_cfg cstep sd cc s0 [t])
    = spec_paths (mkSystem (cstep cc) sd) (a_body t (a_ann t cc)) s0 (a_depth t (a_ann t cc)).
Proof. exact alone_annotated. Qed.
Print Assumptions C20_alone_annotations.

(* necessary: if the next test started from the config of the test that has just run
   (pick_cfg SrcTest), an un-annotated test FAILs (1) after an annotated one and PASSes (0) alone *)
Theorem C20_stacked_annotations_refuted :
  exists (cstep : Z -> Z -> list Z) (sd : Z -> Z) (cc s0 : Z) (t1 t2 : atest),
    a_budget t1 = None /\ a_budget t2 = None /\
    verdict_of (nth 1 (run_contract_a (pick_cfg SrcTest) frontier_cfg cstep sd cc s0 [t1; t2]) []) = 1 /\
    verdict_of (hd [] (run_contract_a (pick_cfg SrcTest) frontier_cfg cstep sd cc s0 [t2])) = 0.
Proof. exact stacked_annotations_refute_isolation. Qed.
Print Assumptions C20_stacked_annotations_refuted.

Example C20_nonvacuous_config :
  let cstep := fun e s => map (fun k => s + Z.of_nat k) (seq 1 (Z.to_nat e)) in
  let body := fun s => [if s <? 3 then 0 else 1] in
  let t1 := mkCTest 3 (mkTest 1 body None) in
  let t2 := mkCTest 2 (mkTest 2 body None) in
  run_contract_c frontier_cfg cstep (fun s => s) 2 0 [t1; t2] = [[0; 0; 0]; [0; 0; 0; 1; 1]] /\
  run_contract_c frontier_cfg cstep (fun s => s) 2 0 [t2] = [[0; 0; 0; 1; 1]] /\
  run_contract_c (pick_cfg SrcTest) cstep (fun s => s) 2 0 [t1; t2] = [[0; 0; 0; 1]; [0; 0; 0; 1; 1; 1]].
Proof. repeat split; vm_compute; reflexivity. Qed.

(* ---------------------------------------------------------------- fresh-symbol names *)

(* satisfiability, and with it every verdict, is invariant under any injective renaming of the
   symbols of a query; a counterexample of the renamed query pulled back along the renaming is
   a counterexample of the original one, and conversely *)
Theorem C20_rename :
  forall (r : Z -> Z) (q : term), inj_on r (vars q) ->
    (sat q <-> sat (rename r q)) /\
    (forall m', holds m' (rename r q) -> holds (fun n => m' (r n)) q) /\
    (forall m, holds m q -> holds (push r (vars q) m) (rename r q)).
Proof. exact rename_full. Qed.
Print Assumptions C20_rename.

(* for any sound and complete solver the "some query has a counterexample" bit of a test is
   the same for the renamed queries *)
Theorem C20_rename_verdict :
  forall (slv : solver),
    (forall q m, slv q = Some m -> holds m q) ->
    (forall q, slv q = None -> ~ sat q) ->
    forall (r : Z -> Z) (qs : list term),
      Forall (fun q => inj_on r (vars q)) qs ->
      has_cex slv (map (rename r) qs) = has_cex slv qs.
Proof. exact has_cex_rename. Qed.
Print Assumptions C20_rename_verdict.

(* injectivity is necessary: if two fresh symbols receive the same name a verdict changes *)
Theorem C20_rename_collision_refuted :
  exists (r : Z -> Z) (q : term), sat q /\ ~ sat (rename r q).
Proof. exact rename_collision_refuted. Qed.
Print Assumptions C20_rename_collision_refuted.


(* ---------------------------------------------------------------- sibling paths / derived states *)

(* In the object-store model, for each of the four tables t (create_branch, run_message,
   Path.branch, Path.extend_path -- in fact for any table), after the new state has been derived
   from the old one, ANY sequence of in-place writes performed through the OLD state (which
   keeps running as the other sibling) leaves the content of every field of the NEW state
   unchanged, down to the depth that field was copied. *)
Theorem C20_siblings :
  forall (t : list (string * copykind)) (h : heap) (olds : list val) (h1 : heap) (news : list val) (ops : list op),
    wf_heap h -> Forall (wf_val (length h)) olds -> derive t h olds = (h1, news) ->
    forall i d v', nth_error (depths t) i = Some d -> nth_error news i = Some v' ->
      view d (run_ops olds ops h1) v' = view d h1 v'.
Proof. exact old_writes_invisible. Qed.
Print Assumptions C20_siblings.

(* Conversely any sequence of writes through the NEW state (a sibling path, or a whole test
   started by run_message from the post-setUp / frontier state) leaves every field of the OLD
   state unchanged down to the copied depth, provided the old state's objects down to that depth
   (P) are private to it: nothing else refers to them, and they are not referred to again from
   below the copied levels.  Fields copied to depth 0 (Model.shared_fields) are the ones through
   which writes ARE visible (C20_nonvacuous_store shows one). *)
Theorem C20_siblings_converse :
  forall (t : list (string * copykind)) (h : heap) (olds : list val) (h1 : heap) (news : list val) (ops : list op)
         (P : nat -> Prop),
    wf_heap h -> Forall (wf_val (length h)) olds -> derive t h olds = (h1, news) ->
    (forall l, P l -> (l < length h)%nat) ->
    no_ptr_into P h ->
    (forall i d v, nth_error (depths t) i = Some d -> nth_error olds i = Some v ->
       inside d h P v /\ forall r, at_level d h v r -> ~ P r) ->
    forall i d v, nth_error (depths t) i = Some d -> nth_error olds i = Some v ->
      view d (run_ops news ops h1) v = view d h v.
Proof. exact new_writes_invisible. Qed.
Print Assumptions C20_siblings_converse.

(* a two-field state: field 0 (deep-copied) owns objects 1 -> 0, field 1 (shared) refers to
   object 2.  Writes through the copy: into its own inner object, and into the shared object. *)
Example C20_nonvacuous_store :
  let h : heap := [[(0, I 5)]; [(0, R 0%nat); (1, I 1)]; [(0, I 9)]] in
  let olds := [R 1%nat; R 2%nat] in
  let t := [("storage", Deep); ("known_keys", Share)]%string in
  let P := fun l => (l < 2)%nat in
  let ops := [OSet 0 [0] 0 77; OSet 1 [] 0 88] in
  wf_heap h /\ no_ptr_into P h /\
  (forall i d v, nth_error (depths t) i = Some d -> nth_error olds i = Some v ->
     inside d h P v /\ forall r, at_level d h v r -> ~ P r) /\
  view 8 (run_ops (snd (derive t h olds)) ops (fst (derive t h olds))) (R 1%nat) = view 8 h (R 1%nat) /\
  view 8 (run_ops (snd (derive t h olds)) ops (fst (derive t h olds))) (nth 0 (snd (derive t h olds)) (I 0))
    <> view 8 (fst (derive t h olds)) (nth 0 (snd (derive t h olds)) (I 0)) /\
  view 1 (run_ops (snd (derive t h olds)) ops (fst (derive t h olds))) (R 2%nat) <> view 1 h (R 2%nat).
Proof. exact store_example. Qed.

(* ---------------------------------------------------------------- copy tables (regenerated) *)

(* The continuations of a caller after a sub-call: the return callback installed by SEVM.call
   (call_known) / SEVM.create is run once per outcome of the callee and builds every continuation from
   the same caller state and the same backups (Gen/GenCallbackCopies.v, regenerated from sevm.py).
   Every field it re-establishes -- on every outcome (resume), on a failing outcome (restore), and the
   backups themselves -- is copied at least as deep as the interpreter mutates it in place, so
   C20_siblings / C20_siblings_converse (which hold for ANY table) apply to these derivations too. *)
Theorem C20_callback_tables_sufficient :
  fields_ok exec_need call_backup_table = true /\ fields_ok exec_need call_resume_table = true /\
  fields_ok exec_need call_restore_table = true /\
  fields_ok exec_need create_backup_table = true /\ fields_ok exec_need create_resume_table = true /\
  fields_ok exec_need create_restore_table = true.
Proof. exact callback_tables_sufficient. Qed.
Print Assumptions C20_callback_tables_sufficient.


(* every field of Exec / Path is copied at least as deep as it is mutated in place, in all four
   places where a state is derived from another one *)
Theorem C20_copy_tables_sufficient :
  table_ok exec_need create_branch_table = true /\
  table_ok exec_need run_message_table = true /\
  table_ok path_need path_branch_table = true /\
  table_ok path_need extend_path_table = true.
Proof. exact tables_sufficient. Qed.
Print Assumptions C20_copy_tables_sufficient.

(* exactly these fields are handed over by reference *)
Theorem C20_shared_fields :
  shared_fields create_branch_table = ["balance"; "call_sequence"; "callback"; "pgm"; "known_keys"; "known_sigs"]%string /\
  shared_fields run_message_table = ["balance"; "call_sequence"; "pgm"]%string /\
  shared_fields path_branch_table = ["solver"; "term_to_vars"]%string /\
  shared_fields extend_path_table = ["term_to_vars"]%string.
Proof. exact shared_exact. Qed.
Print Assumptions C20_shared_fields.

(* ---------------------------------------------------------------- one solver context per frontier state *)

(* run_message runs a test on every frontier state; the z3 solver that answers the feasibility
   queries of a run still holds the conditions of the path explored last when the run returns.  The
   solver context is explicit state of the model (Model/SolverLifeModel.v: scopes, add / push / pop as
   Path.branch / Path.activate use them); where the solver is created and emptied relative to the loop
   over the depths and the loop over the states is regenerated from __main__.py (Gen/GenSolverLife.v).
   For EVERY life cycle that creates the solver per state or empties it after every state, every
   condition language, negation and solver, every list of frontiers (any number of depths and states,
   any order, any branch conditions): the outcomes found on each state are those found on the state
   alone (a new solver holding the state's own conditions). *)
Theorem C20_state_runs_isolated :
  forall (cond : Type) (neg : cond -> cond) (sat : list cond -> bool) (L : life),
    isolating L = true ->
    forall fr : list (list (fstate cond)),
      life_run cond neg sat L fr = map (map (alone cond neg sat)) fr.
Proof. exact isolating_run_message. Qed.
Print Assumptions C20_state_runs_isolated.

(* ... and the life cycle of halmos is one of them (an obligation about the regenerated facts) *)
Theorem C20_solver_life_isolating : isolating gen_life = true.
Proof. reflexivity. Qed.
Print Assumptions C20_solver_life_isolating.

Theorem C20_state_runs_isolated_halmos :
  forall (cond : Type) (neg : cond -> cond) (sat : list cond -> bool) (fr : list (list (fstate cond))),
    life_run cond neg sat gen_life fr = map (map (alone cond neg sat)) fr.
Proof. exact (gen_life_isolating_of C20_solver_life_isolating). Qed.
Print Assumptions C20_state_runs_isolated_halmos.

(* the proviso is necessary: with ONE solver for all the states of a test (created before the loops,
   emptied after them) the second of two unconstrained states on which the test is
   `if (x == 5) fail else succeed` loses the succeeding path: `x == 5`, added by the path explored last
   on the first state, is still in the solver; likewise for a solver per depth *)
Theorem C20_shared_solver_refuted :
  exists (L : life) (fr : list (list (fstate eqlit))),
    l_created L = InTest /\ l_reset L = Some InTest /\
    l_life_run L fr <> map (map l_alone) fr.
Proof. exact shared_solver_refuted. Qed.
Print Assumptions C20_shared_solver_refuted.

Theorem C20_per_depth_solver_refuted :
  exists (fr : list (list (fstate eqlit))),
    l_life_run (mkLife InDepth (Some InDepth)) fr <> map (map l_alone) fr
    /\ l_life_run (mkLife InDepth None) fr <> map (map l_alone) fr.
Proof. exact per_depth_solver_refuted. Qed.
Print Assumptions C20_per_depth_solver_refuted.

Example C20_solver_life_nonvacuous :
  isolating (mkLife InState (Some InState)) = true /\ isolating (mkLife InState None) = true
  /\ isolating (mkLife InTest (Some InState)) = true /\ isolating (mkLife InTest (Some InTest)) = false
  /\ l_life_run (mkLife InTest (Some InState)) [[wit_state]; [wit_state]] = [[[0; 1]]; [[0; 1]]].
Proof. exact isolating_nonvacuous. Qed.

Example C20_nonvacuous :
  let sys := mkSystem (fun s => if s <? 3 then [s + 1; 2 * s + 1] else []) (fun s => s) in
  let inv := mkTest 2 (fun s => [if s <? 3 then 0 else 1]) None in
  let reg := mkTest 0 (fun s => [0; 1]) (Some 1%nat) in
  run_contract sys 0 [reg; inv; inv] = [[0]; [0; 0; 0; 1]; [0; 0; 0; 1]] /\
  spec_paths sys (t_body inv) 0 2 = [0; 0; 0; 1] /\
  inj_on (fun n => n + 100) (vars (TEq (TVar 1) (TAdd (TVar 2) (TConst 1)))) /\
  sat (TEq (TVar 1) (TAdd (TVar 2) (TConst 1))).
Proof.
  cbv zeta. repeat split; try (vm_compute; reflexivity).
  - intros x y _ _ H. apply Z.add_cancel_r in H. exact H.
  - exists (fun n => if n =? 1 then 1 else 0). vm_compute. discriminate.
Qed.
