(* C02 — No feasible behaviour is dropped during exploration.
   Statements only; proofs in Proofs/SymExecSound.v and Proofs/JumpiProofs.v. *)
From Coq Require Import ZArith List Bool.
From HV Require Import Base.Word Spec.Evm Gen.GenJumpi Model.SymExec Proofs.SymExecLemmas Proofs.SymExecSound Proofs.JumpiProofs.
Import ListNotations.
Open Scope Z_scope.

(* The only assumption about the solver: an `unsat` answer is truthful.  Answers `unknown`
   (timeouts at any --solver-timeout-branching) are unconstrained, so they are covered by
   construction.  Under it, for every program, loop bound and fuel: every valuation rho
   satisfying the current path condition satisfies the path condition of some reported leaf
   -- unless the bounded-loop log was written (reported as a warning: C10). *)
Theorem C02_complete :
  forall lim se rho oracle loop,
    (forall p c b, oracle p c b = R_UNSAT ->
       Forall (fun c => (eval rho (fst c) =? 0) = negb (snd c)) p ->
       ~ ((eval rho c =? 0) = negb b)) ->
    forall fuel sg,
      Forall (fun c => (eval rho (fst c) =? 0) = negb (snd c)) (ss_path sg) ->
      snd (sexec lim se oracle loop fuel sg) = true \/
      exists l, In l (fst (sexec lim se oracle loop fuel sg)) /\
                Forall (fun c => (eval rho (fst c) =? 0) = negb (snd c)) (l_path l).
Proof. exact sexec_complete. Qed.
Print Assumptions C02_complete.

(* completeness and soundness together: with no loop-bound log, every input is covered by a
   leaf that describes the reference interpreter's result (or is explicitly stuck / out of
   fuel) *)
Theorem C02_total :
  forall lim se rho oracle loop,
    Forall (fun b => 0 <= b < 256) (se_code se) ->
    oracle_sound rho oracle ->
    forall fuel sg s,
      R se rho sg s -> sat rho (ss_path sg) ->
      snd (sexec lim se oracle loop fuel sg) = false ->
      exists l n, In l (fst (sexec lim se oracle loop fuel sg)) /\ sat rho (l_path l) /\
                  outcome_matches se rho (l_kind l) (exec lim n (inst_env se rho) s).
Proof. exact sexec_total. Qed.
Print Assumptions C02_total.

(* the branch decision regenerated from SEVM.jumpi: a side is abandoned only if its check
   answered unsat or the loop-bound log is written, whatever else the solver answered *)
Theorem C02_jumpi_cover_true : forall ct cf vt vf loop,
  ct <> R_UNSAT ->
  d_follow_true (jumpi_decide ct cf vt vf loop) = true \/ d_logged (jumpi_decide ct cf vt vf loop) = true.
Proof. exact cover_true. Qed.
Print Assumptions C02_jumpi_cover_true.

Theorem C02_jumpi_cover_false : forall ct cf vt vf loop,
  cf <> R_UNSAT ->
  d_follow_false (jumpi_decide ct cf vt vf loop) = true \/ d_logged (jumpi_decide ct cf vt vf loop) = true.
Proof. exact cover_false. Qed.
Print Assumptions C02_jumpi_cover_false.

(* in particular an `unknown` answer never drops a side *)
Theorem C02_unknown_never_drops : forall cf vt vf loop,
  d_follow_true (jumpi_decide R_UNKNOWN cf vt vf loop) = true \/
  d_logged (jumpi_decide R_UNKNOWN cf vt vf loop) = true.
Proof. intros. apply cover_true. discriminate. Qed.
Print Assumptions C02_unknown_never_drops.

(* under the unrolling bound nothing is cut *)
Theorem C02_within_bound : forall ct cf vt vf loop,
  vt < loop -> vf < loop ->
  let d := jumpi_decide ct cf vt vf loop in
  d_follow_true d = d_potential_true d /\ d_follow_false d = d_potential_false d /\ d_logged d = false.
Proof. exact within_bound. Qed.
Print Assumptions C02_within_bound.

(* non-vacuity: an oracle that is sound for every valuation exists (never answers unsat),
   and the exploration of a branching program under it covers both sides *)
Definition always_unknown (p : list cond) (c : term) (b : bool) : Z := R_UNKNOWN.
Example C02_nonvacuous :
  (forall rho, oracle_sound rho always_unknown) /\
  jumpi_decide R_UNKNOWN R_UNKNOWN 0 0 2 = mkDecision true true false true true true.
Proof. split; [intros rho p c b H; discriminate | reflexivity]. Qed.

(* ---------------------------------------------------------------- with calls and creations
   The same for the model with CALL / CALLCODE / DELEGATECALL / STATICCALL / CREATE
   (Model/SymCalls.v): the insufficient-funds branch, every leaf of every callee frame and
   every continuation of the caller are covered; a side is dropped only on a truthful
   `unsat`. *)
From HV Require Import Model.SymCalls Proofs.SymCallsComplete.

Theorem C02_complete_calls :
  forall lim special oracle loop rho,
    oracle_sound rho oracle ->
    forall fuel fr w ctr sg,
      sat rho (ss_path sg) ->
      snd (sexec2 lim special oracle loop fuel fr w ctr sg) = true \/
      exists l, In l (fst (sexec2 lim special oracle loop fuel fr w ctr sg)) /\ sat rho (l2_path l).
Proof. exact sexec2_complete. Qed.
Print Assumptions C02_complete_calls.

(* ------------------------------------------------------------------------------------------
   The other branch points (Model/BranchPoints.v over Gen/GenBranch.v, regenerated from
   SEVM.resolve_address_alias, handle_insufficient_fund_case, transfer_value and the OP_JUMP arm of
   SEVM.run).  V is the type of valuations of the symbolic inputs, `path` the set of valuations
   satisfying the current path, `chk c` the solver's answer for path /\ c (0 = unsat). *)
From HV Require Import Gen.GenBranch Gen.GenAssertBranch Model.BranchPoints Proofs.BranchProofs.

(* address aliases: every valuation of the path whose (symbolic) address is not the test contract
   satisfies the condition of an explored alias -- an existing account or the empty-account
   alternative -- whatever the solver answers, as long as `unsat` is truthful *)
Theorem C02_alias_complete :
  forall (V : Type) (chk : cnd V -> Z) (path : V -> Prop) (accts : list Z) (test : Z) (tgt : V -> Z) (v : V),
    (forall c, chk c = 0 -> forall v', path v' -> c v' = false) ->
    path v -> tgt v <> test ->
    exists o c, In (o, c) (alias_alternatives V chk accts test tgt) /\ c v = true.
Proof. exact alias_complete. Qed.
Print Assumptions C02_alias_complete.

(* ... and the state is abandoned (InfeasiblePath) only when nothing but the test contract is left *)
Theorem C02_alias_dropped_only_if_infeasible :
  forall (V : Type) (chk : cnd V -> Z) (path : V -> Prop) (accts : list Z) (test : Z) (tgt : V -> Z),
    (forall c, chk c = 0 -> forall v', path v' -> c v' = false) ->
    alias_alternatives V chk accts test tgt = [] -> forall v, path v -> tgt v = test.
Proof. exact alias_dropped_only_if_infeasible. Qed.
Print Assumptions C02_alias_dropped_only_if_infeasible.

(* the full statement (without `tgt v <> test`) is false of the code: the test contract itself is
   never considered as an alias, so an input that makes a symbolic address equal to it is covered
   by no alternative (known finding C02-alias-excludes-test-contract) *)
Theorem C02_alias_test_contract_refuted :
  exists (accts : list Z) (test : Z) (tgt : bool -> Z) (chk : cnd bool -> Z) (v : bool),
    (forall c, chk c = 0 -> forall v', c v' = false) /\
    tgt v = test /\ In test accts /\
    forall o c, In (o, c) (alias_alternatives bool chk accts test tgt) -> c v = false.
Proof. exact alias_test_contract_dropped. Qed.
Print Assumptions C02_alias_test_contract_refuted.

(* insufficient funds: every valuation is covered by the failing or by the succeeding alternative *)
Theorem C02_funds_complete :
  forall (V : Type) (chk : cnd V -> Z) (path : V -> Prop) (bal val : V -> Z) (v : V),
    (forall c, chk c = 0 -> forall v', path v' -> c v' = false) ->
    path v ->
    exists fails c, In (fails, c) (funds_alternatives V chk bal val) /\ c v = true.
Proof. exact funds_complete. Qed.
Print Assumptions C02_funds_complete.

(* at the call sites of SEVM.call and SEVM.create (regenerated: funds_payer_same): the account whose balance decides
   the fork is the one debited on the side that goes ahead, so every valuation is covered whatever any OTHER
   account holds (a pranked CREATE that forks on the pranked sender and debits the creator would not be) *)
Theorem C02_funds_site_complete :
  forall (V : Type) (chk : cnd V -> Z) (path : V -> Prop) (balc bald val : V -> Z) (v : V),
    (forall c, chk c = 0 -> forall v', path v' -> c v' = false) ->
    path v ->
    exists fails c, In (fails, c) (funds_site_alternatives V chk balc bald val) /\ c v = true.
Proof. exact funds_site_complete. Qed.
Print Assumptions C02_funds_site_complete.

(* symbolic JUMP (--symbolic-jump): every valuation of the path is covered -- by the branch of its destination when
   that is a valid one, by the halting branch otherwise (the latter since the repair of the former finding
   C02-symbolic-jump-invalid-destination) *)
Theorem C02_symjump_complete :
  forall (V : Type) (chk : cnd V -> Z) (path : V -> Prop) (valid : list Z) (dst : V -> Z) l (v : V),
    (forall c, chk c = 0 -> forall v', path v' -> c v' = false) ->
    path v -> jump_alternatives V chk valid dst = Some l ->
    (exists t c, In (t, c) l /\ c v = true) \/
    (exists c, jump_invalid_alternative V chk valid dst = Some c /\ c v = true).
Proof. exact jump_complete. Qed.
Print Assumptions C02_symjump_complete.

Theorem C02_symjump_complete_valid :
  forall (V : Type) (chk : cnd V -> Z) (path : V -> Prop) (valid : list Z) (dst : V -> Z) l (v : V),
    (forall c, chk c = 0 -> forall v', path v' -> c v' = false) ->
    path v -> In (dst v) valid -> jump_alternatives V chk valid dst = Some l ->
    exists t c, In (t, c) l /\ c v = true.
Proof. exact jump_complete_valid. Qed.
Print Assumptions C02_symjump_complete_valid.

(* regression example of the former finding: the valuation that jumps to an invalid destination while a valid one is
   feasible is covered by no valid branch -- and now by the halting branch *)
Example C02_symjump_invalid_covered :
  exists (valid : list Z) (dst : bool -> Z) (chk : cnd bool -> Z) (v : bool) l c,
    (forall c, chk c = 0 -> forall v', c v' = false) /\
    ~ In (dst v) valid /\ jump_alternatives bool chk valid dst = Some l /\
    (forall t c, In (t, c) l -> c v = false) /\
    jump_invalid_alternative bool chk valid dst = Some c /\ c v = true.
Proof. exact jump_invalid_destination_covered. Qed.

(* vm.assert*: an input on which the asserted relation is false is always covered by a state that ends
   as a failed assertion (so the counterexample reaches the solver), and no input is dropped *)
Theorem C02_assert_failure_reported :
  forall (V : Type) (chk : cnd V -> Z) (path : V -> Prop) (c : cnd V) (v : V),
    (forall c', chk c' = 0 -> forall v', path v' -> c' v' = false) ->
    path v -> c v = false ->
    exists k, In (true, k) (assert_alternatives V chk c) /\ k v = true.
Proof. exact assert_failure_reported. Qed.
Print Assumptions C02_assert_failure_reported.

Theorem C02_assert_complete :
  forall (V : Type) (chk : cnd V -> Z) (c : cnd V) (v : V),
    exists f k, In (f, k) (assert_alternatives V chk c) /\ k v = true.
Proof. exact assert_complete. Qed.
Print Assumptions C02_assert_complete.

(* vm.addr / vm.sign: the distinctness constraints between the addresses of different key TERMS exclude no
   input, in particular none on which two terms hold the same key *)
Theorem C02_vmaddr_excludes_no_input :
  forall (V : Type) (f : Z -> Z) (known : list ((V -> Z) * (V -> Z))) (k : V -> Z) (v : V),
    (forall x y, f x = f y -> x = y) ->
    (forall ka, In ka known -> snd ka v = f (fst ka v)) ->
    forall c, In c (vmaddr_constraints V f known k) -> c v = true.
Proof. exact vmaddr_constraints_admit_every_input. Qed.
Print Assumptions C02_vmaddr_excludes_no_input.

(* non-vacuity: a two-account world, an oracle that answers `unknown` to everything, and a target
   that hits the second account: the covering alternative exists and names that account *)
Example C02_alias_nonvacuous :
  In (Some 9, is_alias bool (fun b : bool => if b then 7 else 9) 9)
     (alias_alternatives bool (fun _ => 2) [7; 9] 1 (fun b : bool => if b then 7 else 9)).
Proof. vm_compute. right. left. reflexivity. Qed.
