(* C15 — Invariant testing covers every bounded call sequence.
   Statements only; every proof is `exact <lemma from Proofs/FrontierProofs.v or Proofs/StateIdProofs.v>`.
   Gen/GenInvFilters.v (getter selectors, resolve_target_contracts, the sender restriction,
   resolve_target_selectors) is regenerated from /repo/src/halmos/__main__.py on every run;
   Gen/GenStateId.v (snapshot_state, the digest behind get_state_id) from cheatcodes.py and
   Gen/GenStorageDigest.v (StorageData.digest) from sevm.py. *)
From Coq Require Import String ZArith NArith List Bool.
From HV Require Import Base.Keccak Model.SetOps Gen.GenInvFilters Spec.FrontierSpec Model.FrontierModel Proofs.FrontierProofs.
From HV Require Import Spec.StateIdSpec Model.StateIdModel Gen.GenStorageDigest Gen.GenStateId Proofs.StateIdProofs.
From HV Require Import Spec.PathSliceSpec Model.PathSliceModel Gen.GenPathSlice Proofs.PathSliceProofs.
From HV Require Import Spec.ProbeSpec Gen.GenProbes Model.ProbeModel Proofs.ProbeProofs.
From HV Require Import Gen.GenSolverLife Spec.SolverLifeSpec Model.SolverLifeModel Proofs.SolverLifeProofs.
Import ListNotations.
Open Scope Z_scope.

(* ------------------------------------------------------------------ filters *)

(* every getter halmos calls on the test contract is addressed by the first four bytes of
   Keccak-256 of its signature (Keccak computed in Coq) *)
Theorem C15_getter_selectors :
  forall sel sig, In (sel, sig) filter_getters -> selector_of_sig sig = sel.
Proof. exact getters_selectors. Qed.
Print Assumptions C15_getter_selectors.

(* ... and the six forge-std getters are all among them *)
Theorem C15_getter_names :
  forallb (fun n => existsb (String.eqb n) (map snd filter_getters))
    ["targetSenders()"; "excludeSenders()"; "targetContracts()"; "excludeContracts()";
     "targetSelectors()"; "excludeSelectors()"]%string = true.
Proof. exact getters_names. Qed.
Print Assumptions C15_getter_names.

(* target contracts, for ALL filter sets, deployed sets and addresses: Foundry's rule
   (Spec/FrontierSpec.v: targeted if any else all deployed, minus excluded, plus every contract
   named in targetSelectors(); the test contract only when targeted) *)
Theorem C15_filters_contracts :
  forall tc ec tsel esel tsend esend deployed test a,
    NoDup (map fst tsel) ->
    (In a (resolve_target_contracts tc ec tsel deployed test) <->
     spec_target_contract (mkFilters tc ec tsel esel tsend esend) deployed test a).
Proof. exact resolve_contracts_spec. Qed.
Print Assumptions C15_filters_contracts.

(* "No target contracts available." is raised exactly when the resolved set is empty *)
Theorem C15_filters_contracts_none :
  forall tc ec tsel deployed test,
    resolve_target_contracts_raises tc ec tsel deployed test = true <->
    resolve_target_contracts tc ec tsel deployed test = [].
Proof. exact resolve_contracts_raises_spec. Qed.
Print Assumptions C15_filters_contracts_none.

(* senders, for ALL filter sets: targeted minus excluded; if none, anything not excluded *)
Theorem C15_filters_senders :
  forall tc ec tsel esel tsend esend s,
    sender_allowed tsend esend s = true <-> spec_sender (mkFilters tc ec tsel esel tsend esend) s.
Proof. exact sender_spec. Qed.
Print Assumptions C15_filters_senders.

(* selectors, coverage direction, for ALL filter sets and method tables: every function
   Foundry's rule selects (targeted selectors override exclusion; otherwise the state-changing,
   non-excluded, non-reserved ones) is selected by halmos *)
Theorem C15_filters_selectors_cover :
  forall f test a m,
    NoDup (map fst (f_tsel f)) -> NoDup (map fst (f_esel f)) ->
    ((has_sel_target f a -> sel_targeted f a (m_sel m)) /\
     (~ has_sel_target f a ->
        m_mut m <> 0 /\ m_mut m <> 1 /\ ~ sel_excluded f a (m_sel m) /\
        (a = test -> reserved_sig (m_sig m) = false))) ->
    forall methods, In m methods -> In m (resolve_target_selectors (f_tsel f) (f_esel f) a test methods).
Proof. exact selector_cover_in. Qed.
Print Assumptions C15_filters_selectors_cover.

(* selectors, exactly Foundry's rule, for ALL filter sets and methods: if selectors of a are targeted,
   exactly those (exclusion is ignored); otherwise the state-changing functions that are not excluded
   and, on the test contract, not reserved entry points *)
Theorem C15_filters_selectors :
  forall f test a m,
    NoDup (map fst (f_tsel f)) -> NoDup (map fst (f_esel f)) ->
    (selector_selected (f_tsel f) (f_esel f) a test m = true <->
     ((has_sel_target f a -> sel_targeted f a (m_sel m)) /\
      (~ has_sel_target f a ->
         m_mut m <> 0 /\ m_mut m <> 1 /\ ~ sel_excluded f a (m_sel m) /\
         (a = test -> reserved_sig (m_sig m) = false)))).
Proof. exact selector_exact. Qed.
Print Assumptions C15_filters_selectors.

(* the (account, function) pairs run from a frontier state (_compute_frontier's loop over
   resolve_target_contracts and run_target_contract's loop over resolve_target_selectors, both call
   sites regenerated): a function is run on an account exactly when the account is a resolved
   target and the function is selected for THAT ADDRESS among the methods of the account's contract --
   for all filter sets and all assignments of contracts to addresses (several accounts may be
   instances of one contract: methods_of a1 = methods_of a2) *)
Theorem C15_targets_per_address :
  forall tc ec tsel esel deployed test (methods_of : Z -> list method) a m,
    In (a, m) (frontier_targets tc ec tsel esel deployed test methods_of) <->
    In a (resolve_target_contracts tc ec tsel deployed test) /\ In m (methods_of a) /\
    selector_selected tsel esel a test m = true.
Proof. exact frontier_targets_in. Qed.
Print Assumptions C15_targets_per_address.

(* two instances (addresses 2 and 3) of one contract with nop() = 7 and hit() = 9, targetSelectors
   (2, [nop]) and (3, [hit]): each instance gets its own function *)
Example C15_targets_instances_nonvacuous :
  let ms := [mkMethod "nop()" 7 2; mkMethod "hit()" 9 2] in
  frontier_targets [] [] [(2, [7]); (3, [9])] [] [1; 2; 3] 1 (fun _ => ms) =
    [(2, mkMethod "nop()" 7 2); (3, mkMethod "hit()" 9 2)].
Proof. reflexivity. Qed.

(* ------------------------------------------------------------------ depth *)

(* --invariant-depth d gives frontiers 0..d; frontier 0 is the setUp state, which is all that
   is evaluated for d = 0 *)
Theorem C15_depth_count :
  forall SS Tgt targets sstep sid refresh (setup : SS) d,
    length (frontiers SS Tgt targets sstep sid refresh setup d) = S d /\
    nth 0 (frontiers SS Tgt targets sstep sid refresh setup d) [] = [setup] /\
    evaluated SS Tgt targets sstep sid refresh setup 0 = [setup].
Proof. exact depth_count. Qed.
Print Assumptions C15_depth_count.

(* every state of frontier k is the result of exactly k successful target transactions *)
Theorem C15_depth :
  forall SS Tgt targets sstep sid refresh (setup : SS) d k ss,
    In ss (nth k (frontiers SS Tgt targets sstep sid refresh setup d) []) ->
    deep SS Tgt targets sstep refresh setup k ss.
Proof. exact frontier_depth. Qed.
Print Assumptions C15_depth.

(* ------------------------------------------------------------------ coverage *)

(* For every symbolic engine, state-id function, timestamp refresh, concrete transition
   system and abstraction gamma:
     per-transaction completeness (C02)
   + identical state ids stand for the same concrete states (merge hypothesis, also w.r.t.
     the setUp state)
   => every admissible concrete sequence of k <= d successful calls ends in a state
      represented by a state of some frontier j <= k, on which the invariant is run. *)
Theorem C15_cover :
  forall (SS Tgt : Type) (targets : SS -> list Tgt) (sstep : SS -> Tgt -> list (outcome SS))
         (sid : SS -> Z) (refresh : SS -> SS -> SS) (setup : SS)
         (CS Tx : Type) (cstep : CS -> Tx -> option CS) (adm : CS -> Tx -> Prop)
         (gamma : SS -> CS -> Prop),
    (forall p a q b cs, sid a = sid b -> gamma (refresh q b) cs -> gamma (refresh p a) cs) ->
    (forall ss cs tx cs', gamma ss cs -> adm cs tx -> cstep cs tx = Some cs' ->
        exists t s', In t (targets ss) /\ In (OOk s') (sstep ss t) /\ gamma (refresh ss s') cs') ->
    forall d cs0 txs cs,
      gamma setup cs0 -> creach cstep adm cs0 txs cs -> (length txs <= d)%nat ->
      exists j ss, (j <= length txs)%nat /\
                   In ss (nth j (frontiers SS Tgt targets sstep sid refresh setup d) []) /\
                   In ss (evaluated SS Tgt targets sstep sid refresh setup d) /\
                   gamma ss cs.
Proof. exact cover_full. Qed.
Print Assumptions C15_cover.

(* PASS (no violation found by the invariant's own run on any evaluated state) implies the
   invariant holds after every admissible sequence of at most d calls *)
Theorem C15_pass_sound :
  forall (SS Tgt : Type) (targets : SS -> list Tgt) (sstep : SS -> Tgt -> list (outcome SS))
         (sid : SS -> Z) (refresh : SS -> SS -> SS) (setup : SS)
         (CS Tx : Type) (cstep : CS -> Tx -> option CS) (adm : CS -> Tx -> Prop)
         (gamma : SS -> CS -> Prop),
    (forall p a q b cs, sid a = sid b -> gamma (refresh q b) cs -> gamma (refresh p a) cs) ->
    (forall ss cs tx cs', gamma ss cs -> adm cs tx -> cstep cs tx = Some cs' ->
        exists t s', In t (targets ss) /\ In (OOk s') (sstep ss t) /\ gamma (refresh ss s') cs') ->
    forall (inv_c : CS -> bool) (inv_ok : SS -> bool),
    (forall ss cs, gamma ss cs -> inv_c cs = false -> inv_ok ss = false) ->
    forall d, verdict_pass SS Tgt targets sstep sid refresh setup inv_ok d = true ->
    forall cs0 txs cs, gamma setup cs0 -> creach cstep adm cs0 txs cs -> (length txs <= d)%nat ->
      inv_c cs = true.
Proof. exact pass_sound. Qed.
Print Assumptions C15_pass_sound.

(* ------------------------------------------------------------------ state identity *)

(* "States are merged only when they are identical."  For the state id as halmos computes it
   (snapshot_state with include_path, StorageData.digest -- both regenerated from the source),
   collision-free hashes and one storage layout: two sliced states with the same id have the same
   balance term, code, storage terms AND the same constraints on state variables (the conditions
   at the positions of the slice), for all states, any number of accounts / keys / conditions. *)
Theorem C15_state_id_identical :
  forall (D64 D128 : Type) (H64 : list (item D128) -> D64) (H128 : list Z -> D128),
    (forall x y, H64 x = H64 y -> x = y) -> (forall x y, H128 x = H128 y -> x = y) ->
    forall (n : nat) (a b : xstate) (i : list D64),
      uniform_keys n a -> uniform_keys n b ->
      snapshot_state H64 (storage_digest H128) true a = Some i ->
      snapshot_state H64 (storage_digest H128) true b = Some i ->
      x_balance a = x_balance b /\ x_code a = x_code b /\ storage_terms a = storage_terms b /\
      (forall c, constraint_of a c <-> constraint_of b c) /\
      (forall fld, fld <> BTimestamp -> x_block a fld = x_block b fld).
Proof. exact (@state_id_identical). Qed.
Print Assumptions C15_state_id_identical.

(* ... hence they stand for the same concrete states, whatever the meaning of terms and conditions *)
Theorem C15_state_id_meaning :
  forall (V val : Type) (ev : V -> Z -> val) (holds : V -> Z -> Prop) (a b : xstate),
    (x_balance a = x_balance b /\ x_code a = x_code b /\ storage_terms a = storage_terms b /\
     (forall c, constraint_of a c <-> constraint_of b c) /\
     (forall fld, fld <> BTimestamp -> x_block a fld = x_block b fld)) ->
    forall w, represents V val ev holds a w <-> represents V val ev holds b w.
Proof. exact same_identity_represents. Qed.
Print Assumptions C15_state_id_meaning.

(* conversely, identical states (the slice compared as a set) do get one id: revisits are recognised *)
Theorem C15_state_id_complete :
  forall (D64 D128 : Type) (H64 : list (item D128) -> D64) (H128 : list Z -> D128) (a b : xstate) (sa sb : list Z),
    x_balance a = x_balance b -> x_code a = x_code b -> x_storage a = x_storage b ->
    x_conds a = x_conds b -> x_sliced a = Some sa -> x_sliced b = Some sb ->
    (forall i, In i sa <-> In i sb) ->
    (forall fld, fld <> BTimestamp -> x_block a fld = x_block b fld) ->
    snapshot_state H64 (storage_digest H128) true a = snapshot_state H64 (storage_digest H128) true b /\
    snapshot_state H64 (storage_digest H128) true a <> None.
Proof. exact (@state_id_complete). Qed.
Print Assumptions C15_state_id_complete.

(* the two end states of  set(x) { s = x; if (x > 9) {} else {} }  (same storage term, the
   conditions `x > 9` / `not (x > 9)` at the same position of the slice) get different ids *)
Theorem C15_state_id_branch_conditions :
  forall (D64 D128 : Type) (H64 : list (item D128) -> D64) (H128 : list Z -> D128),
    (forall x y, H64 x = H64 y -> x = y) -> (forall x y, H128 x = H128 y -> x = y) ->
    x_storage BranchInst.hi = x_storage BranchInst.lo /\ x_sliced BranchInst.hi = x_sliced BranchInst.lo /\
    snapshot_state H64 (storage_digest H128) true BranchInst.hi <> snapshot_state H64 (storage_digest H128) true BranchInst.lo.
Proof. exact branch_conditions_distinct. Qed.
Print Assumptions C15_state_id_branch_conditions.

(* C15_cover with the state id of halmos in place of an abstract one: the merge hypothesis
   becomes "what a refreshed state stands for depends only on its balance / code / storage terms
   and its constraints on state variables" (this is what fails for block fields, see below) *)
Theorem C15_cover_snapshot :
  forall (SS Tgt : Type) (targets : SS -> list Tgt) (sstep : SS -> Tgt -> list (outcome SS))
         (refresh : SS -> SS -> SS) (setup : SS)
         (CS Tx : Type) (cstep : CS -> Tx -> option CS) (adm : CS -> Tx -> Prop)
         (gamma : SS -> CS -> Prop)
         (D64 D128 : Type) (H64 : list (item D128) -> D64) (H128 : list Z -> D128)
         (enc : option (list D64) -> Z) (view : SS -> xstate) (n : nat),
    (forall x y, H64 x = H64 y -> x = y) -> (forall x y, H128 x = H128 y -> x = y) ->
    (forall x y, enc x = enc y -> x = y) ->
    (forall s, x_sliced (view s) <> None) -> (forall s, uniform_keys n (view s)) ->
    (forall p a q b cs,
        (x_balance (view a) = x_balance (view b) /\ x_code (view a) = x_code (view b) /\
         storage_terms (view a) = storage_terms (view b) /\
         (forall c, constraint_of (view a) c <-> constraint_of (view b) c) /\
         (forall fld, fld <> BTimestamp -> x_block (view a) fld = x_block (view b) fld)) ->
        gamma (refresh q b) cs -> gamma (refresh p a) cs) ->
    (forall ss cs tx cs', gamma ss cs -> adm cs tx -> cstep cs tx = Some cs' ->
        exists t s', In t (targets ss) /\ In (OOk s') (sstep ss t) /\ gamma (refresh ss s') cs') ->
    forall d cs0 txs cs,
      gamma setup cs0 -> creach cstep adm cs0 txs cs -> (length txs <= d)%nat ->
      exists j ss, (j <= length txs)%nat /\
                   In ss (nth j (frontiers SS Tgt targets sstep
                                   (fun s => enc (snapshot_state H64 (storage_digest H128) true (view s))) refresh setup d) []) /\
                   In ss (evaluated SS Tgt targets sstep
                                   (fun s => enc (snapshot_state H64 (storage_digest H128) true (view s))) refresh setup d) /\
                   gamma ss cs.
Proof. exact cover_snapshot. Qed.
Print Assumptions C15_cover_snapshot.

(* the hypotheses on the hashes are satisfiable (the identity), with states that are told apart *)
Example C15_state_id_nonvacuous :
  (forall x y : list (item (list Z)), (fun v => v) x = (fun v => v) y -> x = y) /\
  uniform_keys 3 BranchInst.hi /\
  snapshot_state (fun v => v) (storage_digest (fun v => v)) true BranchInst.hi =
    Some [[W 1]; [W 10; W 77]; [W 10; Dg [0; 0; 0; 100]]; [W 200; W 0; W 0; W 0; W 0; W 0; W 0]] /\
  snapshot_state (fun v => v) (storage_digest (fun v => v)) true BranchInst.lo =
    Some [[W 1]; [W 10; W 77]; [W 10; Dg [0; 0; 0; 100]]; [W 201; W 0; W 0; W 0; W 0; W 0; W 0]] /\
  snapshot_state (D64 := list (item (list Z))) (fun v => v) (storage_digest (fun v => v)) true (mkX 1 [] [] [] None (fun _ => 0)) = None.
Proof.
  split; [intros x y E; exact E |]. split; [| repeat split; reflexivity].
  intros addr st k v I1 I2. destruct I1 as [I1 | []]. injection I1 as _ I1. subst st.
  destruct I2 as [I2 | []]. injection I2 as I2 _. subst k. reflexivity.
Qed.

(* ------------------------------------------------------------------ the slice: which conditions are constraints on the state *)

(* The dependency update of Path.append and Path.slice (a worklist closure) are regenerated from
   sevm.py.  For every path (any number of conditions, any variable sets) and every set of state
   variables, the loop ends within slice_fuel iterations and the slice is EXACTLY the set of conditions
   that constrain the state (Spec/PathSliceSpec.v constrains: they mention a state variable, or share a
   variable with a condition that constrains the state -- in either order of appearance). *)
Theorem C15_slice_closure :
  forall (vs : list (list Z)) (S : list Z),
    exists r, p_slice (p_build vs) vs S (slice_fuel vs S) = Some r /\ forall i, In i r <-> constrains vs S i.
Proof. exact slice_closure_total. Qed.
Print Assumptions C15_slice_closure.

(* ... and whatever fuel is given, a result is that closure *)
Theorem C15_slice_closure_any_fuel :
  forall (vs : list (list Z)) (S : list Z) (fuel : nat) (r : list nat),
    p_slice (p_build vs) vs S fuel = Some r -> forall i, In i r <-> constrains vs S i.
Proof. exact slice_closure. Qed.
Print Assumptions C15_slice_closure_any_fuel.

(* set(x) payable { s = x; require(x == msg.value); if (msg.value > 9) {} else {} }: condition 1
   (`msg.value > 9`) constrains the stored x through the EARLIER condition 0 (`x == msg.value`): both are sliced *)
Example C15_slice_later_condition :
  p_slice (p_build ForwardInst.vs) ForwardInst.vs ForwardInst.S 10 = Some [1%nat; 0%nat] /\
  constrains ForwardInst.vs ForwardInst.S 1.
Proof. exact slice_forward_example. Qed.

(* ------------------------------------------------------------------ the setUp state; probes and the verdict *)

(* A post-state with the id of the setUp state is explored (the setUp state is not registered as
   visited: it keeps the concrete setUp timestamp, the post-state gets a fresh one).
   Target: noop(); late() = require(block.timestamp >= 100); x = 1.  noop() at t=1, then late() at t=100
   reaches x = 1, and an evaluated state stands for it. *)
Theorem C15_setup_state_not_merged :
  (forall ss cs tx cs', TsInst.gamma ss cs -> TsInst.adm cs tx -> TsInst.cstep cs tx = Some cs' ->
     exists t s', In t (TsInst.targets ss) /\ In (OOk s') (TsInst.sstep ss t) /\ TsInst.gamma (TsInst.refresh ss s') cs') /\
  TsInst.gamma TsInst.setup (0, 1) /\
  creach TsInst.cstep TsInst.adm (0, 1) [TsInst.Noop 100; TsInst.Late 100] (1, 100) /\
  evaluated TsInst.sst TsInst.tgt TsInst.targets TsInst.sstep TsInst.sid TsInst.refresh TsInst.setup 2 =
    [TsInst.setup; TsInst.mkS 0 1 false; TsInst.mkS 1 100 false] /\
  TsInst.gamma (TsInst.mkS 1 100 false) (1, 100).
Proof. exact setup_state_not_merged. Qed.
Print Assumptions C15_setup_state_not_merged.

(* F12: an assertion failure inside a target (inc(); bad() with x == 1) is only recorded as a
   probe; the verdict of the invariant test does not depend on it *)
Theorem C15_probe_verdict_refuted :
  probes Z ProbeInst.tgt ProbeInst.targets ProbeInst.sstep ProbeInst.sid ProbeInst.refresh ProbeInst.setup 2 = [7] /\
  verdict_pass Z ProbeInst.tgt ProbeInst.targets ProbeInst.sstep ProbeInst.sid ProbeInst.refresh ProbeInst.setup ProbeInst.inv_ok 2 = true.
Proof. exact probe_refuted. Qed.
Print Assumptions C15_probe_verdict_refuted.

(* ------------------------------------------------------------------ assertions inside targets are checked *)

(* The decisions of _compute_frontier / CounterexampleHandler about ContractContext.probes_reported
   (skip a failing path of a marked function; mark at submission?; mark / output in the callback, given
   the solver's answer) are regenerated from __main__.py.  For every sequence of failing paths and of
   arriving answers -- any number of candidates, any interleaving with the solver threads -- a function
   is marked as reported only when a counterexample for it has been output ... *)
Theorem C15_probe_marked_only_with_cex :
  forall (evs : list pevent) (q : Z),
    In q (ps_reported (prun evs)) -> In q (ps_cex (prun evs)).
Proof. exact marked_only_with_cex. Qed.
Print Assumptions C15_probe_marked_only_with_cex.

(* ... hence, when every submitted query is answered, every function with a genuine failing path (the
   solver finds a model) gets a counterexample -- whichever refuted candidates of the same function were
   seen before it *)
Theorem C15_probe_genuine_reported :
  forall (evs : list pevent) (p : Z),
    (forall pre e post, evs = pre ++ e :: post ->
       length (ps_submitted (prun (pre ++ [e]))) = S (length (ps_submitted (prun pre))) ->
       In (EDone (length (ps_submitted (prun pre)))) post) ->
    (exists pre post, evs = pre ++ EPath p RSat true :: post) ->
    In p (ps_cex (prun evs)).
Proof. exact genuine_reported. Qed.
Print Assumptions C15_probe_genuine_reported.

(* check() fails first on a path that the solver refutes (answer arrives), then genuinely: the second
   candidate is submitted and reported *)
Example C15_probe_nonvacuous :
  ps_flags (prun [EPath 7 RUnsat false; EDone 0; EPath 7 RSat true; EDone 1; EPath 7 RSat true]) = [true; true; false] /\
  ps_cex (prun [EPath 7 RUnsat false; EDone 0; EPath 7 RSat true; EDone 1; EPath 7 RSat true]) = [7].
Proof. split; reflexivity. Qed.

(* ------------------------------------------------------------------ non-vacuity *)
(* the hypotheses of C15_cover are satisfiable with a non-trivial exploration (a counter with
   inc(), injective state id): three frontiers of one state each *)
Example C15_cover_nonvacuous :
  (forall p a q b cs, CounterInst.sid a = CounterInst.sid b -> CounterInst.refresh q b = cs -> CounterInst.refresh p a = cs) /\
  (forall ss cs tx cs', ss = cs -> True -> CounterInst.cstep cs tx = Some cs' ->
     exists t s', In t (CounterInst.targets ss) /\ In (OOk s') (CounterInst.sstep ss t) /\ CounterInst.refresh ss s' = cs') /\
  frontiers Z unit CounterInst.targets CounterInst.sstep CounterInst.sid CounterInst.refresh CounterInst.setup 2 = [[0]; [1]; [2]] /\
  creach CounterInst.cstep (fun _ _ => True) 0 [tt; tt] 2.
Proof.
  split; [|split; [|split]].
  - unfold CounterInst.sid, CounterInst.refresh. intros; congruence.
  - intros ss cs tx cs' Heq _ Hs. subst. exists tt, cs'. split; [left; reflexivity|].
    unfold CounterInst.cstep in Hs. inversion Hs. split; [left; reflexivity | reflexivity].
  - reflexivity.
  - eapply creach_cons; [exact I | reflexivity |]. eapply creach_cons; [exact I | reflexivity | constructor].
Qed.

Example C15_filters_nonvacuous :
  resolve_target_contracts [] [3] [(4, [9])] [1; 2; 3] 1 = [2; 4] /\
  sender_allowed [7; 8] [8] 7 = true /\ sender_allowed [7; 8] [8] 9 = false /\ sender_allowed [8] [8] 9 = true.
Proof. repeat split; reflexivity. Qed.

(* ------------------------------------------------------------------ the invariant's own run on every frontier state *)

(* C15_cover puts every bounded call sequence into a frontier state on which "the invariant is run";
   C15_pass_sound takes the completeness of that run as a function of the state ALONE (inv_ok).
   run_message runs the invariant on every state of every frontier with a z3 solver that still holds
   the conditions of the path explored last when a run returns; the solver context is explicit state of
   the model (Model/SolverLifeModel.v), where the solver is created / emptied relative to the two loops
   is regenerated from __main__.py (Gen/GenSolverLife.v).  For every condition language with a sound
   and complete solver, all frontiers (any number of depths and states, any order), every state in them
   and every concrete state it stands for: the outcome the invariant (a decision tree over conditions,
   Spec/SolverLifeSpec.v) has on that concrete state is among the outcomes run_message reports for the
   state -- in particular a violation is. *)
Theorem C15_invariant_run_covers_state :
  forall (cond env : Type) (neg : cond -> cond) (sat : list cond -> bool) (holds : env -> cond -> bool),
    (forall cs, sat cs = true <-> exists e, satisfies holds e cs) ->
    (forall e c, holds e (neg c) = negb (holds e c)) ->
    forall (fr : list (list (fstate cond))) (d i : nat) (st : fstate cond) (e : env),
      at_pos fr d i = Some st -> satisfies holds e (f_slice st) ->
      exists outs, at_pos (life_run cond neg sat gen_life fr) d i = Some outs /\
                   In (run_env holds e (f_prog st)) outs.
Proof. exact (gen_life_covers_of (eq_refl true)). Qed.
Print Assumptions C15_invariant_run_covers_state.

(* the run on a state alone finds exactly the outcomes the invariant has on the state (when the
   state's own constraints are satisfiable) *)
Theorem C15_invariant_run_alone_exact :
  forall (cond env : Type) (neg : cond -> cond) (sat : list cond -> bool) (holds : env -> cond -> bool),
    (forall cs, sat cs = true <-> exists e, satisfies holds e cs) ->
    (forall e c, holds e (neg c) = negb (holds e c)) ->
    forall (st : fstate cond) (o : Z),
      (exists e, satisfies holds e (f_slice st)) ->
      (In o (alone cond neg sat st) <-> outcome_of holds st o).
Proof. exact alone_exact. Qed.
Print Assumptions C15_invariant_run_alone_exact.

(* with one solver for all the states of a test, a state whose own constraint contradicts what the last
   path of the previous state left behind is not explored at all: its violation (outcome 1) is lost *)
Theorem C15_shared_solver_loses_violation :
  exists (fr : list (list (fstate eqlit))) (d i : nat) (st : fstate eqlit),
    at_pos fr d i = Some st /\ In 1 (l_alone st) /\
    at_pos (l_life_run (mkLife InTest (Some InTest)) fr) d i = Some [].
Proof. exact shared_solver_state_lost. Qed.
Print Assumptions C15_shared_solver_loses_violation.
