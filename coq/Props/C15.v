(* C15 — Invariant testing covers every bounded call sequence.
   Statements only; every proof is `exact <lemma from Proofs/FrontierProofs.v>`.
   Gen/GenInvFilters.v (getter selectors, resolve_target_contracts, the sender restriction,
   resolve_target_selectors) is regenerated from /repo/src/halmos/__main__.py on every run. *)
From Coq Require Import String ZArith NArith List Bool.
From HV Require Import Base.Keccak Model.SetOps Gen.GenInvFilters Spec.FrontierSpec Model.FrontierModel Proofs.FrontierProofs.
Import ListNotations.
Open Scope Z_scope.

(* ------------------------------------------------------------------ filters *)

(* every getter halmos calls on the test contract is addressed by the first four bytes of
   Keccak-256 of its signature (Keccak computed in Coq) *)
Theorem C15_getter_selectors :
  forall sel sig, In (sel, sig) filter_getters -> selector_of_sig sig = sel.
Proof. exact getters_selectors. Qed.
Print Assumptions C15_getter_selectors.

(* ... and the six forge-std getters are all among them *)
Theorem C15_getter_names :
  forallb (fun n => existsb (String.eqb n) (map snd filter_getters))
    ["targetSenders()"; "excludeSenders()"; "targetContracts()"; "excludeContracts()";
     "targetSelectors()"; "excludeSelectors()"]%string = true.
Proof. exact getters_names. Qed.
Print Assumptions C15_getter_names.

(* target contracts, for ALL filter sets, deployed sets and addresses: Foundry's rule
   (Spec/FrontierSpec.v: targeted if any else all deployed, minus excluded, plus every contract
   named in targetSelectors(); the test contract only when targeted) *)
Theorem C15_filters_contracts :
  forall tc ec tsel esel tsend esend deployed test a,
    NoDup (map fst tsel) ->
    (In a (resolve_target_contracts tc ec tsel deployed test) <->
     spec_target_contract (mkFilters tc ec tsel esel tsend esend) deployed test a).
Proof. exact resolve_contracts_spec. Qed.
Print Assumptions C15_filters_contracts.

(* "No target contracts available." is raised exactly when the resolved set is empty *)
Theorem C15_filters_contracts_none :
  forall tc ec tsel deployed test,
    resolve_target_contracts_raises tc ec tsel deployed test = true <->
    resolve_target_contracts tc ec tsel deployed test = [].
Proof. exact resolve_contracts_raises_spec. Qed.
Print Assumptions C15_filters_contracts_none.

(* senders, for ALL filter sets: targeted minus excluded; if none, anything not excluded *)
Theorem C15_filters_senders :
  forall tc ec tsel esel tsend esend s,
    sender_allowed tsend esend s = true <-> spec_sender (mkFilters tc ec tsel esel tsend esend) s.
Proof. exact sender_spec. Qed.
Print Assumptions C15_filters_senders.

(* selectors, coverage direction, for ALL filter sets and method tables: every function
   Foundry's rule selects (targeted selectors override exclusion; otherwise the state-changing,
   non-excluded, non-reserved ones) is selected by halmos *)
Theorem C15_filters_selectors_cover :
  forall f test a m,
    NoDup (map fst (f_tsel f)) -> NoDup (map fst (f_esel f)) ->
    ((has_sel_target f a -> sel_targeted f a (m_sel m)) /\
     (~ has_sel_target f a ->
        m_mut m <> 0 /\ m_mut m <> 1 /\ ~ sel_excluded f a (m_sel m) /\
        (a = test -> reserved_sig (m_sig m) = false))) ->
    forall methods, In m methods -> In m (resolve_target_selectors (f_tsel f) (f_esel f) a test methods).
Proof. exact selector_cover_in. Qed.
Print Assumptions C15_filters_selectors_cover.

(* exactness holds when selectors of a are targeted, or none of a's is excluded ... *)
Theorem C15_filters_selectors_partial :
  forall f test a m,
    NoDup (map fst (f_tsel f)) -> NoDup (map fst (f_esel f)) ->
    (has_sel_target f a \/ forall s, ~ sel_excluded f a s) ->
    (selector_selected (f_tsel f) (f_esel f) a test m = true <->
     spec_selector f test a (m_sig m) (m_sel m) (m_mut m)).
Proof. exact selector_exact. Qed.
Print Assumptions C15_filters_selectors_partial.

(* ... and fails otherwise: with excludeSelectors for a contract, its view/pure functions
   (and, on the test contract, setUp()/test_*/invariant_* ...) become targets *)
Theorem C15_filters_selectors_refuted :
  exists f test a m,
    NoDup (map fst (f_tsel f)) /\ NoDup (map fst (f_esel f)) /\
    selector_selected (f_tsel f) (f_esel f) a test m = true /\
    ~ spec_selector f test a (m_sig m) (m_sel m) (m_mut m).
Proof. exact selector_exact_refuted. Qed.
Print Assumptions C15_filters_selectors_refuted.

(* ------------------------------------------------------------------ depth *)

(* --invariant-depth d gives frontiers 0..d; frontier 0 is the setUp state, which is all that
   is evaluated for d = 0 *)
Theorem C15_depth_count :
  forall SS Tgt targets sstep sid refresh (setup : SS) d,
    length (frontiers SS Tgt targets sstep sid refresh setup d) = S d /\
    nth 0 (frontiers SS Tgt targets sstep sid refresh setup d) [] = [setup] /\
    evaluated SS Tgt targets sstep sid refresh setup 0 = [setup].
Proof. exact depth_count. Qed.
Print Assumptions C15_depth_count.

(* every state of frontier k is the result of exactly k successful target transactions *)
Theorem C15_depth :
  forall SS Tgt targets sstep sid refresh (setup : SS) d k ss,
    In ss (nth k (frontiers SS Tgt targets sstep sid refresh setup d) []) ->
    deep SS Tgt targets sstep refresh setup k ss.
Proof. exact frontier_depth. Qed.
Print Assumptions C15_depth.

(* ------------------------------------------------------------------ coverage *)

(* For every symbolic engine, state-id function, timestamp refresh, concrete transition
   system and abstraction gamma:
     per-transaction completeness (C02)
   + identical state ids stand for the same concrete states (merge hypothesis, also w.r.t.
     the setUp state)
   => every admissible concrete sequence of k <= d successful calls ends in a state
      represented by a state of some frontier j <= k, on which the invariant is run. *)
Theorem C15_cover :
  forall (SS Tgt : Type) (targets : SS -> list Tgt) (sstep : SS -> Tgt -> list (outcome SS))
         (sid : SS -> Z) (refresh : SS -> SS -> SS) (setup : SS)
         (CS Tx : Type) (cstep : CS -> Tx -> option CS) (adm : CS -> Tx -> Prop)
         (gamma : SS -> CS -> Prop),
    (forall p a q b cs, sid a = sid b -> gamma (refresh q b) cs -> gamma (refresh p a) cs) ->
    (forall ss cs tx cs', gamma ss cs -> adm cs tx -> cstep cs tx = Some cs' ->
        exists t s', In t (targets ss) /\ In (OOk s') (sstep ss t) /\ gamma (refresh ss s') cs') ->
    (forall q b cs, sid b = sid setup -> gamma (refresh q b) cs -> gamma setup cs) ->
    forall d cs0 txs cs,
      gamma setup cs0 -> creach cstep adm cs0 txs cs -> (length txs <= d)%nat ->
      exists j ss, (j <= length txs)%nat /\
                   In ss (nth j (frontiers SS Tgt targets sstep sid refresh setup d) []) /\
                   In ss (evaluated SS Tgt targets sstep sid refresh setup d) /\
                   gamma ss cs.
Proof. exact cover_full. Qed.
Print Assumptions C15_cover.

(* PASS (no violation found by the invariant's own run on any evaluated state) implies the
   invariant holds after every admissible sequence of at most d calls *)
Theorem C15_pass_sound :
  forall (SS Tgt : Type) (targets : SS -> list Tgt) (sstep : SS -> Tgt -> list (outcome SS))
         (sid : SS -> Z) (refresh : SS -> SS -> SS) (setup : SS)
         (CS Tx : Type) (cstep : CS -> Tx -> option CS) (adm : CS -> Tx -> Prop)
         (gamma : SS -> CS -> Prop),
    (forall p a q b cs, sid a = sid b -> gamma (refresh q b) cs -> gamma (refresh p a) cs) ->
    (forall ss cs tx cs', gamma ss cs -> adm cs tx -> cstep cs tx = Some cs' ->
        exists t s', In t (targets ss) /\ In (OOk s') (sstep ss t) /\ gamma (refresh ss s') cs') ->
    (forall q b cs, sid b = sid setup -> gamma (refresh q b) cs -> gamma setup cs) ->
    forall (inv_c : CS -> bool) (inv_ok : SS -> bool),
    (forall ss cs, gamma ss cs -> inv_c cs = false -> inv_ok ss = false) ->
    forall d, verdict_pass SS Tgt targets sstep sid refresh setup inv_ok d = true ->
    forall cs0 txs cs, gamma setup cs0 -> creach cstep adm cs0 txs cs -> (length txs <= d)%nat ->
      inv_c cs = true.
Proof. exact pass_sound. Qed.
Print Assumptions C15_pass_sound.

(* ------------------------------------------------------------------ the merge hypothesis is necessary *)

(* F9: the state id ignores block fields.  Target: r() = vm.roll(5); n() = require(block.number == 5); x = 1.
   The engine is per-transaction complete, yet r(); n() -- which breaks `x != 1` -- is not
   represented at depth 2: only the setUp state is evaluated and the verdict is PASS. *)
Theorem C15_merge_identical_refuted :
  (forall ss cs tx cs', ss = cs -> True -> RollInst.cstep cs tx = Some cs' ->
     exists t s', In t (RollInst.targets ss) /\ In (OOk s') (RollInst.sstep ss t) /\ RollInst.refresh ss s' = cs') /\
  creach RollInst.cstep (fun _ _ => True) RollInst.setup [RollInst.Roll; RollInst.Need] (1, 5) /\
  RollInst.inv_ok (1, 5) = false /\
  evaluated RollInst.St RollInst.tx RollInst.targets RollInst.sstep RollInst.sid RollInst.refresh RollInst.setup 2 = [RollInst.setup] /\
  verdict_pass RollInst.St RollInst.tx RollInst.targets RollInst.sstep RollInst.sid RollInst.refresh RollInst.setup RollInst.inv_ok 2 = true.
Proof. exact merge_identical_refuted. Qed.
Print Assumptions C15_merge_identical_refuted.

(* A post-state whose id equals the setUp state's is dropped although its timestamp may
   advance and the setUp state's cannot.  Target: noop(); late() = require(block.timestamp >= 100); x = 1.
   noop() at t=1, then late() at t=100 is admissible and reaches x = 1; no evaluated state stands for it. *)
Theorem C15_merge_setup_refuted :
  (forall ss cs tx cs', TsInst.gamma ss cs -> TsInst.adm cs tx -> TsInst.cstep cs tx = Some cs' ->
     exists t s', In t (TsInst.targets ss) /\ In (OOk s') (TsInst.sstep ss t) /\ TsInst.gamma (TsInst.refresh ss s') cs') /\
  TsInst.gamma TsInst.setup (0, 1) /\
  creach TsInst.cstep TsInst.adm (0, 1) [TsInst.Noop 100; TsInst.Late 100] (1, 100) /\
  evaluated TsInst.sst TsInst.tgt TsInst.targets TsInst.sstep TsInst.sid TsInst.refresh TsInst.setup 2 = [TsInst.setup] /\
  ~ TsInst.gamma TsInst.setup (1, 100).
Proof. exact merge_setup_refuted. Qed.
Print Assumptions C15_merge_setup_refuted.

(* F12: an assertion failure inside a target (inc(); bad() with x == 1) is only recorded as a
   probe; the verdict of the invariant test does not depend on it *)
Theorem C15_probe_verdict_refuted :
  probes Z ProbeInst.tgt ProbeInst.targets ProbeInst.sstep ProbeInst.sid ProbeInst.refresh ProbeInst.setup 2 = [7] /\
  verdict_pass Z ProbeInst.tgt ProbeInst.targets ProbeInst.sstep ProbeInst.sid ProbeInst.refresh ProbeInst.setup ProbeInst.inv_ok 2 = true.
Proof. exact probe_refuted. Qed.
Print Assumptions C15_probe_verdict_refuted.

(* ------------------------------------------------------------------ non-vacuity *)
(* the hypotheses of C15_cover are satisfiable with a non-trivial exploration (a counter with
   inc(), injective state id): three frontiers of one state each *)
Example C15_cover_nonvacuous :
  (forall p a q b cs, CounterInst.sid a = CounterInst.sid b -> CounterInst.refresh q b = cs -> CounterInst.refresh p a = cs) /\
  (forall ss cs tx cs', ss = cs -> True -> CounterInst.cstep cs tx = Some cs' ->
     exists t s', In t (CounterInst.targets ss) /\ In (OOk s') (CounterInst.sstep ss t) /\ CounterInst.refresh ss s' = cs') /\
  (forall q b cs, CounterInst.sid b = CounterInst.sid CounterInst.setup -> CounterInst.refresh q b = cs -> CounterInst.setup = cs) /\
  frontiers Z unit CounterInst.targets CounterInst.sstep CounterInst.sid CounterInst.refresh CounterInst.setup 2 = [[0]; [1]; [2]] /\
  creach CounterInst.cstep (fun _ _ => True) 0 [tt; tt] 2.
Proof.
  split; [|split; [|split; [|split]]].
  - unfold CounterInst.sid, CounterInst.refresh. intros; congruence.
  - intros ss cs tx cs' Heq _ Hs. subst. exists tt, cs'. split; [left; reflexivity|].
    unfold CounterInst.cstep in Hs. inversion Hs. split; [left; reflexivity | reflexivity].
  - unfold CounterInst.sid, CounterInst.refresh. intros; congruence.
  - reflexivity.
  - eapply creach_cons; [exact I | reflexivity |]. eapply creach_cons; [exact I | reflexivity | constructor].
Qed.

Example C15_filters_nonvacuous :
  resolve_target_contracts [] [3] [(4, [9])] [1; 2; 3] 1 = [2; 4] /\
  sender_allowed [7; 8] [8] 7 = true /\ sender_allowed [7; 8] [8] 9 = false /\ sender_allowed [8] [8] 9 = true.
Proof. repeat split; reflexivity. Qed.
