(* C04 — Counterexamples marked valid are reproducible (the parts decided here: the
   printed values are exactly the solver's model values; a model that still depends on an
   arithmetic abstraction is never labelled valid; refinement happens at most once).
   Statements only; proofs are `exact <lemma from Proofs/SolveProofs.v>`.
   Gen/GenRefine.v (parse_const_value arms, is_model_valid marker, halmos_var_pattern
   prefixes / value syntaxes) is regenerated from /repo/src/halmos/solve.py on every run. *)
From Coq Require Import ZArith List String Bool.
From HV Require Import Model.SexpDefs Gen.GenRefine Spec.SmtQuerySpec Model.SmtTextModel
  Model.SolveModel Proofs.SolveProofs.
Import ListNotations.
Open Scope Z_scope.

(* the value parser inverts each of the three solver syntaxes, for every value:
   #b... with any positive number of binary digits *)
Theorem C04_parse_b :
  forall w n, 0 <= n < 2 ^ Z.of_nat (S w) -> parse_const_value (print_b (S w) n) = Some n.
Proof. exact parse_b. Qed.
Print Assumptions C04_parse_b.

(* #x... lower or upper case, any positive number of hex digits *)
Theorem C04_parse_x :
  forall up w n, 0 <= n < 16 ^ Z.of_nat (S w) -> parse_const_value (print_x up (S w) n) = Some n.
Proof. exact parse_x. Qed.
Print Assumptions C04_parse_x.

(* (_ bvN W), N and W decimal without leading zeros *)
Theorem C04_parse_d :
  forall n w, 0 <= n -> 0 <= w -> parse_const_value (print_d n w) = Some n.
Proof. exact parse_d. Qed.
Print Assumptions C04_parse_d.

(* what is reported for a recognised variable is parse_const_value of the text the solver
   printed, and only variables with a halmos_ / p_ name are reported *)
Theorem C04_reported_value :
  forall name width value W n,
    parse_model_var name width value = Some (W, n) ->
    parse_const_value value = Some n /\ var_name_ok name = true.
Proof. exact parse_model_var_value. Qed.
Print Assumptions C04_reported_value.

(* a model is labelled valid only if the solver output it was parsed from mentions no
   f_evm_ symbol; it comes from the first attempt, or from the single refined attempt made
   after a first model that did mention one *)
Theorem C04_valid_means_no_abstraction :
  forall core_hit is_refined out1 changes out2 s k,
    solve_e2e core_hit is_refined out1 changes out2 = (OSat true s, k) ->
    contains invalid_marker s = false /\
    ((s = out1 /\ k = 1) \/
     (s = out2 /\ k = 2 /\ is_refined = false /\ changes = true /\
      contains invalid_marker out1 = true)).
Proof. exact solve_e2e_valid. Qed.
Print Assumptions C04_valid_means_no_abstraction.

(* never valid while an abstraction is mentioned, on the first and on the refined attempt *)
Theorem C04_never_valid_with_abstraction :
  forall core_hit is_refined out1 changes out2,
    contains invalid_marker out1 = true -> contains invalid_marker out2 = true ->
    classify (fst (solve_e2e core_hit is_refined out1 changes out2)) <> ValidCex.
Proof. exact solve_e2e_never_valid. Qed.
Print Assumptions C04_never_valid_with_abstraction.

(* 0 solver runs on an unsat-core hit, otherwise 1, and 2 only for an unrefined query whose
   first model was invalid and whose refinement changed the text *)
Theorem C04_refine_once :
  forall core_hit is_refined out1 changes out2,
    let k := snd (solve_e2e core_hit is_refined out1 changes out2) in
    0 <= k <= 2 /\ (k = 0 <-> core_hit = true) /\
    (k = 2 -> is_refined = false /\ changes = true /\ exists s, from_result out1 = OSat false s).
Proof. exact solve_e2e_invocations. Qed.
Print Assumptions C04_refine_once.

Example C04_nonvacuous :
  parse_const_value "#b00101010" = Some 42 /\ parse_const_value "#x2A" = Some 42 /\
  parse_const_value "(_ bv42 256)" = Some 42 /\ print_d 42 256 = "(_ bv42 256)"%string /\
  print_x false 2 42 = "#x2a"%string /\ print_b 8 42 = "#b00101010"%string /\
  parse_model_var "p_x_uint256_00" "256" "(_ bv42 256)" = Some (256, 42) /\
  parse_model_var "f_evm_bvmul_256" "256" "#x2a" = None /\
  solve_e2e false false ("sat" ++ nl ++ "(define-fun f_evm_bvmul_256 ...)") true ("sat" ++ nl ++ "(define-fun p_x_uint256_00 () (_ BitVec 256) #x2a)")
    = (OSat true ("sat" ++ nl ++ "(define-fun p_x_uint256_00 () (_ BitVec 256) #x2a)"), 2) /\
  classify (fst (solve_e2e false false ("sat" ++ nl ++ "f_evm_exp_256") true ("sat" ++ nl ++ "f_evm_exp_256"))) = InvalidCex.
Proof. vm_compute. repeat split; reflexivity. Qed.
