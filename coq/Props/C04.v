(* C04 — Counterexamples marked valid are reproducible (the parts decided here: the
   printed values are exactly the solver's model values; a model that still depends on an
   arithmetic abstraction is never labelled valid; refinement happens at most once).
   Statements only; proofs are `exact <lemma from Proofs/SolveProofs.v>`.
   Gen/GenRefine.v (parse_const_value arms, is_model_valid marker, halmos_var_pattern
   prefixes / value syntaxes, the f-strings of dump) and Gen/GenSolveFs.v (the statement
   sequences of dump and solve_low_level: which file is written, when, under which guards,
   which file the solver is started on; the literals of PathContext.dump_file) are
   regenerated from /repo/src/halmos/solve.py on every run. *)
From Coq Require Import ZArith List String Bool.
From HV Require Import Model.SexpDefs Gen.GenRefine Spec.SmtQuerySpec Model.SmtTextModel
  Model.SolveModel Proofs.SolveProofs
  Model.SolveFsDefs Gen.GenSolveFs Model.SolveFsModel Proofs.SolveFsProofs Proofs.SolveTieProofs
  Model.CexDefs Gen.GenCexHandler Model.CexModel Proofs.CexProofs
  Model.PathQueryDefs Gen.GenPathQuery Model.PathQueryModel Proofs.PathQueryProofs.
From HV Require Spec.VerdictSpec Gen.GenSolveDispatch.
From HV Require Spec.CexPrintSpec Model.CexPrintDefs Gen.GenCexPrint Gen.GenHexify Model.CexPrintModel Proofs.CexPrintProofs.
Import ListNotations.
Open Scope Z_scope.

(* the value parser inverts each of the three solver syntaxes, for every value:
   #b... with any positive number of binary digits *)
Theorem C04_parse_b :
  forall w n, 0 <= n < 2 ^ Z.of_nat (S w) -> parse_const_value (print_b (S w) n) = Some n.
Proof. exact parse_b. Qed.
Print Assumptions C04_parse_b.

(* #x... lower or upper case, any positive number of hex digits *)
Theorem C04_parse_x :
  forall up w n, 0 <= n < 16 ^ Z.of_nat (S w) -> parse_const_value (print_x up (S w) n) = Some n.
Proof. exact parse_x. Qed.
Print Assumptions C04_parse_x.

(* (_ bvN W), N and W decimal without leading zeros *)
Theorem C04_parse_d :
  forall n w, 0 <= n -> 0 <= w -> parse_const_value (print_d n w) = Some n.
Proof. exact parse_d. Qed.
Print Assumptions C04_parse_d.

(* what is reported for a recognised variable is parse_const_value of the text the solver
   printed, and only variables with a halmos_ / p_ name are reported *)
Theorem C04_reported_value :
  forall name width value W n,
    parse_model_var name width value = Some (W, n) ->
    parse_const_value value = Some n /\ var_name_ok name = true.
Proof. exact parse_model_var_value. Qed.
Print Assumptions C04_reported_value.

(* a model is labelled valid only if the solver output it was parsed from mentions no
   f_evm_ symbol; it comes from the first attempt, or from the single refined attempt made
   after a first model that did mention one *)
Theorem C04_valid_means_no_abstraction :
  forall core_hit is_refined out1 changes out2 s k,
    solve_e2e core_hit is_refined out1 changes out2 = (OSat true s, k) ->
    contains invalid_marker s = false /\
    ((s = out1 /\ k = 1) \/
     (s = out2 /\ k = 2 /\ is_refined = false /\ changes = true /\
      contains invalid_marker out1 = true)).
Proof. exact solve_e2e_valid. Qed.
Print Assumptions C04_valid_means_no_abstraction.

(* never valid while an abstraction is mentioned, on the first and on the refined attempt *)
Theorem C04_never_valid_with_abstraction :
  forall core_hit is_refined out1 changes out2,
    contains invalid_marker out1 = true -> contains invalid_marker out2 = true ->
    classify (fst (solve_e2e core_hit is_refined out1 changes out2)) <> ValidCex.
Proof. exact solve_e2e_never_valid. Qed.
Print Assumptions C04_never_valid_with_abstraction.

(* 0 solver runs on an unsat-core hit, otherwise 1, and 2 only for an unrefined query whose
   first model was invalid and whose refinement changed the text *)
Theorem C04_refine_once :
  forall core_hit is_refined out1 changes out2,
    let k := snd (solve_e2e core_hit is_refined out1 changes out2) in
    0 <= k <= 2 /\ (k = 0 <-> core_hit = true) /\
    (k = 2 -> is_refined = false /\ changes = true /\ exists s, from_result out1 = OSat false s).
Proof. exact solve_e2e_invocations. Qed.
Print Assumptions C04_refine_once.

(* ---- the control-flow model above is hand-written; T-solvedispatch regenerates from solve.py
   the `match first_line` of from_result (first_line_class), the marker and the guard under
   which solve_end_to_end solves a second time (refine_guard).  The model is exactly that: *)
Theorem C04_from_result_follows_source :
  forall out,
    class_of (from_result out) = GenSolveDispatch.first_line_class (first_line out) /\
    GenSolveDispatch.invalid_marker = GenRefine.invalid_marker.
Proof. intros out. split; [apply from_result_class | exact markers_agree]. Qed.
Print Assumptions C04_from_result_follows_source.

Theorem C04_e2e_follows_source :
  forall core_hit is_refined out1 changes out2,
    solve_e2e core_hit is_refined out1 changes out2 =
    if core_hit then (OUnsat, 0)
    else if GenSolveDispatch.refine_guard (out_is_sat (from_result out1)) (out_valid (from_result out1)) is_refined
            && changes
         then (from_result out2, 2)
         else (from_result out1, 1).
Proof. exact solve_e2e_by_guard. Qed.
Print Assumptions C04_e2e_follows_source.

(* ---- the dump directory is state that outlives a query: with --dump-smt-directory it is
   shared by overloads of a test, by the probes of an invariant test and by successive halmos
   runs, and path ids restart at 0, so files named like the current query's may already exist.

   Whatever the directory holds (d is arbitrary), solve_low_level hands the solver the text
   of the CURRENT query, returns from_result of the answer to that text (unknown on a
   timeout), and leaves the current query and that answer in <path id>[.refined].smt2[.out] *)
Theorem C04_solver_handed_current_query :
  forall (solver : solver_t) (c : pctx) (d : dir),
  exists d1,
    run_low solver c d =
      (Some (match solver (Some (query_text c)) with Some (o, _) => from_result o | None => OUnknown end), d1) /\
    dir_get d1 (dump_name c) = Some (query_text c) /\
    (forall o e, solver (Some (query_text c)) = Some (o, e) ->
                 dir_get d1 (dump_name c ++ ".out") = Some o).
Proof. exact run_low_current_query. Qed.
Print Assumptions C04_solver_handed_current_query.

(* solve_end_to_end on a directory is SolveModel.solve_e2e on the solver's answers to the
   text of the current query and to the text of its refinement *)
Theorem C04_e2e_on_current_answers :
  forall (solver : solver_t) (rf : string -> string) core_hit (c : pctx) (d : dir),
    fst (solve_e2e_fs solver rf core_hit c d) =
    (let ok := solve_e2e core_hit (refined c) (answer_text solver (query_text c))
                 (negb (String.eqb (rf (smtlib c)) (smtlib c)))
                 (answer_text solver (query_text (refine_ctx rf c))) in
     (Some (fst ok), snd ok)).
Proof. exact solve_e2e_fs_spec. Qed.
Print Assumptions C04_e2e_on_current_answers.

(* hence the result and the number of solver runs do not depend on files left behind by
   another path, test or run *)
Theorem C04_outcome_independent_of_dump_directory :
  forall (solver : solver_t) (rf : string -> string) core_hit (c : pctx) (d d' : dir),
    fst (solve_e2e_fs solver rf core_hit c d) = fst (solve_e2e_fs solver rf core_hit c d').
Proof. exact solve_e2e_fs_dir_independent. Qed.
Print Assumptions C04_outcome_independent_of_dump_directory.

(* with a sound solver (a printed model satisfies the file the solver was handed), a model
   labelled valid satisfies the current query or, after a first model that depended on an
   abstraction, its refinement - for every previous content of the directory *)
Theorem C04_valid_cex_satisfies_current_query :
  forall (satisfies : string -> string -> Prop) (solver : solver_t),
    (forall q o e, solver (Some q) = Some (o, e) -> first_line o = "sat"%string -> satisfies o q) ->
    forall (rf : string -> string) core_hit (c : pctx) (d : dir) s k d',
      solve_e2e_fs solver rf core_hit c d = (Some (OSat true s), k, d') ->
      contains invalid_marker s = false /\
      (satisfies s (query_text c) \/
       (refined c = false /\ satisfies s (query_text (refine_ctx rf c)))).
Proof. exact valid_cex_satisfies_current_query. Qed.
Print Assumptions C04_valid_cex_satisfies_current_query.

(* the paths of one function are solved concurrently in one directory: distinct
   (path id, is_refined) pairs never share a query file, and a query file is never the
   .out / .err file of another query - so no path's query is overwritten while its solver runs *)
Theorem C04_query_files_distinct :
  forall c1 c2 : pctx, 0 <= path_id c1 -> 0 <= path_id c2 ->
    dump_name c1 = dump_name c2 -> path_id c1 = path_id c2 /\ refined c1 = refined c2.
Proof. exact dump_name_inj. Qed.
Print Assumptions C04_query_files_distinct.

Theorem C04_query_file_is_no_output_file :
  forall (c1 c2 : pctx) sfx, 0 <= path_id c1 -> 0 <= path_id c2 ->
    sfx = ".out"%string \/ sfx = ".err"%string ->
    dump_name c1 <> (dump_name c2 ++ sfx)%string.
Proof. exact dump_name_not_output. Qed.
Print Assumptions C04_query_file_is_no_output_file.

(* a stale 0.smt2 / 0.smt2.out of another query (x = 42) is in the directory; the solver
   answers by the text it is handed; the current query (x = 43) gets its own answer *)
Example C04_stale_files_nonvacuous :
  let stale := ("(set-logic QF_AUFBV)" ++ nl ++ "(assert (= p_x_uint256_00 #x2a))" ++ nl ++ "(check-sat)" ++ nl ++ "(get-model)" ++ nl)%string in
  let solver : solver_t := fun f =>
    match f with
    | Some t => if String.eqb t stale
                then Some ("sat" ++ nl ++ "(define-fun p_x_uint256_00 () (_ BitVec 256) #x2a)", "")%string
                else Some ("sat" ++ nl ++ "(define-fun p_x_uint256_00 () (_ BitVec 256) #x2b)", "")%string
    | None => Some (""%string, "no such file"%string)
    end in
  let c := mkCtx 0 false false "(assert (= p_x_uint256_00 #x2b))" [] in
  dump_name c = "0.smt2"%string /\
  fst (solve_e2e_fs solver (fun s => s) false c [("0.smt2"%string, stale); ("0.smt2.out"%string, "sat"%string)]) =
    (Some (OSat true ("sat" ++ nl ++ "(define-fun p_x_uint256_00 () (_ BitVec 256) #x2b)")), 1) /\
  dump_name (refine_ctx (fun s => s) c) = "0.refined.smt2"%string.
Proof. vm_compute. repeat split; reflexivity. Qed.

(* ---- which conditions reach the solver (Gen/GenPathQuery.v: Path.to_smt2 / extend_path from
   sevm.py).  A path spans transactions; the path of a later transaction (or of a test after
   setUp) extends a sliced one and its incremental solver only holds part of the conditions.
   For every sequence of appends, slices (keeping ANY set of indices) and extensions, the query
   asserts exactly the conditions the executed path assumed, with and without --cache-solver *)
Theorem C04_query_asserts_every_path_condition :
  forall (cond : Type) (norm : cond -> cond) (skip : list cond -> cond -> bool) ops cache,
    q_query cond (q_run cond norm skip (q_empty cond) ops) cache = assumed cond norm skip [] ops.
Proof. exact query_all_assumed. Qed.
Print Assumptions C04_query_asserts_every_path_condition.

(* hence a model of the query satisfies every condition of every transaction of the sequence *)
Theorem C04_query_model_satisfies_path :
  forall (cond : Type) (norm : cond -> cond) (skip : list cond -> cond -> bool)
         (env : Type) (sem : env -> cond -> Prop) ops cache e,
    Forall (sem e) (q_query cond (q_run cond norm skip (q_empty cond) ops) cache) <->
    Forall (sem e) (assumed cond norm skip [] ops).
Proof. exact query_all_assumed_sem. Qed.
Print Assumptions C04_query_model_satisfies_path.

(* the path's own solver would not do: it misses what the slice did not keep *)
Example C04_solver_is_not_the_path :
  let p := q_run nat (fun c => c) (fun _ _ => false) (q_empty nat)
             [QAppend nat 7%nat; QSlice nat []; QExtend nat []; QAppend nat 9%nat] in
  q_conds nat p = [7; 9]%nat /\ q_solver nat p = [9]%nat /\ q_sliced nat p = None.
Proof. exact solver_misses_conditions. Qed.

(* ---- from a solver output to the reported list (Gen/GenCexHandler.v: CounterexampleHandler
   from __main__.py).  The dispatch of _solve_end_to_end_callback is `classify` *)
Theorem C04_callback_dispatch :
  forall early_exit o, gen_callback_verdict early_exit o = classify o.
Proof. exact callback_is_classify. Qed.
Print Assumptions C04_callback_dispatch.

(* once the solver executor is shut down (first valid counterexample under --early-exit, exit
   handlers) the solvers still running are killed: whatever the future then holds - a result
   parsed from a cut output included - nothing is reported *)
Theorem C04_nothing_reported_after_shutdown :
  forall early_exit f, gen_callback_verdict early_exit (gen_get_solver_output true f) = NoModel.
Proof. exact nothing_after_shutdown. Qed.
Print Assumptions C04_nothing_reported_after_shutdown.

(* a killed solver leaves a prefix of its answer (any k1, k2) and is only killed after the
   shutdown flag is set: a counterexample reported as valid was parsed from a COMPLETE output that
   mentions no abstraction *)
Theorem C04_valid_cex_from_complete_output :
  forall early_exit is_shutdown killed k1 k2 core_hit is_refined out1 changes out2,
    (killed = true -> is_shutdown = true) ->
    gen_callback_verdict early_exit
      (gen_get_solver_output is_shutdown
         (FRes (fst (solve_e2e core_hit is_refined (observed killed k1 out1) changes (observed killed k2 out2)))))
      = ValidCex ->
    is_shutdown = false /\ killed = false /\
    exists s k, solve_e2e core_hit is_refined out1 changes out2 = (OSat true s, k) /\
                contains invalid_marker s = false /\ (s = out1 \/ s = out2).
Proof. exact valid_cex_from_complete_output. Qed.
Print Assumptions C04_valid_cex_from_complete_output.

(* the executor is shut down by the handler only for a valid counterexample under --early-exit *)
Theorem C04_shutdown_only_after_valid :
  forall early_exit o,
    gen_callback_shutdown early_exit o = true -> early_exit = true /\ gen_callback_verdict early_exit o = ValidCex.
Proof. exact shutdown_only_after_valid. Qed.
Print Assumptions C04_shutdown_only_after_valid.

(* why the result itself cannot be trusted then: a cut output mentions only what the complete one
   mentions, and may stop before the abstraction is mentioned - it then looks valid *)
Theorem C04_cut_output_mentions_less :
  forall m k s, contains m (prefix k s) = true -> contains m s = true.
Proof. exact prefix_contains. Qed.
Print Assumptions C04_cut_output_mentions_less.

Example C04_cut_output_looks_valid :
  let full := ("sat" ++ nl ++ "(define-fun p_x_uint256_00 () (_ BitVec 256) #x2a)" ++ nl ++
               "(define-fun f_evm_bvmul_256 ((x!0 (_ BitVec 256)) (x!1 (_ BitVec 256))) (_ BitVec 256) #x00)")%string in
  contains invalid_marker full = true /\
  from_result (prefix 60 full) = OSat true (prefix 60 full) /\
  gen_callback_verdict true (gen_get_solver_output false (FRes (from_result (prefix 60 full)))) = ValidCex /\
  gen_callback_verdict true (gen_get_solver_output true (FRes (from_result (prefix 60 full)))) = NoModel.
Proof. vm_compute. repeat split; reflexivity. Qed.

Example C04_nonvacuous :
  parse_const_value "#b00101010" = Some 42 /\ parse_const_value "#x2A" = Some 42 /\
  parse_const_value "(_ bv42 256)" = Some 42 /\ print_d 42 256 = "(_ bv42 256)"%string /\
  print_x false 2 42 = "#x2a"%string /\ print_b 8 42 = "#b00101010"%string /\
  parse_model_var "p_x_uint256_00" "256" "(_ bv42 256)" = Some (256, 42) /\
  parse_model_var "f_evm_bvmul_256" "256" "#x2a" = None /\
  solve_e2e false false ("sat" ++ nl ++ "(define-fun f_evm_bvmul_256 ...)") true ("sat" ++ nl ++ "(define-fun p_x_uint256_00 () (_ BitVec 256) #x2a)")
    = (OSat true ("sat" ++ nl ++ "(define-fun p_x_uint256_00 () (_ BitVec 256) #x2a)"), 2) /\
  classify (fst (solve_e2e false false ("sat" ++ nl ++ "f_evm_exp_256") true ("sat" ++ nl ++ "f_evm_exp_256"))) = InvalidCex.
Proof. vm_compute. repeat split; reflexivity. Qed.

(* ------------------------------------------------------------------ what is PRINTED
   The user replays the text after "Counterexample:".  Gen/GenCexPrint.v (the fields of
   ModelVariable, the f-string of PotentialModel.__str__, sorted / not, the sign of the empty
   model) and Gen/GenHexify.v (the int arm of utils.hexify) are regenerated from solve.py /
   utils.py on every run; CexPrintModel.render_model interprets them; CexPrintSpec.read_cex is
   the reader's side (name up to the first space, " = 0x", hexadecimal digits), written from
   the output format alone.

   For EVERY model - any number of variables, any names a solver prints on one line, any
   declared type / SMT sort / width fields, any natural value however wide - the printed text
   reads back as exactly the assignment the solver returned (as a set: a dict has no order and
   the lines are sorted).  In particular no bit of a value is dropped, whatever the declared
   type says. *)
Theorem C04_printed_cex_round_trip :
  forall m : list CexPrintDefs.mvar,
    Forall (fun v => CexPrintSpec.all_plain (CexPrintDefs.full_name v) = true /\
                     CexPrintDefs.full_name v <> EmptyString /\ 0 <= CexPrintDefs.value v) m ->
    exists l, CexPrintSpec.read_cex (CexPrintModel.render_model m) = Some l /\
              Permutation.Permutation l (map (fun v => (CexPrintDefs.full_name v, CexPrintDefs.value v)) m).
Proof. exact CexPrintProofs.printed_cex_round_trip. Qed.
Print Assumptions C04_printed_cex_round_trip.

(* the rendering is injective: two models printed as the same text are the same assignment *)
Theorem C04_printed_cex_injective :
  forall m1 m2 : list CexPrintDefs.mvar,
    Forall (fun v => CexPrintSpec.all_plain (CexPrintDefs.full_name v) = true /\
                     CexPrintDefs.full_name v <> EmptyString /\ 0 <= CexPrintDefs.value v) m1 ->
    Forall (fun v => CexPrintSpec.all_plain (CexPrintDefs.full_name v) = true /\
                     CexPrintDefs.full_name v <> EmptyString /\ 0 <= CexPrintDefs.value v) m2 ->
    CexPrintModel.render_model m1 = CexPrintModel.render_model m2 ->
    Permutation.Permutation (map (fun v => (CexPrintDefs.full_name v, CexPrintDefs.value v)) m1)
                            (map (fun v => (CexPrintDefs.full_name v, CexPrintDefs.value v)) m2).
Proof. exact CexPrintProofs.printed_cex_injective. Qed.
Print Assumptions C04_printed_cex_injective.

(* a single variable: the line shows its full name and its whole value; the variable name,
   the declared solidity type, the SMT sort and the width do not enter the text *)
Theorem C04_printed_value_whole :
  forall fn vn st sm sz n,
    CexPrintSpec.all_plain fn = true -> fn <> EmptyString -> 0 <= n ->
    CexPrintSpec.read_cex (CexPrintModel.render_model [CexPrintDefs.MVar fn vn st sm sz n]) = Some [(fn, n)].
Proof.
  intros fn vn st sm sz n H1 H2 H3.
  exact (CexPrintProofs.printed_value_whole (CexPrintDefs.MVar fn vn st sm sz n) (conj H1 (conj H2 H3))).
Qed.
Print Assumptions C04_printed_value_whole.

(* a uint8 calldata word holding 0x1234 and an address word with dirty upper bits are printed
   in full (and in sorted order); the empty model is the empty-set sign; a text that is not a
   counterexample reads as nothing *)
Example C04_printed_nonvacuous :
  let x := CexPrintDefs.MVar "p_x_uint8_00" "x" "uint8" "BitVec" 256 4660 in
  let a := CexPrintDefs.MVar "p_a_address_01" "a" "address" "BitVec" 256 (171 * 2 ^ 160 + 5) in
  CexPrintSpec.read_cex (CexPrintModel.render_model [x; a]) =
    Some [("p_a_address_01"%string, 171 * 2 ^ 160 + 5); ("p_x_uint8_00"%string, 4660)] /\
  CexPrintSpec.read_cex (CexPrintModel.render_line x) = Some [("p_x_uint8_00"%string, 4660)] /\
  CexPrintSpec.read_cex (String CexPrintSpec.nl "    p_x_uint8_00 = 0x1234") = Some [("p_x_uint8_00"%string, 4660)] /\
  CexPrintSpec.read_cex (String CexPrintSpec.nl "    p_x_uint8_00 = 0x00" ++ String CexPrintSpec.nl "    p_y_uint8_01 = 0x0a") =
    Some [("p_x_uint8_00"%string, 0); ("p_y_uint8_01"%string, 10)] /\
  CexPrintSpec.read_cex (CexPrintModel.render_model []) = Some [] /\
  CexPrintSpec.read_cex "p_x_uint8_00 = 0x34" = None.
Proof. vm_compute. repeat split; reflexivity. Qed.
