(* C03 -- PASS means no admissible input violates the test (end to end).
   Statements only; every proof is `exact <lemma from Proofs/RunnerProofs.v>`.
   Gen/GenPanic.v (CallOutput.is_panic_of: constants + decision chain) and Gen/GenRunTest.v
   (run_test: classification chain, stuck filter, --width cut, verdict chain, Exitcode) are
   regenerated from /repo/src/halmos on every run; so are Gen/GenCopies.v (what Path.branch / extend_path /
   create_branch / run_message copy) and Gen/GenRefine.v (the rules of solve.refine), whose theorems
   (proved for C20 / C11) are restated here because the composition below rests on them. *)
From Coq Require Import ZArith List Bool.
From HV Require Gen.GenCopies Spec.IsolationSpec Model.IsolationModel Proofs.IsolationProofs.
From HV Require Base.SmtBV Model.SexpDefs Gen.GenRefine Spec.SmtQuerySpec Model.SmtTextModel Proofs.SmtTextProofs.
From HV Require Gen.GenDynRoom Proofs.DynRoomProofs Base.Word Gen.GenArithRw Model.ArithRwModel Proofs.ArithRwProofs.
From HV Require Gen.GenSelectRow Spec.SelectRowSpec Model.SelectRowModel Proofs.SelectRowProofs.
From HV Require Import Gen.GenPanic Gen.GenRunTest Spec.PanicSpec Model.RunnerModel Proofs.RunnerProofs.
Import ListNotations.
Open Scope Z_scope.

(* is_panic_of is exact w.r.t. the byte-level encoding of Panic(uint256): for ALL byte strings and
   ALL configured code sets it answers True exactly on  4e487b71 ++ 32-byte big-endian k  with k
   configured (or the set empty), False otherwise, and never raises *)
Theorem C03_is_panic_of_exact :
  forall bs codes, Forall is_byte bs ->
    (is_panic_of ERevert (Some (map BC bs)) codes = TTrue <-> is_panic_data codes bs) /\
    (is_panic_of ERevert (Some (map BC bs)) codes = TFalse <-> ~ is_panic_data codes bs).
Proof. exact is_panic_of_exact. Qed.
Print Assumptions C03_is_panic_of_exact.

Theorem C03_is_panic_of_not_revert :
  forall e d codes, e <> ERevert -> is_panic_of e d codes = TFalse.
Proof. exact is_panic_of_not_revert. Qed.
Print Assumptions C03_is_panic_of_not_revert.

(* the hand-written byte-level model computes what the decision chain regenerated from the source of
   is_panic_of computes on the observations the Python makes *)
Theorem C03_is_panic_of_matches_source :
  forall bs codes, Forall is_byte bs ->
    is_panic_of ERevert (Some (map BC bs)) codes =
      tri_of_bool (is_panic_decide true (Z.of_nat (length bs)) (be_value 0 (slice SEL_LO SEL_HI bs))
                     (Z.of_nat (length codes)) (memZ (be_value 0 (slice CODE_LO CODE_HI bs)) codes)).
Proof. exact is_panic_of_matches_source. Qed.
Print Assumptions C03_is_panic_of_matches_source.

(* is_global_fail_set: true exactly when the failure flag was raised somewhere in the call tree
   (trees of any shape and depth) *)
Theorem C03_global_fail_exact : forall c, global_fail c = true <-> has_fail c.
Proof. exact global_fail_spec. Qed.
Print Assumptions C03_global_fail_exact.

(* the verdict chain regenerated from run_test: PASS needs zero sat / err / unknown answers, zero
   stuck paths and at least one successful path *)
Theorem C03_verdict_pass :
  forall n_sat n_err n_unknown n_stuck normal,
    verdict n_sat n_err n_unknown n_stuck normal = EX_PASS ->
    n_sat <= 0 /\ n_err <= 0 /\ n_unknown <= 0 /\ n_stuck <= 0 /\ normal <> 0.
Proof. exact verdict_pass. Qed.
Print Assumptions C03_verdict_pass.

(* solve_end_to_end answers unsat only for unsatisfiable queries, given a truthful external solver,
   a sound unsat-core cache (C16) and a refinement that keeps the exact models (C11/C04) *)
Theorem C03_solve_end_to_end_sound :
  forall (Q : Type) (Qeqb : Q -> Q -> bool) (core_hit : Q -> bool) (low : Q -> Z * bool) (refine : Q -> Q)
         (input : Type) (qsat : Q -> input -> Prop),
    (forall q, core_hit q = true -> forall i, ~ qsat q i) ->
    (forall q, fst (low q) = S_UNSAT -> forall i, ~ qsat q i) ->
    (forall q i, qsat q i -> qsat (refine q) i) ->
    forall q r, solve_end_to_end Q Qeqb core_hit low refine q r = S_UNSAT -> forall i, ~ qsat q i.
Proof. exact solve_end_to_end_unsat_sound. Qed.
Print Assumptions C03_solve_end_to_end_sound.

(* setup(): the state handed to the tests is a success path of setUp (no error, not stuck), and every other
   success path was refuted by the solver *)
Theorem C03_setup_unique :
  forall (Q : Type) (solve_low : Q -> Z) paths p,
    setup_select Q solve_low paths = SetupOk p ->
    In p paths /\ sp_error p = false /\ sp_stuck p = false /\
    forall p', In p' paths -> sp_error p' = false -> sp_stuck p' = false -> p' = p \/ solve_low (sp_query p') = S_UNSAT.
Proof. exact setup_select_unique. Qed.
Print Assumptions C03_setup_unique.

(* COMPOSITION.  For every exploration result e of the test transaction (any list of reported
   paths), every panic-code configuration and --width:
     explore_complete   (C01+C02) without loop-bound / depth flags every admissible input is covered by a
                        reported path that describes its concrete execution,
     query_is_path      (C11) the query of a path is satisfied by the inputs its constraints admit,
     core / low / refine  truthful external solver, sound unsat-core cache, exact refinement,
     panic_data_concrete  36-byte revert data is concrete (the documented caveat of is_panic_of),
     no early exit        no stuck-path solve was interrupted by the executor shutdown (ShutdownError ends the path
                          loop; it is raised only after a valid counterexample was found: C05/C17),
   a PASS verdict without warning implies that NO admissible input's concrete execution ends in
   Panic(k), k configured, or sets the failure flag. *)
Theorem C03_pass_sound :
  forall (Q : Type) (Qeqb : Q -> Q -> bool) (core_hit : Q -> bool) (low : Q -> Z * bool) (refine : Q -> Q)
         (solve_low : Q -> Z)
         (input : Type) (admissible : input -> Prop) (concrete : input -> outcome)
         (qsat : Q -> input -> Prop) (holds : input -> leaf Q -> Prop) (eval : input -> Z -> Z)
         (codes : list Z) (width : Z) (e : exploration Q),
    let solve_assert := fun q => solve_end_to_end Q Qeqb core_hit low refine q false in
    (ex_bounded e = false -> ex_depth_cut e = false ->
       forall i, admissible i ->
         exists l, In l (ex_leaves e) /\ holds i l /\
           (o_fail (concrete i) = global_fail (l_ctx l) /\
            (o_fail (concrete i) = false -> o_kind (concrete i) = ORevert ->
               l_err Q l = ERevert /\
               exists d, l_data l = Some d /\
                 map (fun b => match b with BC v => v | BS t => eval i t end) d = o_data (concrete i)))) ->
    (forall l i, In l (ex_leaves e) -> holds i l -> qsat (l_query l) i) ->
    (forall q, core_hit q = true -> forall i, ~ qsat q i) ->
    (forall q, fst (low q) = S_UNSAT -> forall i, ~ qsat q i) ->
    (forall q i, qsat q i -> qsat (refine q) i) ->
    (forall q, In (fst (low q)) [S_UNSAT; S_SAT; S_UNKNOWN; S_ERR]) ->
    (forall l d, In l (ex_leaves e) -> l_err Q l = ERevert -> l_data l = Some d -> length d = 36%nat ->
       exists bs, d = map BC bs /\ Forall is_byte bs) ->
    (forall q, solve_low q <> S_SHUTDOWN) ->
    r_exit (run_test Q solve_assert solve_low codes width e) = EX_PASS ->
    clean (run_test Q solve_assert solve_low codes width e) = true ->
    forall i, admissible i ->
      ~ ((o_kind (concrete i) = ORevert /\
          exists k, 0 <= k < 2 ^ 256 /\ o_data (concrete i) = panic_encoding k /\ (codes = [] \/ In k codes))
         \/ o_fail (concrete i) = true).
Proof. exact pass_sound_e2e. Qed.
Print Assumptions C03_pass_sound.

(* Two hypotheses of the composition, as far as they are decided by code regenerated on every run:

   explore_complete needs the explored paths not to disturb each other: every per-path field of Path / Exec
   (conditions, concretization -- the term -> constant substitution used by CALLDATALOAD and the size
   candidates --, storage, ...) is copied at least as deep as it is later mutated in place, in all four
   places where a state is derived from another (Path.branch, Path.extend_path, create_branch, run_message) *)
Theorem C03_sibling_paths_do_not_share_mutable_state :
  IsolationModel.table_ok IsolationSpec.exec_need GenCopies.create_branch_table = true /\
  IsolationModel.table_ok IsolationSpec.exec_need GenCopies.run_message_table = true /\
  IsolationModel.table_ok IsolationSpec.path_need GenCopies.path_branch_table = true /\
  IsolationModel.table_ok IsolationSpec.path_need GenCopies.extend_path_table = true.
Proof. exact IsolationProofs.tables_sufficient. Qed.
Print Assumptions C03_sibling_paths_do_not_share_mutable_state.

(* admissible inputs: "argument values within the reported parameter bounds" -- the bounds printed for a dynamic
   parameter are its length candidates, taken verbatim (any order) from --array-lengths / --default-*-lengths.
   Symbolic calldata (Calldata.encode, regenerated) has room for EVERY candidate: at least n symbolic elements /
   bytes for each candidate n, whatever the order of the list; and not more than the largest candidate. *)
Theorem C03_every_length_candidate_fits : forall sizes n, In n sizes ->
  n <= GenDynRoom.array_room sizes /\ n <= GenDynRoom.bytes_room sizes /\
  GenDynRoom.bytes_room sizes <= GenDynRoom.bytes_room_padded sizes.
Proof. exact DynRoomProofs.every_candidate_fits. Qed.
Print Assumptions C03_every_length_candidate_fits.

Theorem C03_room_is_a_candidate : forall sizes, sizes <> [] ->
  In (GenDynRoom.array_room sizes) sizes /\ In (GenDynRoom.bytes_room sizes) sizes.
Proof. exact DynRoomProofs.room_is_a_candidate. Qed.
Print Assumptions C03_room_is_a_candidate.

(* distinct parameters are independent symbols: the k-th symbol of a calldata is the z3 constant named
   p_<name>_<type|length>_<uid()>_<counter>, with a uid() drawn for this very symbol (regenerated: the f-strings of
   Calldata.encode / get_dyn_sizes); uid() being a fresh-name stream, two symbols never coincide, whatever the ABI
   names and types of the parameters (unnamed parameters, equal names) *)
Theorem C03_distinct_parameters_distinct_symbols :
  forall (uid_of : nat -> Z), (forall i j, uid_of i = uid_of j -> i = j) -> forall (tag : Z) k1 k2, k1 <> k2 ->
    (forall n1 t1 c1 n2 t2 c2, DynRoomProofs.value_symbol uid_of tag k1 n1 t1 c1 <> DynRoomProofs.value_symbol uid_of tag k2 n2 t2 c2) /\
    (forall n1 c1 n2 c2, DynRoomProofs.length_symbol uid_of tag k1 n1 c1 <> DynRoomProofs.length_symbol uid_of tag k2 n2 c2).
Proof. exact DynRoomProofs.distinct_symbols. Qed.
Print Assumptions C03_distinct_parameters_distinct_symbols.

(* no term-level simplification that holds only for some operand values: whatever the syntactic shape of the dividend
   (a product of narrow factors, the divisor being one of them), the term SEVM.arith builds for DIV evaluates to the EVM
   quotient for ALL values -- in particular 0 for a zero divisor (regenerated: is div_xy_y applied, what it checks) *)
Theorem C03_div_is_the_evm_quotient :
  forall x y (shape : option ArithRwModel.product), ArithRwModel.arith_div x y shape = Word.evm_div x y.
Proof. exact ArithRwProofs.arith_div_exact. Qed.
Print Assumptions C03_div_is_the_evm_quotient.

(* the side constraints arith appends to the path for a symbolic quotient / remainder hold for all words *)
Theorem C03_arith_side_constraints_valid : forall x y, Word.in_word x -> Word.in_word y ->
  GenArithRw.div_side (Word.evm_div x y) x y = true /\ GenArithRw.mod_side (Word.evm_mod x y) x y = true.
Proof. exact ArithRwProofs.side_constraints_valid. Qed.
Print Assumptions C03_arith_side_constraints_valid.

(* refine_exact (`forall q i, qsat q i -> qsat (refine q) i`): each rule of solve.refine replaces the
   abstraction f_evm_<op>_N by a define-fun whose value, for every width and all operands, is the exact EVM
   operation -- in particular 0 for a zero divisor in bvudiv / bvurem / bvsdiv / bvsrem -- so an input that
   satisfies the abstract query still satisfies the refined one *)
Theorem C03_refinement_is_the_evm_operation :
  forall r op ns N x y,
    In r GenRefine.refine_rules -> In op (SexpDefs.rule_ops r) -> SmtTextModel.parse_dec ns = Some N -> 0 < N ->
    0 <= x < 2 ^ N -> 0 <= y < 2 ^ N ->
    exists f, SmtQuerySpec.exact_op op = Some f /\
      SmtTextModel.eval_define (SexpDefs.inst op ns (SexpDefs.rule_repl r)) [SmtTextModel.VBV N x; SmtTextModel.VBV N y]
        = Some (SmtTextModel.VBV N (f N x y)).
Proof. exact SmtTextProofs.refine_exact. Qed.
Print Assumptions C03_refinement_is_the_evm_operation.

Theorem C03_refinement_zero_divisor :
  forall x, SmtQuerySpec.exact_mod 256 x 0 = 0 /\ SmtQuerySpec.exact_smod 256 x 0 = 0 /\
            SmtQuerySpec.exact_div 256 x 0 = 0 /\ SmtQuerySpec.exact_sdiv 256 x 0 = 0.
Proof. intros x. repeat split; reflexivity. Qed.
Print Assumptions C03_refinement_zero_divisor.

(* The caveat is real: dropping `panic_data_concrete`, the statement is FALSE of the faithful model.
   Witness: `if (y > 5) revert Panic(x)` -- the revert data carries the symbolic term x (not pinned to a
   constant by the path); the path is not classified as an assertion failure, the verdict is a clean
   PASS, the input x = 1 violates.  (When the path pins x by an equality branch `x == 1`, halmos'
   concretization substitutes the constant and the case is handled: observed at L3.) *)
Theorem C03_pass_sound_symbolic_code_refuted :
  let e := mkExploration cex_leaves false false in
  let concrete := fun _ : unit => mkOutcome ORevert (panic_encoding 1) false in
  let qsat := fun (q : bool) (_ : unit) => q = true in
  let holds := fun (_ : unit) (l : leaf bool) => l_query l = true in
  let eval := fun (_ : unit) (_ : Z) => 1 in
  (forall i : unit, exists l, In l (ex_leaves e) /\ holds i l /\ agrees bool unit eval i l (concrete i)) /\
  (forall l i, In l (ex_leaves e) -> holds i l -> qsat (l_query l) i) /\
  (forall q, cex_solver q = S_UNSAT -> forall i, ~ qsat q i) /\
  (forall q, In (cex_solver q) [S_UNSAT; S_SAT; S_UNKNOWN; S_ERR]) /\
  r_exit (run_test bool cex_solver cex_solver [1] 0 e) = EX_PASS /\
  clean (run_test bool cex_solver cex_solver [1] 0 e) = true /\
  violates [1] (concrete tt).
Proof. exact pass_unsound_symbolic_code. Qed.
Print Assumptions C03_pass_sound_symbolic_code_refuted.

(* non-vacuity: a two-path exploration (guarded Panic(1), else STOP) whose panic query is unsat gives
   a clean PASS; with a sat answer it gives COUNTEREXAMPLE; Panic(0x11) is ignored under codes {1};
   35/37-byte data are not panics; a symbolic selector raises *)
Example C03_nonvacuous :
  let panic1 := map BC (panic_encoding 1) in
  let lv (q : bool) := [mkLeaf (CNode ERevert []) (Some panic1) q; mkLeaf (CNode ENone []) (Some []) false] in
  let solver (q : bool) := if q then S_SAT else S_UNSAT in
  r_exit (run_test bool solver solver [1] 0 (mkExploration (lv false) false false)) = EX_PASS /\
  clean (run_test bool solver solver [1] 0 (mkExploration (lv false) false false)) = true /\
  r_exit (run_test bool solver solver [1] 0 (mkExploration (lv true) false false)) = EX_COUNTEREXAMPLE /\
  r_exit (run_test bool solver solver [17] 0 (mkExploration (lv true) false false)) = EX_PASS /\
  r_exit (run_test bool solver solver [] 0 (mkExploration (lv true) false false)) = EX_COUNTEREXAMPLE /\
  r_warn_width (run_test bool solver solver [1] 1 (mkExploration (lv true) false false)) = true /\
  is_panic_of ERevert (Some (map BC (firstn 35 (panic_encoding 1)))) [1] = TFalse /\
  is_panic_of ERevert (Some (map BC (panic_encoding 1 ++ [0]))) [] = TFalse /\
  is_panic_of ERevert (Some (BS 7 :: map BC (skipn 1 (panic_encoding 1)))) [1] = TRaise /\
  is_panic_of EEvm (Some panic1) [] = TFalse /\
  global_fail (CNode ENone [CNode ERevert []; CNode ENone [CNode EFail []]]) = true /\
  is_panic_data [1] (panic_encoding 1).
Proof.
  cbv zeta. repeat split; try reflexivity.
  exists 1. split; [split; [discriminate | reflexivity] |]. split; [reflexivity | right; left; reflexivity].
Qed.

(* the classification chain regenerated from run_test: a path is submitted to the assertion solver
   exactly when it is a configured Panic or the failure flag is set; it is a stuck candidate exactly
   when it is neither and is_stuck; a stuck candidate is counted unless the solver refutes it *)
Theorem C03_classify_potential :
  forall p f s h, classify p f s h = CL_POTENTIAL <-> (p = true \/ f = true).
Proof. exact classify_potential_spec. Qed.
Print Assumptions C03_classify_potential.

Theorem C03_classify_stuck :
  forall p f s h, classify p f s h = CL_STUCK <-> (p = false /\ f = false /\ s = true).
Proof. exact classify_stuck_spec. Qed.
Print Assumptions C03_classify_stuck.

Theorem C03_stuck_counted : forall r, stuck_counts r = true <-> r <> S_UNSAT.
Proof. exact stuck_counts_spec. Qed.
Print Assumptions C03_stuck_counted.

(* READ-OVER-WRITE (Exec.select, the shortcut of every storage read -- both layouts -- and of the balances), over the
   two decision functions regenerated from its source (Gen/GenSelectRow.v).  The branching solver has a 1 ms budget:
   `unknown` is an everyday answer.  For EVERY oracle that is sound on `unsat` only (sat and unknown at will), every chain
   of writes, every key term and every admissible valuation, the term returned evaluates to the value of the newest write
   at that key (the initial array's value when there is none; an empty array is all zero unless the account is symbolic):
   a read m[x] after m[3] = 5 never becomes the constant 5, so the branch m[x] == 0 is not pruned. *)
Theorem C03_read_over_write_is_last_write :
  forall (P : (nat -> Z) -> Prop) (check : SelectRowSpec.query -> Z),
    (forall q, check q = 0 \/ check q = 1 \/ check q = 2) ->
    (forall q, check q = 0 -> forall rho, P rho -> ~ SelectRowSpec.holds rho q) ->
  forall (symbolic : bool) (init : Z -> Z), (symbolic = false -> forall z, init z = 0) ->
  forall (chain : list (SelectRowSpec.term * SelectRowSpec.term)) (k : SelectRowSpec.term) (rho : nat -> Z), P rho ->
    SelectRowModel.ev_res rho init (SelectRowModel.select check symbolic chain k)
      = SelectRowSpec.last_write rho init chain (SelectRowSpec.ev rho k).
Proof. exact SelectRowProofs.select_reads_last_write. Qed.
Print Assumptions C03_read_over_write_is_last_write.

(* the answers the code decides from, as it says now: `unsat` only, for both tests *)
Theorem C03_read_over_write_decides_on_unsat_only :
  forall a, (a = 0 \/ a = 1 \/ a = 2) ->
    (GenSelectRow.select_skip a = true -> a = 0) /\ (GenSelectRow.select_hit a = true -> a = 0).
Proof.
  intros a Ha. split; intro H.
  - exact (SelectRowProofs.select_skip_only_unsat a Ha H).
  - exact (SelectRowProofs.select_hit_only_unsat a Ha H).
Qed.
Print Assumptions C03_read_over_write_decides_on_unsat_only.

(* NECESSITY -- `unknown` (or `sat`) is never a proof: whichever of the two tests says yes on the answer sat or unknown,
   an oracle that never answers unsat (perfectly legal: it proves nothing) makes a read differ from the last write *)
Theorem C03_read_over_write_unknown_is_no_proof :
  forall (skip hit : Z -> bool) a, (a = 1 \/ a = 2) -> (skip a = true \/ hit a = true) ->
    exists check chain k rho,
      (forall q, check q = 0 \/ check q = 1 \/ check q = 2) /\
      (forall q, check q = 0 -> forall rho' : nat -> Z, True -> ~ SelectRowSpec.holds rho' q) /\
      SelectRowModel.ev_res rho (fun _ => 0) (SelectRowModel.select_with skip hit check false chain k)
        <> SelectRowSpec.last_write rho (fun _ => 0) chain (SelectRowSpec.ev rho k).
Proof. exact SelectRowProofs.select_decision_on_non_unsat_refuted. Qed.
Print Assumptions C03_read_over_write_unknown_is_no_proof.

(* the witness for `check(key != key0) != sat` *)
Theorem C03_read_over_write_hit_unless_sat_refuted :
  exists check chain k rho,
    (forall q, check q = 0 \/ check q = 1 \/ check q = 2) /\
    (forall q, check q = 0 -> forall rho' : nat -> Z, True -> ~ SelectRowSpec.holds rho' q) /\
    SelectRowModel.ev_res rho (fun _ => 0)
        (SelectRowModel.select_with (fun a => a =? 0) (fun a => negb (a =? 1)) check false chain k)
      <> SelectRowSpec.last_write rho (fun _ => 0) chain (SelectRowSpec.ev rho k).
Proof. exact SelectRowProofs.select_hit_not_sat_refuted. Qed.
Print Assumptions C03_read_over_write_hit_unless_sat_refuted.

(* non-vacuity: m[3] = 5 then m[7] = 9 (newest first), read m[x]: under an oracle answering `unknown` to everything the
   result is the Select on the whole chain (value 5 at x = 3, 9 at x = 7, 0 at x = 4); under a truthful oracle that knows
   x = 3 the newest store is skipped and the stored 5 is returned *)
Example C03_read_over_write_nonvacuous :
  let chain := [(SelectRowSpec.TConst 7, SelectRowSpec.TConst 9); (SelectRowSpec.TConst 3, SelectRowSpec.TConst 5)] in
  let x := SelectRowSpec.TVar 0 in
  SelectRowModel.select (fun _ => 2) false chain x = SelectRowModel.RSelect chain x /\
  SelectRowModel.ev_res (fun _ => 4) (fun _ => 0) (SelectRowModel.select (fun _ => 2) false chain x) = 0 /\
  SelectRowModel.ev_res (fun _ => 3) (fun _ => 0) (SelectRowModel.select (fun _ => 2) false chain x) = 5 /\
  SelectRowModel.select (fun q => match q with
                                  | SelectRowSpec.QEq _ (SelectRowSpec.TConst 7) => 0
                                  | SelectRowSpec.QNe _ (SelectRowSpec.TConst 3) => 0
                                  | _ => 1 end) false chain x = SelectRowModel.RVal (SelectRowSpec.TConst 5) /\
  SelectRowModel.select (fun _ => 0) false [] x = SelectRowModel.RZero.
Proof. repeat split. Qed.
